"""Restricted Python -> loop-IR translator (DESIGN 2.3(c)) and the exact tie `loopir_tie(ctx, names)`.

The explicit-loop numerical routines of spectrum (LEVINSON, arburg, CORRELATION, HERMTOEP, TOEPLITZ, levup,
levdown, the psi loop of minvar, and Marple's fast recursions arcovar_marple / modcovar_marple) are translated, on every run, from the source text of the SNAPSHOT into terms of the
deep-embedded IR of coq/Model/LoopIR.v.  The IR programs are run by the Coq interpreter `run` at the exact instance
QcC (vm_compute) and compared with ZERO tolerance against the hand-written Gallina models (coq/Model/LoopIRTie.v):
same outcome constructor, every array entry, every scalar.  The Marple routines are in addition compared, exactly, with the
least-squares model of Model/Ls.v (coq/Model/LoopIRMarple.v), and their orders 0 and 1 are theorems (coq/Proofs/LoopIRMarple0.v).

For LEVINSON, CORRELATION, levup, levdown, HERMTOEP, TOEPLITZ, arburg, minvar_psi and aryule the equality `run program args = model` is in addition a
THEOREM for all inputs (coq/Proofs/LoopIR<Name>.v, table THEOREMS below): it is instantiated in the generated file whenever the regenerated program
text equals the reference text kept in the proof file; otherwise the obligations are recorded as broken and the exact evaluation looks for a failing input.

T6: the thin wrappers aryule, ma, ac2poly, ac2rc, poly2ac, poly2rc, ar2rc, rc2poly, rc2ac are translated too.  Their calls of LEVINSON, CORRELATION,
rlevinson, levup, aryule, rc2poly - functions of OTHER modules of the package - are resolved syntactically through the module's imports
(`from .levinson import LEVINSON, rlevinson`, `from spectrum.correlation import CORRELATION`, `import spectrum.yulewalker as yulewalker` +
`yulewalker.aryule(...)`, a `from .levinson import levup` at the head of a function body; anything else is refused), the callee is translated from ITS
module text and embedded (SCall / SCall1); keyword and omitted arguments are positions of the callee's parameter list; the hidden oracle parameters of a
callee become hidden parameters of the caller.  Comparators: coq/Model/LoopIRWrap.v; theorem for aryule: coq/Proofs/LoopIRAryule.v.

T7: the FFT-based kernels arma.arma2psd, minvar.minvar (the WHOLE function), correlog.CORRELOGRAMPSD and periodogram.speriodogram (1-D path) are translated
too.  numpy.fft.fft / rfft (names bound exactly once at module level by `from numpy.fft import ..`) become [EFft] / [ERfft] = the DFT specification of
Theory/Dft.v over a hidden twiddle parameter (the LAST parameter of the program: the value [VTw tw]); numpy.fft.fftshift, the builtin max of an array,
numpy.mean, x.ndim, x.shape[0], type(x) == int, slice stores x[a:b:c] = e are IR primitives; `Window(N, name[, **p]).data`, numpy.pi and the results of
the calls a spec declares oracles (xcorr) are hidden oracle parameters; `from . import tools` inside a block, a call of a package function as a statement,
a package constant as a default (NFFT=default_NFFT), a dict default that only feeds an oracle, exception classes derived from errors.SpectrumError are
accepted (all fail-closed, self-tested).  Comparators: coq/Model/LoopIRVec.v; generators: props/_loopir_vec.py; theorem for arma2psd:
coq/Proofs/LoopIRArma2psd.v.

T10: arma.arma_estimate (comparator coq/Model/LoopIRArma.v) and lpc.lpc (coq/Model/LoopIRLpc.v) are translated too; generators props/_loopir_arma.py.
arma_estimate embeds CORRELATION, arcovar_marple and ma; `res = arcovar(Y.copy(), P)` (scipy lstsq) is an ORACLE call bound to a NAME: the number of
values it returns is read from arcovar's source, `res` is a tuple name bound by calls of DIFFERENT lengths (5 and 2) and may be read only as
res[<literal below the shortest length>].  lpc: numpy.fft.ifft -> [EIfft] (idft of Theory/Dft.v over the same hidden twiddle parameter),
`from numpy import real`, tools.nextpow2 -> the primitive [ENextPow2] (accepted only while the text of nextpow2 is `res = ceil(log2(x)); return
res.astype('int')` over numpy's ceil / log2; its argument is translated in integer arithmetic), 2**nextpow2(..) -> [EPow2], and `x.resize(N+1)` on the
parameter the spec declares the function's own (`own_params`: the effect on the caller's array is not modelled).

The translator is fail-closed: an `ast` node outside the recognised subset aborts the translation of that function
(`Untranslatable`), which the tie reports through ctx.broken as "translation of <fn> failed: <node>".  Nothing is
skipped silently; what is ignored is listed here: docstrings / bare string statements, `logging.<f>(...)` statements
whose arguments are formatting (or slices of names) only, exception objects of a known class that are built but not raised, and, for a function translated by REGION (minvar), the statements named
verbatim in its spec (they must be present, textually unchanged, in the given order).
"""
import ast, copy, hashlib, os, re, sys, time
from concurrent.futures import ThreadPoolExecutor
import numpy as np
import vlib
from vlib import cz, czl, tolq


# ============================================================================================== translator
class Untranslatable(Exception):
    def __init__(self, node, why=''):
        self.node = node; self.why = why
        try:
            txt = ast.unparse(node) if isinstance(node, ast.AST) else str(node)
        except Exception:      # pragma: no cover
            txt = repr(node)
        self.text = ' '.join(txt.split())[:160]
        self.lineno = getattr(node, 'lineno', None)
        Exception.__init__(self, '%s%s [%s] at line %s' % (type(node).__name__, (': ' + why) if why else '', self.text, self.lineno))


# what to translate.  module = file under src/spectrum; region specs translate a slice of the body.
SPECS = {
    'LEVINSON': dict(module='levinson'),
    'levup': dict(module='levinson'),
    'levdown': dict(module='levinson'),
    'HERMTOEP': dict(module='toeplitz'),
    'TOEPLITZ': dict(module='toeplitz'),
    'arburg': dict(module='burg'),
    'rlevinson': dict(module='levinson'),          # calls levdown: the callee is translated too and embedded ([SCall])
    'CORRELATION': dict(module='correlation', oracles=('pylab_rms_flat',)),
    'arcovar_marple': dict(module='covar'),
    'modcovar_marple': dict(module='modcovar'),
    # the psi loop of minvar: the statements below are NOT translated; they must be present verbatim, in this order.
    # Program parameters are the variables the region reads (order, NFFT and the arburg results A, P); it returns psi.
    'minvar_psi': dict(module='minvar', function='minvar', params=('order', 'NFFT', 'A', 'P'), result='psi',
                       skip=('errors.is_positive_integer(order)', 'errors.is_positive_integer(NFFT)',
                             'A, P, k = arburg(X, order - 1)', 'psi = fft(psi, NFFT)', 'PSD = sampling / np.real(psi)',
                             'return (PSD, A, k)')),
    # T6: the thin wrappers; their calls of LEVINSON / CORRELATION / rlevinson / levup / aryule (functions of OTHER modules of the package, resolved
    # through the module's imports) are translated from the callee's module text and embedded ([SCall] / [SCall1])
    'aryule': dict(module='yulewalker'),
    'ma': dict(module='arma'),
    'ac2poly': dict(module='linear_prediction'),
    'ac2rc': dict(module='linear_prediction'),
    'poly2ac': dict(module='linear_prediction'),
    'poly2rc': dict(module='linear_prediction'),
    'ar2rc': dict(module='linear_prediction'),
    'rc2poly': dict(module='linear_prediction'),
    'rc2ac': dict(module='linear_prediction'),
    # T7: the FFT-based kernels.  numpy.fft.fft / rfft are the IR's [EFft] / [ERfft] over a hidden twiddle parameter (the LAST parameter of the
    # program); Window(N, name).data, numpy.pi and (CORRELOGRAMPSD) the results of xcorr are hidden oracle parameters
    'arma2psd': dict(module='arma'),
    'minvar': dict(module='minvar'),                                        # the WHOLE function: checks + embedded arburg + psi loop + fft + division
    'CORRELOGRAMPSD': dict(module='correlog', oracle_calls=('xcorr',)),     # the xcorr branch stays an oracle call
    # the 1-D path: the bodies of the `if x.ndim == 2:` tests are not translated ([SUnsupported]: entering one is the outcome OErr Unsupported)
    'speriodogram': dict(module='periodogram', unsupported_if=('x.ndim == 2',)),
    # T10: arma_estimate with CORRELATION, arcovar_marple (P <= 4) and ma embedded; the scipy-lstsq solver arcovar (P > 4) stays an ORACLE call
    'arma_estimate': dict(module='arma', oracle_calls=('arcovar',)),
    # T10: lpc: fft / ifft over the hidden twiddle parameter, tools.nextpow2 as the primitive [ENextPow2], LEVINSON embedded; `x.resize(N+1)` updates the
    # PARAMETER in place (visible to the caller: not modelled)
    'lpc': dict(module='lpc', own_params=('x',)),
}
# oracle calls of a function when it is translated as a CALLEE (its hidden oracle parameters become hidden parameters of the caller)
CALLEE_ORACLES = {('correlation', 'CORRELATION'): ('pylab_rms_flat',)}
PACKAGE = 'spectrum'

EXC = {'ValueError': 'ValueError', 'AssertionError': 'AssertionError', 'IndexError': 'IndexError',
       'ZeroDivisionError': 'ZeroDivisionError', 'NotImplementedError': 'NotImplementedError', 'TypeError': 'TypeError'}
TW_KEY = 'fft@tw'            # the hidden twiddle parameter of a program that calls numpy.fft.fft / rfft: always its LAST parameter
BINOPS = {ast.Add: 'BAdd', ast.Sub: 'BSub', ast.Mult: 'BMul', ast.Div: 'BDiv', ast.FloorDiv: 'BFloorDiv', ast.Mod: 'BMod'}
CMPOPS = {ast.Eq: 'CEq', ast.NotEq: 'CNe', ast.Lt: 'CLt', ast.LtE: 'CLe', ast.Gt: 'CGt', ast.GtE: 'CGe'}


def zlit(n):
    return '%d' % n if n >= 0 else '(%d)' % n


def dyadic_literal(x, node):
    """(num, e2) with x == num / 2**e2, only for low-bit dyadic floats"""
    if x != x or x in (float('inf'), float('-inf')):
        raise Untranslatable(node, 'non-finite literal')
    n, d = float(x).as_integer_ratio()
    if abs(n) >= 1 << 20 or d > 1 << 20:
        raise Untranslatable(node, 'float literal is not a low-bit dyadic rational')
    return n, d.bit_length() - 1


class Program:
    def __init__(self, name, pyname, params, defaults, slots, body, nodes):
        self.name = name; self.pyname = pyname; self.params = params; self.defaults = defaults
        self.slots = slots; self.body = body; self.nodes = nodes

    def coq(self):
        names = sorted(self.slots.items(), key=lambda kv: kv[1])
        com = ' '.join('%d=%s' % (i, n) for n, i in names)
        defs = '[' + '; '.join('None' if d is None else '(Some %s)' % d for d in self.defaults) + ']'
        return ('(* %s: slots %s *)\nDefinition prog_%s : program := mkProgram "%s" %d %s %d\n(%s).\n'
                % (self.pyname, com, self.name, self.pyname, len(self.params), defs, len(self.slots), self.body))

    def sha(self):
        return hashlib.sha1(self.coq().encode()).hexdigest()[:16]


class Loader:
    """the module texts of the package under translation: the snapshot's files, or (self-test, scratch edits) a dict {module: source}"""
    def __init__(self, sources=None, only=False):
        self.sources = dict(sources or {}); self.only = only; self.trees = {}

    def tree(self, module, where=None):
        if module not in self.trees:
            if module in self.sources:
                src = self.sources[module]
            elif self.only or not re.fullmatch(r'[A-Za-z_][A-Za-z0-9_]*', module):
                raise Untranslatable(where if where is not None else module, 'module %s of the package is not available' % module)
            else:
                try:
                    src, _ = snapshot_source(module)
                except OSError:
                    raise Untranslatable(where if where is not None else module, 'module %s.py not found in the package' % module)
            try:
                self.trees[module] = ast.parse(src)
            except SyntaxError:
                raise Untranslatable(where if where is not None else module, 'module %s.py does not parse' % module)
        return self.trees[module]

    def star_exports(self, module, where, depth=0):
        """the names `from .<module> import *` binds (None = cannot be enumerated)"""
        tree = self.tree(module, where)
        mentions = [n for n in ast.walk(tree) if isinstance(n, ast.Name) and n.id == '__all__']
        if mentions:
            asg = [n for n in tree.body if isinstance(n, ast.Assign) and len(n.targets) == 1 and isinstance(n.targets[0], ast.Name) and n.targets[0].id == '__all__']
            if len(mentions) == 1 and len(asg) == 1 and isinstance(asg[0].value, (ast.List, ast.Tuple)) \
                    and all(isinstance(x, ast.Constant) and isinstance(x.value, str) for x in asg[0].value.elts):
                return {x.value for x in asg[0].value.elts}
            return None
        names = module_bound_names(tree, self, where, depth)
        return None if names is None else {n for n in names if not n.startswith('_')}

    def submodule_attribute_ok(self, module, where):
        """the attribute <package>.<module> is the submodule: nothing that the package's __init__ executes rebinds that name"""
        names = module_bound_names(self.tree('__init__', where), self, where, 0)
        return names is not None and module not in names


def package_module_of(n, alias=None):
    """the submodule M of the package that `from .M import ..` / `from <package>.M import ..` names, else None"""
    if isinstance(n, ast.ImportFrom):
        if n.level == 1 and n.module and '.' not in n.module:
            return n.module
        if n.level == 0 and n.module and n.module.startswith(PACKAGE + '.') and n.module.count('.') == 1:
            return n.module.split('.')[1]
    return None


def module_bound_names(tree, loader, where, depth):
    """every name a module's top level may bind (over-approximation; None = cannot be enumerated)"""
    if depth > 3:
        return None
    names = set()
    for n in ast.walk(tree):
        if isinstance(n, (ast.FunctionDef, ast.AsyncFunctionDef, ast.ClassDef)):
            names.add(n.name)
        elif isinstance(n, ast.Name) and isinstance(n.ctx, (ast.Store, ast.Del)):
            names.add(n.id)
        elif isinstance(n, ast.Global):
            names.update(n.names)
    for n in tree.body:             # imports executed at the top level (those inside function bodies bind locals only)
        for m in ([] if isinstance(n, (ast.FunctionDef, ast.AsyncFunctionDef, ast.ClassDef)) else ast.walk(n)):
            if isinstance(m, ast.Import):
                for a in m.names:
                    names.add(a.asname or a.name.split('.')[0])
            elif isinstance(m, ast.ImportFrom):
                for a in m.names:
                    if a.name != '*':
                        names.add(a.asname or a.name)
                        continue
                    sub = package_module_of(m)
                    if sub is not None:
                        ex = loader.star_exports(sub, where, depth + 1)
                    elif m.level == 0 and m.module and m.module.split('.')[0] != PACKAGE:
                        try:        # a star import of a module outside the package: exactly the names Python binds
                            ext = __import__('importlib').import_module(m.module)
                            ex = set(getattr(ext, '__all__', [k for k in vars(ext) if not k.startswith('_')]))
                        except Exception:
                            ex = None
                    else:
                        ex = None
                    if ex is None:
                        return None
                    names |= ex
    return names


def name_bindings(tree, name):
    """the top-level bindings of `name` in a parsed module: (kind, node, alias), kind in def / import / star / other"""
    out = []
    for n in tree.body:
        if isinstance(n, (ast.FunctionDef, ast.AsyncFunctionDef, ast.ClassDef)):
            if n.name == name:
                out.append(('def' if isinstance(n, ast.FunctionDef) else 'other', n, None))
            for m in ast.walk(n):
                if isinstance(m, ast.Global) and name in m.names:
                    out.append(('other', m, None))
            continue
        for m in ast.walk(n):
            if isinstance(m, (ast.Import, ast.ImportFrom)):
                for a in m.names:
                    if a.name == '*':
                        out.append(('star', m, a))
                    elif (a.asname or a.name.split('.')[0]) == name:
                        out.append(('import', m, a))
            elif isinstance(m, ast.Name) and m.id == name and isinstance(m.ctx, (ast.Store, ast.Del)):
                out.append(('other', m, None))
            elif isinstance(m, (ast.FunctionDef, ast.AsyncFunctionDef, ast.ClassDef)) and m.name == name:
                out.append(('other', m, None))
    return out


def return_arities(fn):
    """the set of the numbers of values of the `return`s of a function (0 = falls off the end / bare return are NOT counted: [None])"""
    out = set()
    for n in ast.walk(fn):
        if isinstance(n, ast.Return):
            out.add(len(n.value.elts) if isinstance(n.value, ast.Tuple) else 1)
    return out


class FnTranslator:
    def __init__(self, modtree, fn, spec, progname, stack=(), modname=None, loader=None):
        self.fn = fn; self.spec = spec; self.progname = progname
        self.modtree = modtree; self.stack = tuple(stack)      # functions being translated around this one (calls are embedded; no recursion)
        self.modname = modname                                 # the module of the package this function lives in (None: a stand-alone text)
        self.loader = loader                                   # gives the other modules of the package (None: calls of other modules are refused)
        self.local_imports = {}                                # name -> (module, function): `from .M import f` at the head of the function body
        self.tuple_vars = {}                                   # name -> slots of the values of the tuple a call returned (T6)
        self.np_names = set(); self.logging_names = set(); self.nodes = 0
        self.fft_names = {}           # T7: local name -> 'fft' | 'rfft' | (T10) 'ifft' (bound exactly once at module level by `from numpy.fft import ..`)
        self.npfun_names = {}         # T10: local name -> 'real' (bound exactly once at module level by `from numpy import real`)
        self.window_names = set()     # T7: names bound exactly once at module level to the package's Window class
        self.local_modules = {}       # T7: name -> module: `from . import M [as m]` as a statement inside the function body
        for n in modtree.body:
            if isinstance(n, ast.Import):
                for a in n.names:
                    if a.name == 'numpy':
                        self.np_names.add(a.asname or 'numpy')
                    if a.name == 'logging':
                        self.logging_names.add(a.asname or 'logging')
            if isinstance(n, ast.ImportFrom) and n.level == 0 and n.module == 'numpy.fft':
                for a in n.names:
                    g = a.asname or a.name
                    if a.name in ('fft', 'rfft', 'ifft') and len(name_bindings(modtree, g)) == 1:
                        self.fft_names[g] = a.name
            if isinstance(n, ast.ImportFrom) and n.level == 0 and n.module == 'numpy':
                for a in n.names:          # T10: `from numpy import real` (lpc.py): a name bound exactly once at module level to numpy.real
                    g = a.asname or a.name
                    if a.name in ('real',) and len(name_bindings(modtree, g)) == 1:
                        self.npfun_names[g] = a.name
            if isinstance(n, ast.ImportFrom) and package_module_of(n) == 'window':
                for a in n.names:
                    g = a.asname or a.name
                    if a.name == 'Window' and len(name_bindings(modtree, g)) == 1:
                        self.window_names.add(g)
        if spec.get('unsupported_if'):
            # the bodies of the `if` statements whose test is named verbatim in the spec are NOT translated: they become [SUnsupported]
            self.fn = fn = copy.deepcopy(fn)
            hit = set()
            for n in ast.walk(fn):
                if isinstance(n, ast.If) and ast.unparse(n.test) in spec['unsupported_if']:
                    mark = ast.Pass(); mark._unsupported = True
                    ast.copy_location(mark, n.body[0])
                    n.body = [mark]; hit.add(ast.unparse(n.test))
            if hit != set(spec['unsupported_if']):
                raise Untranslatable(fn, 'test expected verbatim by the spec (unsupported_if) not found')
        self.oracle_fns = set(spec.get('oracles', ()))
        self.oracle_call_fns = set(spec.get('oracle_calls', ()))      # T7: package functions whose calls stay oracle calls (xcorr): `a, b = f(names..)`
        self.pi_slot = None
        self.crit_class = set()       # names bound to spectrum's Criteria class inside the function
        self.crit_objs = set()        # local names holding a Criteria object
        self.scopes = [{}]            # name -> slot (comprehension variables get scopes of their own)
        self.slots = {}               # display name -> slot
        self.oracle_params = []       # hidden parameters: results of the oracle calls, in order of appearance

    # ---------------------------------------------------------------- names
    def fail(self, node, why=''):
        raise Untranslatable(node, why)

    def new_slot(self, display):
        i = len(self.slots)
        assert display not in self.slots
        self.slots[display] = i
        return i

    def lookup(self, name):
        for sc in reversed(self.scopes):
            if name in sc:
                return sc[name]
        return None

    def slot_of_local(self, name):
        s = self.lookup(name)
        if s is None:
            s = self.new_slot(name); self.scopes[0][name] = s
        return s

    # ---------------------------------------------------------------- set-up
    def translate(self):
        fn = self.fn; spec = self.spec
        a = fn.args
        if fn.decorator_list or a.vararg or a.kwarg or a.kwonlyargs or a.posonlyargs:
            self.fail(fn, 'unsupported signature')
        body = list(fn.body)
        if 'skip' in spec:      # translated by REGION: the statements named verbatim in the spec are not translated (they must be present, in order)
            todo = list(spec['skip']); kept = []
            for s in body:
                if todo and ast.unparse(s) == todo[0]:
                    todo.pop(0); continue
                kept.append(s)
            if todo:
                self.fail(fn, 'statement expected verbatim by the region spec not found: %r' % todo[0])
        else:
            kept = body
        # names assigned anywhere (locals)
        self.assigned = set()
        for n in ast.walk(fn):
            if isinstance(n, ast.Name) and isinstance(n.ctx, (ast.Store, ast.Del)):
                self.assigned.add(n.id)
            if isinstance(n, (ast.Global, ast.Nonlocal, ast.Lambda, ast.FunctionDef, ast.AsyncFunctionDef, ast.ClassDef)) and n is not fn:
                self.fail(n, 'nested scope / global declaration')
        for n in ast.walk(fn):
            if isinstance(n, ast.ImportFrom):
                if n.module == 'spectrum' and [x.name for x in n.names] == ['Criteria'] and n.names[0].asname is None:
                    self.crit_class.add('Criteria')
                elif self.head_import(n):
                    pass
                elif self.block_import(n):
                    pass
                else:
                    self.fail(n, 'import inside the function')
            if isinstance(n, ast.Import):
                self.fail(n, 'import inside the function')
        for n in ast.walk(fn):
            if isinstance(n, ast.Assign) and isinstance(n.value, ast.Call) and isinstance(n.value.func, ast.Name) \
                    and n.value.func.id in self.crit_class and len(n.targets) == 1 and isinstance(n.targets[0], ast.Name):
                self.crit_objs.add(n.targets[0].id)
        self.tw_slot_needed = any(isinstance(n, ast.Call) and isinstance(n.func, ast.Name) and n.func.id in self.fft_names and n.func.id not in self.assigned
                                  for s in kept for n in ast.walk(s))
        self.find_calls(kept)
        self.find_list_vars(fn)
        # names bound to a list display / comprehension somewhere: Python lists; `+`, `*`, `+=` on them concatenate / repeat, the IR's arrays do not
        self.display_vars = {t.id for n in ast.walk(fn) if isinstance(n, ast.Assign) and isinstance(n.value, (ast.List, ast.ListComp))
                             for t in n.targets if isinstance(t, ast.Name)}
        self.find_matrix_vars(fn)
        if 'params' in spec:
            params = list(spec['params']); defaults = [None] * len(params)
        else:
            params = [x.arg for x in a.args]
            nd = len(a.defaults)
            defaults = [None] * (len(params) - nd) + [self.default(d, params[len(params) - nd + i]) for i, d in enumerate(a.defaults)]
        for p in params:
            self.scopes[0][p] = self.new_slot(p)
        self.find_window_oracles(fn)
        # hidden oracle parameters, in order of appearance
        for n in ast.walk(fn):
            if isinstance(n, ast.Call) and isinstance(n.func, ast.Name) and n.func.id in self.oracle_fns:
                if n.func.id in self.assigned or n.keywords or len(n.args) != 1 or not isinstance(n.args[0], ast.Name):
                    self.fail(n, 'oracle call of unexpected shape')
                key = '%s(%s)@%d' % (n.func.id, n.args[0].id, len(self.oracle_params))
                n._oracle_slot = self.new_slot(key)
                self.oracle_params.append(key); defaults.append(None)
            # T7: Window(N, name[, **params]) objects (their .data), the results of the calls the spec declares oracles (xcorr), numpy.pi
            elif isinstance(n, ast.Call) and isinstance(n.func, ast.Name) and n.func.id in self.window_names and n.func.id not in self.assigned:
                key = '%s.data@%d' % (' '.join(ast.unparse(n).split()), len(self.oracle_params))
                n._oracle_slot = self.new_slot(key)
                self.oracle_params.append(key); defaults.append(None)
            elif isinstance(n, ast.Assign) and isinstance(n.value, ast.Call) and isinstance(n.value.func, ast.Name) and n.value.func.id in self.oracle_call_fns:
                n._oracle_slots = []
                for i in range(self.oracle_call_arity(n)):
                    key = '%s[%d]@%d' % (' '.join(ast.unparse(n.value).split()), i, len(self.oracle_params))
                    n._oracle_slots.append(self.new_slot(key)); self.oracle_params.append(key); defaults.append(None)
            elif isinstance(n, ast.Attribute) and n.attr == 'pi' and self.is_np(n, ('pi',)):
                if self.pi_slot is None:
                    self.pi_slot = self.new_slot('numpy.pi@%d' % len(self.oracle_params))
                    self.oracle_params.append('numpy.pi@%d' % len(self.oracle_params)); defaults.append(None)
        # hidden oracle parameters of the embedded callees (CORRELATION's two pylab_rms_flat results inside aryule, ...): in order of the calls
        for c in self.calls:
            c._hidden = []
            for key in c._callee.oracle_params:
                k2 = '%s.%s#%d' % (c._callee.pyname, key, len(self.oracle_params))
                c._hidden.append(self.new_slot(k2)); self.oracle_params.append(k2); defaults.append(None)
        # T7: the hidden twiddle parameter of numpy.fft.fft / rfft: the LAST parameter
        self.tw_slot = None
        if any(isinstance(n, ast.Call) and isinstance(n.func, ast.Name) and n.func.id in self.fft_names and n.func.id not in self.assigned
               for s in kept for n in ast.walk(s)):
            self.tw_slot = self.new_slot(TW_KEY); self.oracle_params.append(TW_KEY); defaults.append(None)
        self.params = params + self.oracle_params
        self.oracle_params_only = list(self.oracle_params)
        # T10: `own_params` of a spec (lpc's x): the function updates this parameter in place (x.resize); the update is visible to the CALLER, which the
        # tie does not model (a top-level program has no caller inside the IR); inside the function the parameter has no other name
        own = set(spec.get('own_params', ()))
        if own - set(params):
            self.fail(fn, 'own_params of the spec are not parameters')
        self.check_aliasing(body, set(params) - own)
        # body
        if 'skip' in spec:
            stm = self.block(kept, top=True)
            res = self.lookup(spec['result'])
            if res is None:
                self.fail(fn, 'result variable %s of the region is never assigned' % spec['result'])
            stm = self.seq([stm, 'SReturn [EVar %d]' % res])
        else:
            stm = self.block(body, top=True)
        prog = Program(self.progname, fn.name, self.params, defaults, dict(self.slots), stm, self.nodes)
        prog.oracle_params = list(self.oracle_params); prog.nexplicit = len(params)
        prog.param_names = list(params)
        # positions of the returned tuple that may hold a 2-D array (a caller may bind them only to names it never reads)
        prog.matrix_rets = {i for n in ast.walk(fn) if isinstance(n, ast.Return) and n.value is not None
                            for i, el in enumerate(n.value.elts if isinstance(n.value, ast.Tuple) else [n.value])
                            if isinstance(el, ast.Name) and el.id in self.matrix_vars}
        prog.arities = return_arities(fn)
        prog.uses_tw = self.tw_slot is not None
        # positions of the returned tuple that are fresh arrays / scalars on every path (the caller's target then shares with nothing)
        rets = [(n.value.elts if isinstance(n.value, ast.Tuple) else [n.value]) for n in ast.walk(fn) if isinstance(n, ast.Return) and n.value is not None]
        prog.fresh_rets = {i for i in range(min([len(r) for r in rets] or [0])) if all(self.is_fresh(r[i]) for r in rets)} if len(prog.arities) == 1 else set()
        return prog

    # ---------------------------------------------------------------- calls of other functions of the package (T5: same module; T6: any module)
    def head_import(self, n):
        """`from .M import f [as g], ..` / `from <package>.M import f` as a statement at the HEAD of the function body (only a docstring or
        other such imports before it): the names are locals bound to functions of module M for the whole body.  Registers them."""
        M = package_module_of(n)
        if M is None or self.loader is None:
            return False
        head = []
        for s in self.fn.body:
            if isinstance(s, ast.Expr) and isinstance(s.value, ast.Constant) and isinstance(s.value.value, str):
                continue
            if isinstance(s, ast.ImportFrom):
                head.append(s); continue
            break
        if not any(s is n for s in head):
            return False
        argnames = {x.arg for x in self.fn.args.args} | set(self.spec.get('params', ()))
        for a in n.names:
            g = a.asname or a.name
            if a.name == '*' or g in self.local_imports or g in argnames or g in EXC or g in self.crit_class:
                return False
            # the imported name must be a function of M (else ImportError at run time) that M never rebinds
            find_function(self.loader.tree(M, n), a.name, n, modname=M + '.py')
            self.local_imports[g] = (M, a.name)
        return True

    def block_import(self, n):
        """T7: `from . import M [as m]` / `from <package> import M [as m]` as a statement of some block INSIDE the function body (arma2psd imports
        `tools` inside an `if`): m is then a local name; accepted when it is bound by nothing else, is no parameter and every read of it lies in the
        statements that FOLLOW the import in the same block (so it is bound wherever it is read).  Registers m -> M."""
        if self.loader is None or not ((n.level == 1 and n.module is None) or (n.level == 0 and n.module == PACKAGE)) or len(n.names) != 1:
            return False
        a = n.names[0]; m = a.asname or a.name
        if a.name == '*' or '.' in a.name:
            return False
        argnames = {x.arg for x in self.fn.args.args} | set(self.spec.get('params', ()))
        if m in argnames or m in self.assigned or m in self.local_imports or m in self.local_modules or m in EXC or m in self.np_names \
                or m in self.fft_names or m in self.window_names:
            return False
        imports = [x for x in ast.walk(self.fn) if isinstance(x, (ast.Import, ast.ImportFrom)) and any((y.asname or y.name.split('.')[0]) == m for y in x.names)]
        if len(imports) != 1:
            return False
        blk = None
        for x in ast.walk(self.fn):
            for fld in ('body', 'orelse'):
                ss = getattr(x, fld, None)
                if isinstance(ss, list) and any(s is n for s in ss):
                    blk = ss
        if blk is None:
            return False
        i = [k for k, s in enumerate(blk) if s is n][0]
        after = {id(y) for s in blk[i + 1:] for y in ast.walk(s)}
        for x in ast.walk(self.fn):
            if isinstance(x, ast.Name) and x.id == m and id(x) not in after:
                return False
        self.loader.tree(a.name, n)           # the module must exist in the package
        self.local_modules[m] = a.name
        return True

    def find_window_oracles(self, fn):
        """T7: `w = Window(N, name[, **params])` immediately followed, in the same block, by `w = <expression over w.data>`: the Window object is an
        ORACLE; its `.data` array is a hidden parameter of the program.  The constructor call may occur only as the whole right-hand side of such
        an assignment, its arguments are integer arithmetic over names / a name or string / `**<parameter>` (nothing that could raise or have an
        effect), and the only reads of the object are the `w.data` of the next statement, which rebinds w."""
        if not self.window_names:
            return
        calls = [n for n in ast.walk(fn) if isinstance(n, ast.Call) and isinstance(n.func, ast.Name) and n.func.id in self.window_names]
        if not calls:
            return
        ok = set()
        for x in ast.walk(fn):
            for fld in ('body', 'orelse'):
                ss = getattr(x, fld, None)
                if not isinstance(ss, list):
                    continue
                for i, s in enumerate(ss):
                    if not (isinstance(s, ast.Assign) and len(s.targets) == 1 and isinstance(s.targets[0], ast.Name) and isinstance(s.value, ast.Call)
                            and isinstance(s.value.func, ast.Name) and s.value.func.id in self.window_names):
                        continue
                    w = s.targets[0].id; c = s.value
                    if s.value.func.id in self.assigned or i + 1 >= len(ss):
                        self.fail(s, 'Window object that is not read by the next statement')
                    nxt = ss[i + 1]
                    if not (isinstance(nxt, ast.Assign) and len(nxt.targets) == 1 and isinstance(nxt.targets[0], ast.Name) and nxt.targets[0].id == w):
                        self.fail(s, 'a Window object must be followed by `%s = <expression over %s.data>`' % (w, w))
                    datas = [y for y in ast.walk(nxt.value) if isinstance(y, ast.Attribute) and y.attr == 'data' and isinstance(y.value, ast.Name) and y.value.id == w]
                    loads = [y for y in ast.walk(nxt.value) if isinstance(y, ast.Name) and y.id == w]
                    if not datas or len(loads) != len(datas):
                        self.fail(nxt, 'a Window object may only be read as %s.data' % w)
                    if len(c.args) != 2 or any(k.arg is not None for k in c.keywords) or len(c.keywords) > 1:
                        self.fail(c, 'Window constructor with unexpected arguments')
                    argnames = {x.arg for x in self.fn.args.args}
                    for k in c.keywords:
                        if not (isinstance(k.value, ast.Name) and k.value.id in argnames and k.value.id not in self.assigned):
                            self.fail(c, '** of something else than an unassigned parameter')
                    for y in ast.walk(c.args[0]):
                        if not isinstance(y, (ast.Name, ast.Constant, ast.BinOp, ast.Add, ast.Sub, ast.Mult, ast.Load)) or (isinstance(y, ast.Constant) and type(y.value) is not int):
                            self.fail(c, 'Window length is not integer arithmetic over names')
                    if not (isinstance(c.args[1], ast.Name) or (isinstance(c.args[1], ast.Constant) and isinstance(c.args[1].value, str))):
                        self.fail(c, 'Window name is not a name / string')
                    for y in datas:
                        y._window_data = True
                    ok.add(id(c))
        for c in calls:
            if id(c) not in ok:
                self.fail(c, 'Window constructor outside the oracle pattern')

    def oracle_call_arity(self, s):
        """T7: `a, b = f(x, y, k=z)` for a function f the spec declares an oracle (xcorr): targets are plain names, arguments are plain names"""
        t = s.targets[0] if len(s.targets) == 1 else None
        c = s.value
        els = t.elts if isinstance(t, (ast.Tuple, ast.List)) else ([t] if isinstance(t, ast.Name) else None)
        if els is None or not all(isinstance(e, ast.Name) for e in els) or c.func.id in self.assigned:
            self.fail(s, 'oracle call of unexpected shape')
        if not all(self.oracle_arg_ok(x) for x in c.args) or not all(k.arg is not None and isinstance(k.value, ast.Name) for k in c.keywords):
            self.fail(s, 'oracle call whose arguments are not plain names')
        b = name_bindings(self.modtree, c.func.id)
        if len(b) != 1 or b[0][0] != 'import' or package_module_of(b[0][1]) is None:
            self.fail(s, 'the oracle %s is not bound exactly once, by an import of a function of the package' % c.func.id)
        if isinstance(t, ast.Name):
            # T10: the number of values is the one the oracle function's source returns (1: one hidden parameter; n >= 2: `t` is a tuple name)
            if getattr(s, '_oracle_arity', None) is None:
                self.fail(s, 'oracle call bound to a name outside the translated statements')
            return s._oracle_arity
        return len(els)

    def oracle_fn_arity(self, s):
        """T10: the number of values the oracle function of `name = f(..)` returns on every path, read from ITS source (the name must be bound exactly
        once at module level by an import of a function of the package)"""
        c = s.value
        b = name_bindings(self.modtree, c.func.id)
        if c.func.id in self.assigned or len(b) != 1 or b[0][0] != 'import' or package_module_of(b[0][1]) is None or self.loader is None:
            self.fail(s, 'the oracle %s is not bound exactly once, by an import of a function of the package' % c.func.id)
        M = package_module_of(b[0][1])
        fndef = find_function(self.loader.tree(M, s), b[0][2].name, s, modname=M + '.py')
        ar = return_arities(fndef)
        if len(ar) != 1:
            self.fail(s, 'the oracle %s does not return the same number of values on every path' % c.func.id)
        return min(ar)

    def oracle_arg_ok(self, x):
        """an argument of an oracle call: a plain name, or (T10) `<name>.copy()` of a name (evaluated for its exceptions, see stmt)"""
        return isinstance(x, ast.Name) or (isinstance(x, ast.Call) and isinstance(x.func, ast.Attribute) and x.func.attr == 'copy' and not x.args
                                           and not x.keywords and isinstance(x.func.value, ast.Name))

    def resolve_callee(self, f, where):
        """(module, its tree, FunctionDef) if the call target `f` / `m.f` names a function of the package, resolved syntactically through the
        imports; None if it is not a package function at all (builtin, numpy, method ...: the expression translator decides)"""
        argnames = {x.arg for x in self.fn.args.args} | set(self.spec.get('params', ()))
        if isinstance(f, ast.Name):
            name = f.id
            if name in self.local_imports:
                if name in self.assigned:
                    self.fail(where, 'a name imported inside the function is also assigned')
                M, orig = self.local_imports[name]
                tree = self.loader.tree(M, where)
                return M, tree, find_function(tree, orig, where, modname=M + '.py')
            if name in self.assigned or name in argnames or name in self.oracle_fns or name in self.crit_class or name in self.crit_objs or name in EXC:
                return None
            if name in self.oracle_call_fns or name in self.fft_names or name in self.window_names:
                return None
            if any(isinstance(n, ast.FunctionDef) and n.name == name for n in self.modtree.body):
                return self.modname, self.modtree, find_function(self.modtree, name, where)
            b = name_bindings(self.modtree, name)
            if not [x for x in b if x[0] != 'star']:
                return None
            if len(b) != 1 or b[0][0] != 'import' or self.loader is None:
                self.fail(where, 'the callee %s is not bound exactly once, by an import of a function of the package' % name)
            M = package_module_of(b[0][1])
            if M is None:
                return None          # imported from elsewhere (scipy, numpy.fft ...): not a package function
            tree = self.loader.tree(M, where)
            return M, tree, find_function(tree, b[0][2].name, where, modname=M + '.py')
        if isinstance(f, ast.Attribute) and isinstance(f.value, ast.Name):
            m = f.value.id
            if m in self.local_modules:
                if m in self.assigned or m in argnames:
                    self.fail(where, 'a module name imported inside the function is also assigned')
                M = self.local_modules[m]
                if not self.loader.submodule_attribute_ok(M, where):
                    self.fail(where, 'the attribute %s.%s of the package may be rebound by its __init__' % (PACKAGE, M))
                tree = self.loader.tree(M, where)
                return M, tree, find_function(tree, f.attr, where, modname=M + '.py')
            if m in self.assigned or m in argnames or m in self.np_names or m in self.logging_names or m in self.local_imports:
                return None
            b = name_bindings(self.modtree, m)
            imp = [x for x in b if x[0] == 'import']
            M = None
            for kind, node, a in imp:
                if isinstance(node, ast.Import) and a.name.startswith(PACKAGE + '.') and a.name.count('.') == 1 and a.asname == m:
                    M = a.name.split('.')[1]                      # import <package>.M as m
                elif isinstance(node, ast.ImportFrom) and ((node.level == 0 and node.module == PACKAGE) or (node.level == 1 and node.module is None)):
                    M = a.name                                    # from <package> import M [as m]  /  from . import M [as m]
            if M is None:
                return None
            if len(b) != 1 or self.loader is None:
                self.fail(where, 'the module name %s is not bound exactly once' % m)
            if not self.loader.submodule_attribute_ok(M, where):
                self.fail(where, 'the attribute %s.%s of the package may be rebound by its __init__' % (PACKAGE, M))
            tree = self.loader.tree(M, where)
            return M, tree, find_function(tree, f.attr, where, modname=M + '.py')
        return None

    def find_calls(self, stmts):
        """the calls of package functions, in source order: each callee is translated by this translator (its own slots, its own aliasing
        pass) BEFORE the body, because its hidden oracle parameters become hidden parameters of this program.  A call may only be the whole
        right-hand side of an assignment statement."""
        self.calls = []
        fn = self.fn
        allnodes = [n for s in stmts for n in ast.walk(s)]
        for n in allnodes:
            for at in ('_callee', '_hidden', '_tuple_index'):
                if hasattr(n, at):
                    delattr(n, at)
        cand = sorted((n for n in allnodes if isinstance(n, ast.Call)), key=lambda n: (n.lineno, n.col_offset))
        rhs = {id(n.value) for n in allnodes if isinstance(n, ast.Assign) and len(n.targets) == 1}
        rhs |= {id(n.value) for s in stmts for n in ast.walk(s) if isinstance(n, ast.Expr)}      # T7: `f(..)` as a statement (errors.is_positive_integer(order))
        for c in cand:
            if hasattr(c, '_primitive'):
                delattr(c, '_primitive')
            prim = self.primitive_callee(c)
            if prim is not None:
                c._primitive = prim           # T10: tools.nextpow2 -> [ENextPow2]: not embedded, translated where it occurs
                continue
            r = self.resolve_callee(c.func, c)
            if r is None:
                continue
            if id(c) not in rhs:
                self.fail(c, 'a call of a function of the package is not the whole right-hand side of an assignment')
            M, tree, fndef = r
            if fndef.name == self.fn.name or fndef.name in self.stack:
                self.fail(c, 'recursive call')
            spec = {}
            if (M, fndef.name) in CALLEE_ORACLES:
                spec = {'oracles': CALLEE_ORACLES[(M, fndef.name)]}
            sub = FnTranslator(tree, fndef, spec, fndef.name, stack=self.stack + (self.fn.name,), modname=M, loader=self.loader)
            c._callee = sub.translate()
            if c._callee.uses_tw:
                self.fail(c, 'the callee calls numpy.fft: its twiddle parameter is not passed down')
            self.calls.append(c)
        # names bound to the TUPLE a call returns (`results = rlevinson(poly, efinal)` ... `results[0]`): locals bound only by such calls (all of
        # the same arity n >= 2) and read only as `name[<int literal in -n..n-1>]`; the n values live in n slots
        for n in allnodes:
            if isinstance(n, ast.Assign) and len(n.targets) == 1 and isinstance(n.targets[0], ast.Name) and hasattr(n.value, '_callee'):
                ar = n.value._callee.arities
                if len(ar) == 1 and min(ar) >= 2:
                    self.tuple_vars.setdefault(n.targets[0].id, set()).add(min(ar))
                elif ar != {1}:
                    self.fail(n, 'the callee does not return the same number of values on every path')
        # T10: `res = arcovar(Y.copy(), P)` for a function the spec declares an ORACLE call: the number of values it returns is read from its
        # source (resolved through the imports); n >= 2 makes `res` a tuple name as well (arma_estimate binds `res` to the 5 results of
        # arcovar_marple in one branch and to the 2 results of arcovar in the other, and reads res[0])
        self.tuple_arities = {}
        for n in allnodes:
            if isinstance(n, ast.Assign) and len(n.targets) == 1 and isinstance(n.targets[0], ast.Name) and isinstance(n.value, ast.Call) \
                    and isinstance(n.value.func, ast.Name) and n.value.func.id in self.oracle_call_fns:
                ar = self.oracle_fn_arity(n)
                n._oracle_arity = ar
                if ar >= 2:
                    self.tuple_vars.setdefault(n.targets[0].id, set()).add(ar)
        if not self.tuple_vars:
            return
        argnames = {x.arg for x in fn.args.args} | set(self.spec.get('params', ()))
        ok_nodes = set()
        for n in allnodes:
            if isinstance(n, ast.Assign) and len(n.targets) == 1 and isinstance(n.targets[0], ast.Name) \
                    and (hasattr(n.value, '_callee') or getattr(n, '_oracle_arity', 0) >= 2) and n.targets[0].id in self.tuple_vars:
                ok_nodes.add(id(n.targets[0]))
            if isinstance(n, ast.Subscript) and isinstance(n.value, ast.Name) and n.value.id in self.tuple_vars and isinstance(n.ctx, ast.Load):
                i = n.slice
                if isinstance(i, ast.UnaryOp) and isinstance(i.op, ast.USub) and isinstance(i.operand, ast.Constant) and type(i.operand.value) is int:
                    v = -i.operand.value
                elif isinstance(i, ast.Constant) and type(i.value) is int:
                    v = i.value
                else:
                    continue
                ar = self.tuple_vars[n.value.id]
                if len(ar) == 1 and -min(ar) <= v < min(ar):
                    n._tuple_index = v % min(ar); ok_nodes.add(id(n.value))
                elif len(ar) > 1 and 0 <= v < min(ar):
                    # T10: tuples of DIFFERENT lengths (one per branch): only a non-negative index below the shortest length denotes the same
                    # component, and exists, whichever call bound the name
                    n._tuple_index = v; ok_nodes.add(id(n.value))
        for n in allnodes:
            if isinstance(n, ast.Name) and n.id in self.tuple_vars:
                if n.id in argnames:
                    self.fail(n, 'a name bound to the tuple a call returns is a parameter')
                if id(n) not in ok_nodes:
                    self.fail(n, 'a name bound to the tuple a call returns may only be bound by such calls and read as name[<int literal>] (%s)' % n.id)
        for nm in sorted(self.tuple_vars):
            self.tuple_arities[nm] = set(self.tuple_vars[nm])
            self.tuple_vars[nm] = max(self.tuple_vars[nm])         # the number of slots

    def find_list_vars(self, fn):
        """Python lists that are appended to (`pbv = []` ... `pbv.append(pb)` ... `return ..., pbv`).  A name on which
        `.append` is called must be a local that is bound ONLY by plain assignments of list displays and read ONLY as the
        receiver of `.append(<one value>)` statements and as a direct element of a `return`: then list and 1-D array cannot be
        told apart by the program (no `+`, `*`, indexing, len, aliasing ...) and the IR keeps it as an array of scalars."""
        self.list_vars = set()
        for n in ast.walk(fn):
            if isinstance(n, ast.Call) and isinstance(n.func, ast.Attribute) and n.func.attr == 'append':
                if not isinstance(n.func.value, ast.Name):
                    self.fail(n, 'append on an expression')
                self.list_vars.add(n.func.value.id)
        if not self.list_vars:
            return
        argnames = {x.arg for x in fn.args.args}
        ok_nodes = set()
        for n in ast.walk(fn):
            if isinstance(n, ast.Expr) and isinstance(n.value, ast.Call) and isinstance(n.value.func, ast.Attribute) \
                    and n.value.func.attr == 'append' and isinstance(n.value.func.value, ast.Name):
                ok_nodes.add(id(n.value.func.value))
            if isinstance(n, ast.Return) and n.value is not None:
                for el in (n.value.elts if isinstance(n.value, ast.Tuple) else [n.value]):
                    if isinstance(el, ast.Name):
                        ok_nodes.add(id(el))
            if isinstance(n, ast.Assign) and len(n.targets) == 1 and isinstance(n.targets[0], ast.Name) and isinstance(n.value, ast.List):
                ok_nodes.add(id(n.targets[0]))
        for n in ast.walk(fn):
            if isinstance(n, ast.Name) and n.id in self.list_vars:
                if n.id in argnames or n.id in self.spec.get('params', ()):
                    self.fail(n, 'append to a parameter')
                if id(n) not in ok_nodes:
                    self.fail(n, 'a list that is appended to may only be bound to list displays, appended to and returned (%s)' % n.id)

    def zeros2_args(self, e):
        """(n, m, real) if e is numpy.zeros((n, m)) / numpy.zeros((n, m), dtype=float|complex), else None"""
        if not (isinstance(e, ast.Call) and self.is_np(e.func, ('zeros',)) and len(e.args) == 1 and isinstance(e.args[0], ast.Tuple)
                and len(e.args[0].elts) == 2 and not any(isinstance(x, ast.Starred) for x in e.args[0].elts)):
            return None
        kws = {k.arg: k.value for k in e.keywords}
        if set(kws) - {'dtype'}:
            return None
        real = True
        if 'dtype' in kws:
            d = kws['dtype']
            if not (isinstance(d, ast.Name) and d.id in ('float', 'complex') and d.id not in self.assigned):
                self.fail(e, 'dtype is not the literal float / complex')
            real = (d.id == 'float')
        return e.args[0].elts[0], e.args[0].elts[1], real

    def find_matrix_vars(self, fn):
        """Matrices (2-D arrays).  A name bound to numpy.zeros((n, m)[, dtype=..]) somewhere is a MATRIX name: it must be a local that is
        bound ONLY by such calls, and may be read only as `U[i, j]`, `U[i, lo:hi:step]`, `U[lo:hi:step, j]`, written only as `U[i, j] = x`,
        `U[:, j] = v`, and returned.  Hence no other variable of the function ever holds a matrix, and the 1-D operations of the IR
        (len, arithmetic, .transpose() = identity, conj, plain indexing ...) never meet one."""
        self.matrix_vars = set()
        for n in ast.walk(fn):
            if isinstance(n, ast.Assign) and self.zeros2_args(n.value) is not None:
                if len(n.targets) != 1 or not isinstance(n.targets[0], ast.Name):
                    self.fail(n, '2-D array bound to something else than a plain name')
                self.matrix_vars.add(n.targets[0].id)
        if not self.matrix_vars:
            return
        argnames = {x.arg for x in fn.args.args} | set(self.spec.get('params', ()))
        ok_nodes = set()
        for n in ast.walk(fn):
            if isinstance(n, ast.Assign) and len(n.targets) == 1 and isinstance(n.targets[0], ast.Name) and self.zeros2_args(n.value) is not None:
                ok_nodes.add(id(n.targets[0]))
            if isinstance(n, ast.Subscript) and isinstance(n.value, ast.Name) and isinstance(n.slice, ast.Tuple) and len(n.slice.elts) == 2:
                ok_nodes.add(id(n.value))                      # the shape of the index is checked where it is translated
            if isinstance(n, ast.Return) and n.value is not None:
                for el in (n.value.elts if isinstance(n.value, ast.Tuple) else [n.value]):
                    if isinstance(el, ast.Name):
                        ok_nodes.add(id(el))
        for n in ast.walk(fn):
            if isinstance(n, ast.Name) and n.id in self.matrix_vars:
                if n.id in argnames:
                    self.fail(n, 'a parameter is rebound to a 2-D array')
                if id(n) not in ok_nodes:
                    self.fail(n, 'a 2-D array may only be bound to numpy.zeros((n, m)), indexed as U[i, j] / U[i, a:b:c] / U[a:b:c, j], '
                                 'stored into as U[i, j] = x / U[:, j] = v, and returned (%s)' % n.id)
        if self.matrix_vars & (self.list_vars | self.crit_objs):
            self.fail(fn, 'a 2-D array name is also used as a list / Criteria object')

    def default(self, d, pname=None):
        if isinstance(d, ast.Constant) and (d.value is None or isinstance(d.value, (bool, int, float, str))):
            return self.const(d)
        if isinstance(d, ast.UnaryOp) and isinstance(d.op, ast.USub) and isinstance(d.operand, ast.Constant) and type(d.operand.value) in (int, float):
            return self.expr(d)                 # T7: a negative number (CORRELOGRAMPSD's lag=-1)
        if isinstance(d, ast.Dict) and not d.keys and pname is not None:
            # T7: `window_params={}`: accepted for a parameter that occurs ONLY as `**window_params` in a Window constructor (an oracle): the IR
            # never reads it; the default is the placeholder None
            uses = [n for n in ast.walk(self.fn) if isinstance(n, ast.Name) and n.id == pname]
            kw = {id(k.value) for n in ast.walk(self.fn) if isinstance(n, ast.Call) and isinstance(n.func, ast.Name) and n.func.id in self.window_names
                  for k in n.keywords if k.arg is None}
            if uses and all(id(u) in kw for u in uses) and pname not in self.assigned:
                return 'ENone'
            self.fail(d, 'a dict default of a parameter that is read')
        if isinstance(d, ast.Name) and self.loader is not None:
            v = self.package_constant(d)
            if v is not None:
                return v
        self.fail(d, 'default value is not a literal')

    def package_constant(self, d):
        """T7: a default that is a NAME bound exactly once at module level by `from <package> import NAME` (minvar's NFFT=default_NFFT), NAME being
        assigned exactly once, at the top level of the package's __init__, to an int literal, and exported by no `from .X import *` of __init__"""
        name = d.id
        b = name_bindings(self.modtree, name)
        if len(b) != 1 or b[0][0] != 'import' or not isinstance(b[0][1], ast.ImportFrom) or b[0][2].asname not in (None, name):
            return None
        imp = b[0][1]
        if not ((imp.level == 0 and imp.module == PACKAGE) or (imp.level == 1 and imp.module is None)):
            return None
        if any(isinstance(n, ast.Name) and n.id == name and isinstance(n.ctx, (ast.Store, ast.Del)) for n in ast.walk(self.modtree)):
            return None
        init = self.loader.tree('__init__', d)
        stores = [n for n in ast.walk(init) if isinstance(n, ast.Name) and n.id == b[0][2].name and isinstance(n.ctx, (ast.Store, ast.Del))]
        asg = [n for n in init.body if isinstance(n, ast.Assign) and len(n.targets) == 1 and isinstance(n.targets[0], ast.Name) and n.targets[0].id == b[0][2].name]
        if len(stores) != 1 or len(asg) != 1 or not (isinstance(asg[0].value, ast.Constant) and type(asg[0].value.value) is int):
            self.fail(d, 'the package constant %s is not assigned exactly once, to an int literal, at the top level of __init__' % name)
        for n in ast.walk(init):
            if isinstance(n, (ast.FunctionDef, ast.AsyncFunctionDef, ast.ClassDef)) and n.name == b[0][2].name:
                self.fail(d, 'the package constant %s is also a def / class' % name)
            if isinstance(n, ast.Global) and b[0][2].name in n.names:
                self.fail(d, 'the package constant %s is declared global somewhere' % name)
            if isinstance(n, (ast.Import, ast.ImportFrom)):
                for a in n.names:
                    if a.name == '*':
                        sub = package_module_of(n)
                        ex = self.loader.star_exports(sub, d, 1) if sub is not None else None
                        if ex is None or b[0][2].name in ex:
                            self.fail(d, 'the package constant %s may be rebound by a star import of __init__' % name)
                    elif (a.asname or a.name.split('.')[0]) == b[0][2].name:
                        self.fail(d, 'the package constant %s is rebound by an import of __init__' % name)
        return self.const(asg[0].value)

    # ---------------------------------------------------------------- aliasing (arrays have value semantics in the IR)
    FRESH_CALLS = {'zeros', 'array', 'insert', 'concatenate', 'copy', 'astype', 'float', 'len', 'abs', 'max', 'min', 'sum',
                   'dot', 'conjugate', 'conj', 'isrealobj',
                   'fft', 'rfft', 'fftshift', 'mean', 'ifft'}

    def is_fresh(self, e):
        if isinstance(e, (ast.Constant, ast.BinOp, ast.UnaryOp, ast.Compare, ast.BoolOp, ast.ListComp, ast.List, ast.Tuple)):
            return True
        if isinstance(e, ast.Subscript):
            if isinstance(e.slice, ast.Tuple):
                return not any(isinstance(x, ast.Slice) for x in e.slice.elts)      # U[i, a:b] is a view, U[i, j] a scalar
            if isinstance(e.value, ast.Name) and e.value.id in getattr(self, 'tuple_vars', {}):
                return False           # T10: res[0] of a tuple name is the ARRAY the callee returned (it may be a view of the callee's argument)
            return not isinstance(e.slice, ast.Slice)
        if isinstance(e, ast.Call):
            f = e.func
            nm = f.id if isinstance(f, ast.Name) else (f.attr if isinstance(f, ast.Attribute) else None)
            if nm in self.FRESH_CALLS or nm in self.oracle_fns or nm in self.crit_class or nm in self.crit_objs:
                return True
        return False

    def is_real_view_of(self, e, name):
        if isinstance(e, ast.Call) and self.is_np(e.func, ('real',)) and len(e.args) == 1 and not e.keywords:
            e = e.args[0]
        elif isinstance(e, ast.Attribute) and e.attr == 'real':
            e = e.value
        else:
            return False
        return isinstance(e, ast.Name) and e.id == name

    def check_aliasing(self, body, shared0):
        def names(e):
            return {n.id for n in ast.walk(e) if isinstance(n, ast.Name)}

        def mutate(node, name, shared):
            if name in shared:
                self.fail(node, 'in-place update of an array that may be shared with another name or with the caller (%s)' % name)

        def stmts(ss, shared):
            for s in ss:
                shared = stmt(s, shared)
            return shared

        def stmt(s, shared):
            shared = set(shared)
            for n in ast.walk(s) if not isinstance(s, (ast.If, ast.For)) else []:
                if isinstance(n, ast.Call) and isinstance(n.func, ast.Attribute) and n.func.attr in ('resize', 'sort', 'fill', 'put', 'itemset', 'append', 'extend', 'insert', 'pop', 'remove', 'reverse', 'clear'):
                    if isinstance(n.func.value, ast.Name):
                        mutate(n, n.func.value.id, shared)
                    else:
                        self.fail(n, 'in-place method on an expression')
            if isinstance(s, ast.Assign):
                for t in s.targets:
                    if isinstance(t, ast.Name):
                        if self.is_fresh(s.value):
                            shared.discard(t.id)
                        elif hasattr(s.value, '_callee') and s.value._callee.arities == {1} and 0 in s.value._callee.fresh_rets:
                            shared.discard(t.id)           # T7: the callee returns a fresh array on every path (tools.twosided_2_centerdc: fftshift)
                        elif self.is_real_view_of(s.value, t.id) and t.id not in shared:
                            pass                           # T7: `x = numpy.real(x)` for an unshared x: the view is the only way left to reach the array
                        elif isinstance(s.value, ast.Call) and (hasattr(s.value, '_callee') or hasattr(s, '_oracle_slots')):
                            # T10: the results of a call may be (views of) its array arguments: they share with the arguments that are not fresh
                            # (`res = arcovar_marple(Y.copy(), P)` leaves Y unshared), exactly as for a tuple target below
                            shared.add(t.id)
                            for a in list(s.value.args) + [k.value for k in s.value.keywords]:
                                if not self.is_fresh(a):
                                    shared |= names(a)
                        else:
                            shared |= names(s.value) | {t.id}
                    elif isinstance(t, ast.Subscript) and isinstance(t.value, ast.Name):
                        mutate(s, t.value.id, shared)
                    elif isinstance(t, (ast.Tuple, ast.List)):
                        for el in t.elts:
                            if isinstance(el, ast.Name):
                                shared.add(el.id)
                            elif isinstance(el, ast.Subscript) and isinstance(el.value, ast.Name):
                                mutate(s, el.value.id, shared)
                        if isinstance(s.value, ast.Call):      # the callee may return (views of) its array arguments
                            for a in list(s.value.args) + [k.value for k in s.value.keywords]:
                                if not self.is_fresh(a):
                                    shared |= names(a)
                    # anything else is rejected by the statement translator
            elif isinstance(s, ast.AugAssign):
                t = s.target
                if isinstance(t, ast.Name):
                    mutate(s, t.id, shared)           # numpy's += on an array is in place
                elif isinstance(t, ast.Subscript) and isinstance(t.value, ast.Name):
                    mutate(s, t.value.id, shared)
            elif isinstance(s, ast.If):
                shared = stmts(s.body, shared) | stmts(s.orelse, shared)
            elif isinstance(s, ast.For):
                cur = shared
                for _ in range(len(self.assigned) + 3):
                    nxt = cur | stmts(s.body, cur)
                    if nxt == cur:
                        break
                    cur = nxt
                shared = cur
            return shared
        stmts(body, shared0)

    # ---------------------------------------------------------------- statements
    def seq(self, parts):
        parts = [p for p in parts if p != 'SSkip']
        if not parts:
            return 'SSkip'
        out = parts[-1]
        for p in reversed(parts[:-1]):
            out = 'SSeq (%s)\n(%s)' % (p, out)
        return out

    def block(self, ss, top=False):
        out = []
        for i, s in enumerate(ss):
            out.append(self.stmt(s))
        return self.seq(out)

    def pure_format_args(self, call):
        """arguments of logging / exception constructors: formatting of names only"""
        for a in list(call.args) + [k.value for k in call.keywords]:
            for n in ast.walk(a):
                if isinstance(n, ast.Call):
                    if not (isinstance(n.func, ast.Attribute) and n.func.attr == 'format' and isinstance(n.func.value, ast.Constant)):
                        self.fail(n, 'call inside a message')
                elif isinstance(n, ast.Subscript):
                    if not (isinstance(n.slice, ast.Slice) and isinstance(n.value, ast.Name)):      # a[lo:hi] never raises on a sequence; a[i] may
                        self.fail(n, 'index inside a message')
                elif not isinstance(n, (ast.Constant, ast.Name, ast.Attribute, ast.BinOp, ast.Mod, ast.Add, ast.Tuple, ast.Load, ast.JoinedStr,
                                        ast.FormattedValue, ast.keyword, ast.Slice)):
                    self.fail(n, 'unexpected node inside a message')

    def stmt(self, s):
        self.nodes += 1
        if isinstance(s, ast.Expr):
            v = s.value
            if isinstance(v, ast.Constant) and isinstance(v.value, str):
                return 'SSkip'                                      # docstring / commented-out block
            if isinstance(v, ast.Call):
                f = v.func
                if isinstance(f, ast.Attribute) and isinstance(f.value, ast.Name) and f.value.id in self.logging_names \
                        and f.value.id not in self.assigned:
                    self.pure_format_args(v)
                    return 'SSkip'
                if isinstance(f, ast.Attribute) and f.attr == 'resize' and isinstance(f.value, ast.Name):
                    kws = {k.arg: k.value for k in v.keywords}
                    if len(v.args) != 1 or set(kws) - {'refcheck'} or isinstance(v.args[0], ast.Tuple):
                        self.fail(s, 'resize with unexpected arguments')
                    x = self.lookup(f.value.id)
                    if x is None:
                        self.fail(s, 'resize of a non-local')
                    return 'SResize %d %s' % (x, self.expr(v.args[0]))
                if isinstance(f, ast.Name) and f.id in self.crit_objs:
                    return self.crit_call(None, v)
                if isinstance(f, ast.Attribute) and f.attr == 'append' and isinstance(f.value, ast.Name) and f.value.id in self.list_vars:
                    if len(v.args) != 1 or v.keywords or isinstance(v.args[0], ast.Starred):
                        self.fail(s, 'append with unexpected arguments')
                    x = self.lookup(f.value.id)
                    if x is None:
                        x = self.slot_of_local(f.value.id)      # appended to before any binding: UnboundLocal if executed
                    return 'SAppend %d %s' % (x, self.expr(v.args[0]))
                if hasattr(v, '_callee'):
                    # T7: `f(..)` as a statement for a function f of the package (errors.is_positive_integer(order)): the value is discarded
                    prog, parts = self.call_head(s, v)
                    if not prog.arities <= {1} or prog.matrix_rets:
                        self.fail(s, 'a call statement of a callee that returns a tuple')
                    return 'SCall1 %d %d %s %d\n(%s)\n[%s]' % ((self.new_slot('%s@discard#%d' % (prog.pyname, len(self.slots))),) + parts)
                if isinstance(f, ast.Name) and f.id in EXC and f.id not in self.assigned:
                    # `ValueError("...")` as a statement: the exception object is built and DISCARDED (arcovar_marple never raises it)
                    self.pure_format_args(v)
                    return 'SSkip'
            self.fail(s, 'expression statement')
        if isinstance(s, ast.Pass):
            return 'SUnsupported' if getattr(s, '_unsupported', False) else 'SSkip'
        if isinstance(s, ast.ImportFrom):
            return 'SSkip'                                          # only `from spectrum import Criteria` reaches here
        if isinstance(s, ast.Assign):
            if len(s.targets) != 1:
                self.fail(s, 'chained assignment')
            t = s.targets[0]
            if hasattr(s, '_oracle_slots'):
                # T7: `a, b = xcorr(..)`: the results are hidden parameters
                els = t.elts if isinstance(t, (ast.Tuple, ast.List)) else [t]
                # T10: arguments that are not plain names (`Y.copy()`) are evaluated, left to right, for their exceptions; the values are discarded
                pre = ['SAssign %d %s' % (self.new_slot('%s@arg#%d' % (s.value.func.id, len(self.slots))), self.expr(a))
                       for a in s.value.args if not isinstance(a, ast.Name)]
                if isinstance(t, ast.Name) and t.id in self.tuple_vars:
                    # T10: `res = arcovar(..)`, arcovar returning n >= 2 values: the n hidden parameters go to the first n slots of the tuple name
                    if t.id in self.matrix_vars or t.id in self.crit_objs or t.id in self.list_vars or getattr(s, '_oracle_arity', 0) != len(s._oracle_slots) \
                            or len(s._oracle_slots) not in self.tuple_arities[t.id]:
                        self.fail(s, 'oracle result bound to a 2-D array / Criteria / list name')
                    return self.seq(pre + ['SAssign %d (EVar %d)' % (x, h) for x, h in zip(self.tuple_slots(t.id), s._oracle_slots)])
                for el in els:
                    if el.id in self.matrix_vars or el.id in self.crit_objs or el.id in self.list_vars or el.id in self.tuple_vars:
                        self.fail(s, 'oracle result bound to a 2-D array / Criteria / list / tuple name')
                return self.seq(pre + ['SAssign %d (EVar %d)' % (self.slot_of_local(el.id), h) for el, h in zip(els, s._oracle_slots)])
            if isinstance(t, ast.Name) and isinstance(s.value, ast.Call) and hasattr(s.value, '_oracle_slot') and isinstance(s.value.func, ast.Name) \
                    and s.value.func.id in self.window_names:
                if t.id in self.matrix_vars or t.id in self.crit_objs or t.id in self.list_vars or t.id in self.tuple_vars:
                    self.fail(s, 'Window object bound to a 2-D array / Criteria / list / tuple name')
                return 'SAssign %d (EVar %d)' % (self.slot_of_local(t.id), s.value._oracle_slot)      # the oracle: Window(..).data
            if isinstance(t, ast.Name) and t.id in self.matrix_vars:
                z = self.zeros2_args(s.value)
                if z is None:
                    self.fail(s, '2-D array name rebound')
                return 'SAssign %d (EZeros2 %s %s %s)' % (self.slot_of_local(t.id), self.expr(z[0]), self.expr(z[1]), 'true' if z[2] else 'false')
            if isinstance(t, ast.Subscript) and isinstance(t.value, ast.Name) and isinstance(t.slice, ast.Tuple):
                return self.matrix_store(s, t)
            if isinstance(t, (ast.Tuple, ast.List)):
                return self.call_assign(s, t)
            if isinstance(t, ast.Name) and hasattr(s.value, '_callee'):
                return self.call_assign_name(s, t)
            if isinstance(t, ast.Name):
                if t.id in self.crit_objs:
                    if not (isinstance(s.value, ast.Call) and isinstance(s.value.func, ast.Name) and s.value.func.id in self.crit_class):
                        self.fail(s, 'Criteria object rebound')
                    kws = {k.arg for k in s.value.keywords}
                    if s.value.args or kws != {'name', 'N'}:
                        self.fail(s, 'Criteria constructor with unexpected arguments')
                    return 'SAssign %d ENewCrit' % self.slot_of_local(t.id)
                if isinstance(s.value, ast.Call) and isinstance(s.value.func, ast.Name) and s.value.func.id in self.crit_objs:
                    return self.crit_call(self.slot_of_local(t.id), s.value)
                if isinstance(s.value, ast.BoolOp) and not self.boolish(s.value):
                    self.fail(s, 'and/or of non-boolean operands used as a value')
                e = self.expr(s.value)
                return 'SAssign %d %s' % (self.slot_of_local(t.id), e)
            if isinstance(t, ast.Subscript) and isinstance(t.value, ast.Name) and not isinstance(t.slice, (ast.Slice, ast.Tuple)):
                x = self.lookup(t.value.id)
                if x is None:
                    self.fail(s, 'store into a non-local')
                return 'SStore %d %s %s' % (x, self.expr(t.slice), self.expr(s.value))
            if isinstance(t, ast.Subscript) and isinstance(t.value, ast.Name) and isinstance(t.slice, ast.Slice) and self.tw_slot is not None:
                # T7: x[lo:hi:step] = e (CORRELOGRAMPSD); accepted only in the functions that call numpy.fft (nothing else needs it)
                x = self.lookup(t.value.id)
                if x is None or t.value.id in self.matrix_vars or t.value.id in self.list_vars or t.value.id in self.tuple_vars or t.value.id in self.crit_objs:
                    self.fail(s, 'slice store into a non-local / a name that is not a 1-D array')
                if self.is_pylist(s.value):
                    self.fail(s, 'slice store of a Python list')

                def o(v):
                    return 'None' if v is None else '(Some %s)' % self.expr(v)
                return 'SStoreSlice %d %s %s %s %s' % (x, o(t.slice.lower), o(t.slice.upper), o(t.slice.step), self.expr(s.value))
            self.fail(s, 'assignment target')
        if isinstance(s, ast.AugAssign):
            if type(s.op) not in BINOPS:
                self.fail(s, 'augmented operator')
            if self.is_pylist(s.target) or self.is_pylist(s.value):
                self.fail(s, 'arithmetic on a Python list')
            t = s.target
            if isinstance(t, ast.Name):
                x = self.lookup(t.id)
                if x is None:
                    self.fail(s, 'augmented assignment to a non-local')
                return 'SAssign %d (EBin %s (EVar %d) %s)' % (x, BINOPS[type(s.op)], x, self.expr(s.value))
            if isinstance(t, ast.Subscript) and isinstance(t.value, ast.Name) and not isinstance(t.slice, (ast.Slice, ast.Tuple)):
                x = self.lookup(t.value.id)
                if x is None:
                    self.fail(s, 'store into a non-local')
                i = self.expr(t.slice)
                return 'SStore %d %s (EBin %s (EIndex (EVar %d) %s) %s)' % (x, i, BINOPS[type(s.op)], x, i, self.expr(s.value))
            self.fail(s, 'augmented assignment target')
        if isinstance(s, ast.If):
            if self.is_int_promotion(s):
                return 'SSkip'      # `if x.dtype.kind in 'iub': x = x.astype(float)`: the IR's arrays are float64 / complex128, the test is False
            return 'SIf %s\n(%s)\n(%s)' % (self.expr(s.test), self.block(s.body), self.block(s.orelse))
        if isinstance(s, ast.For):
            if s.orelse or not isinstance(s.target, ast.Name):
                self.fail(s, 'for/else or structured loop target')
            lo, hi, st = self.range_args(s.iter)
            x = self.slot_of_local(s.target.id)
            return 'SFor %d %s %s %s\n(%s)' % (x, lo, hi, st, self.block(s.body))
        if isinstance(s, ast.Break):
            return 'SBreak'
        if isinstance(s, ast.Continue):
            return 'SContinue'
        if isinstance(s, ast.Return):
            if s.value is None:
                return 'SReturn [ENone]'
            if isinstance(s.value, ast.Tuple):
                return 'SReturn [%s]' % '; '.join(self.expr(e) for e in s.value.elts)
            return 'SReturn [%s]' % self.expr(s.value)
        if isinstance(s, ast.Raise):
            e = s.exc
            if s.cause is not None or e is None:
                self.fail(s, 'raise form')
            if isinstance(e, ast.Call):
                self.pure_format_args(e); e = e.func
            if isinstance(e, ast.Name) and e.id in EXC and e.id not in self.assigned:
                return 'SRaise %s' % EXC[e.id]
            if isinstance(e, ast.Name) and e.id not in self.assigned and self.is_spectrum_error(e.id):
                return 'SRaise SpectrumError'
            self.fail(s, 'exception class')
        if isinstance(s, ast.Assert):
            if s.msg is not None and not isinstance(s.msg, ast.Constant):
                self.fail(s, 'assert message')
            return 'SAssert %s' % self.expr(s.test)
        self.fail(s, 'statement')

    def is_spectrum_error(self, name):
        """T7: a class defined exactly once at the top level of this module whose chain of (single, plain-name) bases reaches the module's own
        class SpectrumError and from there the builtin Exception (errors.SpectrumOrder)"""
        seen = []; through = False
        while name != 'Exception':
            b = name_bindings(self.modtree, name)
            if len(b) != 1 or not isinstance(b[0][1], ast.ClassDef) or b[0][1] not in self.modtree.body or name in seen:
                return False
            c = b[0][1]
            if len(c.bases) != 1 or not isinstance(c.bases[0], ast.Name) or c.keywords or c.decorator_list:
                return False
            seen.append(name); through = through or name == 'SpectrumError'
            name = c.bases[0].id
        return through and not name_bindings(self.modtree, 'Exception')

    def matrix_store(self, s, t):
        """U[i, j] = x   and   U[:, j] = v   on a matrix name"""
        if t.value.id not in self.matrix_vars or len(t.slice.elts) != 2:
            self.fail(s, 'multi-dimensional store into something that is not a 2-D array of this function')
        x = self.lookup(t.value.id)
        if x is None:
            x = self.slot_of_local(t.value.id)          # stored into before any binding: UnboundLocal if executed
        i, j = t.slice.elts
        if isinstance(j, (ast.Slice, ast.Starred, ast.Tuple)):
            self.fail(s, 'store into a row / block of a 2-D array')
        if isinstance(i, ast.Slice):
            if i.lower is not None or i.upper is not None or i.step is not None:
                self.fail(s, 'store into a part of a column')
            return 'SStoreCol %d %s %s' % (x, self.expr(j), self.expr(s.value))
        if isinstance(i, (ast.Starred, ast.Tuple)):
            self.fail(s, 'index form')
        return 'SStore2 %d %s %s %s' % (x, self.expr(i), self.expr(j), self.expr(s.value))

    def call_args(self, s, c, prog):
        """the SCall argument list: one entry per parameter of the callee (positional arguments, then keyword arguments by name; an omitted
        parameter must have a default and is [None]), followed by this program's hidden slots for the callee's oracle parameters.  SCall
        evaluates the entries in PARAMETER order, Python evaluates the arguments in SOURCE order: keyword arguments must come in parameter order."""
        if any(isinstance(a, ast.Starred) for a in c.args) or any(k.arg is None for k in c.keywords):
            self.fail(s, 'starred arguments / **kwargs in a call')
        n = prog.nexplicit
        if len(c.args) > n:
            self.fail(s, 'too many arguments')
        args = [None] * n
        for i, a in enumerate(c.args):
            args[i] = self.expr(a)
        last = len(c.args) - 1
        for k in c.keywords:
            if k.arg not in prog.param_names:
                self.fail(s, 'unknown keyword argument %s' % k.arg)
            i = prog.param_names.index(k.arg)
            if args[i] is not None:
                self.fail(s, 'argument %s given twice' % k.arg)
            if i < last:
                self.fail(s, 'keyword arguments not in the order of the parameters (evaluation order)')
            last = i
            args[i] = self.expr(k.value)
        for i in range(n):
            if args[i] is None and prog.defaults[i] is None:
                self.fail(s, 'argument %s of the callee is missing' % prog.param_names[i])
        return '; '.join([('None' if a is None else '(Some %s)' % a) for a in args] + ['(Some (EVar %d))' % h for h in c._hidden])

    def call_head(self, s, c):
        prog = c._callee
        self.nodes += prog.nodes
        return prog, (len(prog.params), '[' + '; '.join('None' if d is None else '(Some %s)' % d for d in prog.defaults) + ']', len(prog.slots), prog.body,
                      self.call_args(s, c, prog))

    def unread(self, name):
        return not any(isinstance(n, ast.Name) and n.id == name and isinstance(n.ctx, ast.Load) for n in ast.walk(self.fn))

    def call_assign(self, s, t):
        """[x, y[i], ..] = f(a, b, ..) for another function f of the package (same module: T5; another module, resolved through the imports:
        T6): f is translated by this translator (its own slots, its own aliasing pass) and embedded as an SCall; its n >= 2 results go to fresh
        slots, then the targets are assigned left to right."""
        c = s.value
        if len(t.elts) < 2:
            self.fail(s, 'unpacking into fewer than two targets')
        if not (isinstance(c, ast.Call) and hasattr(c, '_callee')):
            self.fail(s, 'tuple assignment of something else than a call of a function of the package')
        f = c._callee.pyname
        prog, parts = self.call_head(s, c)
        if prog.arities != {len(t.elts)}:
            self.fail(s, 'the callee does not return %d values on every path' % len(t.elts))
        tmps = [self.new_slot('%s@ret%d#%d' % (f, i, len(self.slots))) for i in range(len(t.elts))]
        out = ['SCall [%s] %d %s %d\n(%s)\n[%s]' % (('; '.join('%d%%nat' % x for x in tmps),) + parts)]
        for i, (el, tmp) in enumerate(zip(t.elts, tmps)):
            if i in prog.matrix_rets:
                # a 2-D array result: no variable of this function may hold a matrix that is read by its 1-D operations: bind and never read
                if not (isinstance(el, ast.Name) and self.unread(el.id) and el.id not in self.matrix_vars):
                    self.fail(s, 'a 2-D array returned by the callee is bound to something that is read')
            if isinstance(el, ast.Name):
                if el.id in self.matrix_vars or el.id in self.crit_objs or el.id in self.list_vars or el.id in self.tuple_vars:
                    self.fail(s, 'call result bound to a 2-D array / Criteria / list / tuple name')
                out.append('SAssign %d (EVar %d)' % (self.slot_of_local(el.id), tmp))
            elif isinstance(el, ast.Subscript) and isinstance(el.value, ast.Name) and not isinstance(el.slice, (ast.Slice, ast.Tuple)):
                x = self.lookup(el.value.id)
                if x is None:
                    self.fail(s, 'store into a non-local')
                out.append('SStore %d %s (EVar %d)' % (x, self.expr(el.slice), tmp))
            else:
                self.fail(s, 'assignment target')
        return self.seq(out)

    def call_assign_name(self, s, t):
        """x = f(..) for a function f of the package.  f returns ONE value on every path: SCall1 binds it to x.  f returns a tuple of n >= 2 values on
        every path: x is a tuple name (only ever read as x[<int literal>]); the n values go to the n slots of x."""
        c = s.value
        prog, parts = self.call_head(s, c)
        if t.id in self.matrix_vars or t.id in self.crit_objs or t.id in self.list_vars:
            self.fail(s, 'call result bound to a 2-D array / Criteria / list name')
        if t.id in self.tuple_vars:
            if len(prog.arities) != 1 or min(prog.arities) not in self.tuple_arities[t.id]:
                self.fail(s, 'the callee does not return %s values on every path' % sorted(self.tuple_arities[t.id]))
            for i in prog.matrix_rets:
                if any(isinstance(m, ast.Subscript) and isinstance(m.value, ast.Name) and m.value.id == t.id and getattr(m, '_tuple_index', None) == i
                       for m in ast.walk(self.fn)):
                    self.fail(s, 'a 2-D array returned by the callee is read')
            slots = self.tuple_slots(t.id)[:min(prog.arities)]
            return 'SCall [%s] %d %s %d\n(%s)\n[%s]' % (('; '.join('%d%%nat' % x for x in slots),) + parts)
        if prog.arities != {1} or prog.matrix_rets:
            self.fail(s, 'the callee does not return exactly one (1-D / scalar) value on every path')
        return 'SCall1 %d %d %s %d\n(%s)\n[%s]' % ((self.slot_of_local(t.id),) + parts)

    def tuple_slots(self, name):
        """the slots name@0 .. name@n-1 of a tuple name (n = the longest tuple it is bound to), created at the first binding statement"""
        n = self.tuple_vars[name]
        slots = [self.lookup('%s@%d' % (name, i)) for i in range(n)]
        if slots[0] is None:
            slots = []
            for i in range(n):
                x = self.new_slot('%s@%d' % (name, i)); self.scopes[0]['%s@%d' % (name, i)] = x; slots.append(x)
        return slots

    def is_int_promotion(self, s):
        """exactly `if <x>.dtype.kind in '<subset of iub>': <x> = <x>.astype(float)` for a local array <x> (no else):
        promotion of integer / boolean arrays, the identity on the value domain of the IR"""
        t = s.test
        if s.orelse or len(s.body) != 1 or not isinstance(t, ast.Compare) or len(t.ops) != 1 or not isinstance(t.ops[0], ast.In):
            return False
        l, r = t.left, t.comparators[0]
        if not (isinstance(r, ast.Constant) and isinstance(r.value, str) and r.value and set(r.value) <= set('iub')):
            return False
        if not (isinstance(l, ast.Attribute) and l.attr == 'kind' and isinstance(l.value, ast.Attribute) and l.value.attr == 'dtype'
                and isinstance(l.value.value, ast.Name)):
            return False
        x = l.value.value.id
        if self.lookup(x) is None or 'float' in self.assigned:
            return False
        b = s.body[0]
        return (isinstance(b, ast.Assign) and len(b.targets) == 1 and isinstance(b.targets[0], ast.Name) and b.targets[0].id == x
                and isinstance(b.value, ast.Call) and isinstance(b.value.func, ast.Attribute) and b.value.func.attr == 'astype'
                and isinstance(b.value.func.value, ast.Name) and b.value.func.value.id == x and not b.value.keywords
                and len(b.value.args) == 1 and isinstance(b.value.args[0], ast.Name) and b.value.args[0].id == 'float')

    def crit_call(self, dst, call):
        kws = {k.arg: k.value for k in call.keywords}
        if call.args or set(kws) != {'rho', 'k'}:
            self.fail(call, 'Criteria call with unexpected arguments')
        obj = self.lookup(call.func.id)
        if obj is None:
            self.fail(call, 'Criteria object not bound')
        return 'SCritCall %s %d %s %s' % ('None' if dst is None else '(Some %d%%nat)' % dst, obj, self.expr(kws['rho']), self.expr(kws['k']))

    def range_args(self, it):
        if not (isinstance(it, ast.Call) and isinstance(it.func, ast.Name) and it.func.id == 'range' and 'range' not in self.assigned
                and not it.keywords and 1 <= len(it.args) <= 3):
            self.fail(it, 'loop iterable is not range(...)')
        a = [self.expr(x) for x in it.args]
        if len(a) == 1:
            return '(EInt 0)', a[0], '(EInt 1)'
        if len(a) == 2:
            return a[0], a[1], '(EInt 1)'
        return a[0], a[1], a[2]

    # ---------------------------------------------------------------- expressions
    def boolish(self, e):
        if isinstance(e, ast.Compare):
            return True
        if isinstance(e, ast.BoolOp):
            return all(self.boolish(v) for v in e.values)
        if isinstance(e, ast.UnaryOp) and isinstance(e.op, ast.Not):
            return True
        if isinstance(e, ast.Constant) and isinstance(e.value, bool):
            return True
        if isinstance(e, ast.Call) and isinstance(e.func, ast.Attribute) and e.func.attr == 'isrealobj':
            return True
        return False

    def const(self, e):
        v = e.value
        if v is None:
            return 'ENone'
        if isinstance(v, bool):
            return '(EBool %s)' % ('true' if v else 'false')
        if isinstance(v, int):
            if abs(v) >= 1 << 30:
                self.fail(e, 'large integer literal')
            return '(EInt %s)' % zlit(v)
        if isinstance(v, float):
            n, k = dyadic_literal(v, e)
            return '(ELit %s %d)' % (zlit(n), k)
        if isinstance(v, complex):
            if v.imag != 0:
                self.fail(e, 'imaginary literal')
            n, k = dyadic_literal(v.real, e)
            return '(ELit %s %d)' % (zlit(n), k)
        if isinstance(v, str):
            if not re.fullmatch(r'[A-Za-z0-9_ .-]*', v):
                self.fail(e, 'string literal')
            return '(EStr "%s")' % v
        self.fail(e, 'literal')

    def is_np(self, f, attrs):
        return isinstance(f, ast.Attribute) and isinstance(f.value, ast.Name) and f.value.id in self.np_names \
            and f.value.id not in self.assigned and f.attr in attrs

    def is_pylist(self, e):
        return isinstance(e, (ast.List, ast.ListComp)) or (isinstance(e, ast.Name) and e.id in self.display_vars)

    def is_zero_const(self, e):
        return isinstance(e, ast.Constant) and not isinstance(e.value, bool) and isinstance(e.value, (int, float)) and e.value == 0

    def is_two(self, e):
        return isinstance(e, ast.Constant) and not isinstance(e.value, bool) and isinstance(e.value, (int, float)) and e.value == 2

    def expr(self, e):
        self.nodes += 1
        if isinstance(e, ast.Constant):
            return self.const(e)
        if isinstance(e, ast.Name):
            if not isinstance(e.ctx, ast.Load):
                self.fail(e, 'name context')
            s = self.lookup(e.id)
            if s is None:
                if e.id in self.assigned:
                    s = self.slot_of_local(e.id)        # read textually before the first assignment (UnboundLocal if executed)
                else:
                    self.fail(e, 'global name used as a value')
            if e.id in self.crit_objs:
                self.fail(e, 'Criteria object used as a value')
            if e.id in self.tuple_vars:
                self.fail(e, 'tuple name used as a value')
            return '(EVar %d)' % s
        if isinstance(e, ast.BinOp):
            if isinstance(e.op, ast.Pow):
                if isinstance(e.left, ast.Constant) and type(e.left.value) is int and e.left.value == 2 and not self.is_two(e.right) \
                        and self.tw_slot is not None and isinstance(e.right, ast.Call) and hasattr(e.right, '_primitive'):
                    return '(EPow2 %s)' % self.expr(e.right)          # T10: 2**nextpow2(..) (an int power of two: the fft length of lpc)
                if not self.is_two(e.right):
                    self.fail(e, 'power other than 2')
                b = e.left
                if isinstance(b, ast.Call) and isinstance(b.func, ast.Name) and b.func.id == 'abs' and 'abs' not in self.assigned \
                        and len(b.args) == 1 and not b.keywords:
                    return '(ENrm2 %s)' % self.expr(b.args[0])
                if isinstance(b, ast.Attribute) and b.attr == 'imag':
                    return '(EImagSq %s)' % self.expr(b.value)
                x = self.expr(b)
                return '(EBin BMul %s %s)' % (x, x)
            if type(e.op) not in BINOPS:
                self.fail(e, 'operator')
            if self.is_pylist(e.left) or self.is_pylist(e.right):
                self.fail(e, 'arithmetic on a Python list')
            return '(EBin %s %s %s)' % (BINOPS[type(e.op)], self.expr(e.left), self.expr(e.right))
        if isinstance(e, ast.UnaryOp):
            if isinstance(e.op, ast.USub):
                return '(ENeg %s)' % self.expr(e.operand)
            if isinstance(e.op, ast.UAdd):
                return self.expr(e.operand)
            if isinstance(e.op, ast.Not):
                return '(ENot %s)' % self.expr(e.operand)
            self.fail(e, 'unary operator')
        if isinstance(e, ast.BoolOp):
            vals = [self.expr(v) for v in e.values]
            c = 'EAnd' if isinstance(e.op, ast.And) else 'EOr'
            out = vals[-1]
            for v in reversed(vals[:-1]):
                out = '(%s %s %s)' % (c, v, out)
            return out
        if isinstance(e, ast.Compare):
            if len(e.ops) != 1:
                self.fail(e, 'chained comparison')
            op = e.ops[0]; l = e.left; r = e.comparators[0]
            if isinstance(op, (ast.Is, ast.IsNot, ast.Eq, ast.NotEq)) and isinstance(r, ast.Constant) and (r.value is None or isinstance(r.value, bool)):
                if r.value is None:
                    if isinstance(op, (ast.Eq, ast.NotEq)):
                        self.fail(e, '== None')
                    t = '(EIsNone %s)' % self.expr(l)
                else:
                    t = '(EIsBool %s %s)' % ('true' if r.value else 'false', self.expr(l))
                return t if isinstance(op, (ast.Is, ast.Eq)) else '(ENot %s)' % t
            if isinstance(op, (ast.In, ast.NotIn)):
                if not isinstance(r, (ast.List, ast.Tuple)) or not r.elts or not all(isinstance(x, ast.Constant) for x in r.elts):
                    self.fail(e, 'membership in a non-literal')
                x = self.expr(l)
                alts = ['(ECmp CEq %s %s)' % (x, self.const(c)) for c in r.elts]
                out = alts[-1]
                for a in reversed(alts[:-1]):
                    out = '(EOr %s %s)' % (a, out)
                return out if isinstance(op, ast.In) else '(ENot %s)' % out
            if isinstance(op, (ast.Eq, ast.NotEq)) and isinstance(l, ast.Call) and isinstance(l.func, ast.Name) and l.func.id == 'type' \
                    and 'type' not in self.assigned and len(l.args) == 1 and not l.keywords and isinstance(r, ast.Name) and r.id == 'int' \
                    and self.lookup('int') is None and 'int' not in self.assigned and self.tw_slot is None and self.modname == 'errors':
                t = '(EIsInt %s)' % self.expr(l.args[0])          # T7: type(x) == int / != int (errors.is_positive_integer)
                return t if isinstance(op, ast.Eq) else '(ENot %s)' % t
            if isinstance(op, ast.LtE) and self.is_zero_const(r):
                return '(ELe0 %s)' % self.expr(l)
            if type(op) not in CMPOPS:
                self.fail(e, 'comparison operator')
            return '(ECmp %s %s %s)' % (CMPOPS[type(op)], self.expr(l), self.expr(r))
        if isinstance(e, ast.Subscript) and isinstance(e.slice, ast.Tuple):
            return self.matrix_index(e)
        if isinstance(e, ast.Subscript) and isinstance(e.value, ast.Name) and e.value.id in self.tuple_vars:
            if not hasattr(e, '_tuple_index'):
                self.fail(e, 'index of a tuple name')
            x = self.lookup('%s@%d' % (e.value.id, e._tuple_index))
            if x is None:       # read textually before the call that binds it
                self.fail(e, 'tuple name read before it is bound')
            return '(EVar %d)' % x
        if isinstance(e, ast.Subscript) and isinstance(e.value, ast.Attribute) and e.value.attr == 'shape' and self.tw_slot is not None \
                and isinstance(e.slice, ast.Constant) and type(e.slice.value) is int and e.slice.value == 0:
            return '(ELen %s)' % self.expr(e.value.value)             # T7: x.shape[0] of a 1-D array
        if isinstance(e, ast.Subscript):
            a = self.expr(e.value)
            sl = e.slice
            if isinstance(sl, ast.Slice):
                def o(x):
                    return 'None' if x is None else '(Some %s)' % self.expr(x)
                return '(ESlice %s %s %s %s)' % (a, o(sl.lower), o(sl.upper), o(sl.step))
            if isinstance(sl, ast.Tuple):
                self.fail(e, 'multi-dimensional index')
            return '(EIndex %s %s)' % (a, self.expr(sl))
        if isinstance(e, ast.Attribute):
            if e.attr == 'real':
                return '(EReal %s)' % self.expr(e.value)
            if e.attr == 'size':
                return '(ELen %s)' % self.expr(e.value)
            if e.attr == 'data' and getattr(e, '_window_data', False):
                return self.expr(e.value)                             # T7: the slot holds the oracle array Window(..).data itself
            if e.attr == 'pi' and self.is_np(e, ('pi',)) and self.pi_slot is not None:
                return '(EVar %d)' % self.pi_slot                     # T7: numpy.pi is a hidden parameter
            if e.attr == 'ndim' and self.tw_slot is not None:
                return '(ENdim %s)' % self.expr(e.value)              # T7
            self.fail(e, 'attribute')
        if isinstance(e, ast.List):
            out = 'EArrNil'
            for x in reversed(e.elts):
                out = '(EArrCons %s %s)' % (self.expr(x), out)
            return out
        if isinstance(e, ast.ListComp):
            return self.comp(e)
        if isinstance(e, ast.Call):
            return self.call(e)
        self.fail(e, 'expression')

    def int_expr(self, e):
        """T10: the argument of nextpow2, read in INTEGER arithmetic: int literals, float literals with an integer value (`2.`), len(<name>),
        names, + - * of such (the float the code computes is that integer exactly while it is < 2^52)"""
        self.nodes += 1
        if isinstance(e, ast.Constant) and type(e.value) in (int, float) and float(e.value) == int(e.value) and abs(e.value) < 1 << 30:
            return '(EInt %s)' % zlit(int(e.value))
        if isinstance(e, ast.Name):
            return self.expr(e)
        if isinstance(e, ast.Call) and isinstance(e.func, ast.Name) and e.func.id == 'len' and 'len' not in self.assigned and len(e.args) == 1 \
                and not e.keywords and isinstance(e.args[0], ast.Name):
            return '(ELen %s)' % self.expr(e.args[0])
        if isinstance(e, ast.BinOp) and isinstance(e.op, (ast.Add, ast.Sub, ast.Mult)):
            return '(EBin %s %s %s)' % (BINOPS[type(e.op)], self.int_expr(e.left), self.int_expr(e.right))
        self.fail(e, 'argument of nextpow2 that is not integer arithmetic over len() / names / integer-valued literals')

    PRIMITIVE_CALLEES = {('tools', 'nextpow2'): ('ENextPow2', ['x'], ["res = ceil(log2(x))", "return res.astype('int')"], ('ceil', 'log2'))}

    def primitive_callee(self, c):
        """T10: a call of a package function that is an IR PRIMITIVE (tools.nextpow2 -> [ENextPow2]): accepted only while the function's text
        is, verbatim, the one the primitive stands for, and the numpy functions it calls are bound exactly once by `from numpy import ..`"""
        if not (isinstance(c.func, ast.Name) and self.loader is not None and self.tw_slot_needed):
            return None
        name = c.func.id
        argnames = {x.arg for x in self.fn.args.args} | set(self.spec.get('params', ()))
        if name in self.assigned or name in argnames or name in self.local_imports:
            return None
        b = name_bindings(self.modtree, name)
        if len(b) != 1 or b[0][0] != 'import' or package_module_of(b[0][1]) is None:
            return None
        M = package_module_of(b[0][1]); orig = b[0][2].name
        if (M, orig) not in self.PRIMITIVE_CALLEES:
            return None
        prim, params, text, npnames = self.PRIMITIVE_CALLEES[(M, orig)]
        tree = self.loader.tree(M, c)
        fndef = find_function(tree, orig, c, modname=M + '.py')
        body = [x for x in fndef.body if not (isinstance(x, ast.Expr) and isinstance(x.value, ast.Constant) and isinstance(x.value.value, str))]
        a = fndef.args
        if fndef.decorator_list or a.vararg or a.kwarg or a.kwonlyargs or a.posonlyargs or a.defaults or [x.arg for x in a.args] != params \
                or [ast.unparse(x) for x in body] != text:
            self.fail(c, 'the text of %s.%s is not the one the IR primitive %s stands for' % (M, orig, prim))
        for g in npnames:
            bb = name_bindings(tree, g)
            if len(bb) != 1 or bb[0][0] != 'import' or not isinstance(bb[0][1], ast.ImportFrom) or bb[0][1].level != 0 or bb[0][1].module != 'numpy' \
                    or bb[0][2].name != g or bb[0][2].asname not in (None, g):
                self.fail(c, '%s is not bound exactly once by `from numpy import %s` in %s.py' % (g, g, M))
        return prim

    def matrix_index(self, e):
        """U[i, j], U[i, lo:hi:step], U[lo:hi:step, j] on a matrix name"""
        if not (isinstance(e.value, ast.Name) and e.value.id in self.matrix_vars and len(e.slice.elts) == 2 and isinstance(e.ctx, ast.Load)):
            self.fail(e, 'multi-dimensional index')
        x = self.lookup(e.value.id)
        if x is None:
            x = self.slot_of_local(e.value.id)
        i, j = e.slice.elts
        if any(isinstance(v, (ast.Starred, ast.Tuple)) for v in (i, j)):
            self.fail(e, 'index form')

        def o(v):
            return 'None' if v is None else '(Some %s)' % self.expr(v)
        if isinstance(i, ast.Slice) and isinstance(j, ast.Slice):
            self.fail(e, 'block of a 2-D array')
        if isinstance(j, ast.Slice):
            return '(ERowSlice (EVar %d) %s %s %s %s)' % (x, self.expr(i), o(j.lower), o(j.upper), o(j.step))
        if isinstance(i, ast.Slice):
            lo, hi, st = o(i.lower), o(i.upper), o(i.step)
            return '(EColSlice (EVar %d) %s %s %s %s)' % (x, lo, hi, st, self.expr(j))
        return '(EIndex2 (EVar %d) %s %s)' % (x, self.expr(i), self.expr(j))

    def zero_list_repeat(self, e):
        """`[0] * n` (a Python list of n int zeros, [] for n <= 0) as an element of numpy.concatenate((..)): zeros(max(0, n)) with the int tag"""
        if isinstance(e, ast.BinOp) and isinstance(e.op, ast.Mult) and isinstance(e.left, ast.List) and len(e.left.elts) == 1 \
                and isinstance(e.left.elts[0], ast.Constant) and type(e.left.elts[0].value) is int and e.left.elts[0].value == 0 \
                and not self.is_pylist(e.right):
            return '(EZeros (EMax (EInt 0) %s) true)' % self.expr(e.right)
        return None

    def comp(self, e):
        if len(e.generators) != 1:
            self.fail(e, 'nested comprehension')
        g = e.generators[0]
        if g.ifs or g.is_async or not isinstance(g.target, ast.Name):
            self.fail(e, 'comprehension form')
        lo, hi, st = self.range_args(g.iter)
        if st != '(EInt 1)':
            self.fail(e, 'comprehension over a stepped range')
        j = self.new_slot('%s@comp%d' % (g.target.id, len(self.slots)))
        self.scopes.append({g.target.id: j})
        body = self.expr(e.elt)
        self.scopes.pop()
        return '(EComp %d %s %s %s)' % (j, lo, hi, body)

    def call(self, e):
        f = e.func
        kws = {k.arg: k.value for k in e.keywords}
        if None in kws:
            self.fail(e, '**kwargs')
        if isinstance(f, ast.Name):
            if f.id in self.assigned:
                self.fail(e, 'call of a local name')
            if f.id in self.oracle_fns:
                return '(EVar %d)' % e._oracle_slot
            if f.id in self.fft_names and self.tw_slot is not None:
                # T7: fft(a), fft(a, n), fft(a, n, axis=0|-1) on a 1-D array
                if not 1 <= len(e.args) <= 2 or set(kws) - {'axis'} or any(isinstance(a, ast.Starred) for a in e.args):
                    self.fail(e, 'fft with unexpected arguments')
                if 'axis' in kws:
                    ax = kws['axis']
                    if isinstance(ax, ast.UnaryOp) and isinstance(ax.op, ast.USub):
                        ax = ax.operand
                        if not (isinstance(ax, ast.Constant) and type(ax.value) is int and ax.value == 1):
                            self.fail(e, 'fft along an axis other than 0 / -1')
                    elif not (isinstance(ax, ast.Constant) and type(ax.value) is int and ax.value == 0):
                        self.fail(e, 'fft along an axis other than 0 / -1')
                a = self.expr(e.args[0])
                n = 'None' if len(e.args) == 1 else '(Some %s)' % self.expr(e.args[1])
                return '(%s %s %s (EVar %d))' % ({'fft': 'EFft', 'rfft': 'ERfft', 'ifft': 'EIfft'}[self.fft_names[f.id]], a, n, self.tw_slot)
            if f.id in self.npfun_names and self.npfun_names[f.id] == 'real' and len(e.args) == 1 and not kws and self.lookup(f.id) is None:
                return '(EReal %s)' % self.expr(e.args[0])            # T10: real(z) for `from numpy import real`
            if hasattr(e, '_primitive'):
                # T10: tools.nextpow2(<integer-valued arithmetic>) (text of nextpow2 verified in find_calls)
                if len(e.args) != 1 or kws or isinstance(e.args[0], ast.Starred):
                    self.fail(e, 'nextpow2 with unexpected arguments')
                return '(%s %s)' % (e._primitive, self.int_expr(e.args[0]))
            if kws:
                self.fail(e, 'keyword arguments')
            n = len(e.args)
            if f.id == 'max' and n == 1 and self.tw_slot is not None and not isinstance(e.args[0], (ast.List, ast.ListComp, ast.Tuple, ast.GeneratorExp)) \
                    and not self.is_pylist(e.args[0]):
                return '(EMaxArr %s)' % self.expr(e.args[0])          # T7: builtin max over a 1-D array
            if f.id == 'len' and n == 1:
                return '(ELen %s)' % self.expr(e.args[0])
            if f.id == 'float' and n == 1:
                return '(EFloat %s)' % self.expr(e.args[0])
            if f.id == 'max' and n == 2:
                return '(EMax %s %s)' % (self.expr(e.args[0]), self.expr(e.args[1]))
            if f.id == 'min' and n == 2:
                return '(EMin %s %s)' % (self.expr(e.args[0]), self.expr(e.args[1]))
            if f.id == 'sum' and n == 1:
                return '(ESum %s)' % self.expr(e.args[0])
            if f.id == 'abs' and n == 1 and isinstance(e.args[0], ast.BinOp) and isinstance(e.args[0].op, ast.Pow) and self.is_two(e.args[0].right):
                return '(ENrm2 %s)' % self.expr(e.args[0].left)      # abs(z**2) = |z|^2 = z*conj(z) exactly (no rounding in the IR), as abs(z)**2
            self.fail(e, 'call')
        if isinstance(f, ast.Attribute) and f.attr == 'fftshift' and isinstance(f.value, ast.Attribute) and f.value.attr == 'fft' \
                and isinstance(f.value.value, ast.Name) and f.value.value.id in self.np_names and f.value.value.id not in self.assigned \
                and len(e.args) == 1 and not kws:
            return '(EFftShift %s)' % self.expr(e.args[0])            # T7: numpy.fft.fftshift
        if self.is_np(f, ('mean',)) and len(e.args) == 1 and set(kws) <= {'axis'} and self.tw_slot is not None:
            return '(EMean %s %s)' % (self.expr(e.args[0]), 'None' if 'axis' not in kws else '(Some %s)' % self.expr(kws['axis']))      # T7
        if self.is_np(f, ('real',)) and len(e.args) == 1 and not kws:
            return '(EReal %s)' % self.expr(e.args[0])
        if self.is_np(f, ('conj', 'conjugate')) and len(e.args) == 1 and not kws:
            return '(EConj %s)' % self.expr(e.args[0])
        if self.is_np(f, ('isrealobj',)) and len(e.args) == 1 and not kws:
            return '(EIsRealObj %s)' % self.expr(e.args[0])
        if self.is_np(f, ('array',)) and len(e.args) == 1 and not kws:
            return '(ECopy %s)' % self.expr(e.args[0])
        if self.is_np(f, ('asarray',)) and len(e.args) == 1 and not kws:
            return '(ECopy %s)' % self.expr(e.args[0])     # same values; NOT fresh for the aliasing pass (asarray may return its argument)
        if self.is_np(f, ('dot',)) and len(e.args) == 2 and not kws:
            return '(EDot %s %s)' % (self.expr(e.args[0]), self.expr(e.args[1]))
        if self.is_np(f, ('insert',)) and len(e.args) == 3 and not kws:
            return '(EInsert %s %s %s)' % tuple(self.expr(x) for x in e.args)
        if self.is_np(f, ('concatenate',)) and len(e.args) == 1 and not kws and isinstance(e.args[0], (ast.Tuple, ast.List)) and len(e.args[0].elts) >= 1:
            parts = [self.zero_list_repeat(x) or self.expr(x) for x in e.args[0].elts]
            out = parts[-1]
            for p in reversed(parts[:-1]):
                out = '(EConcat %s %s)' % (p, out)
            return out
        if self.is_np(f, ('zeros',)) and len(e.args) == 1 and set(kws) <= {'dtype'} and not isinstance(e.args[0], (ast.Tuple, ast.List)):
            real = True
            if 'dtype' in kws:
                d = kws['dtype']
                if isinstance(d, ast.Name) and d.id in ('float', 'complex') and d.id not in self.assigned:
                    real = (d.id == 'float')
                else:
                    self.fail(e, 'dtype is not the literal float / complex')
            return '(EZeros %s %s)' % (self.expr(e.args[0]), 'true' if real else 'false')
        if isinstance(f, ast.Attribute) and not (isinstance(f.value, ast.Name) and (f.value.id in self.np_names or f.value.id in self.logging_names)):
            if f.attr in ('conjugate', 'conj') and not e.args and not kws:
                return '(EConj %s)' % self.expr(f.value)
            if f.attr == 'transpose' and not e.args and not kws:
                return self.expr(f.value)                 # 1-D arrays and scalars only exist in the IR: identity
            if f.attr == 'copy' and not e.args and not kws:
                return '(ECopy %s)' % self.expr(f.value)
            if f.attr == 'astype' and len(e.args) == 1 and not kws and isinstance(e.args[0], ast.Name) and e.args[0].id == 'complex' \
                    and 'complex' not in self.assigned:
                return '(EAsComplex %s)' % self.expr(f.value)
        self.fail(e, 'call')


def snapshot_source(module):
    """source text of spectrum/<module>.py of the snapshot the check runs against"""
    import spectrum
    base = os.path.dirname(os.path.abspath(spectrum.__file__))
    snap = os.environ.get('VERIF_SNAPSHOT', '')
    if snap:
        cand = os.path.join(snap, 'src', 'spectrum', module + '.py')
        if os.path.exists(cand):
            assert os.path.dirname(os.path.abspath(cand)) == base, 'snapshot is not the imported package'
            return open(cand).read(), cand
    p = os.path.join(base, module + '.py')
    return open(p).read(), p


def find_function(tree, fname, where=None, modname='the module'):
    """the unique module-level `def fname` of the parsed module (never rebound at module level)"""
    fns = [n for n in tree.body if isinstance(n, ast.FunctionDef) and n.name == fname]
    if len(fns) != 1:
        raise Untranslatable(where if where is not None else tree, 'function %s not found exactly once in %s' % (fname, modname))
    # a later module-level rebinding of the name would make the translated text irrelevant
    for n in tree.body:
        if n is not fns[0]:
            if isinstance(n, (ast.Import, ast.ImportFrom)) and any((a.asname or a.name.split('.')[0]) == fname for a in n.names):
                raise Untranslatable(n, 'module-level rebinding of %s' % fname)
            for t in ast.walk(n) if isinstance(n, (ast.Assign, ast.AugAssign, ast.AnnAssign)) else []:
                if isinstance(t, ast.Name) and t.id == fname and isinstance(t.ctx, ast.Store):
                    raise Untranslatable(n, 'module-level rebinding of %s' % fname)
    return fns[0]


def translate(name, source=None, sources=None):
    """the IR program of SPECS[name], from the snapshot's text of its module (or `source`); the other modules of the package it calls into are
    read from the snapshot too (or from `sources`: {module: text})"""
    spec = SPECS[name]
    src = dict(sources or {})
    if source is not None:
        src[spec['module']] = source
    loader = Loader(src)
    tree = loader.tree(spec['module'])
    fname = spec.get('function', name)
    return FnTranslator(tree, find_function(tree, fname, modname=spec['module'] + '.py'), spec, name, modname=spec['module'], loader=loader).translate()


# ---------------------------------------------------------------- self-test of the fail-closed behaviour
SELFTEST_OK = """
import numpy
import logging
def f(r, n=None):
    L = []
    r = numpy.asarray(r)
    if r.dtype.kind in 'iub':
        r = r.astype(float)
    A = numpy.zeros(n, dtype=complex)
    T = r[1:]
    for k in range(0, n):
        logging.debug(A[0:2])
        A[k] = T[k] * 2. - abs(r[k]) ** 2
        if A[k].real <= 0:
            raise ValueError('x')
        if A[k].real > 1. and A[k].real <= 2:
            pass
        else:
            ValueError('y')
        L.append(A[k].real)
    return A, T, L
"""
SELFTEST_BAD = [            # (what, old, new): each edit must make the translator refuse
    ('store into a parameter', "        A[k] = T[k]", "        r[k] = 1\n        A[k] = T[k]"),
    ('store into a slice view', "        A[k] = T[k]", "        T[k] = 1\n        A[k] = T[k]"),
    ('alias, then store', "    T = r[1:]", "    T = r[1:]\n    B = A\n    B[0] = 1"),
    ('while loop', "    for k in range(0, n):", "    k = 0\n    while k < n:"),
    ('unknown numpy call', "T[k] * 2.", "numpy.sqrt(T[k]) * 2."),
    ('unknown call', "T[k] * 2.", "g(T[k]) * 2."),
    ('print statement', "        A[k] = T[k]", "        print(k)\n        A[k] = T[k]"),
    ('power other than 2', "** 2", "** 3"),
    ('non-dyadic literal', "* 2.", "* 2.0000001"),
    ('tolerance literal', "<= 0", "<= 1e-12"),
    ('dtype expression', "dtype=complex", "dtype=r.dtype"),
    ('2-D array', "numpy.zeros(n,", "numpy.zeros((n, n),"),
    ('slice store', "        A[k] = T[k]", "        A[0:1] = T[0:1]\n        A[k] = T[k]"),
    ('tuple assignment', "    T = r[1:]", "    T, U = r[1:], r"),
    ('augmented assignment on a shared array', "    T = r[1:]", "    T = r[1:]\n    T += 1"),
    ('try block', "    T = r[1:]", "    try:\n        T = r[1:]\n    except Exception:\n        T = r"),
    ('lambda', "    T = r[1:]", "    T = r[1:]\n    h = lambda z: z"),
    ('star args', "def f(r, n=None):", "def f(r, n=None, *rest):"),
    ('non-literal default', "def f(r, n=None):", "def f(r, n=len):"),
    ('chained comparison', "if A[k].real <= 0:", "if 0 <= A[k].real <= 0:"),
    ('imaginary literal', "* 2.", "* 2j"),
    ('unknown exception class', "raise ValueError('x')", "raise RuntimeError('x')"),
    ('call inside a message', "raise ValueError('x')", "raise ValueError(str(A.resize(3)))"),
    ('dtype test that floats can satisfy', "in 'iub'", "in 'iubf'"),
    ('promotion to another type', "r.astype(float)", "r.astype(int)"),
    ('promotion with an else branch', "        r = r.astype(float)\n", "        r = r.astype(float)\n    else:\n        r = r * 2\n"),
    ('promotion assigning another name', "        r = r.astype(float)", "        n = r.astype(float)"),
    # T3 (Marple routines): lists that are appended to, discarded exception objects, log arguments, asarray
    ('append to an array', "L.append(A[k].real)", "A.append(A[k].real)"),
    ('append to a parameter', "L.append(A[k].real)", "r.append(1.)"),
    ('appended list used in arithmetic', "    return A, T, L", "    B = L * 2\n    return A, T, L"),
    ('appended list indexed', "    return A, T, L", "    return A, T, L[0]"),
    ('appended list aliased', "    L = []", "    L = []\n    M = L"),
    ('appended list bound to an array', "    L = []", "    L = numpy.zeros(2)"),
    ('appended list is a loop variable', "    L = []", "    L = []\n    for L in range(0, 2):\n        pass"),
    ('append of two values', "L.append(A[k].real)", "L.append(A[k].real, 1)"),
    ('append used as a value', "L.append(A[k].real)", "z = L.append(A[k].real)"),
    ('extend', "L.append(A[k].real)", "L.extend([A[k].real])"),
    ('append on an expression', "L.append(A[k].real)", "(L).copy().append(A[k].real)"),
    ('discarded exception of an unknown class', "ValueError('y')", "RuntimeError('y')"),
    ('discarded exception with a call in its message', "ValueError('y')", "ValueError(str(A.resize(3)))"),
    ('discarded call of an unknown function', "ValueError('y')", "check(A)"),
    ('index inside a log argument', "logging.debug(A[0:2])", "logging.debug(A[k + 7])"),
    ('call inside a log argument', "logging.debug(A[0:2])", "logging.debug(A.resize(3))"),
    ('slice of an expression inside a log argument', "logging.debug(A[0:2])", "logging.debug(numpy.zeros(3)[0:2])"),
    ('asarray with a dtype', "numpy.asarray(r)", "numpy.asarray(r, dtype=complex)"),
    ('store through an asarray alias', "    r = numpy.asarray(r)", "    r = numpy.asarray(r)\n    Q = numpy.asarray(A)\n    Q[0] = 1\n    A[0] = 2"),
    ('list concatenation by +=', "L.append(A[k].real)", "L += [A[k].real]"),
    ('list repetition', "    L = []", "    L = []\n    W = [1., 2.] * 2"),
    ('list concatenation of a display variable', "    L = []", "    L = []\n    W = [1., 2.]\n    V = W + W"),
    ('comparison with a string ordering', "A[k].real > 1.", "A[k].real > 'a' > 0"),
]


# T5 (rlevinson): 2-D arrays, column / element stores, row / column slices, a call of another function of the module
SELFTEST2_OK = """
import numpy
def g(a, e=None):
    b = a[1:]
    c = None
    if e is not None:
        c = e / 2.
    b = numpy.insert(b, 0, 1)
    return b, c
def f(a, e):
    a = numpy.array(a)
    p = len(a)
    U = numpy.zeros((p, p), dtype=complex)
    U[:, p - 1] = numpy.conj(a[-1::-1])
    w = numpy.zeros(p)
    w[-1] = e
    for k in range(p - 1, 0, -1):
        [a, w[k - 1]] = g(a, w[k])
        U[:, k] = numpy.concatenate((a[-1::-1].transpose(), [0] * (p - k)))
    U[0, 0] = 1
    kr = numpy.conj(U[0, 1:])
    s = sum(U[p - 1::-1, 1] * kr[0]) + U[0, 1] / (1. - abs(a[0] ** 2))
    return U, kr, s, w
"""
SELFTEST2_BAD = [
    ('matrix aliased', "    U[0, 0] = 1", "    V = U\n    U[0, 0] = 1"),
    ('matrix in arithmetic', "    U[0, 0] = 1", "    V = U * 2\n    U[0, 0] = 1"),
    ('matrix transposed', "    U[0, 0] = 1", "    V = U.transpose()\n    U[0, 0] = 1"),
    ('len of a matrix', "    p = len(a)", "    p = len(a)\n    U = numpy.zeros((p, p))\n    q = len(U)"),
    ('row of a matrix by a plain index', "kr = numpy.conj(U[0, 1:])", "kr = numpy.conj(U[0])"),
    ('block of a matrix', "kr = numpy.conj(U[0, 1:])", "kr = numpy.conj(U[0:1, 1:])"),
    ('three indices', "kr = numpy.conj(U[0, 1:])", "kr = numpy.conj(U[0, 1, 0])"),
    ('store into a part of a column', "    U[:, p - 1] = numpy.conj(a[-1::-1])", "    U[0:2, p - 1] = numpy.conj(a[-1::-1])"),
    ('store into a row', "    U[0, 0] = 1", "    U[0, :] = a"),
    ('store into a block', "    U[0, 0] = 1", "    U[:, :] = 0"),
    ('augmented column store', "    U[0, 0] = 1", "    U[:, 0] += a"),
    ('augmented element store', "    U[0, 0] = 1", "    U[0, 0] += 1"),
    ('matrix rebound to a vector', "    U[0, 0] = 1", "    U = numpy.zeros(p)\n    U[0, 0] = 1"),
    ('matrix as a loop variable', "    U[0, 0] = 1", "    for U in range(0, 2):\n        pass"),
    ('3-D zeros', "numpy.zeros((p, p), dtype=complex)", "numpy.zeros((p, p, p), dtype=complex)"),
    ('2-D zeros with a dtype expression', "numpy.zeros((p, p), dtype=complex)", "numpy.zeros((p, p), dtype=a.dtype)"),
    ('2-D zeros inside an expression', "    w = numpy.zeros(p)", "    w = numpy.conj(numpy.zeros((p, p)))"),
    ('2-D index on a vector', "kr = numpy.conj(U[0, 1:])", "kr = numpy.conj(a[0, 1:])"),
    ('2-D store into a parameter', "    U[0, 0] = 1", "    e[0, 0] = 1"),
    ('slice view of a matrix row, then store', "    kr = numpy.conj(U[0, 1:])", "    kr = U[0, 1:]\n    kr[0] = 2"),
    ('matrix passed to a call', "g(a, w[k])", "g(U, w[k])"),
    ('call of an unknown function', "g(a, w[k])", "h(a, w[k])"),
    ('call with an unknown keyword argument', "g(a, w[k])", "g(a, q=w[k])"),
    ('call with an argument given twice', "g(a, w[k])", "g(a, w[k], e=1.)"),
    ('call with keyword arguments out of parameter order', "g(a, w[k])", "g(e=w[k], a=a)"),
    ('call with a missing argument', "g(a, w[k])", "g(e=w[k])"),
    ('call with **kwargs', "g(a, w[k])", "g(a, **w)"),
    ('call with a starred argument', "g(a, w[k])", "g(*a)"),
    ('call with too many arguments', "g(a, w[k])", "g(a, w[k], 1)"),
    ('tuple a call returns used as a value', "[a, w[k - 1]] = g(a, w[k])", "z = g(a, w[k])\n        y = z"),
    ('tuple a call returns in arithmetic', "[a, w[k - 1]] = g(a, w[k])", "z = g(a, w[k])\n        y = z * 2"),
    ('tuple a call returns indexed by a variable', "[a, w[k - 1]] = g(a, w[k])", "z = g(a, w[k])\n        y = z[k]"),
    ('tuple a call returns indexed out of range', "[a, w[k - 1]] = g(a, w[k])", "z = g(a, w[k])\n        y = z[2]"),
    ('tuple a call returns sliced', "[a, w[k - 1]] = g(a, w[k])", "z = g(a, w[k])\n        y = z[0:1]"),
    ('tuple name rebound to an array', "[a, w[k - 1]] = g(a, w[k])", "z = g(a, w[k])\n        z = a"),
    ('tuple name is a parameter', "[a, w[k - 1]] = g(a, w[k])", "e = g(a, w[k])"),
    ('call as an expression statement', "[a, w[k - 1]] = g(a, w[k])", "g(a, w[k])"),
    ('call result unpacked into one target', "[a, w[k - 1]] = g(a, w[k])", "[a] = g(a, w[k])"),
    ('nested unpacking', "[a, w[k - 1]] = g(a, w[k])", "[a, [z, w[k - 1]]] = g(a, w[k])"),
    ('call result stored into a slice', "[a, w[k - 1]] = g(a, w[k])", "[a, w[0:1]] = g(a, w[k])"),
    ('call result bound to the matrix', "[a, w[k - 1]] = g(a, w[k])", "[a, U] = g(a, w[k])"),
    ('call used inside an expression', "[a, w[k - 1]] = g(a, w[k])", "a = g(a, w[k])[0]"),
    ('recursive callee', "    b = a[1:]", "    [b, z] = g(a, e)"),
    ('callee stores into its parameter', "    b = a[1:]", "    a[0] = 1\n    b = a[1:]"),
    ('callee outside the accepted subset', "    c = None", "    c = None\n    while False:\n        pass"),
    ('callee returns a 2-D array that the caller stores into an array', "    return b, c", "    V = numpy.zeros((2, 2))\n    return b, V"),
    ('callee rebound at module level', "def f(a, e):", "g = len\ndef f(a, e):"),
    ('store through a call result that may alias the argument', "        U[:, k] =", "        a[0] = 1\n        U[:, k] ="),
    ('zero-list repetition outside concatenate', "    U[0, 0] = 1", "    z = [0] * p\n    U[0, 0] = 1"),
    ('repetition of a list of ones', "[0] * (p - k)", "[1] * (p - k)"),
    ('repetition of a two-element list', "[0] * (p - k)", "[0, 0] * (p - k)"),
    ('repetition of a float-zero list', "[0] * (p - k)", "[0.] * (p - k)"),
    ('abs without a square', "abs(a[0] ** 2)", "abs(a[0])"),
    ('abs of a cube', "abs(a[0] ** 2)", "abs(a[0] ** 3)"),
]


# T6 (the wrappers): calls of functions of OTHER modules of the package resolved through the imports, keyword / omitted arguments, a callee with
# hidden oracle parameters, a call that returns one value, a name bound to the tuple a call returns, a function-level import, NotImplementedError
SELFTEST3_OK = {
    '__init__': """
from .correlation import *
from .modh import *
from .modf import *
""",
    'correlation': """
import numpy
__all__ = ['CORRELATION']
def pylab_rms_flat(a):
    return 1
def CORRELATION(x, m=None, norm='biased'):
    x = numpy.array(x)
    if norm == 'coeff':
        x = x / pylab_rms_flat(x)
    return x
""",
    'modh': """
import numpy
__all__ = ['h', 'h1']
def h(a, e=None, flag=True):
    U = numpy.zeros((2, 2))
    U[0, 0] = a[0]
    b = a[1:]
    return b, U, e
def h1(a, n=2):
    b = a[0:n]
    return b
""",
    'modf': """
import numpy
__all__ = ['f']
from .modh import h, h1
from spectrum.correlation import CORRELATION
import spectrum.modh as mh
from spectrum import modh
def f(x, n, e=None):
    from .modh import h1 as hh
    r = CORRELATION(x, m=n)
    b, V, c = h(r, flag=False)
    t = mh.h(b, e)
    d = modh.h1(t[0])
    q = hh(d, 1)
    if n <= 0:
        raise NotImplementedError
    return q, t[2], c
""",
}
SELFTEST3_BAD = [           # (what, module, old, new)
    ('unknown keyword argument (other module)', 'modf', "h(r, flag=False)", "h(r, flg=False)"),
    ('argument given twice (other module)', 'modf', "h(r, flag=False)", "h(r, a=r)"),
    ('keyword arguments out of parameter order (other module)', 'modf', "h(r, flag=False)", "h(flag=False, a=r)"),
    ('missing argument (other module)', 'modf', "h(r, flag=False)", "h(flag=False)"),
    ('**kwargs (other module)', 'modf', "h(r, flag=False)", "h(r, **x)"),
    ('starred argument (other module)', 'modf', "h(r, flag=False)", "h(*r)"),
    ('too many arguments (other module)', 'modf', "h(r, flag=False)", "h(r, None, False, 1)"),
    ('tuple name used as a value', 'modf', "    d = modh.h1(t[0])", "    d = modh.h1(t[0])\n    z = t"),
    ('tuple name indexed by a variable', 'modf', "modh.h1(t[0])", "modh.h1(t[n])"),
    ('tuple name indexed out of range', 'modf', "t[2], c", "t[3], c"),
    ('tuple name rebound', 'modf', "    d = modh.h1(t[0])", "    t = x\n    d = modh.h1(t[0])"),
    ('tuple name sliced', 'modf', "modh.h1(t[0])", "modh.h1(t[0:1])"),
    ('2-D component of a returned tuple is read', 'modf', "t[2], c", "t[1], c"),
    ('2-D array returned by a callee bound to a name that is read', 'modf', "return q, t[2], c", "return q, t[2], V"),
    ('2-D array returned by a callee stored into an array', 'modf', "b, V, c = h(", "b, x[0], c = h("),
    ('tuple passed to a call', 'modf', "d = modh.h1(t[0])", "d = modh.h(t[0])"),
    ('call inside an expression', 'modf', "q = hh(d, 1)", "q = hh(d, 1) * 2"),
    ('call statement of a callee that returns a tuple (other module)', 'modf', "    q = hh(d, 1)", "    mh.h(d)\n    q = d"),
    ('call inside a return', 'modf', "return q, t[2], c", "return hh(q), t[2], c"),
    ('function that the module does not define', 'modf', "mh.h(b, e)", "mh.nothere(b, e)"),
    ('module that the package does not have', 'modf', "import spectrum.modh as mh", "import spectrum.nomod as mh"),
    ('module name rebound', 'modf', "import spectrum.modh as mh", "import spectrum.modh as mh\nmh = None"),
    ('imported function rebound at module level', 'modf', "from .modh import h, h1", "from .modh import h, h1\nh = len"),
    ('imported function rebound by a second import', 'modf', "from .modh import h, h1", "from .modh import h, h1\nfrom .correlation import CORRELATION as h"),
    ('imported function rebound through a global declaration', 'modf', "def f(x, n, e=None):", "def zz():\n    global h\n    h = len\ndef f(x, n, e=None):"),
    ('star import next to the imported function', 'modf', "from .modh import h, h1", "from .modh import h, h1\nfrom os.path import *"),
    ('package attribute rebound by __init__', '__init__', "from .modf import *", "from .modf import *\nmodh = None"),
    ('package attribute rebound by a star export', 'correlation', "__all__ = ['CORRELATION']", "__all__ = ['CORRELATION', 'modh']"),
    ('package attribute rebound by a module without __all__', 'correlation', "__all__ = ['CORRELATION']\n", "def modh():\n    pass\n"),
    ('function-level import after a statement', 'modf', "    from .modh import h1 as hh\n    r = CORRELATION(x, m=n)", "    r = CORRELATION(x, m=n)\n    from .modh import h1 as hh"),
    ('function-level import from outside the package', 'modf', "    from .modh import h1 as hh", "    from os import getcwd as hh"),
    ('function-level plain import', 'modf', "    from .modh import h1 as hh", "    from .modh import h1 as hh\n    import os"),
    ('function-level import of a name that is assigned', 'modf', "    q = hh(d, 1)", "    q = hh(d, 1)\n    hh = 1"),
    ('function-level import of a name the module does not define', 'modf', "    from .modh import h1 as hh", "    from .modh import h2 as hh"),
    ('function-level star import', 'modf', "    from .modh import h1 as hh", "    from .modh import *"),
    ('relative import of level 2', 'modf', "from .modh import h, h1", "from ..modh import h, h1"),
    ('callee (other module) outside the accepted subset', 'modh', "    b = a[0:n]", "    b = a[0:n]\n    while False:\n        pass"),
    ('callee (other module) stores into its parameter', 'modh', "    b = a[0:n]", "    a[0] = 1\n    b = a[0:n]"),
    ('callee (other module) is decorated', 'modh', "def h1(a, n=2):", "@staticmethod\ndef h1(a, n=2):"),
    ('callee (other module) defined twice', 'modh', "def h1(a, n=2):", "def h1(a):\n    return a\ndef h1(a, n=2):"),
    ('recursion through another module', 'modh', "    b = a[0:n]\n", "    from .modf import f\n    b = a[0:n]\n    q, w, z = f(b, n)\n"),
    ('callee returns different numbers of values', 'modh', "    return b, U, e", "    if flag:\n        return b\n    return b, U, e"),
    ('one-value call of a callee that returns a 2-D array', 'modh', "    b = a[0:n]\n    return b", "    b = numpy.zeros((2, 2))\n    return b"),
    ('store through a call result that may alias the argument (other module)', 'modf', "    t = mh.h(b, e)", "    b[0] = 1\n    t = mh.h(b, e)"),
    ('store through a component of a tuple name (T10)', 'modf', "    d = modh.h1(t[0])", "    d = t[0]\n    d[0] = 1\n    d = modh.h1(t[0])"),
    ('store through a one-value call result', 'modf', "    q = hh(d, 1)", "    q = hh(d, 1)\n    q[0] = 1"),
    ('unknown exception class raised', 'modf', "raise NotImplementedError", "raise KeyError"),
    ('oracle of the callee called in an unexpected shape', 'correlation', "pylab_rms_flat(x)", "pylab_rms_flat(x, 1)"),
    ('callee calls an unknown function', 'correlation', "x = numpy.array(x)", "x = numpy.array(other(x))"),
]


# T7 (the FFT-based kernels): fft / rfft over the hidden twiddle parameter, fftshift inside a callee imported in a block, max / mean of an array,
# slice stores, the Window and xcorr oracles, numpy.pi, a dict default, a package constant as a default, a call statement, SpectrumError,
# type(x) != int, an untranslated branch
SELFTEST4_SPEC = dict(module='modk', oracle_calls=('xc',), unsupported_if=('x.ndim == 2',))
SELFTEST4_OK = {
    '__init__': """
default_N = 8
from .errors import *
from .tools import *
from .window import *
from .correlation import *
from .modk import *
""",
    'errors': """
__all__ = ['check']
class SpectrumError(Exception):
    pass
class SpectrumOrder(SpectrumError):
    pass
def check(n, name="x"):
    if n < 0:
        raise SpectrumOrder
    if type(n) != int:
        raise TypeError("%s bad" % name)
    return True
""",
    'tools': """
import numpy as np
__all__ = ['shift']
def shift(d):
    return np.fft.fftshift(d)
""",
    'window': """
__all__ = ['Window']
class Window(object):
    pass
""",
    'correlation': """
__all__ = ['xc']
def xc(a, b, maxlags=None):
    return a, b
""",
    'modk': """
import numpy as np
from numpy.fft import fft, rfft
from spectrum import errors
from spectrum import default_N
from .window import Window
from .correlation import xc
__all__ = ['f']
def f(x, lag, n=default_N, wname='hamming', wp={}, norm=False, sides='default'):
    errors.check(n)
    x = np.array(x)
    w = Window(2*lag+1, wname, **wp)
    w = w.data[lag+1:]
    r, _l = xc(x, x, maxlags=lag)
    psd = np.zeros(n, dtype=complex)
    psd[0] = r[0]
    psd[1:lag+1] = r[1:] * w
    psd[-1:n-lag-1:-1] = r[1:].conjugate() * w
    if x.ndim == 2:
        q = x.shape
    m = np.mean(x, axis=0)
    s = abs(fft(psd, n))**2. / x.shape[0] - m
    t = rfft(psd, n, axis=-1)
    s = np.real(s)
    if sides != 'default':
        from . import tools
        s = tools.shift(s)
    if norm == True:
        s /= max(s)
    return s * 2 * np.pi, t
""",
}
SELFTEST4_BAD = [           # (what, module, old, new)
    ('fft along axis 1', 'modk', "rfft(psd, n, axis=-1)", "rfft(psd, n, axis=1)"),
    ('fft with a norm keyword', 'modk', "rfft(psd, n, axis=-1)", "rfft(psd, n, norm='ortho')"),
    ('fft with three positional arguments', 'modk', "fft(psd, n))", "fft(psd, n, 0))"),
    ('fft rebound at module level', 'modk', "from numpy.fft import fft, rfft", "from numpy.fft import fft, rfft\nfft = len"),
    ('fft of another package', 'modk', "from numpy.fft import fft, rfft", "from scipy.fft import fft, rfft"),
    ('inverse transform', 'modk', "abs(fft(psd, n))", "abs(ifft(psd, n))"),
    ('fft in attribute form', 'modk', "abs(fft(psd, n))", "abs(np.fft.fft(psd, n))"),
    ('fft as a local name', 'modk', "    x = np.array(x)", "    x = np.array(x)\n    fft = x"),
    ('fft inside an embedded callee', 'tools', "import numpy as np\n__all__ = ['shift']\ndef shift(d):\n    return np.fft.fftshift(d)",
     "import numpy as np\nfrom numpy.fft import fft\n__all__ = ['shift']\ndef shift(d):\n    return fft(d)"),
    ('fftshift along given axes', 'tools', "np.fft.fftshift(d)", "np.fft.fftshift(d, axes=0)"),
    ('inverse fftshift', 'tools', "np.fft.fftshift(d)", "np.fft.ifftshift(d)"),
    ('max with a key', 'modk', "max(s)", "max(s, key=abs)"),
    ('numpy.max', 'modk', "max(s)", "np.max(s)"),
    ('max of a list display', 'modk', "max(s)", "max([1., 2.])"),
    ('mean with a dtype', 'modk', "np.mean(x, axis=0)", "np.mean(x, axis=0, dtype=float)"),
    ('median', 'modk', "np.mean(x, axis=0)", "np.median(x)"),
    ('slice store into an array that may be shared', 'modk', "    psd[0] = r[0]", "    r[0:1] = w\n    psd[0] = r[0]"),
    ('slice store through a slice view', 'modk', "    psd[0] = r[0]", "    v = psd[1:]\n    v[0:1] = w\n    psd[0] = r[0]"),
    ('augmented slice store', 'modk', "psd[1:lag+1] = r[1:] * w", "psd[1:lag+1] += r[1:] * w"),
    ('slice store of a Python list', 'modk', "psd[1:lag+1] = r[1:] * w", "psd[1:lag+1] = [1, 2]"),
    ('2-D slice store', 'modk', "psd[1:lag+1] = r[1:] * w", "psd[1:lag+1, 0] = r[1:] * w"),
    ('Window object kept', 'modk', "    w = w.data[lag+1:]", "    v = w.data[lag+1:]\n    w = v"),
    ('Window object read otherwise than as .data', 'modk', "w = w.data[lag+1:]", "w = w.data[lag+1:] * w.N"),
    ('Window constructor inside an expression', 'modk', "    w = Window(2*lag+1, wname, **wp)\n    w = w.data[lag+1:]", "    w = Window(2*lag+1, wname, **wp).data[lag+1:]"),
    ('Window length computed by a call', 'modk', "Window(2*lag+1,", "Window(len(x),"),
    ('Window with ** of an expression', 'modk', "**wp)", "**dict(a=1))"),
    ('Window with a third positional argument', 'modk', "wname, **wp)", "wname, 3, **wp)"),
    ('.data of an array', 'modk', "    m = np.mean", "    zz = x.data\n    m = np.mean"),
    ('Window class rebound', 'modk', "from .window import Window", "from .window import Window\nWindow = len"),
    ('the dict-default parameter is read', 'modk', "    x = np.array(x)", "    x = np.array(x)\n    k2 = wp"),
    ('non-empty dict default', 'modk', "wp={}", "wp={'a': 1}"),
    ('oracle call with an expression argument', 'modk', "xc(x, x, maxlags=lag)", "xc(x, x[1:], maxlags=lag)"),
    ('oracle call inside an expression', 'modk', "r, _l = xc(x, x, maxlags=lag)", "r = xc(x, x, maxlags=lag)[0]"),
    ('oracle call stored into an array', 'modk', "r, _l = xc(x, x, maxlags=lag)", "r, x[0] = xc(x, x, maxlags=lag)"),
    ('oracle that is not a function of the package', 'modk', "from .correlation import xc", "from os.path import join as xc"),
    ('block import read before the import', 'modk', "        from . import tools\n        s = tools.shift(s)", "        s = tools.shift(s)\n        from . import tools"),
    ('block import read outside its block', 'modk', "    if norm == True:", "    s = tools.shift(s)\n    if norm == True:"),
    ('block import of a name that is assigned', 'modk', "    if norm == True:", "    tools = 1\n    if norm == True:"),
    ('block import from outside the package', 'modk', "        from . import tools", "        import os as tools"),
    ('block import of a module the package does not have', 'modk', "        from . import tools\n        s = tools.shift(s)", "        from . import nomod\n        s = nomod.shift(s)"),
    ('block-imported module rebound by __init__', '__init__', "from .modk import *", "from .modk import *\ntools = None"),
    ('in-place division of a view of another array', 'modk', "    s = np.real(s)", "    s = np.real(t)"),
    ('in-place division after a callee that returns its argument', 'tools', "return np.fft.fftshift(d)", "return d"),
    ('exception class not derived from SpectrumError', 'errors', "class SpectrumOrder(SpectrumError):", "class SpectrumOrder(object):"),
    ('exception class defined twice', 'errors', "def check(", "class SpectrumOrder(KeyError):\n    pass\ndef check("),
    ('type test against float', 'errors', "type(n) != int", "type(n) != float"),
    ('isinstance test', 'errors', "type(n) != int", "not isinstance(n, int)"),
    ('package constant exported by a star import', 'tools', "__all__ = ['shift']", "__all__ = ['shift', 'default_N']"),
    ('package constant assigned twice', '__init__', "default_N = 8", "default_N = 8\ndefault_N = 9"),
    ('package constant not a literal', '__init__', "default_N = 8", "default_N = 4 + 4"),
    ('package constant rebound in the module', 'modk', "from spectrum import default_N", "from spectrum import default_N\ndefault_N = 3"),
    ('default name imported from a submodule', 'modk', "from spectrum import default_N", "from .tools import shift as default_N"),
    ('test named by the spec not found', 'modk', "if x.ndim == 2:", "if x.ndim >= 2:"),
    ('x.shape[1]', 'modk', "x.shape[0]", "x.shape[1]"),
    ('x.shape as a value', 'modk', "/ x.shape[0]", "/ x.shape"),
    ('numpy.e', 'modk', "np.pi", "np.e"),
    ('call statement of an unknown function', 'modk', "errors.check(n)", "errors.nothere(n)"),
    ('call statement of a builtin', 'modk', "errors.check(n)", "print(n)"),
]


# T10 (arma_estimate): a name bound to the tuples TWO calls return (an embedded callee returning 3 values, an ORACLE call returning 2), read as
# res[0]; oracle arguments of the form <name>.copy(); the aliasing of call results bound to a name
SELFTEST5_SPEC = dict(module='moda', oracle_calls=('lsq',))
SELFTEST5_OK = {
    '__init__': """
from .solv import *
from .moda import *
""",
    'solv': """
import numpy
__all__ = ['fast', 'lsq']
def fast(y, p):
    a = numpy.zeros(len(y), dtype=complex)
    e = 1.
    b = numpy.zeros(len(y), dtype=complex)
    return a, e, b
def lsq(y, p):
    return y, 0.
""",
    'moda': """
import numpy as np
from .solv import fast, lsq
__all__ = ['f']
def f(x, p):
    y = np.zeros(len(x), dtype=complex)
    y.resize(4, refcheck=False)
    if p <= 2:
        res = fast(y.copy(), p)
        a = res[0][0:p]
    else:
        res = lsq(y.copy(), p)
        a = res[0]
    y.resize(len(x) - p, refcheck=False)
    return a, y
""",
}
SELFTEST5_BAD = [           # (what, module, old, new)
    ('tuple name of mixed lengths indexed at the shortest length', 'moda', "        a = res[0]\n", "        a = res[2]\n"),
    ('tuple name of mixed lengths indexed from the end', 'moda', "res[0][0:p]", "res[-3][0:p]"),
    ('tuple name of mixed lengths used as a value', 'moda', "        a = res[0]\n", "        a = res\n"),
    ('oracle call with an arithmetic argument', 'moda', "lsq(y.copy(), p)", "lsq(y.copy() * 2, p)"),
    ('oracle call with a slice view as argument', 'moda', "lsq(y.copy(), p)", "lsq(y[0:2], p)"),
    ('oracle call with copy(order)', 'moda', "lsq(y.copy(), p)", "lsq(y.copy('C'), p)"),
    ('oracle call with a keyword expression', 'moda', "lsq(y.copy(), p)", "lsq(y.copy(), p=p + 1)"),
    ('oracle bound to a name returns different numbers of values', 'solv', "    return y, 0.", "    if p:\n        return y\n    return y, 0."),
    ('oracle bound to a tuple name returns one value', 'solv', "    return y, 0.", "    return y"),
    ('oracle bound to a name is not a function of the package', 'moda', "from .solv import fast, lsq", "from .solv import fast\nfrom os.path import join as lsq"),
    ('oracle bound to a name is rebound at module level', 'moda', "from .solv import fast, lsq", "from .solv import fast, lsq\nlsq = len"),
    ('oracle bound to a name is defined twice', 'solv', "def lsq(y, p):", "def lsq(y):\n    return y, 1.\ndef lsq(y, p):"),
    ('oracle function the module does not define', 'solv', "def lsq(y, p):", "def lsq2(y, p):"),
    ('resize after the array itself was handed to a callee bound to a name', 'moda', "res = fast(y.copy(), p)", "res = fast(y, p)"),
    ('resize after the array itself was handed to an oracle bound to a name', 'moda', "res = lsq(y.copy(), p)", "res = lsq(y, p)"),
    ('store through a component of a tuple name', 'moda', "        a = res[0]\n", "        a = res[0]\n        a[0] = 1\n"),
    ('in-place update of a component of a tuple name', 'moda', "        a = res[0]\n", "        a = res[0]\n        a *= 2\n"),
    ('oracle result bound to a name that is also a list', 'moda', "        a = res[0]\n", "        a = res[0]\n        res.append(1)\n"),
    ('tuple name rebound to an array', 'moda', "        a = res[0]\n", "        a = res[0]\n        res = y\n"),
]


# T10 (lpc): ifft, `from numpy import real`, tools.nextpow2 as an IR primitive (its text is verified), 2**nextpow2(..), in-place resize of a parameter the
# spec declares the function's own
SELFTEST6_SPEC = dict(module='modl', own_params=('x',))
SELFTEST6_OK = {
    '__init__': """
from .tools import *
from .modl import *
""",
    'tools': """
import numpy as np
from numpy import ceil, log2
__all__ = ['nextpow2']
def nextpow2(x):
    \"\"\"doc\"\"\"
    res = ceil(log2(x))
    return res.astype('int')
""",
    'modl': """
from numpy.fft import fft, ifft
from .tools import nextpow2
from numpy import real
__all__ = ['f']
def f(x, y, N=None):
    m = len(x)
    if N is not None:
        x.resize(N+1)
    X = fft(x, 2**nextpow2(2.*len(x)-1))
    R = real(ifft(abs(X)**2))
    R = R/(m-1.)
    return R, y
""",
}
SELFTEST6_BAD = [           # (what, module, old, new)
    ('nextpow2 with another text', 'tools', "res = ceil(log2(x))", "res = ceil(log2(x)) + 1"),
    ('nextpow2 with a second statement', 'tools', "    res = ceil(log2(x))", "    x = abs(x)\n    res = ceil(log2(x))"),
    ('nextpow2 with a default argument', 'tools', "def nextpow2(x):", "def nextpow2(x=1):"),
    ('nextpow2 decorated', 'tools', "def nextpow2(x):", "@staticmethod\ndef nextpow2(x):"),
    ('nextpow2 over a rebound ceil', 'tools', "from numpy import ceil, log2", "from numpy import ceil, log2\nceil = abs"),
    ('nextpow2 over math.log2', 'tools', "from numpy import ceil, log2", "from numpy import ceil\nfrom math import log2"),
    ('nextpow2 over a renamed numpy function', 'tools', "from numpy import ceil, log2", "from numpy import ceil, log10 as log2"),
    ('nextpow2 defined twice', 'tools', "def nextpow2(x):", "def nextpow2(x, y):\n    return x\ndef nextpow2(x):"),
    ('nextpow2 rebound in the calling module', 'modl', "from .tools import nextpow2", "from .tools import nextpow2\nnextpow2 = len"),
    ('nextpow2 of a non-integer literal', 'modl', "nextpow2(2.*len(x)-1)", "nextpow2(2.5*len(x)-1)"),
    ('nextpow2 of a quotient', 'modl', "nextpow2(2.*len(x)-1)", "nextpow2(len(x)/2)"),
    ('nextpow2 of len of an expression', 'modl', "nextpow2(2.*len(x)-1)", "nextpow2(2.*len(x[1:])-1)"),
    ('nextpow2 with two arguments', 'modl', "nextpow2(2.*len(x)-1)", "nextpow2(2.*len(x)-1, 2)"),
    ('power of three', 'modl', "2**nextpow2(", "3**nextpow2("),
    ('power of two of a name', 'modl', "2**nextpow2(2.*len(x)-1)", "2**m"),
    ('power of two of an expression over nextpow2', 'modl', "2**nextpow2(2.*len(x)-1)", "2**(nextpow2(2.*len(x)-1) + 1)"),
    ('float base', 'modl', "2**nextpow2(", "2.**nextpow2("),
    ('real rebound', 'modl', "from numpy import real", "from numpy import real\nreal = abs"),
    ('another numpy function under the name real', 'modl', "from numpy import real", "from numpy import imag as real"),
    ('real imported from elsewhere', 'modl', "from numpy import real", "from cmath import phase as real"),
    ('real with two arguments', 'modl', "real(ifft(abs(X)**2))", "real(ifft(abs(X)**2), 1)"),
    ('ifft with a norm keyword', 'modl', "ifft(abs(X)**2)", "ifft(abs(X)**2, norm='forward')"),
    ('ifft rebound', 'modl', "from numpy.fft import fft, ifft", "from numpy.fft import fft, ifft\nifft = fft"),
    ('irfft', 'modl', "ifft(abs(X)**2)", "irfft(abs(X)**2)"),
    ('resize of a parameter that is not the function\'s own', 'modl', "x.resize(N+1)", "y.resize(N+1)"),
    ('resize of the own parameter after it got a second name', 'modl', "        x.resize(N+1)", "        z = x\n        x.resize(N+1)"),
    ('resize of the own parameter through a view', 'modl', "        x.resize(N+1)", "        z = x[1:]\n        z.resize(N+1)"),
    ('resize to a shape', 'modl', "x.resize(N+1)", "x.resize((N+1, 1))"),
]


def translator_selftest():
    """the names of the self-test edits that the translator wrongly accepts (must be empty), or a failure of the base case"""
    spec = dict(module='selftest')

    def tr(src):
        tree = ast.parse(src)
        fn = [n for n in tree.body if isinstance(n, ast.FunctionDef)][0]
        return FnTranslator(tree, fn, spec, 'f').translate()
    def tr2(src):
        tree = ast.parse(src)
        return FnTranslator(tree, find_function(tree, 'f'), spec, 'f').translate()
    def tr3(srcs):
        ld = Loader(srcs, only=True)
        tree = ld.tree('modf')
        return FnTranslator(tree, find_function(tree, 'f'), spec, 'f', modname='modf', loader=ld).translate()
    def tr4(srcs):
        ld = Loader(srcs, only=True)
        tree = ld.tree('modk')
        return FnTranslator(tree, find_function(tree, 'f'), SELFTEST4_SPEC, 'f', modname='modk', loader=ld).translate()
    def tr5(srcs):
        ld = Loader(srcs, only=True)
        tree = ld.tree('moda')
        return FnTranslator(tree, find_function(tree, 'f'), SELFTEST5_SPEC, 'f', modname='moda', loader=ld).translate()
    def tr6(srcs):
        ld = Loader(srcs, only=True)
        tree = ld.tree('modl')
        return FnTranslator(tree, find_function(tree, 'f'), SELFTEST6_SPEC, 'f', modname='modl', loader=ld).translate()
    try:
        p6 = tr6(SELFTEST6_OK)
        if p6.oracle_params != [TW_KEY] or any(p6.body.count(k) != c for k, c in (('EFft ', 1), ('EIfft ', 1), ('ENextPow2 ', 1), ('EPow2 ', 1), ('EReal ', 1), ('SResize ', 1))):
            return ['base case 6: unexpected translation']
        p5 = tr5(SELFTEST5_OK)
        if len(p5.oracle_params) != 2 or p5.body.count('SCall [') != 1 or p5.body.count('SResize ') != 2 or p5.body.count('ECopy ') != 2:
            return ['base case 5: unexpected translation']
        tr(SELFTEST_OK)
        tr2(SELFTEST2_OK)
        p3 = tr3(SELFTEST3_OK)
        if len(p3.oracle_params) != 1 or p3.body.count('SCall1 ') != 3 or p3.body.count('SCall [') != 2:
            return ['base case 3: unexpected translation']
        p4 = tr4(SELFTEST4_OK)
        if len(p4.oracle_params) != 5 or p4.oracle_params[-1] != TW_KEY or any(p4.body.count(k) != c for k, c in (
                ('EFft ', 1), ('ERfft ', 1), ('SStoreSlice ', 2), ('SUnsupported', 1), ('EMaxArr ', 1), ('EMean ', 1), ('EFftShift ', 1),
                ('SRaise SpectrumError', 1), ('EIsInt ', 1), ('SCall1 ', 2), ('ENdim ', 1))):
            return ['base case 4: unexpected translation']
    except Untranslatable as e:
        return ['base case rejected: %s' % e]
    bad = []
    for what, mod, old, new in SELFTEST3_BAD:
        assert old in SELFTEST3_OK[mod], what
        try:
            tr3(dict(SELFTEST3_OK, **{mod: SELFTEST3_OK[mod].replace(old, new, 1)}))
            bad.append(what)
        except Untranslatable:
            pass
        except SyntaxError as e:     # pragma: no cover
            bad.append('%s (self-test edit does not parse: %s)' % (what, e))
    for what, mod, old, new in SELFTEST4_BAD:
        assert old in SELFTEST4_OK[mod], what
        try:
            tr4(dict(SELFTEST4_OK, **{mod: SELFTEST4_OK[mod].replace(old, new, 1)}))
            bad.append(what)
        except Untranslatable:
            pass
        except SyntaxError as e:     # pragma: no cover
            bad.append('%s (self-test edit does not parse: %s)' % (what, e))
    for what, mod, old, new in SELFTEST6_BAD:
        assert old in SELFTEST6_OK[mod], what
        try:
            tr6(dict(SELFTEST6_OK, **{mod: SELFTEST6_OK[mod].replace(old, new, 1)}))
            bad.append(what)
        except Untranslatable:
            pass
        except SyntaxError as e:     # pragma: no cover
            bad.append('%s (self-test edit does not parse: %s)' % (what, e))
    for what, mod, old, new in SELFTEST5_BAD:
        assert old in SELFTEST5_OK[mod], what
        try:
            tr5(dict(SELFTEST5_OK, **{mod: SELFTEST5_OK[mod].replace(old, new, 1)}))
            bad.append(what)
        except Untranslatable:
            pass
        except SyntaxError as e:     # pragma: no cover
            bad.append('%s (self-test edit does not parse: %s)' % (what, e))
    for base, edits, run in ((SELFTEST_OK, SELFTEST_BAD, tr), (SELFTEST2_OK, SELFTEST2_BAD, tr2)):
        for what, old, new in edits:
            assert old in base, what
            try:
                run(base.replace(old, new, 1))
                bad.append(what)
            except Untranslatable:
                pass
            except SyntaxError as e:     # pragma: no cover
                bad.append('%s (self-test edit does not parse: %s)' % (what, e))
    return bad


# ============================================================================================== the tie
GEN_HEADER = """From Coq Require Import String ZArith List.
Require Import Spectrum.Model.LoopIR.
Import ListNotations.
Local Open Scope string_scope.
"""

PRE = """From Coq Require Import String QArith Qcanon.
Require Import Spectrum.Theory.Ops Spectrum.Theory.Vec Spectrum.Model.LoopIR Spectrum.Model.LoopIRTie Spectrum.Instances.QcC.
Import ListNotations.
Local Open Scope string_scope.
Local Open Scope Z_scope.
"""


def opt(x):
    return 'None' if x is None else '(Some %s)' % x


def A_(real, v):
    return '(A %s %s)' % ('true' if real else 'false', czl(v))


def S_(z):
    return '(S_ %s)' % cz(z)


def I_(n):
    return '(I (%d))' % int(n)


def B_(b):
    return '(B %s)' % ('true' if b else 'false')


def Str_(s):
    return '(Str "%s")' % s


def lowbit(rng, n, cplx, bits=3):
    s = 1 << bits
    x = rng.integers(-s, s + 1, size=n).astype(float)
    if cplx:
        x = x + 1j * rng.integers(-s, s + 1, size=n)
    if n and not np.any(x):
        x[0] = 1
    return x


def acorr_int(x, p):
    N = len(x)
    return np.array([np.sum(x[k:] * np.conj(x[:N - k])) for k in range(p + 1)])


def exc_name(e):
    for k in ('AssertionError', 'IndexError', 'ZeroDivisionError', 'ValueError'):
        if isinstance(e, getattr(__import__('builtins'), k)):
            return k
    return None


def call_impl(f, *a, **k):
    """(outputs or None, exception-name or None)"""
    try:
        return f(*a, **k), None
    except Exception as e:              # noqa
        return None, exc_name(e) or ('other:' + type(e).__name__)


def outs(*vals):
    """implementation outputs as the list-of-lists literal of ir_close"""
    parts = []
    for v in vals:
        if v is None:
            parts.append('[]')
        elif np.ndim(v) == 0:
            parts.append('[%s]' % cz(v))
        else:
            parts.append(czl(np.asarray(v).ravel()))
    return '[' + '; '.join(parts) + ']'


class Cases:
    def __init__(self, fn):
        self.fn = fn; self.exact = []; self.meta = []; self.impl = []; self.impl_meta = []
        self.spec = []; self.spec_meta = []; self.spec_descr = ''      # exact comparison with an independent exact specification model
        self.flt = []; self.flt_meta = []                              # T7: binary64 cases (IR run vs hand model and vs the implementation)

    def add(self, text, impl=None, **meta):
        """impl = (outputs, exception-name) of the implementation on this input: recorded in the distribution only"""
        self.exact.append(text); meta['function'] = self.fn; meta['case'] = text[:1500]
        meta['implementation'] = 'not-run' if impl is None else ('returned' if impl[1] is None else 'raised:' + impl[1])
        self.meta.append(meta)

    def add_impl(self, text, **meta):
        self.impl.append(text); meta['function'] = self.fn; meta['case'] = text[:1500]; self.impl_meta.append(meta)

    def add_flt(self, text, **meta):
        self.flt.append(text); meta['function'] = self.fn; meta['case'] = text[:1500]; self.flt_meta.append(meta)

    def add_spec(self, text, **meta):
        self.spec.append(text); meta['function'] = self.fn; meta['case'] = text[:1500]; self.spec_meta.append(meta)


# ---------------------------------------------------------------- generators (one per function)
def gen_LEVINSON(rng, n, nimpl):
    from spectrum import LEVINSON
    c = Cases('LEVINSON')
    kinds = ['acorr', 'acorr', 'acorr', 'indef', 'allow', 'order_default', 'order_low', 'order_high', 'negdef']
    i = 0
    while len(c.exact) < n:
        kind = kinds[i % len(kinds)]; i += 1
        cplx = bool(rng.integers(0, 2)); p = int(rng.integers(1, 7)); N = p + int(rng.integers(2, 8))
        r = acorr_int(lowbit(rng, N, cplx), p)
        allow = None; order = p
        if kind in ('indef', 'allow'):
            j = int(rng.integers(1, p + 1)); r = r.copy(); r[j] = r[j] + (3 + rng.integers(0, 3)) * np.real(r[0])
            allow = (kind == 'allow') if rng.integers(0, 2) or kind == 'allow' else None
        if kind == 'negdef':                     # a negative definite sequence (negative zero lag, every |k| < 1)
            r = -r; allow = [None, False, True][int(rng.integers(0, 3))]
        if kind == 'order_default':
            order = None
        elif kind == 'order_low':
            order = int(rng.integers(0, p + 1)); allow = False
        elif kind == 'order_high':
            order = p + int(rng.integers(1, 3))
        tags = [False] if cplx else [True, False]
        res = call_impl(LEVINSON, r if cplx else np.real(r), order, **({} if allow is None else {'allow_singularity': allow}))
        for tag in tags:
            c.add('q_levinson prog_LEVINSON %s %s %s %s' % ('true' if tag else 'false', czl(r), opt(None if order is None else '%d%%nat' % order),
                                                            opt(None if allow is None else ('true' if allow else 'false'))),
                  impl=res, r=vlib.hexv(r), order=order, allow_singularity=allow, declared_real=tag, kind=kind)
        if len(c.impl) < nimpl and kind in ('acorr', 'order_default', 'indef', 'order_high'):
            out, ex = res
            args = '[%s; %s; %s]' % (A_(not cplx, r), 'Omit' if order is None else I_(order), 'Omit' if allow is None else B_(allow))
            if ex is not None:
                if ex in EXC:
                    c.add_impl('ir_raises (qrun prog_LEVINSON %s) %s' % (args, ex), r=vlib.hexv(r), order=order, impl_raised=ex)
            else:
                a, P, k = out
                kap = max(1.0, abs(r[0]) / max(abs(P), 1e-300))
                if kap < 1e3 and np.all(np.isfinite(a)):
                    c.add_impl('ir_close %s (qrun prog_LEVINSON %s) %s' % (tolq(1e-9 * kap), args, outs(a, P, k)), r=vlib.hexv(r), order=order)
    return c


def structured_acorr(rng, p, cplx=True):
    """positive-definite sequences whose recursion meets EXACT zeros: a scaled identity (white), correlation at even lags only,
    geometric sequences r_k = a^k (every reflection coefficient after the first is 0), a single non-zero lag"""
    kind = int(rng.integers(0, 4)); r = np.zeros(p + 1, dtype=complex); r[0] = float(rng.integers(1, 5))
    if kind == 1:
        for k in range(2, p + 1, 2):
            r[k] = r[0] * (0.5 ** (k // 2)) * (1j if cplx and rng.integers(0, 2) else 1) / 2
    elif kind == 2:
        a = [0.5, -0.5, 0.5j, -0.25j, 0.25][int(rng.integers(0, 5 if cplx else 2))]
        r = r[0] * np.array([a ** k for k in range(p + 1)], dtype=complex)
    elif kind == 3 and p >= 2:
        r[int(rng.integers(2, p + 1))] = r[0] / 4
    return r


def herm_inputs(rng):
    p = int(rng.integers(1, 6)); N = p + int(rng.integers(3, 8))
    r = acorr_int(lowbit(rng, N, True), p)
    if rng.integers(0, 4) == 0 and p >= 2:
        return p, structured_acorr(rng, p), lowbit(rng, p + 1, True)
    if rng.integers(0, 4) == 0:
        r = r.copy(); r[1] += 4 * np.real(r[0])
    Z = lowbit(rng, p + 1, True)
    return p, r, Z


def gen_HERMTOEP(rng, n, nimpl):
    from spectrum.toeplitz import HERMTOEP
    c = Cases('HERMTOEP')
    while len(c.exact) < n:
        p, r, Z = herm_inputs(rng)
        T0 = complex(np.real(r[0])); T = r[1:]
        sp = len(c.exact) % 12
        if sp == 10:
            T0 = 0j
        if sp == 11:
            T = T[:0]; Z = Z[:1]
        res = call_impl(HERMTOEP, T0.real, T, Z)
        c.add('q_hermtoep prog_HERMTOEP %s %s %s' % (cz(T0), czl(T), czl(Z)), impl=res, T0=str(T0), T=vlib.hexv(T), Z=vlib.hexv(Z))
        if len(c.impl) < nimpl:
            out, ex = res
            args = '[%s; %s; %s]' % (S_(T0), A_(False, T), A_(False, Z))
            if ex is not None:
                if ex in EXC:
                    c.add_impl('ir_raises (qrun prog_HERMTOEP %s) %s' % (args, ex), T0=str(T0), T=vlib.hexv(T), Z=vlib.hexv(Z), impl_raised=ex)
            else:
                kap = np.linalg.cond(toeplitz_matrix(np.concatenate(([T0], T))))
                if kap < 1e3:
                    c.add_impl('ir_close %s (qrun prog_HERMTOEP %s) %s' % (tolq(1e-9 * kap), args, outs(out)), T0=str(T0), T=vlib.hexv(T), Z=vlib.hexv(Z))
    return c


def toeplitz_matrix(r):
    p = len(r)
    T = np.empty((p, p), dtype=complex)
    for i in range(p):
        for j in range(p):
            T[i, j] = r[i - j] if i >= j else np.conj(r[j - i])
    return T


def gen_toeplitz(T0, TC, TR):
    M = len(TC) + 1
    A = np.empty((M, M), dtype=complex)
    for i in range(M):
        for j in range(M):
            A[i, j] = T0 if i == j else (TC[i - j - 1] if i > j else TR[j - i - 1])
    return A


def gen_TOEPLITZ(rng, n, nimpl):
    from spectrum.toeplitz import TOEPLITZ
    c = Cases('TOEPLITZ')
    while len(c.exact) < n:
        p = int(rng.integers(1, 6))
        T0 = complex(8 + rng.integers(0, 8)); TC = lowbit(rng, p, True, bits=2); TR = lowbit(rng, p, True, bits=2)
        if rng.integers(0, 3) == 0:
            TR = np.conj(TC)
        if rng.integers(0, 5) == 0:
            T0 = complex(rng.integers(1, 3))             # small diagonal: singular leading minors, the raise branch
        Z = lowbit(rng, p + 1, True)
        sp = len(c.exact) % 14
        if sp == 11:
            T0 = 0j
        if sp == 12:
            TR = TR[:-1] if p > 1 else np.concatenate((TR, TR))
        if sp == 13:
            TC = TC[:0]; TR = TR[:0]; Z = Z[:1]
        res = call_impl(TOEPLITZ, T0, TC, TR, Z)
        c.add('q_toeplitz prog_TOEPLITZ %s %s %s %s' % (cz(T0), czl(TC), czl(TR), czl(Z)), impl=res, T0=str(T0), TC=vlib.hexv(TC), TR=vlib.hexv(TR), Z=vlib.hexv(Z))
        # vs the implementation: argument checks, and well-conditioned systems with a large diagonal only (a singular leading minor is
        # decided by the sign of a rounded P in the implementation, and numpy orders COMPLEX P lexicographically where le0 reads the real part)
        if len(c.impl) < nimpl and (sp in (11, 12, 13) or (T0.real >= 8 and res[1] is None)):
            out, ex = res
            args = '[%s; %s; %s; %s]' % (S_(T0), A_(False, TC), A_(False, TR), A_(False, Z))
            if ex is not None:
                if ex in EXC:
                    c.add_impl('ir_raises (qrun prog_TOEPLITZ %s) %s' % (args, ex), T0=str(T0), TC=vlib.hexv(TC), TR=vlib.hexv(TR), Z=vlib.hexv(Z), impl_raised=ex)
            elif np.all(np.isfinite(out)):
                kap = np.linalg.cond(gen_toeplitz(T0, TC, TR))
                if kap < 1e3:
                    c.add_impl('ir_close %s (qrun prog_TOEPLITZ %s) %s' % (tolq(1e-9 * kap), args, outs(out)), T0=str(T0), TC=vlib.hexv(TC), TR=vlib.hexv(TR), Z=vlib.hexv(Z))
    return c


def poly_from_refl(rng, p):
    """a low-bit dyadic polynomial [1, a1..ap] close to the step-up of small reflection coefficients"""
    ks = (rng.integers(-6, 7, size=p) + 1j * rng.integers(-6, 7, size=p)) / 16.0
    a = np.zeros(0, dtype=complex)
    for t in ks:
        a = np.concatenate((a + t * np.conj(a[::-1]), [t]))
    a = np.array([complex(round(t.real * 64) / 64, round(t.imag * 64) / 64) for t in a])
    return np.concatenate(([1.0 + 0j], a))


def gen_levup(rng, n, nimpl):
    from spectrum.levinson import levup
    c = Cases('levup')
    while len(c.exact) < n:
        p = int(rng.integers(0, 6))
        a = poly_from_refl(rng, p)
        k = complex(rng.integers(-6, 7), rng.integers(-6, 7)) / 16.0
        e = None if len(c.exact) % 5 == 4 else float(rng.integers(1, 16)) / 4
        if len(c.exact) % 9 == 8:
            a = a.copy(); a[0] = 2
        res = call_impl(levup, a, k, e)
        c.add('q_levup prog_levup %s %s %s' % (czl(a), cz(k), opt(None if e is None else cz(e))), impl=res, a=vlib.hexv(a), k=str(k), e=e)
        if len(c.impl) < nimpl:
            out, ex = res
            args = '[%s; %s; %s]' % (A_(False, a), S_(k), 'Omit' if e is None else S_(e))
            if ex is not None:
                if ex in EXC:
                    c.add_impl('ir_raises (qrun prog_levup %s) %s' % (args, ex), a=vlib.hexv(a), impl_raised=ex)
            else:
                c.add_impl('ir_close %s (qrun prog_levup %s) %s' % (tolq(1e-10), args, outs(out[0], out[1])), a=vlib.hexv(a), k=str(k), e=e)
    return c


def gen_levdown(rng, n, nimpl):
    from spectrum.levinson import levdown
    c = Cases('levdown')
    while len(c.exact) < n:
        p = int(rng.integers(1, 7))
        a = poly_from_refl(rng, p)
        e = None if len(c.exact) % 5 == 4 else float(rng.integers(1, 16)) / 4
        sp = len(c.exact) % 11
        if sp == 9:
            a = a.copy(); a[0] = 0.5
        if sp == 10:
            a = a.copy(); a[-1] = 1
        if abs(a[-1]) >= 0.95 and sp != 10:
            continue
        res = call_impl(levdown, a, e)
        c.add('q_levdown prog_levdown %s %s' % (czl(a), opt(None if e is None else cz(e))), impl=res, a=vlib.hexv(a), e=e)
        if len(c.impl) < nimpl:
            out, ex = res
            args = '[%s; %s]' % (A_(False, a), 'Omit' if e is None else S_(e))
            if ex is not None:
                if ex in EXC:
                    c.add_impl('ir_raises (qrun prog_levdown %s) %s' % (args, ex), a=vlib.hexv(a), impl_raised=ex)
            else:
                kap = 1 / (1 - abs(a[-1]) ** 2)
                c.add_impl('ir_close %s (qrun prog_levdown %s) %s' % (tolq(1e-10 * kap * max(1, np.max(np.abs(out[0])))), args, outs(out[0], out[1])),
                           a=vlib.hexv(a), e=e)
    return c


def gen_arburg(rng, n, nimpl):
    from spectrum import arburg
    c = Cases('arburg')
    while len(c.exact) < n:
        cplx = bool(rng.integers(0, 2)); N = int(rng.integers(4, 8)); p = int(rng.integers(1, min(4, N - 2) + 1))
        x = lowbit(rng, N, cplx, bits=2)
        if np.count_nonzero(x) < 2:
            x[0] = 1; x[-1] = -2
        sp = len(c.exact) % 13
        crit = None; stop = '(@nostop QcC)'
        if sp == 3:
            p = 0
        elif sp == 4:
            p = N + 1
        elif sp == 5:
            N = min(N, 4); x = x[:N]; p = N               # the top of the admissible range (order == len(X))
        elif sp == 6:
            x = np.array([1.0, -1.0] * 3)[:N] * (1j if cplx else 1); p = min(p, 2) + 1       # perfectly predictable: rho reaches 0, raise
        elif sp in (7, 8, 9):
            crit = 'AIC'; stop = '(stop_at %d)' % int(rng.integers(1, p + 2))                  # abstract criterion: stops at a given stage (or never)
        elif sp in (10, 11):
            crit = 'FPE'; stop = '(stop_fpe %d)' % N
        elif sp == 12:
            p = -1
        tags = [False] if cplx else [True, False]
        res = call_impl(arburg, x if cplx else np.real(x), p) if crit is None else None
        for tag in tags:
            c.add('q_arburg %s prog_arburg %s %s (%d) %s' % (stop, 'true' if tag else 'false', czl(x), p, opt(None if crit is None else '"%s"' % crit)),
                  impl=res, x=vlib.hexv(x), order=p, criteria=crit, stop=stop, declared_real=tag)
        if len(c.impl) < nimpl and crit is None and sp != 6:
            out, ex = res
            args = '[%s; %s; Omit]' % (A_(not cplx, x), I_(p))
            if ex is not None:
                if ex in EXC:
                    c.add_impl('ir_raises (qrun prog_arburg %s) %s' % (args, ex), x=vlib.hexv(x), order=p, impl_raised=ex)
            else:
                a, rho, ref = out
                kap = max([1.0] + [1 / abs(1 - abs(t) ** 2) for t in ref if abs(t) != 1])
                if kap < 1e3 and np.all(np.isfinite(a)):
                    c.add_impl('ir_close %s (qrun prog_arburg %s) %s' % (tolq(1e-9 * kap * max(1, np.max(np.abs(a)))), args, outs(a, rho, ref)), x=vlib.hexv(x), order=p)
    return c


def gen_CORRELATION(rng, n, nimpl):
    from spectrum import CORRELATION
    from spectrum.correlation import pylab_rms_flat
    c = Cases('CORRELATION')
    norms = ['unbiased', 'biased', 'coeff', None, 'omit', 'unbiased', 'biased', 'coeff', None, 'foo']
    while len(c.exact) < n:
        i = len(c.exact)
        nm = norms[i % len(norms)]
        cx = bool(rng.integers(0, 2)); cy = bool(rng.integers(0, 2))
        Nx = int(rng.integers(1, 8)); Ny = Nx if rng.integers(0, 2) else int(rng.integers(1, 8))
        if i % 17 == 16:
            Nx = 100; Ny = 100 if rng.integers(0, 2) else 99; cx = cy = True       # a long record (lag sums of >= 97 products)
        x = lowbit(rng, Nx, cx, bits=2); y = lowbit(rng, Ny, cy, bits=2)
        ymode = ['given', 'given', 'none'][int(rng.integers(0, 3))]
        if ymode == 'none':
            y = None
        N = max(Nx, Ny if y is not None else Nx)
        ml = [None, int(rng.integers(0, N)), int(rng.integers(0, N)), int(rng.integers(0, N)), 0, N - 1, N + int(rng.integers(0, 2))][int(rng.integers(0, 7))]
        if N >= 99 and ml is not None:
            ml = min(ml, 2)
        if N >= 99 and ml is None:
            ml = 1
        rmsx = complex(int(rng.integers(1, 9)) / 4.0); rmsy = complex(int(rng.integers(1, 9)) / 2.0)
        nmtxt = {'omit': 'None', None: '(Some None)'}.get(nm, '(Some (Some "%s"))' % nm)
        ytxt = 'None' if y is None else '(Some (%s, %s))' % ('false' if cy else 'true', czl(y))
        xx = x if cx else np.real(x); yy = None if y is None else (y if cy else np.real(y))
        res = call_impl(CORRELATION, xx, yy, ml, **({} if nm == 'omit' else {'norm': nm}))
        c.add('q_correlation prog_CORRELATION %s %s %s %s %s %s %s' % ('false' if cx else 'true', czl(x), ytxt, opt(None if ml is None else '%d%%nat' % ml),
                                                                      nmtxt, cz(rmsx), cz(rmsy)),
              impl=res, x=vlib.hexv(x), y=None if y is None else vlib.hexv(y), maxlags=ml, norm=nm, oracle_rms=[str(rmsx), str(rmsy)])
        if len(c.impl) < nimpl and N < 50:
            out, ex = res
            # the oracle values are the implementation's own pylab_rms_flat results (exactly, as dyadic rationals)
            yz = xx if yy is None else yy
            Nn = max(len(xx), len(yz))
            rx = pylab_rms_flat(np.concatenate((xx, np.zeros(Nn - len(xx))))); ry = pylab_rms_flat(np.concatenate((yz, np.zeros(Nn - len(yz)))))
            args = '[%s; %s; %s; %s; %s; %s]' % (A_(not cx, x), 'Omit' if y is None else A_(not cy, y), 'Omit' if ml is None else I_(ml),
                                                 'Omit' if nm == 'omit' else ('NoneV' if nm is None else Str_(nm)), S_(rx), S_(ry))
            if ex is not None:
                if ex in EXC:
                    c.add_impl('ir_raises (qrun prog_CORRELATION %s) %s' % (args, ex), x=vlib.hexv(x), maxlags=ml, norm=nm, impl_raised=ex)
            elif np.all(np.isfinite(out)):
                c.add_impl('ir_close %s (qrun prog_CORRELATION %s) %s' % (tolq(1e-9), args, outs(out)), x=vlib.hexv(x), maxlags=ml, norm=nm)
    return c


def gen_minvar_psi(rng, n, nimpl):
    import spectrum.minvar                      # (the package rebinds the attribute `minvar` to the function)
    mv = sys.modules['spectrum.minvar']
    c = Cases('minvar_psi')
    while len(c.exact) < n:
        m = int(rng.integers(1, 7))
        nf = [m - 1, m, max(m, 2 * m - 2), 2 * m - 1, 2 * m, 2 * m + 1, 2 * m + 3, m + 1][len(c.exact) % 8]
        if nf < 0:
            nf = 0
        a = (rng.integers(-8, 9, size=m - 1) + 1j * rng.integers(-8, 9, size=m - 1) * int(rng.integers(0, 2))) / 8.0
        P = float(rng.integers(1, 32)) / 8
        c.add('q_minvar_psi prog_minvar_psi %d%%nat %d%%nat %s %s' % (m, nf, czl(a), cz(P)), order=m, NFFT=nf, a=vlib.hexv(a), P=P)
        if len(c.impl) < nimpl and nf >= 1:
            # the implementation's own psi: minvar is run with arburg replaced by the supplied (A, P, k) and fft observed
            seen = []
            o_ar, o_fft = mv.arburg, mv.fft
            try:
                mv.arburg = lambda X, order, _a=a, _P=P: (np.array(_a, dtype=complex), _P, np.zeros(len(_a), dtype=complex))
                mv.fft = lambda psi, nfft: (seen.append(np.array(psi)), o_fft(psi, nfft))[1]
                out, ex = call_impl(mv.minvar, np.zeros(4), m, 1.0, nf)
            finally:
                mv.arburg, mv.fft = o_ar, o_fft
            args = '[%s; %s; %s; %s]' % (I_(m), I_(nf), A_(False, a), S_(P))
            if ex is not None:
                if ex in EXC:
                    c.add_impl('ir_raises (qrun prog_minvar_psi %s) %s' % (args, ex), order=m, NFFT=nf, impl_raised=ex)
            elif len(seen) == 1:
                c.add_impl('ir_close %s (qrun prog_minvar_psi %s) %s' % (tolq(1e-10), args, outs(seen[0])), order=m, NFFT=nf, a=vlib.hexv(a), P=P)
    return c


# ---------------------------------------------------------------- Marple's fast recursions (C14)
def marple_datamat(x, p, mod):
    """rows n = p..N-1 of [x[n], .., x[n-p]]; for the modified method followed by the rows [conj x[n-p], .., conj x[n]]"""
    x = np.asarray(x); N = len(x)
    T = np.array([[x[n - j] for j in range(p + 1)] for n in range(p, N)])
    if mod:
        T = np.vstack([T, np.array([[np.conj(x[n - p + j]) for j in range(p + 1)] for n in range(p, N)])])
    return T


def marple_kappa2(x, p, mod):
    """largest squared condition number of the forward and backward regressor matrices of every order 1..p (the recursion passes through all of them)"""
    k2 = 1.0
    for q in range(1, p + 1):
        T = marple_datamat(x, q, mod)
        for Tq in (T, T[:, ::-1]):
            sv = np.linalg.svd(Tq[:, 1:], compute_uv=False)
            k2 = max(k2, np.inf if sv[-1] <= 0 else float((sv[0] / sv[-1]) ** 2))
    return k2


def marple_input(rng, i, mod):
    """(kind, x, p): low-bit dyadic records; kinds cycle so that every branch of both routines is reached in every run"""
    kinds = ['noise', 'noise', 'exp+noise', 'noise', 'scaled', 'order0', 'noise', 'short', 'degenerate', 'noise', 'exp+noise', 'toolong']
    kind = kinds[i % len(kinds)]
    cplx = bool(rng.integers(0, 2)); p = int(rng.integers(1, 5)); N = int(rng.integers(max(5, 2 * p + 1), 12))
    x = lowbit(rng, N, cplx, bits=int(rng.integers(2, 4)))
    if kind == 'exp+noise':
        zs = np.array([1, 1j, -1, -1j])[rng.permutation(4)[:p]]
        amp = rng.integers(1, 4, size=p) + 1j * rng.integers(-2, 3, size=p)
        x = sum(amp[j] * np.round(zs[j] ** np.arange(N)) for j in range(p)) + lowbit(rng, N, True, bits=1) / 4.0
        cplx = True
    elif kind == 'scaled':
        x = x * 2.0 ** int(rng.choice([-12, 16, 24]))
    elif kind == 'order0':
        p = 0
    elif kind == 'short':                       # fewer equations than the property's domain N - p >= p; N = order + 1 is the least the recursions index safely
        p = int(rng.integers(1, 4)); N = p + int(rng.integers(1, 3)); x = lowbit(rng, N, cplx, bits=2)
    elif kind == 'degenerate':                  # perfectly predictable / rank-deficient data: divisions by zero (total in IR and model), P <= 0 (ValueError of modcovar_marple)
        N = int(rng.integers(5, 9)); p = int(rng.integers(2, 4))
        x = [np.array([1.0, -1.0] * 5)[:N], np.ones(N), np.array([1.0, 1j, -1.0, -1j] * 3)[:N], np.array([1.0, 2.0, 4.0, 8.0, 16.0, 32.0, 64.0, 128.0, 256.0])[:N]][int(rng.integers(0, 4))]
        cplx = bool(np.iscomplexobj(x))
    elif kind == 'toolong':                     # order > len(x): the assertion of arcovar_marple (modcovar_marple has none: not generated for it)
        if mod:
            kind = 'noise'
        else:
            N = int(rng.integers(1, 4)); p = N + int(rng.integers(1, 3)); x = lowbit(rng, N, cplx, bits=2)
    return kind, np.asarray(x, dtype=complex) if cplx else np.asarray(x, dtype=float), p


def gen_marple(fname, mod):
    def gen(rng, n, nimpl):
        import spectrum.covar, spectrum.modcovar
        f = getattr(sys.modules['spectrum.modcovar' if mod else 'spectrum.covar'], fname)
        c = Cases(fname)
        c.spec_descr = ('IR program of %s (regenerated from the source) vs the exact least-squares model Model/Ls.v (certified solver): coefficients and per-sample '
                        'minimum%s, zero tolerance at QcC' % (fname, '' if mod else ', forward and backward'))
        i = 0
        while len(c.exact) < n:
            kind, x, p = marple_input(rng, i, mod); i += 1
            cplx = bool(np.iscomplexobj(x)); N = len(x)
            tag = 'false' if cplx else 'true'
            with np.errstate(all='ignore'):
                res = call_impl(f, np.array(x), p)
            c.add('q_%s prog_%s %s %s %d%%nat' % (fname, fname, tag, czl(x), p), impl=res, x=vlib.hexv(x), order=p, kind=kind)
            if kind in ('order0', 'degenerate', 'toolong', 'short'):
                if kind in ('order0', 'toolong') and len(c.impl) < nimpl + 2:
                    out, ex = res
                    args = '[%s; %s]' % (A_(not cplx, x), I_(p))
                    if ex is not None and ex in EXC:
                        c.add_impl('ir_raises (qrun prog_%s %s) %s' % (fname, args, ex), x=vlib.hexv(x), order=p, impl_raised=ex)
                    elif ex is None:
                        c.add_impl('ir_close %s (qrun prog_%s %s) %s' % (tolq(1e-12), fname, args, outs(*out)), x=vlib.hexv(x), order=p)
                continue
            k2 = marple_kappa2(x, p, mod)
            if not np.isfinite(k2) or k2 > 1e5:
                continue                         # (the exact case above stays; no least-squares / implementation comparison on ill-conditioned data)
            # (b) the property's clause, directly on the regenerated program
            c.add_spec('ir_%s_ls prog_%s %s %s %d%%nat' % ('mod' if mod else 'cov', fname, tag, czl(x), p), x=vlib.hexv(x), order=p, kind=kind,
                       what='IR program == exact least squares (coefficients, per-sample minimum)')
            # (c) sanity of the translation: IR run vs the implementation's floats
            out, ex = res
            if len(c.impl) < nimpl and kind != 'scaled' and ex is None and all(np.all(np.isfinite(np.asarray(v, dtype=complex))) for v in out):
                args = '[%s; %s]' % (A_(not cplx, x), I_(p))
                c.add_impl('ir_close %s (qrun prog_%s %s) %s' % (tolq(1e-9 * k2), fname, args, outs(*out)), x=vlib.hexv(x), order=p)
        return c
    return gen


# ---------------------------------------------------------------- rlevinson (C11; T5)
def stepup_exact(ks):
    """[1, a1..ap] from reflection coefficients, exactly (the ks are multiples of 1/4 and p <= 4: every coefficient is a dyadic float)"""
    a = np.zeros(0, dtype=complex)
    for t in ks:
        a = np.concatenate((a + t * np.conj(a[::-1]), [t]))
    return np.concatenate(([1.0 + 0j], a))


def gen_rlevinson(rng, n, nimpl):
    from spectrum.levinson import rlevinson
    c = Cases('rlevinson')
    kinds = ['poly', 'real', 'poly', 'a0', 'real', 'k1', 'poly', 'short', 'nonmin', 'real', 'unitk', 'poly', 'empty', 'enonpos', 'k1', 'real']
    i = 0
    while len(c.exact) < n:
        kind = kinds[i % len(kinds)]; i += 1
        p = int(rng.integers(1, 6))
        a = poly_from_refl(rng, p); real = False
        ef = float(rng.integers(1, 33)) / 8
        if kind == 'real':
            ks = rng.integers(-10, 11, size=p) / 16.0
            a = np.zeros(0)
            for t in ks:
                a = np.concatenate((a + t * a[::-1], [t]))
            a = np.concatenate(([1.0], np.round(a * 64) / 64)).astype(complex); real = True
        elif kind == 'a0':
            a = a.copy(); a[0] = [2, 0.5, 0, 1 + 1j][int(rng.integers(0, 4))]
        elif kind == 'short':
            a = a[:1]
        elif kind == 'empty':
            a = a[:0]
        elif kind in ('k1', 'unitk'):
            # a reflection coefficient equal to one (ValueError of levdown at that stage of the step-down) / of modulus one but not one
            # (levdown divides by 1 - |k|^2 = 0: the field's total division in IR and model alike; never compared with the implementation)
            p = int(rng.integers(2, 5)); real = bool(rng.integers(0, 2))
            ks = rng.integers(-2, 3, size=p) / 4.0 + (0 if real else 1j * rng.integers(-2, 3, size=p) / 4.0)
            j = int(rng.integers(1, p))
            ks = ks.astype(complex); ks[j] = 1 if kind == 'k1' else [-1, 1j, -1j][int(rng.integers(0, 1 if real else 3))]
            a = stepup_exact(ks)
        elif kind == 'nonmin':
            a = np.concatenate(([1.0 + 0j], lowbit(rng, p, True, bits=3) / 4.0))
        elif kind == 'enonpos':
            ef = -float(rng.integers(0, 9)) / 8
        tags = [True, False] if real else [False]
        for tag in tags:
            arg = np.real(a) if tag else np.asarray(a, dtype=complex)
            with np.errstate(all='ignore'):
                res = call_impl(rlevinson, arg, ef)
            c.add('q_rlevinson prog_rlevinson %s %s %s' % ('true' if tag else 'false', czl(a), cz(ef)), impl=res, a=vlib.hexv(a), efinal=ef, declared_real=tag, kind=kind)
            if kind != 'unitk':
                out, ex = res
                args = '[%s; %s]' % (A_(tag, a), S_(ef))
                if ex is not None:
                    if ex in EXC and kind in ('a0', 'short', 'empty', 'k1') and not any(m.get('kind') == kind for m in c.impl_meta):
                        c.add_impl('ir_raises (qrun prog_rlevinson %s) %s' % (args, ex), a=vlib.hexv(a), efinal=ef, impl_raised=ex, kind=kind)
                elif kind in ('poly', 'real', 'enonpos') and sum(1 for m in c.impl_meta if 'impl_raised' not in m) < nimpl:
                    R, U, kr, es = out
                    if np.all(np.isfinite(R)) and np.all(np.isfinite(U)) and np.max(np.abs(kr)) < 0.97:
                        kap = float(1.0 / np.prod(1 - np.abs(kr) ** 2))
                        if kap <= 1e4:
                            tol = 1e-9 * kap * kap * max(1.0, float(np.max(np.abs(U)))) * max(1.0, abs(ef))
                            c.add_impl('ir_close_m %s (qrun prog_rlevinson %s) %s' % (tolq(tol), args, outs(R, U, kr, es)), a=vlib.hexv(a), efinal=ef)
    return c


# ---------------------------------------------------------------- the wrappers (T6): aryule, ma (C12, C15); the conversions of linear_prediction.py (C11)
def oracle_vals(rng, n):
    """arbitrary values for the hidden pylab_rms_flat slots of the embedded CORRELATIONs (never read: aryule passes norm biased / unbiased only)"""
    return [complex(int(rng.integers(1, 9)) / 4.0) for _ in range(n)]


def gen_aryule(rng, n, nimpl):
    from spectrum.yulewalker import aryule
    c = Cases('aryule')
    kinds = ['plain', 'unbiased', 'plain', 'allow_false', 'order_ge_N', 'singular', 'plain', 'norm_bad', 'order0', 'unbiased', 'allow_true', 'singular',
             'constant', 'empty']
    i = 0
    while len(c.exact) < n:
        kind = kinds[i % len(kinds)]; i += 1
        cplx = bool(rng.integers(0, 2)); N = int(rng.integers(3, 9)); p = int(rng.integers(1, min(5, N - 1) + 1))
        x = lowbit(rng, N, cplx, bits=2)
        nm = None; allow = None
        if kind == 'unbiased':
            nm = 'unbiased'
        elif kind == 'allow_false':
            allow = False; nm = ['biased', None][int(rng.integers(0, 2))]
        elif kind == 'allow_true':
            allow = True; nm = 'unbiased'
        elif kind == 'order_ge_N':
            p = N + int(rng.integers(0, 2))
        elif kind == 'singular':
            # an unbiased estimate that is not positive definite (x = [a, 0, .., 0, b]: r_{N-1} = a*b is divided by 1, r_0 by N), allow_singularity False / default
            x = np.zeros(N, dtype=complex); x[0] = int(rng.integers(1, 4)); x[-1] = int(rng.integers(1, 4)) * (1j if cplx and rng.integers(0, 2) else 1)
            p = N - 1; nm = 'unbiased'; allow = [False, None, True][int(rng.integers(0, 3))]
        elif kind == 'norm_bad':
            nm = ['coeff', 'foo'][int(rng.integers(0, 2))]
        elif kind == 'order0':
            p = 0
        elif kind == 'constant':
            x = np.ones(N) * (2 if not cplx else 1j); nm = 'unbiased'; allow = False; p = min(p, 2)      # r_k = r_0: P = 0 at stage 1
        elif kind == 'empty':
            x = x[:0]; p = int(rng.integers(0, 2))
        tags = [False] if (cplx and len(x)) else [True, False]
        kw = {}
        if nm is not None:
            kw['norm'] = nm
        if allow is not None:
            kw['allow_singularity'] = allow
        with np.errstate(all='ignore'):
            res = call_impl(aryule, x if cplx else np.real(x), p, **kw)
        o1, o2 = oracle_vals(rng, 2)
        for tag in tags:
            c.add('q_aryule prog_aryule %s %s %d%%nat %s %s %s %s' % ('true' if tag else 'false', czl(x), p, opt(None if nm is None else '"%s"' % nm),
                                                                   opt(None if allow is None else ('true' if allow else 'false')), cz(o1), cz(o2)),
                  impl=res, x=vlib.hexv(x), order=p, norm=nm, allow_singularity=allow, declared_real=tag, kind=kind)
        if len(c.impl) < nimpl and kind in ('plain', 'unbiased', 'order_ge_N', 'norm_bad', 'order0', 'allow_false'):
            out, ex = res
            args = '[%s; %s; %s; %s; %s; %s]' % (A_(not cplx, x), I_(p), 'Omit' if nm is None else Str_(nm), 'Omit' if allow is None else B_(allow), S_(o1), S_(o2))
            if ex is not None:
                if ex in EXC and not any(m.get('impl_raised') == ex and m.get('kind') == kind for m in c.impl_meta):
                    c.add_impl('ir_raises (qrun prog_aryule %s) %s' % (args, ex), x=vlib.hexv(x), order=p, norm=nm, impl_raised=ex, kind=kind)
            else:
                a, P, k = out
                r0 = float(np.sum(np.abs(x) ** 2)) / len(x)
                kap = max(1.0, r0 / max(abs(P), 1e-300))
                if kap < 1e3 and np.all(np.isfinite(a)) and np.all(np.abs(k) < 0.99):
                    c.add_impl('ir_close %s (qrun prog_aryule %s) %s' % (tolq(1e-9 * kap * max(1.0, float(np.max(np.abs(a))) if len(a) else 1.0)), args, outs(a, P, k)),
                               x=vlib.hexv(x), order=p, norm=nm, kind=kind)
    return c


def gen_ma(rng, n, nimpl):
    from spectrum.arma import ma
    c = Cases('ma')
    kinds = ['plain', 'plain', 'q0', 'plain', 'q_ge_m', 'm_ge_N', 'plain', 'qneg', 'plain', 'q_eq_m', 'plain', 'predictable']
    i = 0
    while len(c.exact) < n:
        kind = kinds[i % len(kinds)]; i += 1
        cplx = bool(rng.integers(0, 2)); N = int(rng.integers(5, 10)); M = int(rng.integers(2, min(5, N - 1) + 1)); Q = int(rng.integers(1, M))
        x = lowbit(rng, N, cplx, bits=2)
        if kind == 'q0':
            Q = 0
        elif kind == 'qneg':
            Q = -int(rng.integers(1, 3))
        elif kind == 'q_ge_m':
            Q = M + int(rng.integers(1, 3))
        elif kind == 'q_eq_m':
            Q = M
        elif kind == 'm_ge_N':
            M = N + int(rng.integers(0, 2)); Q = int(rng.integers(1, 4))
        elif kind == 'predictable':
            x = np.array([1.0, -1.0] * 5)[:N] * (1j if cplx else 1)     # strongly predictable: a reflection coefficient close to one, small P
        tags = [False] if cplx else [True, False]
        with np.errstate(all='ignore'):
            res = call_impl(ma, x if cplx else np.real(x), Q, M)
        o = oracle_vals(rng, 4)
        for tag in tags:
            c.add('q_ma prog_ma %s %s (%d) (%d) %s' % ('true' if tag else 'false', czl(x), Q, M, ' '.join(cz(v) for v in o)),
                  impl=res, x=vlib.hexv(x), Q=Q, M=M, declared_real=tag, kind=kind)
        if len(c.impl) < nimpl and kind != 'predictable':
            out, ex = res
            args = '[%s; %s; %s; %s]' % (A_(not cplx, x), I_(Q), I_(M), '; '.join(S_(v) for v in o))
            if ex is not None:
                if ex in EXC and not any(m.get('kind') == kind for m in c.impl_meta):
                    c.add_impl('ir_raises (qrun prog_ma %s) %s' % (args, ex), x=vlib.hexv(x), Q=Q, M=M, impl_raised=ex, kind=kind)
            else:
                b, rho = out
                from spectrum.yulewalker import aryule
                a1, p1, k1 = aryule(x if cplx else np.real(x), M, 'biased'); b2, p2, k2 = aryule(np.insert(a1, 0, 1), Q, 'biased')
                kap = max([1.0] + [1 / abs(1 - abs(t) ** 2) for t in list(k1) + list(k2) if abs(t) != 1])
                if kap < 1e3 and np.all(np.isfinite(b)):
                    c.add_impl('ir_close %s (qrun prog_ma %s) %s' % (tolq(1e-9 * kap * kap * max(1.0, float(np.max(np.abs(a1))))), args, outs(b, rho)),
                               x=vlib.hexv(x), Q=Q, M=M, kind=kind)
    return c


def gen_ac2(fname):
    """ac2poly / ac2rc: LEVINSON(data) at full order, allow_singularity False"""
    def gen(rng, n, nimpl):
        import spectrum.linear_prediction as lp
        f = getattr(lp, fname)
        c = Cases(fname)
        kinds = ['acorr', 'acorr', 'indef', 'acorr', 'len1', 'r0complex', 'acorr', 'empty', 'indef', 'structured']
        i = 0
        while len(c.exact) < n:
            kind = kinds[i % len(kinds)]; i += 1
            cplx = bool(rng.integers(0, 2)); p = int(rng.integers(1, 6)); N = p + int(rng.integers(2, 8))
            r = acorr_int(lowbit(rng, N, cplx), p)
            if kind == 'indef':
                j = int(rng.integers(1, p + 1)); r = r.copy(); r[j] = r[j] + (3 + rng.integers(0, 3)) * np.real(r[0])
            elif kind == 'len1':
                r = r[:1]
            elif kind == 'empty':
                r = r[:0]
            elif kind == 'r0complex':
                r = r.astype(complex); r[0] = r[0] + 1j * int(rng.integers(1, 4)); cplx = True     # ac2rc returns data[0] itself, LEVINSON starts from its real part
            elif kind == 'structured':
                r = structured_acorr(rng, max(p, 2), cplx); cplx = bool(np.any(np.imag(r) != 0)) or cplx
            tags = [False] if (cplx and len(r)) else [True, False]
            with np.errstate(all='ignore'):
                res = call_impl(f, r if cplx else np.real(r))
            for tag in tags:
                c.add('q_%s prog_%s %s %s' % (fname, fname, 'true' if tag else 'false', czl(r)), impl=res, r=vlib.hexv(r), declared_real=tag, kind=kind)
            if len(c.impl) < nimpl and kind in ('acorr', 'indef', 'len1', 'r0complex'):
                out, ex = res
                args = '[%s]' % A_(not cplx, r)
                if ex is not None:
                    if ex in EXC and not any(m.get('impl_raised') == ex for m in c.impl_meta):
                        c.add_impl('ir_raises (qrun prog_%s %s) %s' % (fname, args, ex), r=vlib.hexv(r), impl_raised=ex, kind=kind)
                else:
                    from spectrum import LEVINSON
                    a, P, k = LEVINSON(r if cplx else np.real(r))
                    kap = max(1.0, abs(r[0]) / max(abs(P), 1e-300))
                    if kap < 1e3 and np.all(np.isfinite(a)):
                        c.add_impl('ir_close %s (qrun prog_%s %s) %s' % (tolq(1e-9 * kap * max(1.0, abs(r[0]))), fname, args, outs(out[0], out[1])), r=vlib.hexv(r), kind=kind)
        return c
    return gen


def rlev_poly(rng, i):
    """(kind, a, real, efinal): the input kinds of gen_rlevinson (prediction polynomials on the 1/64 grid, the argument errors, exact step-ups
    with a reflection coefficient equal to one / of modulus one, non-minimum-phase polynomials, efinal <= 0)"""
    kinds = ['poly', 'real', 'poly', 'a0', 'real', 'k1', 'poly', 'short', 'nonmin', 'real', 'unitk', 'poly', 'empty', 'enonpos', 'k1', 'real']
    kind = kinds[i % len(kinds)]
    p = int(rng.integers(1, 6))
    a = poly_from_refl(rng, p); real = False
    ef = float(rng.integers(1, 33)) / 8
    if kind == 'real':
        ks = rng.integers(-10, 11, size=p) / 16.0
        a = np.zeros(0)
        for t in ks:
            a = np.concatenate((a + t * a[::-1], [t]))
        a = np.concatenate(([1.0], np.round(a * 64) / 64)).astype(complex); real = True
    elif kind == 'a0':
        a = a.copy(); a[0] = [2, 0.5, 0, 1 + 1j][int(rng.integers(0, 4))]
    elif kind == 'short':
        a = a[:1]
    elif kind == 'empty':
        a = a[:0]
    elif kind in ('k1', 'unitk'):
        p = int(rng.integers(2, 5)); real = bool(rng.integers(0, 2))
        ks = rng.integers(-2, 3, size=p) / 4.0 + (0 if real else 1j * rng.integers(-2, 3, size=p) / 4.0)
        j = int(rng.integers(1, p))
        ks = ks.astype(complex); ks[j] = 1 if kind == 'k1' else [-1, 1j, -1j][int(rng.integers(0, 1 if real else 3))]
        a = stepup_exact(ks)
    elif kind == 'nonmin':
        a = np.concatenate(([1.0 + 0j], lowbit(rng, p, True, bits=3) / 4.0))
    elif kind == 'enonpos':
        ef = -float(rng.integers(0, 9)) / 8
    return kind, a, real, ef


def gen_poly2(fname, which):
    """poly2ac (which = 0: R) / poly2rc (which = 2: kr): one component of rlevinson(a, efinal)"""
    def gen(rng, n, nimpl):
        import spectrum.linear_prediction as lp
        f = getattr(lp, fname)
        c = Cases(fname)
        i = 0
        while len(c.exact) < n:
            kind, a, real, ef = rlev_poly(rng, i); i += 1
            for tag in ([True, False] if real else [False]):
                arg = np.real(a) if tag else np.asarray(a, dtype=complex)
                with np.errstate(all='ignore'):
                    res = call_impl(f, arg, ef)
                c.add('q_%s prog_%s %s %s %s' % (fname, fname, 'true' if tag else 'false', czl(a), cz(ef)), impl=res, a=vlib.hexv(a), efinal=ef, declared_real=tag, kind=kind)
                if kind == 'unitk':
                    continue
                out, ex = res
                args = '[%s; %s]' % (A_(tag, a), S_(ef))
                if ex is not None:
                    if ex in EXC and kind in ('a0', 'short', 'empty', 'k1') and not any(m.get('kind') == kind for m in c.impl_meta):
                        c.add_impl('ir_raises (qrun prog_%s %s) %s' % (fname, args, ex), a=vlib.hexv(a), efinal=ef, impl_raised=ex, kind=kind)
                elif kind in ('poly', 'real', 'enonpos') and sum(1 for m in c.impl_meta if 'impl_raised' not in m) < nimpl:
                    from spectrum.levinson import rlevinson
                    R, U, kr, es = rlevinson(arg, ef)
                    if np.all(np.isfinite(R)) and np.all(np.isfinite(U)) and np.max(np.abs(kr)) < 0.97:
                        kap = float(1.0 / np.prod(1 - np.abs(kr) ** 2))
                        if kap <= 1e4:
                            tol = 1e-9 * kap * kap * max(1.0, float(np.max(np.abs(U)))) * max(1.0, abs(ef))
                            c.add_impl('ir_close %s (qrun prog_%s %s) %s' % (tolq(tol), fname, args, outs(out)), a=vlib.hexv(a), efinal=ef, kind=kind)
        return c
    return gen


def gen_ar2rc(rng, n, nimpl):
    import spectrum.linear_prediction as lp
    c = Cases('ar2rc')
    while len(c.exact) < n:
        p = int(rng.integers(0, 4)); cplx = bool(rng.integers(0, 2))
        a = lowbit(rng, p, cplx, bits=2)
        res = call_impl(lp.ar2rc, a)
        c.add('q_ar2rc prog_ar2rc %s %s' % ('false' if cplx else 'true', czl(a)), impl=(None, 'NotImplementedError') if res[1] == 'other:NotImplementedError' else res, a=vlib.hexv(a))
        if len(c.impl) < min(nimpl, 2) and res[1] == 'other:NotImplementedError':
            c.add_impl('ir_raises_ni (qrun prog_ar2rc [%s])' % A_(not cplx, a), a=vlib.hexv(a), impl_raised='NotImplementedError')
    return c


def refl_input(rng, i):
    """(kind, k, real): reflection coefficients on the 1/8 grid, orders 1..5; the empty sequence; a coefficient equal to one / of modulus one"""
    kinds = ['cplx', 'real', 'cplx', 'real', 'one', 'cplx', 'empty', 'real', 'unit', 'order1', 'one_first', 'big']
    kind = kinds[i % len(kinds)]
    p = int(rng.integers(1, 6)); real = kind in ('real',) or (kind in ('one', 'order1', 'big', 'one_first') and bool(rng.integers(0, 2)))
    k = rng.integers(-6, 7, size=p) / 8.0 + (0 if real else 1j * rng.integers(-6, 7, size=p) / 8.0)
    k = k.astype(complex)
    if kind == 'empty':
        k = k[:0]
    elif kind == 'order1':
        k = k[:1]
    elif kind == 'one':
        p = max(p, 2); k = np.resize(k, p); k[int(rng.integers(1, p))] = 1
    elif kind == 'one_first':
        k[0] = 1
    elif kind == 'unit':
        p = max(p, 2); k = np.resize(k, p); j = int(rng.integers(0, p)); k[j] = [-1, 1j, -1j][int(rng.integers(0, 1 if real else 3))]
    elif kind == 'big':
        k[int(rng.integers(0, p))] = 1.5 if real else 1 + 1j
    return kind, k, (real or not np.any(np.imag(k) != 0)) and kind != 'empty'


def gen_rc2poly(rng, n, nimpl):
    import spectrum.linear_prediction as lp
    c = Cases('rc2poly')
    i = 0
    while len(c.exact) < n:
        kind, k, real = refl_input(rng, i); i += 1
        r0 = None if i % 4 == 0 else float(rng.integers(1, 17)) / 4
        for tag in ([True, False] if (real or len(k) == 0) else [False]):
            arg = np.real(k) if tag else k
            with np.errstate(all='ignore'), __import__('warnings').catch_warnings():
                __import__('warnings').simplefilter('ignore')
                res = call_impl(lp.rc2poly, arg, r0)
            c.add('q_rc2poly prog_rc2poly %s %s %s' % ('true' if tag else 'false', czl(k), opt(None if r0 is None else cz(r0))), impl=res, k=vlib.hexv(k), r0=r0, declared_real=tag, kind=kind)
            if len(c.impl) < nimpl and kind in ('cplx', 'real', 'empty', 'order1', 'one', 'big'):
                out, ex = res
                args = '[%s; %s]' % (A_(tag, k), 'Omit' if r0 is None else S_(r0))
                if ex is not None:
                    if ex in EXC and not any(m.get('kind') == kind for m in c.impl_meta):
                        c.add_impl('ir_raises (qrun prog_rc2poly %s) %s' % (args, ex), k=vlib.hexv(k), r0=r0, impl_raised=ex, kind=kind)
                elif np.all(np.isfinite(out[0])):
                    c.add_impl('ir_close %s (qrun prog_rc2poly %s) %s' % (tolq(1e-10 * max(1.0, float(np.max(np.abs(out[0])))) * max(1.0, abs(r0 or 0))), args, outs(out[0], out[1])),
                               k=vlib.hexv(k), r0=r0, kind=kind)
    return c


def gen_rc2ac(rng, n, nimpl):
    import spectrum.linear_prediction as lp
    c = Cases('rc2ac')
    i = 0
    while len(c.exact) < n:
        kind, k, real = refl_input(rng, i); i += 1
        r0 = float(rng.integers(1, 17)) / 4
        if len(k) > 4:
            k = k[:4]
        for tag in ([True, False] if (real or len(k) == 0) else [False]):
            arg = np.real(k) if tag else k
            with np.errstate(all='ignore'), __import__('warnings').catch_warnings():
                __import__('warnings').simplefilter('ignore')
                res = call_impl(lp.rc2ac, arg, r0)
            c.add('q_rc2ac prog_rc2ac %s %s %s' % ('true' if tag else 'false', czl(k), cz(r0)), impl=res, k=vlib.hexv(k), R0=r0, declared_real=tag, kind=kind)
            if len(c.impl) < nimpl and kind in ('cplx', 'real', 'empty', 'order1', 'one'):
                out, ex = res
                args = '[%s; %s]' % (A_(tag, k), S_(r0))
                if ex is not None:
                    if ex in EXC and not any(m.get('kind') == kind for m in c.impl_meta):
                        c.add_impl('ir_raises (qrun prog_rc2ac %s) %s' % (args, ex), k=vlib.hexv(k), R0=r0, impl_raised=ex, kind=kind)
                elif np.all(np.isfinite(out)) and np.max(np.abs(k)) < 0.97:
                    kap = float(1.0 / np.prod(1 - np.abs(k) ** 2))
                    if kap <= 1e4:
                        c.add_impl('ir_close %s (qrun prog_rc2ac %s) %s' % (tolq(1e-9 * kap * kap * max(1.0, r0)), args, outs(out)), k=vlib.hexv(k), R0=r0, kind=kind)
    return c


GENERATORS = {'LEVINSON': gen_LEVINSON, 'HERMTOEP': gen_HERMTOEP, 'TOEPLITZ': gen_TOEPLITZ, 'levup': gen_levup, 'levdown': gen_levdown,
              'arburg': gen_arburg, 'CORRELATION': gen_CORRELATION, 'minvar_psi': gen_minvar_psi,
              'arcovar_marple': gen_marple('arcovar_marple', False), 'modcovar_marple': gen_marple('modcovar_marple', True),
              'rlevinson': gen_rlevinson,
              'aryule': gen_aryule, 'ma': gen_ma, 'ac2poly': gen_ac2('ac2poly'), 'ac2rc': gen_ac2('ac2rc'), 'poly2ac': gen_poly2('poly2ac', 0),
              'poly2rc': gen_poly2('poly2rc', 2), 'ar2rc': gen_ar2rc, 'rc2poly': gen_rc2poly, 'rc2ac': gen_rc2ac}
# T7: the FFT-based kernels; their generators (props/_loopir_vec.py) take a fourth budget: the number of binary64 cases
from props import _loopir_vec as _vec       # noqa: E402
VEC_GENERATORS = {'arma2psd': _vec.gen_arma2psd, 'minvar': _vec.gen_minvar, 'CORRELOGRAMPSD': _vec.gen_CORRELOGRAMPSD, 'speriodogram': _vec.gen_speriodogram}
FLOAT_BUDGET = {'arma2psd': (60, 600), 'minvar': (30, 240), 'CORRELOGRAMPSD': (60, 400), 'speriodogram': (60, 400)}
EXACT_BUDGET = {'LEVINSON': (64, 400), 'HERMTOEP': (48, 300), 'TOEPLITZ': (56, 300), 'levup': (45, 200), 'levdown': (44, 200),
                'arburg': (65, 400), 'CORRELATION': (68, 400), 'minvar_psi': (48, 300),
                'arcovar_marple': (36, 180), 'modcovar_marple': (36, 180), 'rlevinson': (56, 300),
                'aryule': (64, 400), 'ma': (40, 240), 'ac2poly': (40, 200), 'ac2rc': (40, 200), 'poly2ac': (44, 240), 'poly2rc': (44, 240),
                'ar2rc': (4, 8), 'rc2poly': (44, 240), 'rc2ac': (44, 240),
                'arma2psd': (72, 500), 'minvar': (56, 300), 'CORRELOGRAMPSD': (72, 400), 'speriodogram': (64, 400)}
# programs whose comparators live in a module of their own (imported by the case files only when such a program is tied)
EXTRA_MODULES = {'arcovar_marple': 'Spectrum.Model.LoopIRMarple', 'modcovar_marple': 'Spectrum.Model.LoopIRMarple',
                 'rlevinson': 'Spectrum.Model.LoopIRRlev'}
EXTRA_MODULES.update({nm: 'Spectrum.Model.LoopIRVec' for nm in ('arma2psd', 'minvar', 'CORRELOGRAMPSD', 'speriodogram')})
EXTRA_MODULES.update({nm: 'Spectrum.Model.LoopIRWrap' for nm in ('aryule', 'ma', 'ac2poly', 'ac2rc', 'poly2ac', 'poly2rc', 'ar2rc', 'rc2poly', 'rc2ac')})
# T10: arma_estimate (comparator coq/Model/LoopIRArma.v, generator props/_loopir_arma.py)
from props import _loopir_arma as _arma       # noqa: E402
GENERATORS['arma_estimate'] = _arma.gen_arma_estimate
EXACT_BUDGET['arma_estimate'] = (38, 260)
EXTRA_MODULES['arma_estimate'] = 'Spectrum.Model.LoopIRArma'
VEC_GENERATORS['lpc'] = _arma.gen_lpc
EXACT_BUDGET['lpc'] = (40, 200); FLOAT_BUDGET['lpc'] = (60, 400)
EXTRA_MODULES['lpc'] = 'Spectrum.Model.LoopIRLpc'
EXACT_SHARD = {'arma_estimate': (1, 4)}       # cases per file of the exact comparison (default 24 / 100): these cases take 1..20 s each

# ---------------------------------------------------------------- LEVINSON: translation + theorem
LEV_PROOF = 'Proofs/LoopIRLevinson.v'
LEV_THEOREMS = ['loopir_LEVINSON_complex', 'loopir_LEVINSON_real']
LEV_BLOCK = """
(* The program regenerated on this run is, term for term, the one Proofs/LoopIRLevinson.v is about: its theorems apply. *)
Require Import Spectrum.Theory.Ops Spectrum.Theory.Vec Spectrum.Model.Levinson Spectrum.Proofs.LoopIRLevinson.
Lemma prog_LEVINSON_is_ref : prog_LEVINSON = prog_LEVINSON_ref.
Proof. reflexivity. Qed.
Theorem loopir_LEVINSON_complex :
  forall (F : Type) (OF : Ops F) (L : Laws OF) (feq : F -> F -> bool) (stop : Z -> F -> F -> bool)
         (r : list F) (order : option nat) (allow : option bool),
  r <> [] ->
  let ord := match order with Some o => o | None => (length r - 1)%nat end in
  let al := match allow with Some b => b | None => false end in
  run feq stop prog_LEVINSON [Some (VArr false r); option_map (fun o => VI (Z.of_nat o)) order; option_map VB allow] =
  match levinson r ord al with
  | Some (A, P, ks) => ORet [VArr false A; VF P; VArr false ks]
  | None => OErr (if (ord <=? length r - 1)%nat then ValueError else AssertionError)
  end.
Proof. intros. rewrite prog_LEVINSON_is_ref. apply levinson_ir_complex; assumption. Qed.
Theorem loopir_LEVINSON_real :
  forall (F : Type) (OF : Ops F) (L : Laws OF) (feq : F -> F -> bool) (stop : Z -> F -> F -> bool)
         (r : list F) (order : option nat) (allow : option bool),
  r <> [] -> (forall j, conj (nthF r j) = nthF r j) -> le0 (re (nthF r 0)) = false ->
  match allow with Some b => b | None => false end = false ->
  let ord := match order with Some o => o | None => (length r - 1)%nat end in
  run feq stop prog_LEVINSON [Some (VArr true r); option_map (fun o => VI (Z.of_nat o)) order; option_map VB allow] =
  match levinson r ord false with
  | Some (A, P, ks) => ORet [VArr true A; VF P; VArr true ks]
  | None => OErr (if (ord <=? length r - 1)%nat then ValueError else AssertionError)
  end.
Proof. intros. rewrite prog_LEVINSON_is_ref. apply levinson_ir_real; assumption. Qed.
Print Assumptions loopir_LEVINSON_complex.
Print Assumptions loopir_LEVINSON_real.
"""


# ---------------------------------------------------------------- Marple routines: translation + theorems for the order-0 branches / the argument check
MARPLE_PROOF = 'Proofs/LoopIRMarple0.v'
MARPLE_BLOCK_HEAD = """
(* The programs regenerated on this run are, term for term, the ones Proofs/LoopIRMarple0.v is about: its theorems apply. *)
Require Import Spectrum.Theory.Ops Spectrum.Theory.Vec Spectrum.Model.CovarMarple Spectrum.Proofs.LoopIRMarple0.
"""
MARPLE_BLOCKS = {
    'arcovar_marple': (['loopir_arcovar_marple_assert', 'loopir_arcovar_marple_order0', 'loopir_arcovar_marple_order1'], """
Lemma prog_arcovar_marple_is_ref : prog_arcovar_marple = prog_arcovar_marple_gen0.
Proof. reflexivity. Qed.
Theorem loopir_arcovar_marple_assert :
  forall (F : Type) (OF : Ops F) (L : Laws OF) (feq : F -> F -> bool) (stop : Z -> F -> F -> bool) (t : bool) (x : list F) (order : nat),
  (length x < order)%nat ->
  run feq stop prog_arcovar_marple [Some (VArr t x); Some (VI (Z.of_nat order))] = OErr AssertionError /\\ arcovar_marple x order = None.
Proof. intros. rewrite prog_arcovar_marple_is_ref. apply arcovar_marple_ir_assert; assumption. Qed.
Theorem loopir_arcovar_marple_order0 :
  forall (F : Type) (OF : Ops F) (L : Laws OF) (feq : F -> F -> bool) (stop : Z -> F -> F -> bool) (t : bool) (x : list F),
  x <> [] ->
  run feq stop prog_arcovar_marple [Some (VArr t x); Some (VI 0)] =
  match arcovar_marple x 0 with
  | Some (af, pf, ab, pb) => ORet [VArr false af; VF pf; VArr false ab; VF pb; VI 0]
  | None => OErr AssertionError
  end.
Proof. intros. rewrite prog_arcovar_marple_is_ref. apply arcovar_marple_ir_order0; assumption. Qed.
Theorem loopir_arcovar_marple_order1 :
  forall (F : Type) (OF : Ops F) (L : Laws OF) (feq : F -> F -> bool) (stop : Z -> F -> F -> bool) (t : bool) (x : list F),
  x <> [] ->
  run feq stop prog_arcovar_marple [Some (VArr t x); Some (VI 1)] =
  match arcovar_marple x 1 with
  | Some (af, pf, ab, pb) => ORet [VArr false af; VF pf; VArr false ab; VF pb; VArr true []]
  | None => OErr AssertionError
  end.
Proof. intros. rewrite prog_arcovar_marple_is_ref. apply arcovar_marple_ir_order1; assumption. Qed.
"""),
    'modcovar_marple': (['loopir_modcovar_marple_order0', 'loopir_modcovar_marple_order1'], """
Lemma prog_modcovar_marple_is_ref : prog_modcovar_marple = prog_modcovar_marple_gen0.
Proof. reflexivity. Qed.
Theorem loopir_modcovar_marple_order0 :
  forall (F : Type) (OF : Ops F) (L : Laws OF) (feq : F -> F -> bool) (stop : Z -> F -> F -> bool) (t : bool) (x : list F),
  x <> [] ->
  run feq stop prog_modcovar_marple [Some (VArr t x); Some (VI 0)] =
  match modcovar_marple x 0 with
  | Some (a, p) => ORet [VArr true a; VF p; VArr true []]
  | None => OErr ValueError
  end.
Proof. intros. rewrite prog_modcovar_marple_is_ref. apply modcovar_marple_ir_order0; assumption. Qed.
Theorem loopir_modcovar_marple_order1 :
  forall (F : Type) (OF : Ops F) (L : Laws OF) (feq : F -> F -> bool) (stop : Z -> F -> F -> bool) (t : bool) (x : list F),
  x <> [] ->
  run feq stop prog_modcovar_marple [Some (VArr t x); Some (VI 1)] =
  match modcovar_marple x 1 with
  | Some (a, p) => ORet [VArr false a; VF p; VArr false [p]]
  | None => OErr ValueError
  end.
Proof. intros. rewrite prog_modcovar_marple_is_ref. apply modcovar_marple_ir_order1; assumption. Qed.
"""),
}


# ---------------------------------------------------------------- CORRELATION: translation + theorem
COR_PROOF = 'Proofs/LoopIRCorrelation.v'
COR_THEOREMS = ['loopir_CORRELATION_model', 'loopir_CORRELATION_tie']
COR_BLOCK = """
(* The program regenerated on this run is, term for term, the one Proofs/LoopIRCorrelation.v is about: its theorems apply. *)
Require Import Spectrum.Theory.Ops Spectrum.Theory.Vec Spectrum.Model.Corr Spectrum.Model.LoopIRTie Spectrum.Proofs.LoopIRCorrelation.
Lemma prog_CORRELATION_is_ref : prog_CORRELATION = prog_CORRELATION_ref.
Proof. reflexivity. Qed.
(* for ALL arguments the tie passes (x, y omitted or given, any lengths incl. empty, maxlags omitted or ANY integer, norm omitted /
   None / any string, any oracle values for the two pylab_rms_flat calls, both dtype tags; a float-tagged second array real-valued):
   the run returns / raises exactly what the hand-written model says *)
Theorem loopir_CORRELATION_model :
  forall (F : Type) (OF : Ops F) (L : Laws OF) (feq : F -> F -> bool) (stop : Z -> F -> F -> bool)
         (rx : bool) (x : list F) (y : option (bool * list F)) (maxlags : option Z) (nm : option (option string)) (rmsx rmsy : F),
  let ry := match y with None => rx | Some q => fst q end in
  let yl := match y with None => x | Some q => snd q end in
  let N := Nat.max (length x) (length yl) in
  let ml := match maxlags with Some m => m | None => (Z.of_nat N - 1)%Z end in
  (rx && ry = true -> forall j, conj (nthF yl j) = nthF yl j) ->
  run feq stop prog_CORRELATION
      [Some (VArr rx x); option_map (fun q => VArr (fst q) (snd q)) y; option_map VI maxlags;
       option_map (fun s => match s with None => VNone | Some t => VStr t end) nm; Some (VF rmsx); Some (VF rmsy)] =
  match norm_of nm with
  | None => OErr AssertionError
  | Some cn =>
      if (ml <? 0)%Z then OErr ValueError
      else match correlation (rmsx * rmsy)%F x yl (Z.to_nat ml) cn with
           | Some r => ORet [VArr (rx && ry) r]
           | None => OErr AssertionError
           end
  end.
Proof. intros. rewrite prog_CORRELATION_is_ref. apply (correlation_ir feq stop rx x y maxlags nm rmsx rmsy). assumption. Qed.
(* hence the boolean of the exact evaluation tie is true on its whole domain, for every reflexive equality test *)
Theorem loopir_CORRELATION_tie :
  forall (F : Type) (OF : Ops F) (L : Laws OF) (feq : F -> F -> bool), (forall a, feq a a = true) ->
  forall (rx : bool) (x : list F) (y : option (bool * list F)) (maxlags : option nat) (nm : option (option string)) (rmsx rmsy : F),
  let ry := match y with None => rx | Some q => fst q end in
  let yl := match y with None => x | Some q => snd q end in
  (rx && ry = true -> forall j, conj (nthF yl j) = nthF yl j) ->
  (maxlags = None -> (0 < Nat.max (length x) (length yl))%nat) ->
  tie_correlation feq prog_CORRELATION rx x y maxlags nm rmsx rmsy = true.
Proof. intros. rewrite prog_CORRELATION_is_ref. apply correlation_ir_tie; assumption. Qed.
Print Assumptions loopir_CORRELATION_model.
Print Assumptions loopir_CORRELATION_tie.
"""

# ---------------------------------------------------------------- levup, levdown: translation + theorem
LEVUP_PROOF = 'Proofs/LoopIRLevup.v'
LEVUP_THEOREMS = ['loopir_levup_model', 'loopir_levup_tie']
LEVUP_BLOCK = """
(* The program regenerated on this run is, term for term, the one Proofs/LoopIRLevup.v is about: its theorems apply. *)
Require Import Spectrum.Theory.Ops Spectrum.Theory.Vec Spectrum.Model.Levinson Spectrum.Model.LoopIRTie Spectrum.Proofs.LoopIRLevup.
Lemma prog_levup_is_ref : prog_levup = prog_levup_ref.
Proof. reflexivity. Qed.
Theorem loopir_levup_model :
  forall (F : Type) (OF : Ops F) (L : Laws OF) (feq : F -> F -> bool) (stop : Z -> F -> F -> bool)
         (t : bool) (acur : list F) (k : F) (e : option F),
  run feq stop prog_levup [Some (VArr t acur); Some (VF k); option_map VF e] =
  match acur with
  | [] => OErr IndexError
  | a0 :: _ =>
      if negb (feq a0 1%F) then OErr ValueError
      else ORet [VArr false (fst (levup acur k 0%F));
                 match e with Some z => VF (snd (levup acur k z)) | None => VNone end]
  end.
Proof. intros. rewrite prog_levup_is_ref. apply levup_ir_run. Qed.
Theorem loopir_levup_tie :
  forall (F : Type) (OF : Ops F) (L : Laws OF) (feq : F -> F -> bool), (forall a, feq a a = true) ->
  forall (acur : list F) (k : F) (e : option F), acur <> [] -> tie_levup feq prog_levup acur k e = true.
Proof. intros. rewrite prog_levup_is_ref. apply levup_ir_tie; assumption. Qed.
Print Assumptions loopir_levup_model.
Print Assumptions loopir_levup_tie.
"""
LEVDOWN_PROOF = 'Proofs/LoopIRLevdown.v'
LEVDOWN_THEOREMS = ['loopir_levdown_model', 'loopir_levdown_chk', 'loopir_levdown_tie']
LEVDOWN_BLOCK = """
(* The program regenerated on this run is, term for term, the one Proofs/LoopIRLevdown.v is about: its theorems apply. *)
Require Import Spectrum.Theory.Ops Spectrum.Theory.Vec Spectrum.Model.Levinson Spectrum.Model.LinPred Spectrum.Model.LoopIRTie Spectrum.Proofs.LoopIRLevdown.
Lemma prog_levdown_is_ref : prog_levdown = prog_levdown_ref.
Proof. reflexivity. Qed.
Theorem loopir_levdown_model :
  forall (F : Type) (OF : Ops F) (L : Laws OF) (feq : F -> F -> bool) (stop : Z -> F -> F -> bool)
         (t : bool) (anxt : list F) (e : option F),
  run feq stop prog_levdown [Some (VArr t anxt); option_map VF e] =
  match anxt with
  | [] => OErr IndexError
  | a0 :: a =>
      if negb (feq a0 1%F) then OErr ValueError
      else match a with
           | [] => OErr IndexError
           | _ :: _ =>
               if feq (nthF anxt (length anxt - 1)) 1%F then OErr ValueError
               else ORet [VArr false (fst (levdown anxt 0%F));
                          match e with Some z => VF (snd (levdown anxt z)) | None => VNone end]
           end
  end.
Proof. intros. rewrite prog_levdown_is_ref. apply levdown_ir_run. Qed.
Theorem loopir_levdown_chk :
  forall (F : Type) (OF : Ops F) (L : Laws OF) (feq : F -> F -> bool) (stop : Z -> F -> F -> bool)
         (t : bool) (anxt : list F) (e : option F),
  (2 <= length anxt)%nat ->
  run feq stop prog_levdown [Some (VArr t anxt); option_map VF e] =
  match @levdown_chk F OF feq anxt (match e with Some z => z | None => 0%F end) with
  | None => OErr ValueError
  | Some (a', e') => ORet [VArr false a'; match e with Some _ => VF e' | None => VNone end]
  end.
Proof. intros. rewrite prog_levdown_is_ref. apply levdown_ir_chk; assumption. Qed.
Theorem loopir_levdown_tie :
  forall (F : Type) (OF : Ops F) (L : Laws OF) (feq : F -> F -> bool), (forall a, feq a a = true) ->
  forall (anxt : list F) (e : option F), (2 <= length anxt)%nat -> tie_levdown feq prog_levdown anxt e = true.
Proof. intros. rewrite prog_levdown_is_ref. apply levdown_ir_tie; assumption. Qed.
Print Assumptions loopir_levdown_model.
Print Assumptions loopir_levdown_chk.
Print Assumptions loopir_levdown_tie.
"""

# ---------------------------------------------------------------- HERMTOEP: translation + theorem
HERM_PROOF = 'Proofs/LoopIRHermtoep.v'
HERM_THEOREMS = ['loopir_HERMTOEP_model', 'loopir_HERMTOEP_tie']
HERM_BLOCK = """
(* The program regenerated on this run is, term for term, the one Proofs/LoopIRHermtoep.v is about: its theorems apply. *)
Require Import Spectrum.Theory.Ops Spectrum.Theory.Vec Spectrum.Model.Levinson Spectrum.Model.LoopIRTie Spectrum.Proofs.LoopIRHermtoep.
Lemma prog_HERMTOEP_is_ref : prog_HERMTOEP = prog_HERMTOEP_ref.
Proof. reflexivity. Qed.
Theorem loopir_HERMTOEP_model :
  forall (F : Type) (OF : Ops F) (L : Laws OF) (feq : F -> F -> bool) (stop : Z -> F -> F -> bool)
         (t0 : F) (tT : bool) (T : list F) (tZ : bool) (Zr : list F),
  (T = [] \\/ feq t0 0%F = true \\/ (length T + 1 <= length Zr)%nat) ->
  run feq stop prog_HERMTOEP [Some (VF t0); Some (VArr tT T); Some (VArr tZ Zr)] =
  if Nat.eqb (length T) 0 then OErr AssertionError
  else if feq t0 0%F then OErr ValueError
  else match hermtoep t0 T Zr with
       | Some X => ORet [VArr false X]
       | None => OErr ValueError
       end.
Proof. intros. rewrite prog_HERMTOEP_is_ref. apply hermtoep_ir_run; assumption. Qed.
Theorem loopir_HERMTOEP_tie :
  forall (F : Type) (OF : Ops F) (L : Laws OF) (feq : F -> F -> bool), (forall a, feq a a = true) ->
  forall (t0 : F) (T Zr : list F), (length T + 1 <= length Zr)%nat -> tie_hermtoep feq prog_HERMTOEP t0 T Zr = true.
Proof. intros. rewrite prog_HERMTOEP_is_ref. apply hermtoep_ir_tie; assumption. Qed.
Print Assumptions loopir_HERMTOEP_model.
Print Assumptions loopir_HERMTOEP_tie.
"""

# ---------------------------------------------------------------- the psi loop of minvar: translation + theorem
MVPSI_PROOF = 'Proofs/LoopIRMinvarPsi.v'
MVPSI_THEOREMS = ['loopir_minvar_psi_model', 'loopir_minvar_psi_tie']
MVPSI_BLOCK = """
(* The program regenerated on this run is, term for term, the one Proofs/LoopIRMinvarPsi.v is about: its theorems apply. *)
Require Import Spectrum.Theory.Ops Spectrum.Theory.Vec Spectrum.Model.Minvar Spectrum.Model.LoopIRTie Spectrum.Proofs.LoopIRMinvarPsi.
Lemma prog_minvar_psi_is_ref : prog_minvar_psi = prog_minvar_psi_ref.
Proof. reflexivity. Qed.
Theorem loopir_minvar_psi_model :
  forall (F : Type) (OF : Ops F) (L : Laws OF) (feq : F -> F -> bool) (stop : Z -> F -> F -> bool)
         (m nfft : nat) (ta : bool) (a : list F) (P : F),
  (m <= length a + 1)%nat ->
  run feq stop prog_minvar_psi [Some (VI (Z.of_nat m)); Some (VI (Z.of_nat nfft)); Some (VArr ta a); Some (VF P)] =
  if (nfft <? m)%nat then OErr IndexError else ORet [VArr false (psi_loop m nfft (1%F :: a) P)].
Proof. intros. rewrite prog_minvar_psi_is_ref. apply minvar_psi_ir_run; assumption. Qed.
Theorem loopir_minvar_psi_tie :
  forall (F : Type) (OF : Ops F) (L : Laws OF) (feq : F -> F -> bool), (forall a, feq a a = true) ->
  forall (m nfft : nat) (a : list F) (P : F), (m <= length a + 1)%nat -> tie_minvar_psi feq prog_minvar_psi m nfft a P = true.
Proof. intros. rewrite prog_minvar_psi_is_ref. apply minvar_psi_ir_tie; assumption. Qed.
Print Assumptions loopir_minvar_psi_model.
Print Assumptions loopir_minvar_psi_tie.
"""

# ---------------------------------------------------------------- TOEPLITZ: translation + theorem (T5)
TOEP_PROOF = 'Proofs/LoopIRToeplitz.v'
TOEP_THEOREMS = ['loopir_TOEPLITZ_model', 'loopir_TOEPLITZ_tie']
TOEP_BLOCK = """
(* The program regenerated on this run is, term for term, the one Proofs/LoopIRToeplitz.v is about: its theorems apply. *)
Require Import Spectrum.Theory.Ops Spectrum.Theory.Vec Spectrum.Model.Levinson Spectrum.Model.LoopIRTie Spectrum.Proofs.LoopIRToeplitz.
Lemma prog_TOEPLITZ_is_ref : prog_TOEPLITZ = prog_TOEPLITZ_ref.
Proof. reflexivity. Qed.
Theorem loopir_TOEPLITZ_model :
  forall (F : Type) (OF : Ops F) (L : Laws OF) (feq : F -> F -> bool) (stop : Z -> F -> F -> bool)
         (t0 : F) (tC : bool) (TC : list F) (tR : bool) (TR : list F) (tZ : bool) (Zr : list F),
  (TC = [] \\/ length TC <> length TR \\/ feq t0 0%F = true \\/ (length TC + 1 <= length Zr)%nat) ->
  run feq stop prog_TOEPLITZ [Some (VF t0); Some (VArr tC TC); Some (VArr tR TR); Some (VArr tZ Zr)] =
  if Nat.eqb (length TC) 0 || negb (Nat.eqb (length TC) (length TR)) then OErr AssertionError
  else if feq t0 0%F then OErr ValueError
  else match toeplitz t0 TC TR Zr with
       | Some X => ORet [VArr false X]
       | None => OErr ValueError
       end.
Proof. intros. rewrite prog_TOEPLITZ_is_ref. apply toeplitz_ir_run; assumption. Qed.
Theorem loopir_TOEPLITZ_tie :
  forall (F : Type) (OF : Ops F) (L : Laws OF) (feq : F -> F -> bool), (forall a, feq a a = true) ->
  forall (t0 : F) (TC TR Zr : list F), (length TC + 1 <= length Zr)%nat -> tie_toeplitz feq prog_TOEPLITZ t0 TC TR Zr = true.
Proof. intros. rewrite prog_TOEPLITZ_is_ref. apply toeplitz_ir_tie; assumption. Qed.
Print Assumptions loopir_TOEPLITZ_model.
Print Assumptions loopir_TOEPLITZ_tie.
"""

# ---------------------------------------------------------------- rlevinson: translation + theorems for the argument checks and order 1 (T5)
RLEV_PROOF = 'Proofs/LoopIRRlevinson.v'
RLEV_THEOREMS = ['loopir_rlevinson_empty', 'loopir_rlevinson_assert', 'loopir_rlevinson_short', 'loopir_rlevinson_order1', 'loopir_rlevinson_tie_le1']
RLEV_BLOCK = """
(* The program regenerated on this run (rlevinson with its callee levdown embedded) is, term for term, the one Proofs/LoopIRRlevinson.v is about:
   its theorems apply.  They cover the argument checks and order 1 only; orders >= 2 rest on the exact evaluation tie. *)
Require Import Spectrum.Theory.Ops Spectrum.Theory.Vec Spectrum.Model.Levinson Spectrum.Model.LinPred Spectrum.Model.LoopIRTie Spectrum.Model.LoopIRRlev
               Spectrum.Proofs.LoopIRRlevinson.
Lemma prog_rlevinson_is_ref : prog_rlevinson = prog_rlevinson_gen0.
Proof. reflexivity. Qed.
Theorem loopir_rlevinson_empty :
  forall (F : Type) (OF : Ops F) (L : Laws OF) (feq : F -> F -> bool) (stop : Z -> F -> F -> bool) (t : bool) (ef : F),
  run feq stop prog_rlevinson [Some (VArr t []); Some (VF ef)] = OErr IndexError.
Proof. intros. rewrite prog_rlevinson_is_ref. apply rlevinson_ir_empty. Qed.
Theorem loopir_rlevinson_assert :
  forall (F : Type) (OF : Ops F) (L : Laws OF) (feq : F -> F -> bool) (stop : Z -> F -> F -> bool) (t : bool) (a0 : F) (a : list F) (ef : F),
  feq a0 1%F = false ->
  run feq stop prog_rlevinson [Some (VArr t (a0 :: a)); Some (VF ef)] = OErr AssertionError /\\ @rlevinson F OF feq (a0 :: a) ef = None.
Proof. intros. rewrite prog_rlevinson_is_ref. apply rlevinson_ir_assert; assumption. Qed.
Theorem loopir_rlevinson_short :
  forall (F : Type) (OF : Ops F) (L : Laws OF) (feq : F -> F -> bool) (stop : Z -> F -> F -> bool) (t : bool) (a0 : F) (ef : F),
  feq a0 1%F = true ->
  run feq stop prog_rlevinson [Some (VArr t [a0]); Some (VF ef)] = OErr ValueError /\\ @rlevinson F OF feq [a0] ef = None.
Proof. intros. rewrite prog_rlevinson_is_ref. apply rlevinson_ir_short; assumption. Qed.
Theorem loopir_rlevinson_order1 :
  forall (F : Type) (OF : Ops F) (L : Laws OF) (feq : F -> F -> bool) (stop : Z -> F -> F -> bool) (t : bool) (a0 a1 : F) (ef : F),
  feq a0 1%F = true ->
  run feq stop prog_rlevinson [Some (VArr t [a0; a1]); Some (VF ef)] =
  match @rlevinson F OF feq [a0; a1] ef with
  | Some (R, st, kr, es) =>
      ORet [VArr false R; VMat t 2 [[Umat st 0 0; Umat st 0 1]; [Umat st 1 0; Umat st 1 1]]; VArr t kr; VArr true es]
  | None => OErr ValueError
  end.
Proof. intros. rewrite prog_rlevinson_is_ref. apply rlevinson_ir_order1; assumption. Qed.
Theorem loopir_rlevinson_tie_le1 :
  forall (F : Type) (OF : Ops F) (L : Laws OF) (feq : F -> F -> bool), (forall a, feq a a = true) ->
  forall (t : bool) (a : list F) (ef : F), (length a <= 2)%nat -> tie_rlevinson feq prog_rlevinson t a ef = true.
Proof. intros. rewrite prog_rlevinson_is_ref. apply rlevinson_ir_tie_le1; assumption. Qed.
Print Assumptions loopir_rlevinson_empty.
Print Assumptions loopir_rlevinson_assert.
Print Assumptions loopir_rlevinson_short.
Print Assumptions loopir_rlevinson_order1.
Print Assumptions loopir_rlevinson_tie_le1.
"""

# routine -> the proof file its reference program text lives in, the theorems the generated file instantiates, the block that does it
THEOREMS = {
    'LEVINSON': dict(proof=LEV_PROOF, theorems=LEV_THEOREMS, block=LEV_BLOCK),
    'CORRELATION': dict(proof=COR_PROOF, theorems=COR_THEOREMS, block=COR_BLOCK),
    'levup': dict(proof=LEVUP_PROOF, theorems=LEVUP_THEOREMS, block=LEVUP_BLOCK),
    'levdown': dict(proof=LEVDOWN_PROOF, theorems=LEVDOWN_THEOREMS, block=LEVDOWN_BLOCK),
    'HERMTOEP': dict(proof=HERM_PROOF, theorems=HERM_THEOREMS, block=HERM_BLOCK),
    'minvar_psi': dict(proof=MVPSI_PROOF, theorems=MVPSI_THEOREMS, block=MVPSI_BLOCK),
    'TOEPLITZ': dict(proof=TOEP_PROOF, theorems=TOEP_THEOREMS, block=TOEP_BLOCK),
    'rlevinson': dict(proof=RLEV_PROOF, theorems=RLEV_THEOREMS, block=RLEV_BLOCK),
}


def reference_text(name):
    """the program text the proof file of `name` was proved about (between its BEGIN/END GENERATED markers)"""
    t = open(os.path.join(vlib.COQ, THEOREMS[name]['proof'])).read()
    m = re.search(r'\(\* BEGIN GENERATED %s[^\n]*\*\)\n(.*?)\(\* END GENERATED %s \*\)' % (name, name), t, re.S)
    return m.group(1).replace('prog_%s_gen0' % name, 'prog_%s' % name) if m else None


def levinson_reference_text():
    return reference_text('LEVINSON')


# ---------------------------------------------------------------- arburg: translation + theorem (T4)
ARBURG_PROOF = 'Proofs/LoopIRArburg.v'
ARBURG_THEOREMS = ['loopir_arburg_model', 'loopir_arburg_nocrit', 'loopir_arburg_crit', 'loopir_arburg_tie']
ARBURG_BLOCK = """
(* The program regenerated on this run is, term for term, the one Proofs/LoopIRArburg.v is about: its theorems apply. *)
Require Import Spectrum.Theory.Ops Spectrum.Theory.Vec Spectrum.Model.Burg Spectrum.Model.LoopIRTie Spectrum.Proofs.LoopIRArburg.
Lemma prog_arburg_is_ref : prog_arburg = prog_arburg_ref.
Proof. reflexivity. Qed.
(* for ALL data (both dtype tags), ANY integer order, criteria omitted or any string, any abstract order-selection rule [stop]: the run
   returns / raises exactly what the hand-written model says (ValueError for order <= 0, order > len(X) and rho <= 0 at any stage;
   the early stop returns the previous stage).  A falsy criteria (omitted, the empty string) means no order selection. *)
Theorem loopir_arburg_model :
  forall (F : Type) (OF : Ops F) (L : Laws OF) (feq : F -> F -> bool) (stop : Z -> F -> F -> bool)
         (t : bool) (x : list F) (order : Z) (crit : option string),
  run feq stop prog_arburg [Some (VArr t x); Some (VI order); option_map VStr crit] =
  match arburg x (Z.to_nat order)
               (match crit with
                | Some s => if String.eqb s ""%string then no_stop else (fun k a b => stop (Z.of_nat k) a b)
                | None => no_stop
                end) with
  | Some (a, rho, ref) => ORet [VArr false a; VF rho; VArr false ref]
  | None => OErr ValueError
  end.
Proof. intros. rewrite prog_arburg_is_ref. apply (arburg_ir_run feq stop t x order crit). Qed.
(* criteria=None, omitted or given *)
Theorem loopir_arburg_nocrit :
  forall (F : Type) (OF : Ops F) (L : Laws OF) (feq : F -> F -> bool) (stop : Z -> F -> F -> bool)
         (t : bool) (x : list F) (order : Z) (c3 : option (@value F)),
  c3 = None \\/ c3 = Some VNone ->
  run feq stop prog_arburg [Some (VArr t x); Some (VI order); c3] =
  match arburg x (Z.to_nat order) no_stop with
  | Some (a, rho, ref) => ORet [VArr false a; VF rho; VArr false ref]
  | None => OErr ValueError
  end.
Proof. intros. rewrite prog_arburg_is_ref. apply arburg_ir_nocrit; assumption. Qed.
(* a Criteria object: the interpreter's abstract rule is the stop argument of the model *)
Theorem loopir_arburg_crit :
  forall (F : Type) (OF : Ops F) (L : Laws OF) (feq : F -> F -> bool) (stop : Z -> F -> F -> bool)
         (t : bool) (x : list F) (order : Z) (s : string),
  s <> ""%string ->
  run feq stop prog_arburg [Some (VArr t x); Some (VI order); Some (VStr s)] =
  match arburg x (Z.to_nat order) (fun k a b => stop (Z.of_nat k) a b) with
  | Some (a, rho, ref) => ORet [VArr false a; VF rho; VArr false ref]
  | None => OErr ValueError
  end.
Proof. intros. rewrite prog_arburg_is_ref. apply arburg_ir_crit; assumption. Qed.
(* hence the boolean of the exact evaluation tie is true on its whole domain, for every reflexive equality test *)
Theorem loopir_arburg_tie :
  forall (F : Type) (OF : Ops F) (L : Laws OF) (feq : F -> F -> bool), (forall a, feq a a = true) ->
  forall (stop : Z -> F -> F -> bool) (isreal : bool) (x : list F) (order : Z) (crit : option string),
  crit <> Some ""%string ->
  tie_arburg feq stop prog_arburg isreal x order crit = true.
Proof. intros. rewrite prog_arburg_is_ref. apply arburg_ir_tie; assumption. Qed.
Print Assumptions loopir_arburg_model.
Print Assumptions loopir_arburg_nocrit.
Print Assumptions loopir_arburg_crit.
Print Assumptions loopir_arburg_tie.
"""
THEOREMS['arburg'] = dict(proof=ARBURG_PROOF, theorems=ARBURG_THEOREMS, block=ARBURG_BLOCK)


# ---------------------------------------------------------------- aryule: translation + theorem by COMPOSITION of the theorems of CORRELATION and LEVINSON (T6)
ARYULE_PROOF = 'Proofs/LoopIRAryule.v'
ARYULE_THEOREMS = ['loopir_aryule_model', 'loopir_aryule_complex', 'loopir_aryule_real', 'loopir_aryule_tie']
ARYULE_BLOCK = """
(* The program regenerated on this run - with the programs of CORRELATION and LEVINSON embedded - is, term for term, the one
   Proofs/LoopIRAryule.v is about: its theorems (composition of correlation_ir_run and levinson_ir_run through SCall1 / SCall) apply. *)
Require Import Spectrum.Theory.Ops Spectrum.Theory.Vec Spectrum.Model.Levinson Spectrum.Model.Corr Spectrum.Model.Yule Spectrum.Model.LoopIRTie
               Spectrum.Model.LoopIRWrap Spectrum.Proofs.LoopIRLevinson Spectrum.Proofs.LoopIRCorrelation Spectrum.Proofs.LoopIRAryule.
Lemma prog_aryule_is_ref : prog_aryule = prog_aryule_ref.
Proof. reflexivity. Qed.
(* both dtype tags (the tag is [negb c]), ANY X, order, norm omitted / any string, allow_singularity omitted / given, any oracle values:
   the run is the model with [conj] replaced by [cj c] ([c = false]: what the float branches of CORRELATION and LEVINSON compute) *)
Theorem loopir_aryule_model :
  forall (F : Type) (OF : Ops F) (L : Laws OF) (feq : F -> F -> bool) (stop : Z -> F -> F -> bool)
         (c : bool) (x : list F) (order : nat) (nm : option string) (allow : option bool) (o1 o2 : F),
  run feq stop prog_aryule (aryule_args (negb c) x order nm allow o1 o2) =
  match yw_norm nm with
  | None => OErr AssertionError
  | Some cn => yw_outcome (negb c) (garyule c (o1 * o2)%F x order cn (match allow with Some b => b | None => true end))
  end.
Proof. intros. rewrite prog_aryule_is_ref. exact (aryule_ir_run feq stop c x order nm allow o1 o2). Qed.
(* complex dtype: the hand-written model Model.Yule.aryule itself, unconditionally *)
Theorem loopir_aryule_complex :
  forall (F : Type) (OF : Ops F) (L : Laws OF) (feq : F -> F -> bool) (stop : Z -> F -> F -> bool)
         (x : list F) (order : nat) (nm : option string) (allow : option bool) (o1 o2 : F),
  run feq stop prog_aryule (aryule_args false x order nm allow o1 o2) =
  match yw_norm nm with
  | None => OErr AssertionError
  | Some cn =>
      match aryule x order cn (match allow with Some b => b | None => true end) with
      | inr (a, p, k) => ORet [VArr false a; VF p; VArr false k]
      | inl YAssert => OErr AssertionError
      | inl YSingular => OErr ValueError
      end
  end.
Proof. intros. rewrite prog_aryule_is_ref. exact (aryule_ir_complex feq stop x order nm allow o1 o2). Qed.
(* float dtype, real-valued X, allow_singularity=False, a real-valued autocorrelation with a positive lag 0 *)
Theorem loopir_aryule_real :
  forall (F : Type) (OF : Ops F) (L : Laws OF) (feq : F -> F -> bool) (stop : Z -> F -> F -> bool)
         (x : list F) (order : nat) (nm : option string) (o1 o2 : F),
  (forall j, conj (nthF x j) = nthF x j) ->
  (forall cn r, yw_norm nm = Some cn -> acorr x order cn = Some r -> (forall j, conj (nthF r j) = nthF r j) /\\ le0 (re (nthF r 0)) = false) ->
  run feq stop prog_aryule (aryule_args true x order nm (Some false) o1 o2) =
  match yw_norm nm with
  | None => OErr AssertionError
  | Some cn =>
      match aryule x order cn false with
      | inr (a, p, k) => ORet [VArr true a; VF p; VArr true k]
      | inl YAssert => OErr AssertionError
      | inl YSingular => OErr ValueError
      end
  end.
Proof. intros F OF L feq stop x order nm o1 o2 H1 H2. rewrite prog_aryule_is_ref. exact (aryule_ir_real feq stop x order nm o1 o2 H1 H2). Qed.
(* hence the boolean of the exact evaluation tie is true for every complex-tagged input, for every reflexive equality test *)
Theorem loopir_aryule_tie :
  forall (F : Type) (OF : Ops F) (L : Laws OF) (feq : F -> F -> bool), (forall a, feq a a = true) ->
  forall (x : list F) (order : nat) (nm : option string) (allow : option bool) (o1 o2 : F),
  tie_aryule feq prog_aryule false x order nm allow o1 o2 = true.
Proof. intros. rewrite prog_aryule_is_ref. apply aryule_ir_tie; assumption. Qed.
Print Assumptions loopir_aryule_model.
Print Assumptions loopir_aryule_complex.
Print Assumptions loopir_aryule_real.
Print Assumptions loopir_aryule_tie.
"""
THEOREMS['aryule'] = dict(proof=ARYULE_PROOF, theorems=ARYULE_THEOREMS, block=ARYULE_BLOCK)


# ---------------------------------------------------------------- ma: aryule_ir_run composed with itself (T6)
MA_PROOF = 'Proofs/LoopIRMa.v'
MA_THEOREMS = ['loopir_ma_model', 'loopir_ma_complex', 'loopir_ma_tie']
MA_BLOCK = """
(* The program of ma regenerated on this run - with aryule (and inside it CORRELATION, LEVINSON) embedded twice - is, term for term, the one
   Proofs/LoopIRMa.v is about: its theorems apply. *)
Require Import Spectrum.Theory.Ops Spectrum.Theory.Vec Spectrum.Model.Levinson Spectrum.Model.Corr Spectrum.Model.Yule Spectrum.Model.MaEst
               Spectrum.Model.LoopIRTie Spectrum.Model.LoopIRWrap Spectrum.Proofs.LoopIRAryule Spectrum.Proofs.LoopIRMa.
Lemma prog_ma_is_ref : prog_ma = prog_ma_ref.
Proof. reflexivity. Qed.
(* both dtype tags ([negb c]), ANY X, ANY integers Q, M, any oracle values *)
Theorem loopir_ma_model :
  forall (F : Type) (OF : Ops F) (L : Laws OF) (feq : F -> F -> bool) (stop : Z -> F -> F -> bool)
         (c : bool) (x : list F) (Q M : Z) (o1 o2 o3 o4 : F),
  run feq stop prog_ma [Some (VArr (negb c) x); Some (VI Q); Some (VI M); Some (VF o1); Some (VF o2); Some (VF o3); Some (VF o4)] =
  if ((Q <=? 0) || (M <=? Q))%Z then OErr ValueError
  else ma_outcome (negb c) (gma c (o1 * o2)%F (o3 * o4)%F x (Z.to_nat Q) (Z.to_nat M)).
Proof. intros. rewrite prog_ma_is_ref. exact (ma_ir_run feq stop c x Q M o1 o2 o3 o4). Qed.
(* complex dtype: the hand-written model Model.MaEst.ma_est itself *)
Theorem loopir_ma_complex :
  forall (F : Type) (OF : Ops F) (L : Laws OF) (feq : F -> F -> bool) (stop : Z -> F -> F -> bool)
         (x : list F) (Q M : Z) (o1 o2 o3 o4 : F),
  run feq stop prog_ma [Some (VArr false x); Some (VI Q); Some (VI M); Some (VF o1); Some (VF o2); Some (VF o3); Some (VF o4)] =
  if ((Q <=? 0) || (M <=? Q))%Z then OErr ValueError
  else match ma_est x (Z.to_nat Q) (Z.to_nat M) with
       | inr (b, rho) => ORet [VArr false b; VF rho]
       | inl MaValue => OErr ValueError
       | inl MaAssert => OErr AssertionError
       | inl MaSingular => OErr ValueError
       end.
Proof. intros. rewrite prog_ma_is_ref. exact (ma_ir_complex feq stop x Q M o1 o2 o3 o4). Qed.
Theorem loopir_ma_tie :
  forall (F : Type) (OF : Ops F) (L : Laws OF) (feq : F -> F -> bool), (forall a, feq a a = true) ->
  forall (x : list F) (Q M : Z) (o1 o2 o3 o4 : F), tie_ma feq prog_ma false x Q M o1 o2 o3 o4 = true.
Proof. intros. rewrite prog_ma_is_ref. apply ma_ir_tie; assumption. Qed.
Print Assumptions loopir_ma_model.
Print Assumptions loopir_ma_complex.
Print Assumptions loopir_ma_tie.
"""
THEOREMS['ma'] = dict(proof=MA_PROOF, theorems=MA_THEOREMS, block=MA_BLOCK)


# ---------------------------------------------------------------- ac2poly, ac2rc: levinson_ir_run through the call (T6)
AC2_PROOF = 'Proofs/LoopIRAc2.v'


def ac2_block(nm, ret):
    return """
(* The program of %(nm)s regenerated on this run - with LEVINSON embedded - is, term for term, the one Proofs/LoopIRAc2.v is about. *)
Require Import Spectrum.Theory.Ops Spectrum.Theory.Vec Spectrum.Model.Levinson Spectrum.Model.LinPred Spectrum.Model.LoopIRTie Spectrum.Model.LoopIRWrap
               Spectrum.Proofs.LoopIRLevinson Spectrum.Proofs.LoopIRAc2.
Lemma prog_%(nm)s_is_ref : prog_%(nm)s = prog_%(nm)s_ref.
Proof. reflexivity. Qed.
Theorem loopir_%(nm)s_complex :
  forall (F : Type) (OF : Ops F) (L : Laws OF) (feq : F -> F -> bool) (stop : Z -> F -> F -> bool) (r : list F), r <> [] ->
  run feq stop prog_%(nm)s [Some (VArr false r)] =
  match %(nm)s r with Some (a, e) => ORet [VArr false a; VF e] | None => OErr ValueError end.
Proof. intros. rewrite prog_%(nm)s_is_ref. apply %(nm)s_ir_complex; assumption. Qed.
Theorem loopir_%(nm)s_real :
  forall (F : Type) (OF : Ops F) (L : Laws OF) (feq : F -> F -> bool) (stop : Z -> F -> F -> bool) (r : list F), r <> [] ->
  (forall j, conj (nthF r j) = nthF r j) -> le0 (re (nthF r 0)) = false ->
  run feq stop prog_%(nm)s [Some (VArr true r)] =
  match %(nm)s r with Some (a, e) => ORet [VArr true a; VF e] | None => OErr ValueError end.
Proof. intros. rewrite prog_%(nm)s_is_ref. apply %(nm)s_ir_real; assumption. Qed.
Theorem loopir_%(nm)s_tie :
  forall (F : Type) (OF : Ops F) (L : Laws OF) (feq : F -> F -> bool), (forall a, feq a a = true) ->
  forall (r : list F), r <> [] -> tie_%(nm)s feq prog_%(nm)s false r = true.
Proof. intros. rewrite prog_%(nm)s_is_ref. apply %(nm)s_ir_tie; assumption. Qed.
Print Assumptions loopir_%(nm)s_complex.
Print Assumptions loopir_%(nm)s_real.
Print Assumptions loopir_%(nm)s_tie.
""" % dict(nm=nm)


for _nm in ('ac2poly', 'ac2rc'):
    THEOREMS[_nm] = dict(proof=AC2_PROOF, theorems=['loopir_%s_complex' % _nm, 'loopir_%s_real' % _nm, 'loopir_%s_tie' % _nm], block=ac2_block(_nm, None))


# ---------------------------------------------------------------- rc2poly: levup_ir_run through the call, induction over the range (T6)
RC2POLY_PROOF = 'Proofs/LoopIRRc2poly.v'
RC2POLY_THEOREMS = ['loopir_rc2poly_model', 'loopir_rc2poly_tie']
RC2POLY_BLOCK = """
(* The program of rc2poly regenerated on this run - a loop over the embedded levup - is, term for term, the one Proofs/LoopIRRc2poly.v is about. *)
Require Import Spectrum.Theory.Ops Spectrum.Theory.Vec Spectrum.Model.Levinson Spectrum.Model.LinPred Spectrum.Model.LoopIRTie Spectrum.Model.LoopIRWrap
               Spectrum.Proofs.LoopIRRc2poly.
Lemma prog_rc2poly_is_ref : prog_rc2poly = prog_rc2poly_ref.
Proof. reflexivity. Qed.
(* ANY reflection coefficients (any dtype tag, the empty sequence included), r0 omitted (= 0) or given, every equality test with 1 == 1 *)
Theorem loopir_rc2poly_model :
  forall (F : Type) (OF : Ops F) (L : Laws OF) (feq : F -> F -> bool) (stop : Z -> F -> F -> bool), feq 1%F 1%F = true ->
  forall (tk : bool) (kr : list F) (r0 : option F),
  run feq stop prog_rc2poly [Some (VArr tk kr); option_map VF r0] =
  match rc2poly kr (match r0 with Some z => z | None => 0%F end) with
  | Some (a, e) => ORet [VArr false a; VF e]
  | None => OErr IndexError
  end.
Proof. intros. rewrite prog_rc2poly_is_ref. apply (rc2poly_ir_run feq stop); assumption. Qed.
Theorem loopir_rc2poly_tie :
  forall (F : Type) (OF : Ops F) (L : Laws OF) (feq : F -> F -> bool), (forall a, feq a a = true) ->
  forall (tk : bool) (kr : list F) (r0 : option F), tie_rc2poly feq prog_rc2poly tk kr r0 = true.
Proof. intros. rewrite prog_rc2poly_is_ref. apply rc2poly_ir_tie; assumption. Qed.
Print Assumptions loopir_rc2poly_model.
Print Assumptions loopir_rc2poly_tie.
"""
THEOREMS['rc2poly'] = dict(proof=RC2POLY_PROOF, theorems=RC2POLY_THEOREMS, block=RC2POLY_BLOCK)


# ---------------------------------------------------------------- arma2psd: translation + theorem (T7)
ARMA2PSD_PROOF = 'Proofs/LoopIRArma2psd.v'
ARMA2PSD_THEOREMS = ['loopir_arma2psd_model', 'loopir_arma2psd_tie']
ARMA2PSD_BLOCK = """
(* The program of arma2psd regenerated on this run - two loops filling den / num, two numpy.fft.fft calls (the DFT specification of Theory/Dft.v over the
   hidden twiddle parameter), abs()**2, the three formulas, numpy.real, tools.twosided_2_centerdc embedded, psd /= max(psd) - is, term for term, the one
   Proofs/LoopIRArma2psd.v is about: its theorems apply. *)
Require Import Spectrum.Theory.Ops Spectrum.Theory.Vec Spectrum.Theory.Dft Spectrum.Model.Arma2psd Spectrum.Model.LoopIRTie Spectrum.Model.LoopIRVec
               Spectrum.Proofs.LoopIRArma2psd.
Lemma prog_arma2psd_is_ref : prog_arma2psd = prog_arma2psd_ref.
Proof. reflexivity. Qed.
(* for EVERY twiddle family, A / B absent or arrays of any length and dtype tag, rho / T given or omitted, every NFFT (a natural number), sides omitted
   or ANY string, norm omitted / False / True: the run returns / raises exactly what Model.Arma2psd.arma2psd says (arma2psd_spec of Model/LoopIRVec.v) *)
Theorem loopir_arma2psd_model :
  forall (F : Type) (OF : Ops F) (L : Laws OF) (feq : F -> F -> bool) (stop : Z -> F -> F -> bool) (tw : nat -> Z -> F)
         (A B : option (bool * list F)) (rho T : option F) (nfft : nat) (sides : option string) (norm : option bool),
  run feq stop prog_arma2psd (arma2psd_args tw A B rho T nfft sides norm) = arma2psd_spec tw A B rho T nfft sides norm.
Proof. intros. rewrite prog_arma2psd_is_ref. apply arma2psd_ir_run. Qed.
Theorem loopir_arma2psd_tie :
  forall (F : Type) (OF : Ops F) (L : Laws OF) (feq : F -> F -> bool), (forall a, feq a a = true) ->
  forall (tw : nat -> Z -> F) (A B : option (bool * list F)) (rho T : option F) (nfft : nat) (sides : option string) (norm : option bool),
  tie_arma2psd feq tw prog_arma2psd A B rho T nfft sides norm = true.
Proof. intros. rewrite prog_arma2psd_is_ref. apply arma2psd_ir_tie; assumption. Qed.
Print Assumptions loopir_arma2psd_model.
Print Assumptions loopir_arma2psd_tie.
"""
THEOREMS['arma2psd'] = dict(proof=ARMA2PSD_PROOF, theorems=ARMA2PSD_THEOREMS, block=ARMA2PSD_BLOCK)


# ---------------------------------------------------------------- minvar, the whole function: translation + theorem by COMPOSITION (T8)
MINVAR_PROOF = 'Proofs/LoopIRMinvar.v'
MINVAR_THEOREMS = ['loopir_minvar_model', 'loopir_minvar_default_nfft', 'loopir_minvar_tie']
MINVAR_BLOCK = """
(* The program of minvar regenerated on this run - errors.is_positive_integer (twice) and burg.arburg embedded as calls, the psi loop, numpy.fft.fft
   (the DFT specification of Theory/Dft.v over the hidden twiddle parameter), sampling / numpy.real(psi) - is, term for term, the one
   Proofs/LoopIRMinvar.v is about: its theorems apply.  (The theorem composes arburg_ir_nocrit through the call semantics.) *)
Require Import Spectrum.Theory.Ops Spectrum.Theory.Vec Spectrum.Theory.Dft Spectrum.Model.Minvar Spectrum.Model.LoopIRTie Spectrum.Model.LoopIRVec
               Spectrum.Proofs.LoopIRMinvar.
Lemma prog_minvar_is_ref : prog_minvar = prog_minvar_ref.
Proof. reflexivity. Qed.
(* for EVERY twiddle family, any data (any length, both dtype tags), ANY integer order, sampling given or omitted, every NFFT (a natural number):
   the run returns / raises exactly what Model.Minvar.minvar and Model.Burg.arburg say (minvar_spec of Model/LoopIRVec.v): SpectrumError for
   order < 0, ValueError when arburg(X, order-1) raises, IndexError for NFFT < order, else (PSD, A with the leading 1, k).  No side condition. *)
Theorem loopir_minvar_model :
  forall (F : Type) (OF : Ops F) (L : Laws OF) (feq : F -> F -> bool) (stop : Z -> F -> F -> bool) (tw : nat -> Z -> F)
         (isreal : bool) (x : list F) (order : Z) (s : option F) (nfft : nat),
  run feq stop prog_minvar (minvar_args tw isreal x order s (Some nfft)) = minvar_spec tw x order s nfft.
Proof. intros. rewrite prog_minvar_is_ref. apply minvar_ir_run. Qed.
(* NFFT omitted: the Python default default_NFFT = 4096 applies *)
Theorem loopir_minvar_default_nfft :
  forall (F : Type) (OF : Ops F) (L : Laws OF) (feq : F -> F -> bool) (stop : Z -> F -> F -> bool) (tw : nat -> Z -> F)
         (isreal : bool) (x : list F) (order : Z) (s : option F),
  run feq stop prog_minvar (minvar_args tw isreal x order s None) = minvar_spec tw x order s 4096.
Proof. intros. rewrite prog_minvar_is_ref. apply minvar_ir_run_default. Qed.
Theorem loopir_minvar_tie :
  forall (F : Type) (OF : Ops F) (L : Laws OF) (feq : F -> F -> bool), (forall a, feq a a = true) ->
  forall (tw : nat -> Z -> F) (isreal : bool) (x : list F) (order : Z) (s : option F) (nfft : nat),
  tie_minvar feq tw prog_minvar isreal x order s nfft = true.
Proof. intros. rewrite prog_minvar_is_ref. apply minvar_ir_tie; assumption. Qed.
Print Assumptions loopir_minvar_model.
Print Assumptions loopir_minvar_default_nfft.
Print Assumptions loopir_minvar_tie.
"""
THEOREMS['minvar'] = dict(proof=MINVAR_PROOF, theorems=MINVAR_THEOREMS, block=MINVAR_BLOCK)


# ---------------------------------------------------------------- speriodogram (1-D path): translation + theorem (T8)
SPER_PROOF = 'Proofs/LoopIRSperiodogram.v'
SPER_THEOREMS = ['loopir_speriodogram_model', 'loopir_speriodogram_tie']
SPER_BLOCK = """
(* The program of speriodogram regenerated on this run - the 1-D path: NFFT resolution, numpy.mean, x * w - m, numpy.fft.rfft / fft (the DFT specification
   of Theory/Dft.v over the hidden twiddle parameter), abs()**2 / r, res *= 2*pi/df - is, term for term, the one Proofs/LoopIRSperiodogram.v is about. *)
Require Import Spectrum.Theory.Ops Spectrum.Theory.Vec Spectrum.Theory.Dft Spectrum.Model.Periodogram Spectrum.Model.LoopIRTie Spectrum.Model.LoopIRVec
               Spectrum.Proofs.LoopIRSperiodogram.
Lemma prog_speriodogram_is_ref : prog_speriodogram = prog_speriodogram_ref.
Proof. reflexivity. Qed.
(* for EVERY twiddle family, ANY value of the numpy.pi slot, ANY window samples of the length of x, x of any length with either dtype tag (rfft / fft path),
   NFFT omitted or any natural number (padding, cropping, 0), detrend / scale_by_freq omitted or any non-integer Python value, sampling omitted or given:
   the run returns / raises exactly what Model.Periodogram.speriodogram says (speriodogram_spec of Model/LoopIRVec.v) *)
Theorem loopir_speriodogram_model :
  forall (F : Type) (OF : Ops F) (L : Laws OF) (feq : F -> F -> bool) (stop : Z -> F -> F -> bool) (tw : nat -> Z -> F) (pi : F)
         (isreal : bool) (x w : list F) (NFFT : option nat) (dt sbf : option pyval) (fs : option F),
  length w = length x -> oflag_ok dt -> oflag_ok sbf ->
  run feq stop prog_speriodogram (speriodogram_args tw pi isreal x w NFFT dt sbf fs) = speriodogram_spec tw pi isreal x w NFFT dt sbf fs.
Proof. intros. rewrite prog_speriodogram_is_ref. apply speriodogram_ir_run; assumption. Qed.
Theorem loopir_speriodogram_tie :
  forall (F : Type) (OF : Ops F) (L : Laws OF) (feq : F -> F -> bool), (forall a, feq a a = true) ->
  forall (tw : nat -> Z -> F) (pi : F) (isreal : bool) (x w : list F) (NFFT : option nat) (dt sbf : option pyval) (fs : option F),
  length w = length x -> oflag_ok dt -> oflag_ok sbf ->
  tie_speriodogram feq tw pi prog_speriodogram isreal x w NFFT dt sbf fs = true.
Proof. intros. rewrite prog_speriodogram_is_ref. apply speriodogram_ir_tie; assumption. Qed.
Print Assumptions loopir_speriodogram_model.
Print Assumptions loopir_speriodogram_tie.
"""
THEOREMS['speriodogram'] = dict(proof=SPER_PROOF, theorems=SPER_THEOREMS, block=SPER_BLOCK)


# ---------------------------------------------------------------- CORRELOGRAMPSD: translation + theorem by COMPOSITION of the CORRELATION theorem (T8)
CGRAM_PROOF = 'Proofs/LoopIRCorrelogram.v'
CGRAM_THEOREMS = ['loopir_CORRELOGRAMPSD_model', 'loopir_CORRELOGRAMPSD_correlation', 'loopir_CORRELOGRAMPSD_xcorr', 'loopir_CORRELOGRAMPSD_tie']
CGRAM_BLOCK = """
(* The program of CORRELOGRAMPSD regenerated on this run - CORRELATION embedded twice, the xcorr calls as oracle slots, the two slice stores, real(fft(psd))
   (the DFT specification of Theory/Dft.v over the hidden twiddle parameter) - is, term for term, the one Proofs/LoopIRCorrelogram.v is about. *)
Require Import Spectrum.Theory.Ops Spectrum.Theory.Vec Spectrum.Theory.Dft Spectrum.Model.Corr Spectrum.Model.Periodogram Spectrum.Model.LoopIRTie
               Spectrum.Model.LoopIRVec Spectrum.Proofs.LoopIRLevinson Spectrum.Proofs.LoopIRCorrelogram.
Lemma prog_CORRELOGRAMPSD_is_ref : prog_CORRELOGRAMPSD = prog_CORRELOGRAMPSD_ref.
Proof. reflexivity. Qed.
(* for EVERY twiddle family, ANY window samples with 2*lag+1 entries, ANY values of the rms slots, X / Y of any lengths and dtype tags, every lag (a natural
   number), NFFT omitted / None / any natural number, norm and correlation_method omitted or ANY string - on the domain cg_dom (CORRELATION back end: two
   float-tagged records are real-valued; xcorr back end: valid norm, equal lengths) - the run returns / raises exactly what Model.Periodogram.correlogram says
   (correlogram_spec of Model/LoopIRVec.v) *)
Theorem loopir_CORRELOGRAMPSD_model :
  forall (F : Type) (OF : Ops F) (L : Laws OF) (feq : F -> F -> bool) (stop : Z -> F -> F -> bool) (tw : nat -> Z -> F)
         (rx : bool) (x : list F) (y : option (bool * list F)) (lag : nat) (wfull : list F) (NFFT : option (option nat)) (nm : option (option string))
         (meth : option string) (o1 o2 : F),
  cg_dom rx x y lag wfull nm meth ->
  run feq stop prog_CORRELOGRAMPSD (correlogram_args tw rx x y lag wfull NFFT nm meth o1 o2) = correlogram_spec tw x y lag wfull NFFT nm meth o1 o2.
Proof. intros. rewrite prog_CORRELOGRAMPSD_is_ref. apply correlogram_ir_run; assumption. Qed.
(* correlation_method='CORRELATION': the composition with the theorem of CORRELATION; unequal lengths included *)
Theorem loopir_CORRELOGRAMPSD_correlation :
  forall (F : Type) (OF : Ops F) (L : Laws OF) (feq : F -> F -> bool) (stop : Z -> F -> F -> bool) (tw : nat -> Z -> F)
         (rx : bool) (x : list F) (y : option (bool * list F)) (lag : nat) (wfull : list F) (NFFT : option (option nat)) (nm : option (option string)) (o1 o2 : F),
  length wfull = (2 * lag + 1)%nat -> (rx && ty_of rx y = true -> isrealL (yl_of x y) /\\ isrealL x) ->
  run feq stop prog_CORRELOGRAMPSD (correlogram_args tw rx x y lag wfull NFFT nm (Some "CORRELATION"%string) o1 o2)
  = correlogram_spec tw x y lag wfull NFFT nm (Some "CORRELATION"%string) o1 o2.
Proof. intros. rewrite prog_CORRELOGRAMPSD_is_ref. apply correlogram_ir_run_correlation; assumption. Qed.
(* correlation_method='xcorr' or omitted: the oracle slots hold the model's xcorr *)
Theorem loopir_CORRELOGRAMPSD_xcorr :
  forall (F : Type) (OF : Ops F) (L : Laws OF) (feq : F -> F -> bool) (stop : Z -> F -> F -> bool) (tw : nat -> Z -> F)
         (rx : bool) (x : list F) (y : option (bool * list F)) (lag : nat) (wfull : list F) (NFFT : option (option nat)) (nm : option (option string))
         (meth : option string) (o1 o2 : F),
  meth = None \\/ meth = Some "xcorr"%string ->
  length wfull = (2 * lag + 1)%nat -> norm_of nm <> None -> length (yl_of x y) = length x ->
  run feq stop prog_CORRELOGRAMPSD (correlogram_args tw rx x y lag wfull NFFT nm meth o1 o2) = correlogram_spec tw x y lag wfull NFFT nm meth o1 o2.
Proof. intros. rewrite prog_CORRELOGRAMPSD_is_ref. apply correlogram_ir_run_xcorr; assumption. Qed.
Theorem loopir_CORRELOGRAMPSD_tie :
  forall (F : Type) (OF : Ops F) (L : Laws OF) (feq : F -> F -> bool), (forall a, feq a a = true) ->
  forall (tw : nat -> Z -> F) (rx : bool) (x : list F) (y : option (bool * list F)) (lag : nat) (wfull : list F) (NFFT : option (option nat))
         (nm : option (option string)) (meth : option string) (o1 o2 : F),
  cg_dom rx x y lag wfull nm meth ->
  tie_correlogram feq tw prog_CORRELOGRAMPSD rx x y lag wfull NFFT nm meth o1 o2 = true.
Proof. intros. rewrite prog_CORRELOGRAMPSD_is_ref. apply correlogram_ir_tie; assumption. Qed.
Print Assumptions loopir_CORRELOGRAMPSD_model.
Print Assumptions loopir_CORRELOGRAMPSD_correlation.
Print Assumptions loopir_CORRELOGRAMPSD_xcorr.
Print Assumptions loopir_CORRELOGRAMPSD_tie.
"""
THEOREMS['CORRELOGRAMPSD'] = dict(proof=CGRAM_PROOF, theorems=CGRAM_THEOREMS, block=CGRAM_BLOCK)


# ---------------------------------------------------------------- rlevinson: run = model for ALL inputs (T9); extends the T5 entry
# The proof file of the entry becomes Proofs/LoopIRRlevinsonAll.v (it imports Proofs/LoopIRRlevinson.v, keeps the same verbatim program text between
# its own BEGIN/END GENERATED rlevinson markers, and proves the two copies equal by reflexivity): building its cone builds both files.
RLEVALL_PROOF = 'Proofs/LoopIRRlevinsonAll.v'
RLEVALL_THEOREMS = ['loopir_rlevinson_model', 'loopir_rlevinson_tie']
RLEVALL_BLOCK = """
(* T9: the same regenerated program is also, term for term, the decomposed program Proofs/LoopIRRlevinsonAll.v is about: run = Model.LinPred.rlevinson for
   ALL inputs (every length, both dtype tags, every efinal, every equality test feq = the model's Eqb instance): the step-down sweep through the embedded
   levdown, the column stores into U, the R recursion. *)
Require Import Spectrum.Proofs.LoopIRRlevinsonAll.
Lemma prog_rlevinson_is_ref_all : prog_rlevinson = prog_rlevinson_ref.
Proof. reflexivity. Qed.
Theorem loopir_rlevinson_model :
  forall (F : Type) (OF : Ops F) (L : Laws OF) (feq : F -> F -> bool) (stop : Z -> F -> F -> bool) (t : bool) (a : list F) (ef : F),
  run feq stop prog_rlevinson [Some (VArr t a); Some (VF ef)] =
  match a with
  | [] => OErr IndexError
  | a0 :: _ =>
      if negb (feq a0 1%F) then OErr AssertionError
      else match @rlevinson F OF feq a ef with
           | None => OErr ValueError
           | Some (R, stages, kr, es) =>
               ORet [VArr false R; VMat t (length a) (Umatrix (length a) stages); VArr t kr; VArr true es]
           end
  end.
Proof. intros. rewrite prog_rlevinson_is_ref_all. exact (rlevinson_ir_run feq stop t a ef). Qed.
Theorem loopir_rlevinson_tie :
  forall (F : Type) (OF : Ops F) (L : Laws OF) (feq : F -> F -> bool), (forall a, feq a a = true) ->
  forall (t : bool) (a : list F) (ef : F), tie_rlevinson feq prog_rlevinson t a ef = true.
Proof. intros. rewrite prog_rlevinson_is_ref_all. apply rlevinson_ir_tie; assumption. Qed.
Print Assumptions loopir_rlevinson_model.
Print Assumptions loopir_rlevinson_tie.
"""
THEOREMS['rlevinson'] = dict(proof=RLEVALL_PROOF, theorems=RLEV_THEOREMS + RLEVALL_THEOREMS, block=RLEV_BLOCK + RLEVALL_BLOCK)


# ---------------------------------------------------------------- poly2ac, poly2rc, rc2ac: rlevinson_ir_run / rc2poly_ir_run through the call semantics (T9)
POLY2_PROOF = 'Proofs/LoopIRPoly2.v'


def poly2_block(nm, ret):
    return """
(* The program of %(nm)s regenerated on this run - with rlevinson (and its callee levdown) embedded - is, term for term, the one Proofs/LoopIRPoly2.v is about. *)
Require Import Spectrum.Theory.Ops Spectrum.Theory.Vec Spectrum.Model.Levinson Spectrum.Model.LinPred Spectrum.Model.LoopIRTie Spectrum.Model.LoopIRWrap
               Spectrum.Proofs.LoopIRPoly2.
Lemma prog_%(nm)s_is_ref : prog_%(nm)s = prog_%(nm)s_ref.
Proof. reflexivity. Qed.
(* ANY array (any length, both dtype tags), any efinal, every equality test (it is the model's Eqb instance) *)
Theorem loopir_%(nm)s_model :
  forall (F : Type) (OF : Ops F) (L : Laws OF) (feq : F -> F -> bool) (stop : Z -> F -> F -> bool) (t : bool) (a : list F) (ef : F),
  run feq stop prog_%(nm)s [Some (VArr t a); Some (VF ef)] =
  match a with
  | [] => OErr IndexError
  | a0 :: _ =>
      if negb (feq a0 1%%F) then OErr AssertionError
      else match @%(nm)s F OF feq a ef with None => OErr ValueError | Some r => ORet [VArr %(ret)s r] end
  end.
Proof. intros. rewrite prog_%(nm)s_is_ref. exact (%(nm)s_ir_run feq stop t a ef). Qed.
Theorem loopir_%(nm)s_tie :
  forall (F : Type) (OF : Ops F) (L : Laws OF) (feq : F -> F -> bool), (forall a, feq a a = true) ->
  forall (t : bool) (a : list F) (ef : F), tie_%(nm)s feq prog_%(nm)s t a ef = true.
Proof. intros. rewrite prog_%(nm)s_is_ref. apply %(nm)s_ir_tie; assumption. Qed.
Print Assumptions loopir_%(nm)s_model.
Print Assumptions loopir_%(nm)s_tie.
""" % dict(nm=nm, ret=ret)


for _nm, _ret in (('poly2ac', 'false'), ('poly2rc', 't')):
    THEOREMS[_nm] = dict(proof=POLY2_PROOF, theorems=['loopir_%s_model' % _nm, 'loopir_%s_tie' % _nm], block=poly2_block(_nm, _ret))

RC2AC_THEOREMS = ['loopir_rc2ac_model', 'loopir_rc2ac_tie']
RC2AC_BLOCK = """
(* The program of rc2ac regenerated on this run - rc2poly (with levup) and rlevinson (with levdown) embedded - is, term for term, the one Proofs/LoopIRPoly2.v is about. *)
Require Import Spectrum.Theory.Ops Spectrum.Theory.Vec Spectrum.Model.Levinson Spectrum.Model.LinPred Spectrum.Model.LoopIRTie Spectrum.Model.LoopIRWrap
               Spectrum.Proofs.LoopIRPoly2.
Lemma prog_rc2ac_is_ref : prog_rc2ac = prog_rc2ac_ref.
Proof. reflexivity. Qed.
(* ANY reflection coefficients (any dtype tag, the empty sequence included), any R0, every equality test with 1 == 1 *)
Theorem loopir_rc2ac_model :
  forall (F : Type) (OF : Ops F) (L : Laws OF) (feq : F -> F -> bool) (stop : Z -> F -> F -> bool), feq 1%F 1%F = true ->
  forall (tk : bool) (k : list F) (r0 : F),
  run feq stop prog_rc2ac [Some (VArr tk k); Some (VF r0)] =
  match @rc2ac F OF feq k r0 with
  | Some R => ORet [VArr false R]
  | None => match k with [] => OErr IndexError | _ => OErr ValueError end
  end.
Proof. intros. rewrite prog_rc2ac_is_ref. apply (rc2ac_ir_run feq stop); assumption. Qed.
Theorem loopir_rc2ac_tie :
  forall (F : Type) (OF : Ops F) (L : Laws OF) (feq : F -> F -> bool), (forall a, feq a a = true) ->
  forall (tk : bool) (k : list F) (r0 : F), tie_rc2ac feq prog_rc2ac tk k r0 = true.
Proof. intros. rewrite prog_rc2ac_is_ref. apply rc2ac_ir_tie; assumption. Qed.
Print Assumptions loopir_rc2ac_model.
Print Assumptions loopir_rc2ac_tie.
"""
THEOREMS['rc2ac'] = dict(proof=POLY2_PROOF, theorems=RC2AC_THEOREMS, block=RC2AC_BLOCK)


def reference_text_in(proof, name):
    """the program text of <name> that <proof> was proved about (between its BEGIN/END GENERATED <name> markers)"""
    t = open(os.path.join(vlib.COQ, proof)).read()
    m = re.search(r'\(\* BEGIN GENERATED %s[^\n]*\*\)\n(.*?)\(\* END GENERATED %s \*\)' % (name, name), t, re.S)
    return m.group(1).replace('prog_%s_gen0' % name, 'prog_%s' % name) if m else None


TRUSTED_LINE = ("loop-IR tie: the translator tools/props/_loopir.py (Python ast -> IR, fail-closed) and the IR interpreter coq/Model/LoopIR.v "
                "(semantics of the accepted Python/numpy fragment; arrays by value, no rounding) are trusted; the IR program is regenerated from the "
                "snapshot source on every run and evaluated exactly (QcC, zero tolerance) against the hand-written model; for LEVINSON, CORRELATION, "
                "levup, levdown, HERMTOEP, TOEPLITZ, arburg (with and without an order-selection criterion), the psi loop of minvar and - by composition of the CORRELATION and LEVINSON theorems through the call semantics - the wrappers aryule, ma, ac2poly, ac2rc, rc2poly `run program = model` is moreover a theorem (for rlevinson and the two Marple recursions: argument checks and orders 0/1) for all inputs (Proofs/LoopIR*.v), "
                "all nine wrappers (aryule, ma, ac2poly, ac2rc, poly2ac, poly2rc, ar2rc, rc2poly, rc2ac) are translated with their callees (functions of other modules of the package, imports resolved syntactically, fail-closed) embedded and evaluated exactly on sampled inputs, "
                "claimed only while the regenerated program text is the one the proof is about (compared on every run, reflexivity inside Coq); "
                "T7: the FFT-based kernels arma2psd (theorem for all inputs), minvar as a whole function, CORRELOGRAMPSD (CORRELATION embedded) and the 1-D path of speriodogram are "
                "translated as well: numpy.fft.fft / rfft are the DFT specification of Theory/Dft.v over a hidden twiddle parameter (exact runs with tw1/tw2/tw4, binary64 runs with "
                "a harness table), Window samples / numpy.pi / xcorr / pylab_rms_flat are oracle inputs; T8: `run program = model` is a theorem also for minvar (whole function, no side condition), "
                "the 1-D speriodogram (window of the data's length, non-integer flags) and CORRELOGRAMPSD (both correlation back ends on the comparator's domain); T9: rlevinson for ALL orders "
                "(every input; supersedes the order-1 statement above) and, by composition, poly2ac, poly2rc, rc2ac; T10 (exact evaluation on sampled inputs, no theorem): arma_estimate "
                "(CORRELATION, arcovar_marple, ma embedded; the scipy-lstsq solver arcovar an ORACLE call = hidden parameters) and lpc (numpy.fft.ifft = the inverse DFT specification "
                "through the same hidden twiddle parameter, tools.nextpow2 an IR primitive accepted only while its text is the expected one, the in-place resize of lpc's parameter "
                "modelled inside the function only)")


def loopir_tie(ctx, names):
    """translate the named routines from the snapshot, write the generated .v, compare `run program input` with the
    hand-written model exactly (zero tolerance, inside Coq at QcC) and with the implementation's float output."""
    t0 = time.time()
    info = ctx.extra.setdefault('loopir', {})
    wrong = translator_selftest()
    info['translator_selftest'] = {'edits_that_must_be_rejected': len(SELFTEST_BAD) + len(SELFTEST2_BAD) + len(SELFTEST3_BAD) + len(SELFTEST4_BAD) + len(SELFTEST5_BAD) + len(SELFTEST6_BAD), 'wrongly_accepted': wrong}
    if wrong:
        ctx.broken.append({'theorem': 'loopir: translator self-test (fail-closed behaviour)', 'where': '_loopir.py', 'log': '; '.join(wrong)})
    progs = {}
    for nm in names:
        try:
            progs[nm] = translate(nm)
            info[nm] = {'translated': True, 'ast_nodes': progs[nm].nodes, 'program_sha1': progs[nm].sha()}
        except Untranslatable as e:
            info[nm] = {'translated': False, 'reason': str(e)}
            ctx.broken.append({'theorem': 'loopir: translation of %s failed: %s' % (nm, e.text), 'where': '%s.py:%s' % (SPECS[nm]['module'], e.lineno),
                               'log': str(e)})
        except SyntaxError as e:       # pragma: no cover
            info[nm] = {'translated': False, 'reason': repr(e)}
            ctx.broken.append({'theorem': 'loopir: translation of %s failed: %r' % (nm, e), 'where': SPECS[nm]['module'], 'log': repr(e)})
    if not progs:
        return
    # the interpreter and the comparators are hand-written, compiled with the development
    need = [t for t in ('Model/LoopIR.vo', 'Model/LoopIRTie.vo')
            if not os.path.exists(os.path.join(vlib.COQ, t)) or os.path.getmtime(os.path.join(vlib.COQ, t)) < os.path.getmtime(os.path.join(vlib.COQ, t[:-1]))]
    if need:
        rc, log = vlib.make_cone('Model/LoopIRTie.vo')
        if rc != 0:
            ctx.broken.append({'theorem': 'loopir: build of the interpreter', 'where': 'Model/LoopIRTie.v', 'log': log[-1500:]})
            return
    for m in sorted(set(EXTRA_MODULES[nm] for nm in progs if nm in EXTRA_MODULES)):
        t = m.replace('Spectrum.', '').replace('.', '/') + '.vo'
        if not os.path.exists(os.path.join(vlib.COQ, t)) or os.path.getmtime(os.path.join(vlib.COQ, t)) < os.path.getmtime(os.path.join(vlib.COQ, t[:-1])):
            rc, log = vlib.make_cone(t)
            if rc != 0:
                ctx.broken.append({'theorem': 'loopir: build of the comparators', 'where': t[:-1], 'log': log[-1500:]})
                return
    defs = ''.join(p.coq() + '\n' for p in progs.values())
    gen = GEN_HEADER + defs; thms = []
    for nm in [n for n in progs if n in THEOREMS]:
        # translation + theorem: applies only to the very program text the theorem was proved about
        proof = THEOREMS[nm]['proof']
        ref = reference_text(nm)
        same = ref is not None and ' '.join(ref.split()) == ' '.join(progs[nm].coq().split())
        info[nm]['theorem'] = ('applies: the regenerated program is the one %s is about (re-checked by reflexivity inside Coq)' % proof) if same else \
            'does not apply: the regenerated program text differs from the one proved about (reported as a broken obligation; the exact evaluation tie and the search look for a failing input)'
        if not same:
            # the proof obligation `run program = model` is about ANOTHER program text now: it is broken.  The exact evaluation tie and
            # the property's search below look for a concrete failing input; if they find none the check still reports the broken
            # obligation (ending no-failing-input-found): the property is no longer shown to hold of this source by that theorem.
            for t in THEOREMS[nm]['theorems']:
                ctx.obligations.append((t, False, []))
            ctx.broken.append({'theorem': 'loopir: the theorem `run prog_%s = model` (%s) no longer applies: the program regenerated from the source '
                                          'differs from the one it was proved about' % (nm, proof), 'where': '%s.py' % SPECS[nm]['module'],
                               'log': 'regenerated program sha1 %s' % progs[nm].sha()})
        if same:
            vo = os.path.join(vlib.COQ, proof[:-2] + '.vo')
            if not os.path.exists(vo) or os.path.getmtime(vo) < os.path.getmtime(os.path.join(vlib.COQ, proof)):
                rc, log = vlib.make_cone(proof[:-2] + '.vo')
                if rc != 0:
                    ctx.broken.append({'theorem': 'loopir: build of %s' % proof, 'where': proof, 'log': log[-1500:]}); same = False
        if same:
            gen += THEOREMS[nm]['block']; thms = thms + THEOREMS[nm]['theorems']
            info[nm]['theorems_instantiated'] = THEOREMS[nm]['theorems']
    mar = [nm for nm in MARPLE_BLOCKS if nm in progs]
    if mar:
        # translation + theorems (order-0 branches, argument check): claimed only for the very program text they were proved about
        claimed = []
        for nm in mar:
            ref = reference_text_in(MARPLE_PROOF, nm)
            same = ref is not None and ' '.join(ref.split()) == ' '.join(progs[nm].coq().split())
            info[nm]['theorem'] = ('applies: the regenerated program is the one %s is about (re-checked by reflexivity inside Coq)' % MARPLE_PROOF) if same else \
                'does not apply: the regenerated program text differs from the one proved about (reported as a broken obligation; the exact evaluation tie and the search look for a failing input)'
            if same:
                claimed.append(nm)
            else:
                for t in MARPLE_BLOCKS[nm][0]:
                    ctx.obligations.append((t, False, []))
                ctx.broken.append({'theorem': 'loopir: the order-0/1 theorems about prog_%s (%s) no longer apply: the program regenerated from the source '
                                              'differs from the one they were proved about' % (nm, MARPLE_PROOF), 'where': '%s.py' % SPECS[nm]['module'],
                                   'log': 'regenerated program sha1 %s' % progs[nm].sha()})
        if claimed:
            vo = os.path.join(vlib.COQ, MARPLE_PROOF[:-2] + '.vo')
            if not os.path.exists(vo) or os.path.getmtime(vo) < os.path.getmtime(os.path.join(vlib.COQ, MARPLE_PROOF)):
                rc, log = vlib.make_cone(MARPLE_PROOF[:-2] + '.vo')
                if rc != 0:
                    ctx.broken.append({'theorem': 'loopir: build of %s' % MARPLE_PROOF, 'where': MARPLE_PROOF, 'log': log[-1500:]}); claimed = []
        if claimed:
            gen += MARPLE_BLOCK_HEAD + ''.join(MARPLE_BLOCKS[nm][1] for nm in claimed)
            names = [t for nm in claimed for t in MARPLE_BLOCKS[nm][0]]
            gen += ''.join('Print Assumptions %s.\n' % t for t in names)
            thms = thms + names
    ok, _ = ctx.check_generated('LoopIR_%s' % ctx.pid, gen, thms)
    if not ok:
        if not thms:
            return
        # the programs themselves may still be fine: the exact tie below decides about them
    extra = sorted(set(EXTRA_MODULES[nm] for nm in progs if nm in EXTRA_MODULES))
    pre = PRE + ''.join('Require Import %s.\n' % m for m in extra) + defs
    jobs = []
    for nm, p in progs.items():
        rng = np.random.default_rng([int(ctx.seed) % (1 << 32), int(hashlib.md5(nm.encode()).hexdigest()[:8], 16)])
        q, t = EXACT_BUDGET[nm]
        if nm in VEC_GENERATORS:
            try:
                c = VEC_GENERATORS[nm](rng, ctx.q(q, t), ctx.q(8, 40), ctx.q(*FLOAT_BUDGET[nm]))
            except Exception:       # a changed implementation may make a generator's auxiliary computation fail: reported, the other kernels still run
                import traceback
                ctx.broken.append({'theorem': 'loopir: case generator of %s (exception)' % nm, 'where': '_loopir_vec.py', 'log': traceback.format_exc()[-2000:]})
                continue
            ctx.count('loopir/%s/binary64' % nm, len(c.flt)); info[nm]['binary64_cases'] = len(c.flt)
            for m in c.flt_meta:
                ctx.case(('loopir-f', nm, m['case']), nontrivial=True)
        else:
            c = GENERATORS[nm](rng, ctx.q(q, t), ctx.q(8, 40))
        for m in c.meta:
            ctx.case(('loopir', nm, m['case']), nontrivial=True)
        for m in c.meta:
            ctx.count('loopir/%s/exact/implementation-%s' % (nm, m['implementation']))
        ctx.count('loopir/%s/vs-implementation' % nm, len(c.impl))
        info[nm].update({'exact_cases': len(c.exact), 'implementation_cases': len(c.impl)})
        if c.spec:
            ctx.count('loopir/%s/vs-exact-specification' % nm, len(c.spec)); info[nm]['specification_cases'] = len(c.spec)
        jobs.append((nm, c))

    def one(job):
        nm, c = job
        bad = ctx.coq_cases('loopir_%s' % nm, pre, c.exact, shard=ctx.q(*EXACT_SHARD.get(nm, (24, 100))), descr='IR program of %s (regenerated from the source) vs the hand-written model: exact equality at QcC' % nm)
        bad2 = ctx.coq_cases('loopir_%s_impl' % nm, pre, c.impl, shard=(EXACT_SHARD[nm][0] if nm in EXACT_SHARD else 250), descr='IR program of %s run at QcC vs the implementation (float tolerance): sanity of the translation' % nm)
        bad3 = ctx.coq_cases('loopir_%s_ls' % nm, pre, c.spec, shard=ctx.q(12, 45), descr=c.spec_descr) if c.spec else []
        bad4 = ctx.coq_cases('loopir_%s_float' % nm, _vec.PRE_FLT + ''.join('Require Import %s.\n' % m for m in extra) + defs + _vec.PRE_FLT_TAIL, c.flt, shard=ctx.q(20, 60),
                             descr='IR program of %s run at binary64 (twiddle table from the harness) vs the hand-written model (bit for bit where the model performs the same '
                                   'operations) and vs the implementation (tolerance of the existing correspondence)' % nm) if c.flt else []
        return nm, c, bad, bad2, bad3, bad4
    with ThreadPoolExecutor(max_workers=8) as ex:
        res = list(ex.map(one, jobs))
    for nm, c, bad, bad2, bad3, bad4 in res:
        for i in bad4:
            ctx.corr_disagreement('loopir:%s (IR run at binary64 vs model / implementation)' % nm, i, c.flt_meta[i])
        for i in bad:
            ctx.corr_disagreement('loopir:%s' % nm, i, c.meta[i])
        for i in bad2:
            ctx.corr_disagreement('loopir:%s (IR run vs implementation)' % nm, i, c.impl_meta[i])
        for i in bad3:
            ctx.corr_disagreement('loopir:%s (IR run vs exact least squares)' % nm, i, c.spec_meta[i])
    info['wall_s'] = round(time.time() - t0, 2)
