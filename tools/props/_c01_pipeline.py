"""Fail-closed ast extraction of the Periodogram.__call__ pipeline and of the psd-property code it runs through.

`extract(srcdir)` returns the Coq text of a `pipe` record (Model/PeriodogramGen.v) read off the snapshot's
periodogram.py / psd.py, or raises `Unrecognised` on any statement outside the recognised shapes.  The getters/setters
that the class model transliterates verbatim (psd getter, scale, df, window setter, Range.N / Range.sampling setters)
are compared, statement by statement, with reference snippets (ast dumps, logging calls and docstrings ignored)."""
import ast
import os


class Unrecognised(Exception):
    pass


def _is_noise(st):
    if isinstance(st, ast.Expr) and isinstance(st.value, ast.Constant) and isinstance(st.value.value, str):
        return True
    return (isinstance(st, ast.Expr) and isinstance(st.value, ast.Call) and isinstance(st.value.func, ast.Attribute)
            and isinstance(st.value.func.value, ast.Name) and st.value.func.value.id == 'logging')


def _strip(body):
    """drop docstrings and logging.*(...) statements, at every nesting level"""
    out = []
    for st in body:
        if _is_noise(st):
            continue
        for fld in ('body', 'orelse'):
            if isinstance(getattr(st, fld, None), list):
                setattr(st, fld, _strip(getattr(st, fld)))
        out.append(st)
    return out


def _dump(node):
    return ast.dump(node, annotate_fields=False, include_attributes=False)


def _same(body, ref_src, what):
    ref = _strip(ast.parse(ref_src).body)
    got = _strip(body)
    if [_dump(s) for s in got] != [_dump(s) for s in ref]:
        raise Unrecognised('%s is not the modelled code:\n%s' % (what, '\n'.join(ast.unparse(s) for s in got)))


def _cls(tree, name):
    for n in tree.body:
        if isinstance(n, ast.ClassDef) and n.name == name:
            return n
    raise Unrecognised('class %s not found' % name)


def _meth(cls, name):
    for n in cls.body:
        if isinstance(n, ast.FunctionDef) and n.name == name:
            return n
    raise Unrecognised('method %s.%s not found' % (cls.name, name))


def _is_self_attr(node, attr=None):
    return (isinstance(node, ast.Attribute) and isinstance(node.value, ast.Name) and node.value.id == 'self'
            and (attr is None or node.attr == attr))


def _pyval(node):
    if isinstance(node, ast.Constant):
        v = node.value
        if v is True:
            return 'PyTrue'
        if v is False:
            return 'PyFalse'
        if v is None:
            return 'PyNone'
        if isinstance(v, str):
            return 'PyStr'
        if isinstance(v, int):
            return '(PyInt %d)' % v
    raise Unrecognised('unrecognised literal %s' % ast.unparse(node))


def _flag(node, attr):
    if _is_self_attr(node, attr):
        return 'FlagSelf'
    return '(FlagConst %s)' % _pyval(node)


def extract_call(tree):
    body = _strip(_meth(_cls(tree, 'Periodogram'), '__call__').body)
    if len(body) not in (3, 4):
        raise Unrecognised('Periodogram.__call__ has %d statements' % len(body))
    st = body[0]
    if not (isinstance(st, ast.Assign) and len(st.targets) == 1 and isinstance(st.targets[0], ast.Name) and st.targets[0].id == 'psd'
            and isinstance(st.value, ast.Call) and isinstance(st.value.func, ast.Name) and st.value.func.id == 'speriodogram'
            and len(st.value.args) == 1 and _is_self_attr(st.value.args[0], 'data')):
        raise Unrecognised('first statement of __call__: ' + ast.unparse(st))
    kw = {k.arg: k.value for k in st.value.keywords}
    if set(kw) != {'window', 'sampling', 'NFFT', 'scale_by_freq', 'detrend'}:
        raise Unrecognised('keywords of the speriodogram call: %r' % sorted(kw))
    for a in ('window', 'sampling', 'NFFT'):
        if not _is_self_attr(kw[a], a):
            raise Unrecognised('%s=%s' % (a, ast.unparse(kw[a])))
    sbf = _flag(kw['scale_by_freq'], 'scale_by_freq'); dt = _flag(kw['detrend'], 'detrend')
    st = body[1]
    if not (isinstance(st, ast.Assign) and len(st.targets) == 1 and _is_self_attr(st.targets[0], 'psd')
            and isinstance(st.value, ast.Name) and st.value.id == 'psd'):
        raise Unrecognised('second statement of __call__: ' + ast.unparse(st))
    ret = body[-1]
    if not (isinstance(ret, ast.Return) and isinstance(ret.value, ast.Name) and ret.value.id == 'self'):
        raise Unrecognised('__call__ does not end with "return self"')
    if len(body) == 3:
        scale = 'ScaleNever'
    else:
        st = body[2]
        call = 'Expr(Call(Attribute(Name(\'self\', Load()), \'scale\', Load()), [], []))'
        if _dump(st) == call:
            scale = 'ScaleAlways'
        elif (isinstance(st, ast.If) and not st.orelse and len(st.body) == 1 and _dump(st.body[0]) == call
              and _dump(st.test) == _dump(ast.parse('self.scale_by_freq is True').body[0].value)):
            scale = 'ScaleIfIsTrue'
        else:
            raise Unrecognised('third statement of __call__: ' + ast.unparse(st))
    return sbf, dt, scale


def _store_branch(stmts, sides):
    seen = {}
    for st in stmts:
        if not (isinstance(st, ast.Assign) and len(st.targets) == 1):
            raise Unrecognised('psd setter: ' + ast.unparse(st))
        seen[ast.unparse(st.targets[0])] = ast.unparse(st.value)
    if seen.get('self.__sides') != repr(sides) or seen.get('self.__psd') != 'numpy.array(psd)':
        raise Unrecognised('psd setter (%s branch): %r' % (sides, seen))
    rest = {k: v for k, v in seen.items() if k not in ('self.__sides', 'self.__psd')}
    if not rest:
        return 'KeepNFFT'
    if rest == {'self.__NFFT': 'len(psd)', 'self._range.N': 'self.__NFFT'}:
        return 'NFFTLenPsd'
    raise Unrecognised('psd setter (%s branch) assigns %r' % (sides, rest))


def extract_store(tree):
    body = _strip(_meth(_cls(tree, 'Spectrum'), '_setPSD').body)
    if not (len(body) == 2 and isinstance(body[0], ast.If) and ast.unparse(body[0].test) == "self.datatype == 'real'"
            and ast.unparse(body[1]) == 'self.modified = False'):
        raise Unrecognised('Spectrum._setPSD: ' + '; '.join(ast.unparse(s) for s in body)[:300])
    return _store_branch(_strip(body[0].body), 'onesided'), _store_branch(_strip(body[0].orelse), 'twosided')


def _parse(path):
    import warnings
    with warnings.catch_warnings():
        warnings.simplefilter('ignore')
        return ast.parse(open(path).read())


def extract(srcdir):
    per = _parse(os.path.join(srcdir, 'periodogram.py'))
    psd = _parse(os.path.join(srcdir, 'psd.py'))
    sbf, dt, scale = extract_call(per)
    sreal, scplx = extract_store(psd)
    sp = _cls(psd, 'Spectrum'); fs = _cls(psd, 'FourierSpectrum'); rg = _cls(psd, 'Range')
    _same(_meth(sp, 'scale').body, 'if self.scale_by_freq is True:\n    self.psd *= 2*numpy.pi/self.df', 'Spectrum.scale')
    _same(_meth(sp, '_getdf').body, 'return self._range.df', 'Spectrum._getdf')
    _same(_meth(sp, '_getPSD').body, 'if self.__psd is None or self.modified is True:\n    self()\n    self.modified = False\nreturn self.__psd', 'Spectrum._getPSD')
    _same(_meth(fs, '_set_window').body,
          'if window == self.__window:\n    return\nif window not in self._window:\n    raise errors.SpectrumChoiceError(window, self._window)\n'
          'self.__window = window\nself.modified = True', 'FourierSpectrum._set_window')
    _same(_meth(rg, '_setN').body, 'self.__N = N\nself.__df = self.__sampling/float(self.__N)', 'Range._setN')
    _same(_meth(rg, '_setsampling').body, 'self.__sampling = sampling\nself.__df = self.__sampling/float(self.__N)', 'Range._setsampling')
    return 'mkPipe %s %s %s %s %s' % (sbf, dt, scale, sreal, scplx)


GEN_V = """(* generated by tools/props/_c01_pipeline.py from the snapshot's periodogram.py / psd.py on this run *)
Require Import Spectrum.Theory.Ops Spectrum.Model.Periodogram Spectrum.Model.PeriodogramGen Spectrum.Proofs.PeriodogramGenTheory.
Definition extracted : pipe := %s.
Theorem call_pipeline_is_modelled : forall (F : Type) (OF : Ops F) (tw : Z -> F) (twopi : F) (s : pstate),
  p_call_gen extracted tw twopi s = p_call tw twopi s.
Proof. unfold extracted. pipeline_tac. Qed.
Print Assumptions call_pipeline_is_modelled.
"""


def generated_v(srcdir):
    return GEN_V % extract(srcdir)
