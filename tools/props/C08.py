"""C08 — Sampling-rate and scale_by_freq normalisation is uniform; arma2psd formula."""
import cmath
import math
import os
import re
import numpy as np
import vlib
from vlib import cz, czl, fl, fll, fc, fcl
from props import _pipelines as P
from props import _c08_objects as O
from props._loopir import loopir_tie, TRUSTED_LINE

LEVEL_TEXT = ("Theorems in Coq (abstract field with conjugation and a twiddle character, every NFFT, every coefficient vector): "
              "the model of arma2psd equals (rho/T)|B(w^k)|^2/|A(w^k)|^2 on the grid, is linear in rho and inverse in T, with lengths, raise "
              "conditions, centerdc, normalisation, symmetry and non-negativity.  The thirteen __call__ pipelines, the functional estimators' "
              "use of sampling/scale_by_freq and psd.py's scale/df/setters/Range are translated from the snapshot on every run into a Gallina "
              "table; over that table Coq re-proves scale_once (factor 2*pi/df applied exactly once, df = sampling/NFFT), the three "
              "sampling_value clauses and sampling_axis.  Both models are tied to the code by in-Coq correspondence runs (exact Gaussian "
              "rationals at NFFT 1,2,4; binary64 otherwise; the generated pipeline interpreter against real objects) and by a ratio search.  "
              "Additionally arma2psd itself is regenerated from the Python source into a loop-IR program on every run (fail-closed ast translator; numpy.fft.fft = the DFT "
              "specification over a hidden twiddle parameter) and the Coq interpreter's run of that program EQUALS the hand model for all inputs by theorem "
              "(both sides values, norm=True included), with exact evaluation on sampled inputs as the fallback when the program text changes.")
TRUSTED = [TRUSTED_LINE, "Coq 8.16.1 kernel + vm_compute (no native_compute)",
           "hand-written model coq/Model/Arma2psd.v; numpy.fft.fft modelled as the DFT sum; tied to arma.py (a) by the float-tolerance correspondence runs and "
           "(b) through the loop-IR: arma2psd is regenerated from the source into an IR program on every run (fft = the DFT specification over a hidden twiddle "
           "parameter) and `run program = Model.Arma2psd.arma2psd` is a THEOREM for all inputs (Proofs/LoopIRArma2psd.v), claimed while the regenerated text is the proved one, "
           "plus exact evaluation at QcC (tw1/tw2/tw4) and binary64 runs against model (bit for bit) and implementation",
           "fail-closed AST translator tools/props/_pipelines.py and the interpreter coq/Model/PipelineLib.v it targets, validated on every run "
           "against real objects of all thirteen classes (stored PSD, df, frequencies)",
           "that speriodogram, CORRELOGRAMPSD, minvar, eigen, pmtm depend on sampling/scale_by_freq only as read off their source syntactically "
           "(checked numerically by the correspondence and the ratio search, not proved)",
           "Python harness (snapshot, generators, float->dyadic conversion, hex-float literals, twiddle tables from cmath)"]
UNPROVED = ["the functional estimators other than arma2psd are not modelled in Coq here: their dependence on sampling/scale_by_freq is "
            "extracted syntactically and tested (correspondence + search), not proved",
            "binary64 rounding: theorems are exact-arithmetic statements"]
ASSUMPTIONS = ["exact arithmetic in the theorems; tolerance 1e-9 relative only in correspondence and search",
               "arma2psd_formula: rho and T real, T <> 0, A(w^k) <> 0 at the bin (the code divides without a guard)",
               "sampling_value_model: both sampling rates non-zero"]
RULE = ("arma2psd: low-bit dyadic real/complex coefficient vectors (lengths 0..6), A/B absent, NFFT 1..64 (exact runs at 1,2,4), both sides, norm, "
        "out-of-domain NFFT <= len; classes: all thirteen (the twelve of DESIGN Appendix A and pdaniell) x real/complex x NFFT even/odd/power of two (>= N) x sampling log-uniform in (1e-2,1e5) x "
        "scale_by_freq in {False,True} x fresh object / sampling assigned later / flag toggled later; a case is non-trivial when the data are "
        "not constant and N >= 3; distinct = distinct (site, input) hashes")

GEN_NAMES = ['table_complete', 'state_consistent', 'stored_length_complex', 'model_classes_arma2psd', 'scale_once', 'sampling_value_model',
             'sampling_value_fixed', 'sampling_value_minvar', 'sampling_axis', 'sampling_axis_scales']
TWOPI = 2 * math.pi

PRE_Q = """Require Import Spectrum.Theory.Ops Spectrum.Theory.Vec Spectrum.Theory.Dft Spectrum.Model.Arma2psd Spectrum.Instances.QcC Spectrum.Instances.QcCTw.
From Coq Require Import QArith Qcanon.
Local Open Scope Z_scope.
Definition twq (n : nat) : Z -> QcC := match n with 1%nat => tw1 | 2%nat => tw2 | _ => tw4 end.
Definition arma_q (tol : Qc) (A B : option (list QcC)) (rho T : QcC) (n : nat) (sides : arma_sides) (norm raised : bool) (impl : list QcC) : bool :=
  match @arma2psd _ qcc_ops (twq n) A B rho T n sides norm with
  | None => raised
  | Some psd => negb raised && qcc_close_rel tol (dy 1 (-300)) psd impl
  end.
"""
PRE_F = """From Coq Require Import PrimFloat ZArith List.
Require Import Spectrum.Theory.Ops Spectrum.Theory.Vec Spectrum.Theory.Dft Spectrum.Model.Arma2psd Spectrum.Instances.FloatC Spectrum.Instances.FloatTw Spectrum.Instances.QcC.
Import ListNotations.
Local Open Scope float_scope.
Definition arma_f (tol : float) (tbl : list FloatC) (A B : option (list FloatC)) (rho T : FloatC) (n : nat) (sides : arma_sides) (norm raised : bool) (impl : list FloatC) : bool :=
  match @arma2psd _ fc_ops (tw_table tbl) A B rho T n sides norm with
  | None => raised
  | Some psd => negb raised && fc_close_rel tol 0x1p-1000 psd impl
  end.
"""
PRE_P = """From Coq Require Import PrimFloat.
Require Import Spectrum.Theory.Vec Spectrum.Instances.FloatC Spectrum.Instances.QcC.
Local Open Scope float_scope.
Definition twopi_f : float := %s.
Definition mkstate (setter : bool) (samp0 samp : float) (NFFT : nat) : @sstate float :=
  if setter then st_set_sampling psd_model samp (st_init psd_model samp0 samp0 NFFT) else st_init psd_model samp samp NFFT.
Definition pipe_case (tol : float) (c : cls) (real sbf setter : bool) (samp0 samp : float) (NFFT : nat) (Sp impl : list float) : bool :=
  match lookup c pipelines with
  | None => false
  | Some p => f_close_rel tol 0x1p-1000 (@stored _ f_ops twopi_f psd_model p real sbf (mkstate setter samp0 samp NFFT) Sp) impl
  end.
Definition axis_case (tol : float) (sd : sides) (setter : bool) (samp0 samp : float) (NFFT : nat) (impl : list float) (impl_df : float) : bool :=
  let s := mkstate setter samp0 samp NFFT in
  f_close_rel tol 0x1p-1000 (@st_frequencies _ f_ops range_model sd s) impl
  && f_close_rel tol 0x1p-1000 [@st_df _ f_ops s] [impl_df].
""" % fl(TWOPI)


def b2c(b):
    return 'true' if b else 'false'


def optl(v, lit):
    return 'None' if v is None else '(Some %s)' % lit(v)


# ----------------------------------------------------------------------------- oracles
def close(u, v, rtol=1e-9):
    u = np.asarray(u, dtype=float); v = np.asarray(v, dtype=float)
    if u.shape != v.shape:
        return False
    if not (np.all(np.isfinite(u)) and np.all(np.isfinite(v))):
        return False
    m = float(np.max(np.abs(v))) if v.size else 0.0
    return bool(np.all(np.abs(u - v) <= rtol * np.abs(v) + 1e-13 * m))


def axis_oracle(sides, samp, NFFT):
    if sides == 'onesided':
        n = NFFT // 2 + 1 if NFFT % 2 == 0 else (NFFT + 1) // 2
        return np.array([k * samp / NFFT for k in range(n)])
    if sides == 'twosided':
        return np.array([k * samp / NFFT for k in range(NFFT)])
    return np.array([(k - NFFT // 2) * samp / NFFT for k in range(NFFT)])


def poly_at(c, z):
    """1 + sum c_j z^(j+1) by Horner"""
    acc = 0j
    for cj in reversed(list(c)):
        acc = (acc + cj) * z
    return 1 + acc


def arma_oracle(A, B, rho, T, NFFT):
    """independent evaluation of (rho/T)|B|^2/|A|^2 on the grid, with a per-bin condition estimate"""
    val = np.empty(NFFT); kap = np.empty(NFFT)
    sa = 1 + (np.sum(np.abs(A)) if A is not None else 0); sb = 1 + (np.sum(np.abs(B)) if B is not None else 0)
    for k in range(NFFT):
        z = cmath.exp(-2j * math.pi * k / NFFT)
        az = poly_at(A, z) if A is not None else 1.0
        bz = poly_at(B, z) if B is not None else 1.0
        val[k] = rho / T * abs(bz) ** 2 / abs(az) ** 2 if az != 0 else np.inf
        kap[k] = max(1.0, sa / abs(az) if az != 0 else np.inf) ** 2
    return val, kap


def arma_kind(A, B):
    return 'ARMA' if (A is not None and B is not None) else ('AR' if A is not None else 'MA')


def arma_clauses(A, B, rho, T, NFFT, c):
    """clauses of the property about arma2psd on one input; returns [(key, what)]"""
    from spectrum.arma import arma2psd
    kind = arma_kind(A, B)
    cplx = any(np.iscomplexobj(v) for v in (A, B) if v is not None)
    tag = '%s/%s' % (kind, 'complex' if cplx else 'real')
    bad = []
    impl = np.asarray(arma2psd(A, B, rho, T, NFFT), dtype=float)
    val, kap = arma_oracle(A, B, rho, T, NFFT)
    if len(impl) != NFFT:
        bad.append(('arma2psd_length/arma2psd/' + tag, 'len(arma2psd(...)) = %d, NFFT = %d' % (len(impl), NFFT)))
        return bad
    m = float(np.max(np.abs(val)))
    ok = np.abs(impl - val) <= 1e-9 * kap * np.abs(val) + 1e-12 * m
    if not np.all(ok):
        k = int(np.argmin(ok))
        bad.append(('arma2psd_formula/arma2psd/' + tag, 'bin %d: arma2psd = %r, (rho/T)|B|^2/|A|^2 = %r (rho=%r, T=%r, NFFT=%d)' % (k, impl[k], val[k], rho, T, NFFT)))
    if not close(arma2psd(A, B, rho * c, T, NFFT), c * impl):
        bad.append(('arma2psd_linear_in_rho/arma2psd/' + tag, 'arma2psd(rho*%r) != %r*arma2psd(rho)' % (c, c)))
    if not close(arma2psd(A, B, rho, T * c, NFFT), impl / c):
        bad.append(('arma2psd_inverse_in_T/arma2psd/' + tag, 'arma2psd(T*%r) != arma2psd(T)/%r' % (c, c)))
    if not close(arma2psd(A, B, rho, T, NFFT, sides='centerdc'), np.fft.fftshift(impl)):
        bad.append(('arma2psd_centerdc/arma2psd/' + tag, "sides='centerdc' is not fftshift of the default layout"))
    if not close(arma2psd(A, B, rho, T, NFFT, norm=True), impl / np.max(impl)):
        bad.append(('arma2psd_norm/arma2psd/' + tag, 'norm=True is not psd/max(psd)'))
    return bad


def class_clauses(cname, x, cfg, NFFT, s1, s2):
    """the clauses of C08 on one class / data / configuration, evaluated on real objects; returns [(key, what)]"""
    dt = 'complex' if np.iscomplexobj(x) else 'real'
    grp = O.GROUP[cname]
    fresh_only = (cname, dt) in O.FRESH_ONLY
    bad = []

    def fresh(s, sbf):
        # "fresh" or reached through a history that ends in the same settings (derived from the case itself; see _estimators.via)
        from props import _estimators as E
        # (pdaniell, the 13th class, is compared on freshly constructed objects only: for complex data its stored PSD is shorter than NFFT and
        #  the psd setter then rewrites NFFT, so every history that passes through complex data leaves another grid behind -- see FRESH_ONLY)
        route = 'fresh' if (fresh_only or cname == 'pdaniell') else E.route_for(x, cname, NFFT, s, sbf)[0]
        p = E.via(lambda d, n, s_, b: O.make(cname, d, cfg, s_, n, b), x, NFFT, s, sbf, route)
        return np.array(p.psd, dtype=float), p
    a1, _ = fresh(s1, False); b1, _ = fresh(s1, True); a2, pa2 = fresh(s2, False); b2, _ = fresh(s2, True)
    if not (np.all(np.isfinite(a1)) and np.all(np.isfinite(a2))):
        return None
    k1 = TWOPI / (s1 / NFFT); k2 = TWOPI / (s2 / NFFT)
    if not close(b1, a1 * k1):
        r = b1 / (a1 * k1) if a1.shape == b1.shape else None
        bad.append(('scale_once/%s/%s' % (cname, dt), 'psd(scale_by_freq=True) != psd(False)*2pi/df: ratio to the required value = %s (sampling=%r, NFFT=%d, 2pi/df=%r)'
                    % ('%.6g' % float(np.median(r)) if r is not None else 'length mismatch', s1, NFFT, k1)))
    # the flag toggled on an existing object
    p = O.make(cname, x, cfg, s1, NFFT, False); _ = p.psd; p.scale_by_freq = True
    if not fresh_only and not close(np.array(p.psd, dtype=float), a1 * k1):
        bad.append(('scale_once/%s/%s/toggle' % (cname, dt), 'after p.scale_by_freq = True on an object computed with False: psd != psd(False)*2pi/df'))
    exp = a1 * {'model': s1 / s2, 'fixed': 1.0, 'minvar': s2 / s1}[grp]
    if not close(a2, exp):
        r = a2 / a1 if a1.shape == a2.shape else None
        bad.append(('sampling_value/%s/%s' % (cname, dt), 'sampling %r -> %r (factor %r): psd changed by %s, required %r'
                    % (s1, s2, s2 / s1, '%.6g' % float(np.median(r)) if r is not None else 'length mismatch', {'model': s1 / s2, 'fixed': 1.0, 'minvar': s2 / s1}[grp])))
    nax = pa2.NFFT if fresh_only else NFFT        # (pdaniell, complex): the axis of the decimated spectrum the object now holds
    for sides in ('onesided', 'twosided', 'centerdc'):
        f = np.array(pa2.frequencies(sides), dtype=float)
        if not close(f, axis_oracle(sides, s2, nax)):
            bad.append(('sampling_axis/%s/%s/fresh' % (cname, sides), 'frequencies(%s) != bins*sampling/NFFT (sampling=%r, NFFT=%d)' % (sides, s2, nax)))
    if not close([pa2.df], [s2 / nax]):
        bad.append(('sampling_axis/%s/df/fresh' % cname, 'df = %r, sampling/NFFT = %r' % (pa2.df, s2 / nax)))
    if fresh_only:
        return bad
    # sampling assigned on an existing object
    for sbf, want in ((True, b2), (False, a2)):
        p = O.make(cname, x, cfg, s1, NFFT, sbf); _ = p.psd; p.sampling = s2
        got = np.array(p.psd, dtype=float)
        if not close(got, want):
            r = got / want if got.shape == want.shape else None
            bad.append(('%s/%s/%s/after-sampling-setter' % ('scale_once' if sbf else 'sampling_value', cname, dt),
                        'p.sampling = %r on an object built with %r (scale_by_freq=%s): psd is %s times that of a fresh object'
                        % (s2, s1, sbf, '%.6g' % float(np.median(r)) if r is not None else 'of another length than')))
        if sbf:
            if not close([p.df], [s2 / NFFT]):
                bad.append(('sampling_axis/%s/df/after-sampling-setter' % cname, 'after p.sampling = %r: df = %r, sampling/NFFT = %r' % (s2, p.df, s2 / NFFT)))
            for sides in ('onesided', 'twosided', 'centerdc'):
                f = np.array(p.frequencies(sides), dtype=float)
                if not close(f, axis_oracle(sides, s2, NFFT)):
                    bad.append(('sampling_axis/%s/%s/after-sampling-setter' % (cname, sides),
                                'after p.sampling = %r (was %r): frequencies(%s)[1] = %r, required %r' % (s2, s1, sides, f[1] if len(f) > 1 else None, axis_oracle(sides, s2, NFFT)[1] if NFFT > 1 else None)))
    return bad


def replay(rep):
    if rep.get('replay', {}).get('form') == 'routes':
        from props import _estimators as E_
        return E_.replay_routes(rep['replay'])
    if rep['replay'].get('protocol') == 'values_only':
        from props import _purity
        return _purity.replay_protocol(rep['replay'])
    r = rep['replay']
    if r.get('function') == 'arma2psd':
        A = vlib.unhexv(r['A']) if r['A'] is not None else None
        B = vlib.unhexv(r['B']) if r['B'] is not None else None
        if A is not None and r.get('A_real'):
            A = np.real(A)
        if B is not None and r.get('B_real'):
            B = np.real(B)
        return not arma_clauses(A, B, float.fromhex(r['rho']), float.fromhex(r['T']), r['NFFT'], float.fromhex(r['c']))
    if r.get('function') == 'class':
        x = vlib.unhexv(r['data'])
        res = class_clauses(r['class'], x, r['cfg'], r['NFFT'], float.fromhex(r['s1']), float.fromhex(r['s2']))
        return not res
    return True


# ----------------------------------------------------------------------------- generators
def lowbit_vec(rng, n, cplx, den=8, span=12):
    v = rng.integers(-span, span + 1, size=n).astype(float) / den
    if cplx:
        v = v + 1j * rng.integers(-span, span + 1, size=n) / den
    return v


def draw_arma(rng, NFFT, allow_none=True):
    """(A, B) with len < NFFT, low-bit dyadic, real or complex, possibly absent"""
    kind = str(rng.choice(['AR', 'MA', 'ARMA', 'ARMA'])) if allow_none else 'ARMA'
    cplx = bool(rng.integers(0, 2))
    mx = min(6, NFFT - 1)
    A = lowbit_vec(rng, int(rng.integers(0, mx + 1)), cplx) if kind in ('AR', 'ARMA') else None
    B = lowbit_vec(rng, int(rng.integers(0, mx + 1)), cplx) if kind in ('MA', 'ARMA') else None
    return A, B, cplx


def hexopt(v):
    return None if v is None else vlib.hexv(np.asarray(v, dtype=complex))


def draw_sampling(rng):
    if rng.integers(0, 5) == 0:
        return float(rng.choice([1.0, 2.0, 0.5, 1024.0, 44100.0, 0.0625]))
    return float(10.0 ** rng.uniform(-2, 5))


def draw_nfft(rng, N, small=False):
    ch = [N, N + 1, N + 2, N + 3, 32, 33, 37, 48, 64]
    if small:
        ch = [N, N + 1, N + 2, 32, 33]
    n = int(rng.choice(ch))
    return max(n, N)


# ----------------------------------------------------------------------------- run
def run(ctx):
    from spectrum.arma import arma2psd
    rng = ctx.rng
    ctx.check_theorems('Properties/C08.v')
    # the estimate an object holds does not depend on the history that gave it its data and settings (every route of _estimators.via)
    from props import _estimators as E_
    E_.class_route_stream(ctx, E_.CLASSES, 'routes')
    # arma2psd regenerated from the source into the loop-IR (fft = the DFT specification over a hidden twiddle parameter) vs the hand model:
    # exact at QcC with tw1 / tw2 / tw4, and at binary64 against both the hand model (bit for bit) and the implementation
    loopir_tie(ctx, ['arma2psd'])

    # ---------------- translator + theorems over the generated table
    src = os.path.join(vlib.SNAP, 'src', 'spectrum')
    tab = None; table_v = None
    try:
        tab = P.extract(src)
        table_v = P.gallina(tab)
    except P.Fail as e:
        for n in GEN_NAMES:
            ctx.obligations.append((n, False, []))
        ctx.broken.append({'theorem': 'translator:pipelines (source outside the recognised shapes)', 'where': src, 'log': str(e)})
    if table_v is not None:
        thm = open(os.path.join(os.path.dirname(os.path.abspath(__file__)), '_c08_theorems.v.in')).read()
        ctx.check_generated('C08_pipelines', table_v + thm, GEN_NAMES)
        ctx.extra['pipeline_table'] = P.describe(tab).split('\n')

    # ---------------- correspondence: arma2psd, exact at NFFT in {1,2,4}
    cases = []; meta = []
    n = ctx.q(120, 2000); tries = 0
    while len(cases) < n and tries < 20 * n:
        tries += 1
        NFFT = int(rng.choice([1, 2, 2, 4, 4, 4, 4]))
        ood = rng.integers(0, 8) == 0
        cplx = bool(rng.integers(0, 2))
        kind = str(rng.choice(['AR', 'MA', 'ARMA', 'ARMA', 'none' if ood else 'ARMA']))
        la = int(rng.integers(0, NFFT)); lb = int(rng.integers(0, NFFT))
        if ood and kind != 'none':
            if rng.integers(0, 2):
                la = NFFT + int(rng.integers(0, 2))
            else:
                lb = NFFT + int(rng.integers(0, 2))
        A = lowbit_vec(rng, la, cplx) if kind in ('AR', 'ARMA') else None
        B = lowbit_vec(rng, lb, cplx) if kind in ('MA', 'ARMA') else None
        rho = float(rng.integers(1, 40)) / 8; T = float(rng.integers(1, 40)) / 4
        sides = str(rng.choice(['default', 'default', 'centerdc'])); norm = bool(rng.integers(0, 4) == 0)
        raised = False; impl = []
        try:
            with np.errstate(all='ignore'):
                impl = np.asarray(arma2psd(A, B, rho, T, NFFT, sides=sides, norm=norm), dtype=float)
        except (ValueError, IndexError):
            raised = True
        if not raised and not np.all(np.isfinite(impl)):
            ctx.count('arma2psd_exact/regenerated_pole_on_grid'); continue
        kap = 1.0
        if not raised:
            _, kp = arma_oracle(A, B, rho, T, NFFT); kap = float(np.max(kp))
            if kap > 1e4:
                ctx.count('arma2psd_exact/regenerated_illconditioned'); continue
        cases.append('arma_q %s %s %s %s %s %d%%nat %s %s %s %s' % (vlib.tolq(1e-9 * kap), optl(A, czl), optl(B, czl), cz(rho), cz(T), NFFT,
                     'SidesDefault' if sides == 'default' else 'SidesCenterdc', b2c(norm), b2c(raised), czl(impl)))
        meta.append({'function': 'arma2psd', 'A': hexopt(A), 'B': hexopt(B), 'rho': rho, 'T': T, 'NFFT': NFFT, 'sides': sides, 'norm': norm, 'impl_raised': raised})
        ctx.count('arma2psd_exact/%s/%s/NFFT=%d/%s' % (kind, 'complex' if cplx else 'real', NFFT, 'raised' if raised else 'returned'))
        ctx.case(('arma-q', hexopt(A), hexopt(B), rho, T, NFFT, sides, norm), nontrivial=(NFFT >= 2 and kind != 'none'),
                 sample={'function': 'arma2psd', 'A': None if A is None else [str(t) for t in A], 'B': None if B is None else [str(t) for t in B], 'rho': rho, 'T': T, 'NFFT': NFFT, 'sides': sides, 'norm': norm})
    for i in ctx.coq_cases('c08_arma2psd_exact', PRE_Q, cases, descr='arma2psd vs Model.Arma2psd.arma2psd at QcC with the exact twiddles tw1/tw2/tw4'):
        ctx.corr_disagreement('arma2psd', i, meta[i])

    # ---------------- correspondence: arma2psd, binary64 with a twiddle table
    cases = []; meta = []
    n = ctx.q(150, 3000); tries = 0
    while len(cases) < n and tries < 20 * n:
        tries += 1
        NFFT = int(rng.choice([3, 5, 6, 7, 8, 9, 12, 16, 17, 24, 31, 32]))
        A, B, cplx = draw_arma(rng, NFFT)
        if rng.integers(0, 12) == 0:      # out of domain: NFFT <= len
            if A is not None:
                A = lowbit_vec(rng, NFFT + int(rng.integers(0, 2)), cplx)
            else:
                B = lowbit_vec(rng, NFFT + int(rng.integers(0, 2)), cplx)
        rho = float(rng.integers(1, 400)) / 16; T = draw_sampling(rng)
        sides = str(rng.choice(['default', 'default', 'centerdc'])); norm = bool(rng.integers(0, 4) == 0)
        raised = False; impl = []
        try:
            with np.errstate(all='ignore'):
                impl = np.asarray(arma2psd(A, B, rho, T, NFFT, sides=sides, norm=norm), dtype=float)
        except (ValueError, IndexError):
            raised = True
        kap = 1.0
        if not raised:
            if not np.all(np.isfinite(impl)):
                ctx.count('arma2psd_float/regenerated_pole_on_grid'); continue
            _, kp = arma_oracle(A, B, rho, T, NFFT); kap = float(np.max(kp))
            if kap > 1e4:
                ctx.count('arma2psd_float/regenerated_illconditioned'); continue
        tbl = [cmath.exp(-2j * math.pi * j / NFFT) for j in range(NFFT)]
        cases.append('arma_f %s %s %s %s %s %s %d%%nat %s %s %s %s' % (fl(1e-9 * kap), fcl(tbl), optl(A, fcl), optl(B, fcl), fc(rho), fc(T), NFFT,
                     'SidesDefault' if sides == 'default' else 'SidesCenterdc', b2c(norm), b2c(raised), fcl(impl)))
        meta.append({'function': 'arma2psd', 'A': hexopt(A), 'B': hexopt(B), 'rho': rho, 'T': T, 'NFFT': NFFT, 'sides': sides, 'norm': norm, 'impl_raised': raised})
        ctx.count('arma2psd_float/%s/%s/%s' % (arma_kind(A, B), 'complex' if cplx else 'real', 'raised' if raised else 'returned'))
        ctx.case(('arma-f', hexopt(A), hexopt(B), rho, T, NFFT, sides, norm), nontrivial=NFFT >= 3)
    for i in ctx.coq_cases('c08_arma2psd_float', PRE_F, cases, descr='arma2psd vs Model.Arma2psd.arma2psd at FloatC with the harness twiddle table'):
        ctx.corr_disagreement('arma2psd', i, meta[i])

    # ---------------- correspondence: the generated pipeline interpreter against real objects
    if table_v is not None:
        cases = []; meta = []
        per = ctx.q(3, 50)
        for cname in O.CLASS_NAMES:
            for cplx in (False, True):
                got = 0; tries = 0
                while got < per and tries < 10 * per:
                    tries += 1
                    N = int(rng.integers(14, 25)); x, style = O.draw_data(rng, N, cplx)
                    cfg = O.draw_cfg(rng, cname, N); NFFT = draw_nfft(rng, N, small=True)
                    s0 = draw_sampling(rng); s = draw_sampling(rng)
                    if s == s0:
                        continue
                    try:
                        with np.errstate(all='ignore'):
                            Sp = np.asarray(O.functional_spectrum(cname, x, cfg, NFFT), dtype=float)
                            if not np.all(np.isfinite(Sp)):
                                ctx.count('pipeline/regenerated_nonfinite'); continue
                            for sbf in (False, True):
                                for setter in (False, True):
                                    if setter and (cname, 'complex' if cplx else 'real') in O.FRESH_ONLY:
                                        continue
                                    if setter:
                                        p = O.make(cname, x, cfg, s0, NFFT, sbf); _ = p.psd; p.sampling = s
                                    else:
                                        p = O.make(cname, x, cfg, s, NFFT, sbf)
                                    impl = np.array(p.psd, dtype=float)
                                    cases.append('pipe_case %s %s %s %s %s %s %s %d%%nat %s %s' % (fl(1e-9), P.COQ_CLS[cname], b2c(not cplx), b2c(sbf), b2c(setter),
                                                 fl(s0), fl(s), NFFT, fll(Sp), fll(impl)))
                                    meta.append({'site': cname, 'datatype': 'complex' if cplx else 'real', 'scale_by_freq': sbf, 'sampling_assigned_later': setter,
                                                 'sampling0': s0, 'sampling': s, 'NFFT': NFFT, 'cfg': cfg, 'data': vlib.hexv(x)})
                                    ctx.case(('pipe', cname, x.tobytes(), repr(cfg), NFFT, s0, s, sbf, setter), nontrivial=True,
                                             sample={'class': cname, 'datatype': 'complex' if cplx else 'real', 'N': N, 'NFFT': NFFT, 'sampling': s, 'scale_by_freq': sbf, 'cfg': cfg})
                                    if sbf and (cname, 'complex' if cplx else 'real') not in O.FRESH_ONLY:
                                        sd = str(rng.choice(['onesided', 'twosided', 'centerdc']))
                                        cases.append('axis_case %s %s %s %s %s %d%%nat %s %s' % (fl(1e-9), sd.capitalize(), b2c(setter), fl(s0), fl(s), NFFT,
                                                     fll(p.frequencies(sd)), fl(p.df)))
                                        meta.append({'site': cname + '.frequencies/df', 'sides': sd, 'sampling_assigned_later': setter, 'sampling0': s0, 'sampling': s, 'NFFT': NFFT})
                                        ctx.case(('axis', cname, NFFT, s0, s, sd, setter), nontrivial=True)
                    except (ValueError, AssertionError, IndexError, np.linalg.LinAlgError, ZeroDivisionError) as e:
                        ctx.count('pipeline/regenerated_estimator_raised/' + cname); continue
                    got += 1
                    ctx.count('pipeline/%s/%s/%s/NFFT%s' % (cname, 'complex' if cplx else 'real', style, 'even' if NFFT % 2 == 0 else 'odd'))
        pre = table_v + PRE_P
        for i in ctx.coq_cases('c08_pipelines', pre, cases, descr='generated pipeline interpreter (PipelineLib.stored / st_frequencies / st_df at binary64) vs real objects of the thirteen classes'):
            ctx.corr_disagreement('pipeline:' + meta[i]['site'], i, meta[i])

    # ---------------- the non-numeric columns of the table against real objects
    if tab is not None:
        nbad = 0
        for cname in O.CLASS_NAMES:
            i = tab['classes'][cname]
            for cplx in (False, True):
                x, _ = O.draw_data(rng, 20, cplx, style='tone'); cfg = O.draw_cfg(rng, cname, 20)
                p = O.make(cname, x, cfg, 1.0, 32, None)
                obs = {'default_sbf': bool(p.scale_by_freq)}
                with np.errstate(all='ignore'):
                    r = p()
                obs['returns_self'] = r is p
                obs['stores_set'] = all(getattr(p, a, None) is not None for a, _ in i['stores'])
                obs['modified_after_call'] = bool(p.modified)
                want = {'default_sbf': i['default_sbf'], 'returns_self': i['returns_self'], 'stores_set': True, 'modified_after_call': False}
                ctx.case(('table-columns', cname, cplx), nontrivial=True)
                if obs != want:
                    nbad += 1
                    ctx.corr_disagreement('pipeline-table:' + cname, cname, {'observed': obs, 'table': want})
        ctx.corr['c08_table_columns'] = {'cases': 2 * len(O.CLASS_NAMES), 'disagreements': nbad,
                                         'description': 'default scale_by_freq, return value, stored attributes, modified flag of every class vs the generated table'}

    # ---------------- property-directed search: arma2psd against the polynomial oracle
    for it in range(ctx.q(250, 10000)):
        NFFT = int(rng.choice([2, 3, 4, 5, 7, 8, 16, 31, 32, 33, 64]))
        style = str(rng.choice(['lowbit', 'stable', 'stable']))
        if style == 'lowbit':
            A, B, cplx = draw_arma(rng, NFFT)
        else:
            cplx = bool(rng.integers(0, 2)); kind = str(rng.choice(['AR', 'MA', 'ARMA']))
            mx = min(8, NFFT - 1)

            def coeffs():
                p = int(rng.integers(0, mx + 1))
                if p == 0:
                    return np.zeros(0, dtype=complex if cplx else float)
                if cplx:
                    r = rng.uniform(0.1, 0.9, size=p) * np.exp(2j * np.pi * rng.uniform(0, 1, size=p))
                    return np.atleast_1d(np.poly(r))[1:]
                r = rng.uniform(0.1, 0.9, size=p // 2) * np.exp(2j * np.pi * rng.uniform(0, 0.5, size=p // 2))
                roots = np.concatenate((r, np.conj(r), rng.uniform(-0.9, 0.9, size=p % 2)))
                return np.real(np.atleast_1d(np.poly(roots)))[1:]
            A = coeffs() if kind in ('AR', 'ARMA') else None
            B = coeffs() if kind in ('MA', 'ARMA') else None
        rho = float(10.0 ** rng.uniform(-3, 3)); T = draw_sampling(rng); c = float(10.0 ** rng.uniform(-2, 2))
        val, kap = arma_oracle(A, B, rho, T, NFFT)
        if not np.all(np.isfinite(val)) or np.max(kap) > 1e5:
            ctx.count('search/arma2psd/regenerated_illconditioned'); continue
        tag = arma_kind(A, B) + '/' + ('complex' if cplx else 'real')
        ctx.count('search/arma2psd/' + tag)
        ctx.case(('search-arma', hexopt(A), hexopt(B), rho, T, NFFT), nontrivial=NFFT >= 3,
                 sample={'function': 'arma2psd (search)', 'kind': tag, 'NFFT': NFFT, 'rho': rho, 'T': T})
        with np.errstate(all='ignore'):
            bad = arma_clauses(A, B, rho, T, NFFT, c)
        for key, what in bad:
            ctx.violation(key, what, {'function': 'arma2psd', 'A': hexopt(A), 'B': hexopt(B), 'A_real': A is not None and not np.iscomplexobj(A),
                                      'B_real': B is not None and not np.iscomplexobj(B), 'rho': rho.hex(), 'T': T.hex(), 'NFFT': NFFT, 'c': c.hex()})

    # ---------------- property-directed search: the ratio tests on real objects
    per = ctx.q(3, 100)
    for cname in O.CLASS_NAMES:
        for cplx in (False, True):
            got = 0; tries = 0
            while got < per and tries < 10 * per:
                tries += 1
                N = int(rng.integers(12, ctx.q(28, 48))); x, style = O.draw_data(rng, N, cplx)
                cfg = O.draw_cfg(rng, cname, N); NFFT = draw_nfft(rng, N)
                s1 = draw_sampling(rng); s2 = draw_sampling(rng)
                if s1 == s2:
                    continue
                try:
                    with np.errstate(all='ignore'):
                        bad = class_clauses(cname, x, cfg, NFFT, s1, s2)
                except (ValueError, AssertionError, IndexError, np.linalg.LinAlgError, ZeroDivisionError):
                    ctx.count('search/regenerated_estimator_raised/' + cname); continue
                if bad is None:
                    ctx.count('search/regenerated_nonfinite/' + cname); continue
                got += 1
                ctx.count('search/%s/%s/%s/NFFT%s%s' % (cname, 'complex' if cplx else 'real', style, 'even' if NFFT % 2 == 0 else 'odd', '=N' if NFFT == N else '>N'))
                ctx.case(('search-class', cname, x.tobytes(), repr(cfg), NFFT, s1, s2), nontrivial=True,
                         sample={'class': cname + ' (search)', 'datatype': 'complex' if cplx else 'real', 'N': N, 'NFFT': NFFT, 'sampling': [s1, s2], 'cfg': cfg})
                for key, what in bad:
                    ctx.violation(key, what, {'function': 'class', 'class': cname, 'data': vlib.hexv(x), 'cfg': cfg, 'NFFT': NFFT, 's1': s1.hex(), 's2': s2.hex()})

    # ---------------- every NAMED window once per class that takes one (a change may concern one name only)
    from props._estimators import ALL_WINDOWS
    for wi, wname in enumerate(ALL_WINDOWS):
        for cname in ('Periodogram', 'pcorrelogram', 'pdaniell'):
            if cname not in O.CLASS_NAMES:
                continue
            cplx = bool(wi % 2); N = 20 + wi % 9; x, style = O.draw_data(rng, N, cplx)
            cfg = O.draw_cfg(rng, cname, N); cfg['window'] = wname; NFFT = draw_nfft(rng, N)
            s1 = [1.0, 4.0, 0.25][wi % 3]; s2 = [8.0, 0.5, 44100.0][wi % 3]
            try:
                with np.errstate(all='ignore'):
                    bad = class_clauses(cname, x, cfg, NFFT, s1, s2)
            except (ValueError, AssertionError, IndexError, np.linalg.LinAlgError, ZeroDivisionError) as e:
                bad = [('raises/%s/window_%s' % (cname, wname), '%s with window %r raised %s: %s' % (cname, wname, type(e).__name__, str(e)[:80]))]
            if bad is None:
                ctx.count('search/windows/nonfinite/' + cname); continue
            ctx.count('search/windows/' + cname)
            ctx.case(('search-window', cname, wname, x.tobytes(), NFFT, s1, s2), nontrivial=True,
                     sample={'class': cname + ' (every named window)', 'window': wname, 'N': N, 'NFFT': NFFT, 'sampling': [s1, s2]} if wi == 9 else None)
            for key, what in bad:
                ctx.violation(key + '/window_' + wname, what, {'function': 'class', 'class': cname, 'data': vlib.hexv(x), 'cfg': cfg, 'NFFT': NFFT, 's1': s1.hex(), 's2': s2.hex()})

    # ---------------- results depend on the VALUES given only: call protocol (repeat, aliasing, buffer reuse, memory layout, integer / single-precision dtypes)
    from props import _purity
    _purity.run_protocol(ctx, ['arma2psd'])
