"""C13 — Burg models are stable, nested and minimise forward+backward error."""
import numpy as np
import vlib
from props._loopir import loopir_tie, TRUSTED_LINE
from vlib import cz, czl, tolq

LEVEL_TEXT = ("Coq theorems (abstract field with conjugation, any length and order) about the model of arburg: AR vector = step-up "
              "polynomial of the reflection coefficients, rho = mean power * prod(1-|k|^2), nesting, 'criterion => plain Burg of "
              "some order q<=p', the recursive denominator equals the stage energy and each k minimises it (E(q)-E(k)=den|q-k|^2); in the abstract "
              "ordered *-field (Gaussian rationals and C are models): |k_m|^2<=1 by Cauchy-Schwarz, rho>=0 and non-increasing, and STABILITY: "
              "every root of the returned polynomial (in the field; in any order-preserving ordered extension; for data in the Gaussian "
              "rationals or in C: every complex root, Cmod z < 1) lies in the open unit disc, with or without a criterion; returned models "
              "have rho_m > 0 and |k_m| < 1 strictly (proof: a = stepup(k) and the code's rho<=0 tests make the inverse-Levinson lags of "
              "(rho_0, k) positive definite by the converse of levinson_pd; then C12's pd_root_inside). "
              "Tie: exact in-Coq correspondence with arburg/_arburg2 on dyadic inputs (incl. criteria), search on the implementation.")
TRUSTED = ["Coq 8.16.1 kernel + vm_compute", "hand-written model coq/Model/Burg.v (tie = correspondence run)",
           "criteria with logarithms (AIC, AICc, KIC, AKICc, MDL) enter the model as an abstract stop rule; in the correspondence "
           "run the harness recomputes the stop index from its own formulas; FPE is modelled exactly",
           "arburg_stable_complex / arburg_stable_C only: the three standard-library axioms of the real numbers (sig_forall_dec, sig_not_dec, "
           "functional_extensionality_dep) via Coquelicot's C; every other theorem is axiom-free",
           "Python harness"]
TRUSTED = TRUSTED + [TRUSTED_LINE]
LEVEL_TEXT = LEVEL_TEXT + (" Additionally the hand-written model is tied to the source text: a deep-embedded loop-IR program is regenerated from the Python source of arburg (criteria=None, and a Criteria object read as the abstract stop rule) on every run (fail-closed ast translator) and evaluated by the Coq interpreter at the exact instance against the model with zero tolerance (same outcome, every entry equal).")
UNPROVED = ["nothing of the statement in exact arithmetic; rounding of the binary64 code is outside the theorems (correspondence within "
            "1e-9*kappa and search, incl. numpy.roots of the returned polynomial)"]
ASSUMPTIONS = ["exact arithmetic", "non-degenerate stages (denominator non-zero) as in the property statement"]
RULE = ("real/complex low-bit dyadic data N=4..12, orders 1..5 exactly in Coq (with and without criteria); noise, tones in noise, "
        "integer data N=4..200, orders up to 30 in the search; non-trivial = order>=2 and non-constant data")

PRE = """Require Import Spectrum.Theory.Ops Spectrum.Theory.Vec Spectrum.Model.Levinson Spectrum.Model.Burg Spectrum.Instances.QcC.
From Coq Require Import QArith Qcanon.
Local Open Scope Z_scope.
Definition qgt (a b : QcC) : bool := negb (Qle_bool (fst a) (fst b)).
Definition res_close (tol : Qc) (r : option (list QcC * QcC * list QcC)) (raised : bool) (ia : list QcC) (ip : QcC) (ik : list QcC) : bool :=
  match r with
  | None => raised
  | Some (a, p, k) => negb raised && qcc_close_rel tol (dy 1 0) a ia && qcc_close_rel tol (dy 1 0) [p] [ip] && qcc_close_rel tol (dy 1 0) k ik
  end.
Definition burg_case tol (x : list QcC) (order : nat) raised ia ip ik :=
  res_close tol (@arburg _ qcc_ops x order no_stop) raised ia ip ik.
Definition burg_case_stopat tol (x : list QcC) (order q : nat) raised ia ip ik :=
  res_close tol (@arburg _ qcc_ops x order (fun k _ _ => Nat.eqb k (S q))) raised ia ip ik.
Definition burg_case_fpe tol (x : list QcC) (order : nat) raised ia ip ik :=
  res_close tol (@arburg _ qcc_ops x order (@fpe_stop _ qcc_ops (length x) qgt)) raised ia ip ik.
Definition burg2_case tol (x : list QcC) (order : nat) ia ip ik :=
  res_close tol (@arburg2 _ qcc_ops x order) false ia ip ik.
"""


def lowbit(rng, n, cplx, bits=2):
    s = 1 << bits
    x = rng.integers(-s, s + 1, size=n).astype(float)
    if cplx:
        x = x + 1j * rng.integers(-s, s + 1, size=n)
    if np.count_nonzero(x) < 2:
        x[0] = 1; x[-1] = -2
    return x


CRIT = {
    'AIC': lambda N, rho, k: N * np.log(rho) + 2. * (k + 1),
    'AICc': lambda N, rho, k: np.log(rho) + 2. * (k + 1) / (N - k - 2),
    'KIC': lambda N, rho, k: np.log(rho) + 3. * (k + 1.) / float(N),
    'AKICc': lambda N, rho, k: np.log(rho) + k / N / (N - k) + (3. - (k + 2.) / N) * (k + 1.) / (N - k - 2.),
    'FPE': lambda N, rho, k: rho * (N + k + 1.) / (N - k - 1),
    'MDL': lambda N, rho, k: N * np.log(rho) + k * np.log(N),
}


def stepup(ks):
    a = np.zeros(0, dtype=complex)
    for k in ks:
        a = np.concatenate((a + k * np.conj(a[::-1]), [k]))
    return a


def burg_reference(x, p):
    """independent lattice implementation: reflection coefficients with full sums, and stage data"""
    x = np.asarray(x, dtype=complex); N = len(x)
    ef = x.copy(); eb = x.copy(); ks = []; stages = []
    for m in range(p):
        f = ef[m + 1:]; b = eb[m:N - 1]
        D = np.sum(np.abs(f) ** 2 + np.abs(b) ** 2); c = np.sum(f * np.conj(b))
        k = -2 * c / D
        stages.append((f.copy(), b.copy(), D, k))
        nf = f + k * b; nb = b + np.conj(k) * f
        ef = ef.copy(); eb = eb.copy(); ef[m + 1:] = nf; eb[m + 1:] = nb
        ks.append(k)
    return np.array(ks), stages


def check_burg(x, p, tag):
    from spectrum import arburg
    bad = []
    a, rho, k = arburg(x, p)
    N = len(x); rho0 = np.sum(np.abs(x) ** 2) / N
    kap = max(1.0, rho0 / max(rho, 1e-300))
    tol = 1e-9 * kap
    if len(a) != p or len(k) != p:
        bad.append(('burg_shape/arburg/' + tag, 'wrong number of coefficients')); return bad
    if np.any(np.abs(k) > 1 + 1e-12):
        bad.append(('burg_k_le_1/arburg/' + tag, 'reflection coefficient of modulus > 1'))
    if np.max(np.abs(stepup(k) - a)) > tol * max(1, np.max(np.abs(a))):
        bad.append(('burg_ar_is_stepup/arburg/' + tag, 'AR vector is not the step-up polynomial of the reflection coefficients'))
    if abs(rho - rho0 * np.prod(1 - np.abs(k) ** 2)) > tol * rho0:
        bad.append(('burg_rho/arburg/' + tag, 'rho != mean|x|^2 * prod(1-|k|^2)'))
    if kap < 1e6:
        kr, stages = burg_reference(x, p)
        if np.max(np.abs(kr - k)) > 1e-7 * kap:
            bad.append(('burg_k_optimal/arburg/' + tag, 'k_i is not the minimiser -2<f,b>/(|f|^2+|b|^2) of its stage (max dev %.3g)' % np.max(np.abs(kr - k))))
        if np.all(np.abs(k) < 1 - 1e-9):
            roots = np.roots(np.concatenate(([1], a)))
            if np.any(np.abs(roots) >= 1 + 1e-8):
                bad.append(('burg_stable/arburg/' + tag, 'root outside the unit disc'))
    prev = rho0
    for q in range(1, p + 1):
        aq, rq, kq = arburg(x, q)
        if np.max(np.abs(kq - k[:q])) > tol:
            bad.append(('burg_nested/arburg/' + tag, 'order-%d reflection coefficients are not a prefix' % q)); break
        if rq > prev * (1 + 1e-12):
            bad.append(('burg_rho_monotone/arburg/' + tag, 'variance increases from order %d to %d' % (q - 1, q))); break
        prev = rq
    return bad


def check_criteria(x, p, name, tag):
    from spectrum import arburg
    a, rho, k = arburg(x, p, criteria=name)
    q = len(k)
    if q > p:
        return [('burg_criteria/arburg/%s/%s' % (name, tag), 'more than p coefficients')]
    if q == 0:
        rho0 = np.sum(np.abs(x) ** 2) / len(x)
        ok = len(a) == 0 and abs(rho - rho0) <= 1e-9 * rho0
    else:
        a2, rho2, k2 = arburg(x, q)
        ok = np.allclose(a, a2, rtol=1e-9, atol=1e-12) and np.allclose(k, k2, rtol=1e-9, atol=1e-12) and abs(rho - rho2) <= 1e-9 * abs(rho2)
    bad = [] if ok else [('burg_criteria/arburg/%s/%s' % (name, tag), 'result with criterion is not the Burg model of order %d' % q)]
    if q >= 1:
        # arburg_stable_criteria / arburg_k_lt_1: the returned polynomial (degree q) is stable, rho > 0
        rho0 = np.sum(np.abs(x) ** 2) / len(x)
        if not rho > 0:
            bad.append(('burg_rho_pos/arburg/%s/%s' % (name, tag), 'returned variance is not positive'))
        elif rho0 / rho < 1e6 and np.all(np.abs(k) < 1 - 1e-9):
            roots = np.roots(np.concatenate(([1], a)))
            if np.any(np.abs(roots) >= 1 + 1e-8):
                bad.append(('burg_stable/arburg/%s/%s' % (name, tag), 'root outside the unit disc (model selected by the criterion)'))
    return bad


def replay(rep):
    if rep.get('replay', {}).get('form') == 'routes':
        from props import _estimators as E_
        return E_.replay_routes(rep['replay'])
    if rep['replay'].get('protocol') == 'values_only':
        from props import _purity
        return _purity.replay_protocol(rep['replay'])
    r = rep['replay']; x = vlib.unhexv(r['x'])
    if r.get('form') == 'class_vs_function':
        from props import _estimators as E_
        try:
            return not E_.class_vs_function('pburg', np.real(x) if r.get('real') else x, r['cfg'])
        except Exception:
            return False
    if r.get('criteria'):
        return not check_criteria(x, r['order'], r['criteria'], 'replay')
    if r.get('function') == '_arburg2':
        return not check_arburg2(x, r['order'], 'replay')
    return not check_burg(x, r['order'], 'replay')


def check_arburg2(x, p, tag):
    from spectrum import arburg
    from spectrum.burg import _arburg2
    a, rho, k = arburg(x, p); a2, e2, k2 = _arburg2(x, p)
    ok = np.allclose(a2[1:], a, rtol=1e-7, atol=1e-9) and np.allclose(k2, k, rtol=1e-7, atol=1e-9) and abs(e2 - rho) <= 1e-7 * abs(rho)
    return [] if ok else [('arburg2_same/_arburg2/' + tag, '_arburg2 differs from arburg')]


def run(ctx):
    from spectrum import arburg
    from spectrum.burg import _arburg2
    rng = ctx.rng
    ctx.check_theorems('Properties/C13.v')
    # the estimate an object holds does not depend on the history that gave it its data and settings (every route of _estimators.via)
    from props import _estimators as E_
    E_.class_route_stream(ctx, ['pburg'], 'routes')
    loopir_tie(ctx, ['arburg'])      # IR programs regenerated from the source vs the model: exact, zero tolerance

    cases = []; meta = []
    n = ctx.q(110, 700)
    while len(cases) < n:
        cplx = bool(rng.integers(0, 2)); p = int(rng.integers(1, 5 if cplx else 6)); N = max(4, p + 2 + int(rng.integers(0, 7)))
        x = lowbit(rng, N, cplx)
        mode = rng.choice(['plain', 'plain', 'crit', 'fpe', 'burg2', 'badorder'])
        raised = False
        try:
            if mode == 'plain':
                a, rho, k = arburg(x, p)
            elif mode == 'badorder':
                p = int(rng.choice([0, N + 1, N + 3])); a, rho, k = arburg(x, p)
            elif mode == 'fpe':
                a, rho, k = arburg(x, p, criteria='FPE')
            elif mode == 'crit':
                name = str(rng.choice(['AIC', 'AICc', 'KIC', 'AKICc', 'MDL']))
                a, rho, k = arburg(x, p, criteria=name)
            else:
                a, rho, k = _arburg2(x, p)
        except ValueError:
            raised = True; a = []; rho = 0; k = []
        if not raised and (not np.all(np.isfinite(a)) or not np.isfinite(rho)):
            ctx.count('regenerated_degenerate'); continue
        rho0 = np.sum(np.abs(x) ** 2) / N
        kap = 1.0 if raised else max(1.0, rho0 / max(abs(rho), 1e-300))
        if kap > 1e4:
            ctx.count('regenerated_illconditioned'); continue
        tol = tolq(1e-9 * kap)
        r = 'true' if raised else 'false'
        if mode in ('plain', 'badorder'):
            cases.append('burg_case %s %s %d%%nat %s %s %s %s' % (tol, czl(x), p, r, czl(a), cz(rho), czl(k)))
        elif mode == 'fpe':
            cases.append('burg_case_fpe %s %s %d%%nat %s %s %s %s' % (tol, czl(x), p, r, czl(a), cz(rho), czl(k)))
        elif mode == 'crit':
            # harness-side recomputation of the stop index from the plain run
            try:
                _, _, kfull = arburg(x, p)
            except ValueError:
                ctx.count('regenerated_degenerate'); continue
            rhos = [rho0]
            for t in kfull:
                rhos.append(rhos[-1] * (1 - abs(t) ** 2))
            f = CRIT[name]; q = p + 5
            with np.errstate(all='ignore'):
                vals = [f(np.float64(N), np.float64(rhos[i]), np.float64(i)) for i in range(p + 1)]
            if not np.all(np.isfinite(vals)):
                ctx.count('regenerated_criterion_nonfinite'); continue
            margins = [abs(vals[i + 1] - vals[i]) for i in range(p)]
            if min(margins) < 1e-9 * max(1, max(abs(v) for v in vals)):
                ctx.count('regenerated_criterion_tie'); continue
            for i in range(p):
                if vals[i + 1] > vals[i]:
                    q = i; break
            cases.append('burg_case_stopat %s %s %d%%nat %d%%nat %s %s %s %s' % (tol, czl(x), p, q, r, czl(a), cz(rho), czl(k)))
        else:
            cases.append('burg2_case %s %s %d%%nat %s %s %s' % (tol, czl(x), p, czl(a), cz(rho), czl(k)))
        meta.append({'function': 'arburg' if mode != 'burg2' else '_arburg2', 'mode': mode, 'x': vlib.hexv(x), 'order': p, 'impl_raised': raised})
        ctx.count('corr/%s/%s/%s' % (mode, 'complex' if cplx else 'real', 'raised' if raised else 'returned'))
        ctx.case((mode, x.tobytes(), p), nontrivial=(p >= 2), sample={'function': meta[-1]['function'], 'mode': mode, 'x': [str(t) for t in x], 'order': p})
    for i in ctx.coq_cases('c13_burg', PRE, cases, shard=40, descr='arburg (plain, FPE, log-criteria via stop index, bad order) and _arburg2 vs Model.Burg at QcC'):
        ctx.corr_disagreement(meta[i]['function'], i, meta[i])

    # ---------------- search on the implementation
    for it in range(ctx.q(120, 1200)):
        cplx = bool(rng.integers(0, 2)); N = int(rng.integers(4, ctx.q(80, 200))); p = int(rng.integers(1, min(N - 2, 30) + 1))
        style = rng.choice(['noise', 'tone', 'int', 'scaled'])
        if style == 'noise':
            x = rng.standard_normal(N) + (1j * rng.standard_normal(N) if cplx else 0)
        elif style == 'tone':
            t = np.arange(N); f = rng.uniform(0.05, 0.45)
            x = (np.exp(2j * np.pi * f * t) if cplx else np.cos(2 * np.pi * f * t)) + 0.2 * (rng.standard_normal(N) + (1j * rng.standard_normal(N) if cplx else 0))
        elif style == 'int':
            x = lowbit(rng, N, cplx, bits=6)
        else:
            x = (rng.standard_normal(N) + (1j * rng.standard_normal(N) if cplx else 0)) * 10.0 ** rng.integers(-5, 6)
        tag = 'complex' if cplx else 'real'
        ctx.count('search/%s/%s' % (tag, style))
        ctx.case(('search', x.tobytes(), p), nontrivial=(p >= 2), sample={'function': 'arburg (search)', 'N': N, 'order': p, 'kind': tag + '/' + style})
        try:
            bad = check_burg(x, p, tag)
        except ValueError as e:
            if 'negative value' in str(e):
                ctx.count('search/degenerate-raised'); continue
            bad = [('burg_raises/arburg/' + tag, 'raised %r' % e)]
        for key, what in bad:
            ctx.violation(key, what, {'function': 'arburg', 'x': vlib.hexv(x), 'order': p})
        if it % 3 == 0:
            name = str(rng.choice(['AIC', 'AICc', 'KIC', 'AKICc', 'MDL', 'FPE']))
            try:
                for key, what in check_criteria(x, p, name, tag):
                    ctx.violation(key, what, {'function': 'arburg', 'x': vlib.hexv(x), 'order': p, 'criteria': name})
                # the requested orders around the one the criterion selects (q*, q*+1: the LAST requested stage is the rejected one, q*+2)
                from spectrum import arburg
                qs = len(arburg(x, max(1, min(len(x) - 2, 24)), criteria=name)[2])
                for p2 in (qs, qs + 1, qs + 2):
                    if 1 <= p2 <= len(x) - 2 and p2 != p:
                        ctx.count('search/criteria-boundary/%s' % ('q*' if p2 == qs else 'q*+%d' % (p2 - qs)))
                        for key, what in check_criteria(x, p2, name, tag):
                            ctx.violation(key, what, {'function': 'arburg', 'x': vlib.hexv(x), 'order': p2, 'criteria': name})
            except ValueError:
                ctx.count('search/criteria-degenerate-raised')
            ctx.case(('search-crit', x.tobytes(), p, name), nontrivial=(p >= 2)); ctx.count('search/criteria/' + name)
        if it % 4 == 0:
            for key, what in check_arburg2(x, p, tag):
                ctx.violation(key, what, {'function': '_arburg2', 'x': vlib.hexv(x), 'order': p})
            ctx.case(('search-burg2', x.tobytes(), p), nontrivial=(p >= 2))

    # ---------------- the class holds the model of the functional estimator: every criterion (and none), white records (the criterion may
    # reject even the first stage: an EMPTY model), coloured records, real and complex
    for ci, name in enumerate([None, 'AIC', 'AICc', 'KIC', 'AKICc', 'MDL', 'FPE']):
        for cplx in (False, True):
            for style in ('white', 'ar'):
                N = int(rng.integers(40, 90)); x = rng.standard_normal(N) + (1j * rng.standard_normal(N) if cplx else 0)
                if style == 'ar':
                    for i in range(2, N):
                        x[i] = x[i] + 1.2 * x[i - 1] - 0.7 * x[i - 2]
                cfg = {'order': 6}
                if name:
                    cfg['criteria'] = name
                ctx.count('search/class-vs-function/%s/%s' % (name, style)); ctx.case(('cls-fn', name, cplx, style, x.tobytes()), nontrivial=True)
                try:
                    bad = E_.class_vs_function('pburg', x, cfg)
                except Exception as e:
                    bad = ['pburg raised %s: %s' % (type(e).__name__, str(e)[:80])]
                for what in bad:
                    ctx.violation('class_is_function/pburg/%s/%s' % (name, 'complex' if cplx else 'real'), what,
                                  {'form': 'class_vs_function', 'x': vlib.hexv(np.asarray(x, dtype=complex)), 'real': not cplx, 'cfg': cfg})

    # ---------------- results depend on the VALUES given only: call protocol (repeat, aliasing, buffer reuse, memory layout, integer / single-precision dtypes)
    from props import _purity
    _purity.run_protocol(ctx, ['arburg', 'arburg_criteria', '_arburg2'])
