"""C14 — Covariance and modified-covariance AR fits are least-squares optimal."""
import numpy as np
import vlib
from vlib import cz, czl, tolq
from props._loopir import loopir_tie, TRUSTED_LINE

LEVEL_TEXT = ("Coq theorems (abstract ordered field with conjugation, every length N, every order p, every data vector) about the "
              "model of arcovar/modcovar = corrmtx('covariance'|'modified') + lstsq(-Xc, X1) + the code's post-processing: the data "
              "matrices have the stated shape (rows n=p..N-1, fliplr(conj) block), whatever solves the normal equations has a residual "
              "orthogonal to every regressor, E(a')-E(a)=|Xc(a'-a)|^2 for every a' (so a minimises the forward resp. forward+backward "
              "energy), the returned e IS that minimum, the imaginary-part assertion cannot fire in exact arithmetic, sums of "
              "exponentials are annihilated by their root polynomial (forward; backward on the unit circle) so e=0; the data matrix of p distinct "
              "exponentials (non-zero amplitudes, N>=2p) has full column rank (Vandermonde), so the returned polynomial is exactly the root "
              "polynomial and its roots are exactly the p exponentials. lstsq is a universally quantified solver meeting "
              "'normal equations hold'; an executable certified instance (Gaussian elimination + exact re-check) runs in the "
              "correspondence. Tie: exact in-Coq correspondence of arcovar/modcovar/pcovar.rho/pmodcovar.rho/corrmtx on dyadic inputs, "
              "search on the implementation with oracles built from scratch (own data matrix, QR), Marple recursions compared as a test. "
              "Loop-IR tie of the Marple routines: arcovar_marple and modcovar_marple are translated from the snapshot source on every run (fail-closed "
              "Python-ast -> IR translator) and the IR programs are evaluated inside Coq at QcC with zero tolerance against the hand model "
              "Model/CovarMarple.v (outcome constructor, every array entry, both variances, the appended variance lists) and, independently of the hand "
              "model, against the exact least-squares model (coefficients and per-sample minimum; backward predictor too for arcovar_marple); for "
              "orders 0 and 1 of both routines (one full pass of the main loops) and for the argument check of arcovar_marple, run = hand model is a "
              "THEOREM about the generated programs, for all inputs (Proofs/LoopIRMarple0.v, claimed only while the regenerated text is the one proved about).")
TRUSTED = ["Coq 8.16.1 kernel + vm_compute", "hand-written model coq/Model/Ls.v, coq/Model/Corr.v (tie = correspondence run)", TRUSTED_LINE,
           "scipy.linalg.lstsq is specified (returns a solution of the normal equations), not verified; numpy QR/SVD in the search oracles",
           "Python harness"]
UNPROVED = ["arcovar_marple / modcovar_marple equal the least-squares solution and e/(N-p), e/(2(N-p)) for orders >= 1: exact TEST only, not a theorem — (i) the loop-IR "
            "programs regenerated from the source on this run and (ii) the hand model Model/CovarMarple.v are each compared with the exact LS model at zero "
            "tolerance on every generated case (orders 1..4, N <= 14), the IR program is compared with the hand model at zero tolerance, and the "
            "implementation is compared in the search (tolerance 1e-11*cond^2); proved for the generated programs (run = hand model, all inputs): orders 0 and 1 of both "
            "routines and the assertion order <= len(x) of arcovar_marple (Proofs/LoopIRMarple0.v); NOT proved: run = hand model at orders >= 2"]
ASSUMPTIONS = ["exact arithmetic", "N - p >= p and full column rank where uniqueness / exact recovery is claimed",
               "lstsq returns a solution of the normal equations (always true of a least-squares solver, also when rank-deficient)"]
RULE = ("exact in Coq: real/complex low-bit dyadic data (noise, 4th-root-of-unity exponentials with and without noise, scaled by 2^k), N=4..16, "
        "orders 1..4, cond(Xc)^2 <= 1e6; search: N=6..128, orders 1..min(N/2,20), noise / tones in noise / noiseless exponentials / "
        "integers, amplitudes 1e-12..1e9; non-trivial = order >= 2")

PRE = """Require Import Spectrum.Theory.Ops Spectrum.Theory.Vec Spectrum.Model.Corr Spectrum.Model.Ls Spectrum.Model.CovarMarple Spectrum.Instances.QcC.
From Coq Require Import QArith Qcanon.
Local Open Scope Z_scope.
Definition tol4 : QcC := (Q2Qc (1 # 10000), Q2Qc 0).
Definition res_close (tol s : Qc) (r : option (list QcC * QcC)) (raised : bool) (ia : list QcC) (ie : QcC) : bool :=
  match r with
  | None => raised
  | Some (a, e) => negb raised && qcc_close_rel tol (dy 1 0) a ia && qcc_close_rel tol s [e] [ie]
  end.
Definition covar_case tol s x (p : nat) raised ia ie := res_close tol s (@arcovar _ qcc_ops tol4 x p) raised ia ie.
Definition modcovar_case tol s x (p : nat) raised ia ie := res_close tol s (@modcovar _ qcc_ops tol4 x p) raised ia ie.
Definition pcovar_case tol s x (p : nat) raised ia ie := res_close tol s (@pcovar_rho _ qcc_ops tol4 x p) raised ia ie.
Definition pmodcovar_case tol s x (p : nat) raised ia ie := res_close tol s (@pmodcovar_rho _ qcc_ops tol4 x p) raised ia ie.
Definition mat_eq (A B : list (list QcC)) : bool :=
  Nat.eqb (length A) (length B) && forallb (fun pr => qcc_close_list 0%Qc (fst pr) (snd pr)) (combine A B).
Definition corrmtx_case x (m : nat) meth C := mat_eq (@corrmtx _ qcc_ops x m meth) C.
(* ---- Marple's fast recursions: model vs implementation (tolerance) ---- *)
Definition ediv (e : QcC) (n : nat) : QcC := @div _ qcc_ops e (@ofnat _ qcc_ops n).
Definition marple_cov_case tol s x (p : nat) iaf ipf iab ipb : bool :=
  match @arcovar_marple _ qcc_ops x p with
  | Some (af, pf, ab, pb) => qcc_close_rel tol (dy 1 0) af iaf && qcc_close_rel tol (dy 1 0) ab iab
                             && qcc_close_rel tol s [pf] [ipf] && qcc_close_rel tol s [pb] [ipb]
  | None => false
  end.
Definition marple_mod_case tol s x (p : nat) (raised : bool) ia ip : bool :=
  match @modcovar_marple _ qcc_ops x p with
  | Some (a, pv) => negb raised && qcc_close_rel tol (dy 1 0) a ia && qcc_close_rel tol s [pv] [ip]
  | None => raised
  end.
(* ---- TEST (not a theorem): in exact arithmetic the fast recursions return the least-squares solution and the
   per-sample minimum; for arcovar_marple also the backward predictor = LS on the row-reversed matrix ---- *)
Definition marple_cov_exact x (p : nat) : bool :=
  match @arcovar _ qcc_ops tol4 x p,
        @ar_ls _ qcc_ops (@ls_solve _ qcc_ops) tol4 (map (@rev QcC) (@corrmtx _ qcc_ops x p MCovariance)) p,
        @arcovar_marple _ qcc_ops x p with
  | Some (a, e), Some (b, eb), Some (af, pf, ab, pb) =>
      qcc_close_list 0%Qc (firstn p af) a && qcc_close 0%Qc pf (ediv e (length x - p))
      && qcc_close_list 0%Qc (firstn p ab) b && qcc_close 0%Qc pb (ediv eb (length x - p))
  | _, _, _ => false
  end.
Definition marple_mod_exact x (p : nat) : bool :=
  match @modcovar _ qcc_ops tol4 x p, @modcovar_marple _ qcc_ops x p with
  | Some (a, e), Some (am, pm) =>
      qcc_close_list 0%Qc (firstn p am) a && qcc_close 0%Qc pm (ediv e (2 * (length x - p)))
  | _, _ => false
  end.
"""


# ----------------------------------------------------------------------------- independent oracles
def datamat(x, p, mod):
    """data matrix built from the definition: rows n = p..N-1 of [x[n], x[n-1], .., x[n-p]];
    for the modified method followed by the rows [conj x[n-p], .., conj x[n]]"""
    x = np.asarray(x); N = len(x)
    T = np.array([[x[n - j] for j in range(p + 1)] for n in range(p, N)])
    if mod:
        B = np.array([[np.conj(x[n - p + j]) for j in range(p + 1)] for n in range(p, N)])
        T = np.vstack([T, B])
    return T


def ls_reference(Xc, X1):
    Q, R = np.linalg.qr(Xc)
    a = np.linalg.solve(R, -(Q.conj().T @ X1))
    r = X1 + Xc @ a
    return a, float(np.vdot(r, r).real)


FUNCS = {'arcovar': False, 'modcovar': True}


def check_fit(x, p, fname, tag):
    """all clauses that concern one call of arcovar / modcovar (+ its Marple twin, + the class)"""
    import spectrum
    mod = FUNCS[fname]
    x = np.asarray(x); N = len(x)
    bad = []
    site = '%s/%s' % (fname, tag)
    try:
        a, e = getattr(spectrum, fname)(x, p)
    except Exception as ex:  # the fit of well-posed data must not raise (D20: AssertionError on large amplitudes)
        return [('covar_raises/' + site, '%s raised %r on N=%d, order=%d data' % (fname, ex, N, p))], None
    T = datamat(x.astype(complex) if np.iscomplexobj(x) else x.astype(float), p, mod); Xc = T[:, 1:]; X1 = T[:, 0]
    sv = np.linalg.svd(Xc, compute_uv=False)
    kap = float(sv[0] / sv[-1]) if sv[-1] > 0 else np.inf
    s = float(np.vdot(X1, X1).real)
    info = {'kappa': kap, 's': s}
    if len(a) != p:
        return [('covar_shape/' + site, 'returned %d coefficients for order %d' % (len(a), p))], info
    if not np.isfinite(kap) or kap > 1e7:
        info['skipped'] = 'illconditioned'
        return bad, info
    r = X1 + Xc @ a
    E = float(np.vdot(r, r).real)
    coln = np.linalg.norm(Xc, axis=0)
    orth = np.max(np.abs(Xc.conj().T @ r) / (coln * np.sqrt(s)))
    if orth > 1e-9 * kap:
        bad.append(('covar_orth/' + site, 'residual not orthogonal to the regressors: max normalised |<col,res>| = %.3g (cond %.3g)' % (orth, kap)))
    if abs(e - E) > 1e-9 * kap * s:
        bad.append(('covar_e_is_energy/' + site, 'returned e=%.17g but the residual energy of the returned a is %.17g' % (e, E)))
    aref, Emin = ls_reference(Xc, X1)
    if abs(e - Emin) > 1e-9 * kap * s:
        bad.append(('covar_e_min/' + site, 'returned e=%.17g, least-squares minimum %.17g' % (e, Emin)))
    if np.max(np.abs(a - aref)) > 1e-11 * kap ** 2 * (1 + np.max(np.abs(aref))):
        bad.append(('covar_a_min/' + site, 'returned coefficients differ from the least-squares solution by %.3g' % np.max(np.abs(a - aref))))
    # any perturbation increases the energy (random directions + the steepest-descent direction)
    prng = np.random.default_rng(12345 + N + 131 * p)
    g = Xc.conj().T @ r
    dirs = [prng.standard_normal(p) + (1j * prng.standard_normal(p) if np.iscomplexobj(x) else 0) for _ in range(3)]
    if np.linalg.norm(g) > 0:
        dirs.append(-g)
    for d in dirs:
        d = d / np.linalg.norm(d) * max(np.linalg.norm(a), 1e-3)
        for t in (1e-4, 1e-2, 1.0):
            r2 = X1 + Xc @ (a + t * d)
            E2 = float(np.vdot(r2, r2).real)
            if E2 < E - 1e-9 * kap * s * t:
                bad.append(('covar_perturb/' + site, 'a perturbation of relative size %g lowers the energy from %.17g to %.17g' % (t, E, E2)))
                break
    den = (2.0 if mod else 1.0) * (N - p)
    # the class: rho is the per-sample minimum
    try:
        cls = getattr(spectrum, 'pmodcovar' if mod else 'pcovar')
        obj = cls(x, p, NFFT=max(16, 2 * N)); obj()
        if np.max(np.abs(np.asarray(obj.ar) - a)) > 1e-12 * (1 + np.max(np.abs(a))) or abs(obj.rho - e / den) > 1e-12 * abs(e / den) + 1e-300:
            bad.append(('class_rho/%s/%s' % ('pmodcovar' if mod else 'pcovar', tag), 'class stores rho=%r, ar=.. but %s gives e/%g=%r' % (obj.rho, fname, den, e / den)))
    except Exception as ex:
        bad.append(('class_raises/%s/%s' % ('pmodcovar' if mod else 'pcovar', tag), 'class raised %r' % ex))
    # Marple's fast recursion: same coefficients, same minimum per sample (TEST, not proved)
    if kap <= 1e4:
        xm = np.asarray(x, dtype=complex)
        mname = fname + '_marple'
        try:
            with np.errstate(all='ignore'):
                if mod:
                    am, pm, _pv = spectrum.modcovar_marple(xm, p)
                else:
                    am, pm, _ab, _pb, _pv = spectrum.arcovar_marple(xm, p)
            am = np.asarray(am)[:p]
            if not (np.all(np.isfinite(am)) and np.isfinite(pm)):
                info['marple'] = 'nonfinite'
            else:
                if np.max(np.abs(am - a)) > 1e-11 * kap ** 2 * (1 + np.max(np.abs(a))):
                    bad.append(('marple_same_a/%s/%s' % (mname, tag), '%s coefficients differ from %s by %.3g (cond %.3g)' % (mname, fname, np.max(np.abs(am - a)), kap)))
                if abs(pm - e / den) > 1e-11 * kap ** 2 * s / den:
                    bad.append(('marple_same_p/%s/%s' % (mname, tag), '%s variance %.17g, %s e/%g = %.17g' % (mname, pm, fname, den, e / den)))
        except ValueError as ex:
            # the least-squares routine returned on a well-conditioned system (kap <= 1e4): the fast recursion has to return the same model
            if kap <= 1e3:
                bad.append(('marple_raises/%s/%s' % (mname, tag), '%s raised %r where %s returns (cond %.3g): not the same coefficients' % (mname, ex, fname, kap)))
            info['marple'] = 'raised-illconditioned'
    else:
        info['marple'] = 'skipped'
    return bad, info


def check_recovery(x, p, z, fname, tag):
    """noiseless sum of p exponentials z_i^t: e = 0, the roots of [1, a] are the z_i"""
    import spectrum
    mod = FUNCS[fname]
    site = '%s/%s' % (fname, tag)
    try:
        a, e = getattr(spectrum, fname)(x, p)
    except Exception as ex:
        return [('covar_raises/' + site, '%s raised %r on a noiseless sum of %d exponentials' % (fname, ex, p))], None
    T = datamat(np.asarray(x), p, mod); Xc = T[:, 1:]; X1 = T[:, 0]
    sv = np.linalg.svd(Xc, compute_uv=False); kap = float(sv[0] / sv[-1]) if sv[-1] > 0 else np.inf
    s = float(np.vdot(X1, X1).real)
    if not np.isfinite(kap) or kap > 1e8:
        return [], {'kappa': kap, 'skipped': 'illconditioned'}
    bad = []
    if abs(e) > 1e-11 * kap * s:
        bad.append(('exp_e_zero/' + site, 'noiseless exponentials: e=%.3g, signal energy %.3g' % (e, s)))
    rts = np.roots(np.concatenate(([1], a)))
    d = max(np.min(np.abs(rts - zi)) for zi in z)
    if d > 1e-12 * kap:
        bad.append(('exp_recovery/' + site, 'a root of the returned polynomial misses its exponential by %.3g (cond %.3g)' % (d, kap)))
    c = np.poly(z)[1:]
    if np.max(np.abs(a - c)) > 1e-11 * kap * (1 + np.max(np.abs(c))):
        bad.append(('exp_polynomial/' + site, 'returned coefficients differ from the root polynomial by %.3g' % np.max(np.abs(a - c))))
    return bad, {'kappa': kap}


def check_reuse(x1, x2, p, fname):
    """the fit is a function of the sample values: a buffer overwritten in place and fitted again gives the fit of its new content"""
    import spectrum
    from spectrum.covar import arcovar_marple
    from spectrum.modcovar import modcovar_marple
    f = {'arcovar': spectrum.arcovar, 'modcovar': spectrum.modcovar, 'arcovar_marple': arcovar_marple, 'modcovar_marple': modcovar_marple,
         'corrmtx_covariance': lambda b, q: (spectrum.corrmtx(b, q, 'covariance'),), 'corrmtx_modified': lambda b, q: (spectrum.corrmtx(b, q, 'modified'),)}[fname]
    buf = np.array(x1, copy=True)
    f(buf, p)
    buf[:] = x2
    got = f(buf, p); want = f(np.array(x2, copy=True), p)
    for g, w in zip(got, want):
        g = np.atleast_1d(np.asarray(g, dtype=complex)); w = np.atleast_1d(np.asarray(w, dtype=complex))
        if g.shape != w.shape or (w.size and np.max(np.abs(g - w)) > 1e-10 * max(1.0, np.max(np.abs(w)))):
            return [('stateless/' + fname, '%s on a buffer overwritten in place differs from the fit of the same samples in a fresh array' % fname)]
    return []


def replay(rep):
    if rep.get('replay', {}).get('form') == 'routes':
        from props import _estimators as E_
        return E_.replay_routes(rep['replay'])
    if rep['replay'].get('protocol') == 'values_only':
        from props import _purity
        return _purity.replay_protocol(rep['replay'])
    r = rep['replay']; x = vlib.unhexv(r['x'])
    if r.get('kind') == 'dtype':
        import spectrum as _sp
        f = {'arcovar': _sp.arcovar, 'modcovar': _sp.modcovar, 'corrmtx_covariance': lambda b, q: (_sp.corrmtx(b, q, 'covariance'),),
             'corrmtx_modified': lambda b, q: (_sp.corrmtx(b, q, 'modified'),)}[r['function']]
        cplx = r['datatype'] == 'complex64'
        xx = x if cplx else np.real(x)
        want = f(xx, r['order']); got = f(xx.astype(np.complex64 if cplx else np.float32), r['order'])
        return all(np.shape(g) == np.shape(w) and np.max(np.abs(np.asarray(g, dtype=complex) - np.asarray(w, dtype=complex))) <= 2e-3 * max(1.0, np.max(np.abs(w)))
                   for g, w in zip(got, want))
    if r.get('kind') == 'reuse':
        x2 = vlib.unhexv(r['x2'])
        if r.get('datatype') == 'real':
            x = np.real(x); x2 = np.real(x2)
        return not check_reuse(x, x2, r['order'], r['function'])
    if r.get('kind') == 'recovery':
        bad, _ = check_recovery(x, r['order'], vlib.unhexv(r['z']), r['function'], 'replay')
    elif r.get('kind') == 'corrmtx':
        return corrmtx_ok(x, r['order'], r['method'])
    else:
        bad, _ = check_fit(x, r['order'], r['function'], 'replay')
    return not bad


def corrmtx_ok(x, m, method):
    from spectrum import corrmtx
    C = corrmtx(x, m, method)
    T = datamat(x, m, method == 'modified')
    return C.shape == T.shape and np.array_equal(np.asarray(C, dtype=complex), np.asarray(T, dtype=complex))


# ----------------------------------------------------------------------------- generators
def lowbit(rng, n, cplx, bits=2):
    s = 1 << bits
    x = rng.integers(-s, s + 1, size=n).astype(float)
    if cplx:
        x = x + 1j * rng.integers(-s, s + 1, size=n)
    return x


def unit4(rng, q):
    """q distinct 4th roots of unity (exact Gaussian integers)"""
    zs = np.array([1, 1j, -1, -1j]); return zs[rng.permutation(4)[:q]]


def exact_exp(rng, N, q):
    z = unit4(rng, q); amp = rng.integers(1, 4, size=q) + 1j * rng.integers(-2, 3, size=q)
    t = np.arange(N)
    x = sum(amp[i] * np.round(z[i] ** t) for i in range(q))
    return np.asarray(x, dtype=complex), z


def mat_lit(C):
    return '[' + '; '.join(czl(row) for row in np.asarray(C)) + ']'


def run(ctx):
    import spectrum
    from spectrum import arcovar, modcovar, corrmtx, pcovar, pmodcovar
    rng = ctx.rng
    ctx.check_theorems('Properties/C14.v')
    # the estimate an object holds does not depend on the history that gave it its data and settings (every route of _estimators.via)
    from props import _estimators as E_
    E_.class_route_stream(ctx, ['pcovar', 'pmodcovar'], 'routes')

    # ---------------- exact correspondence inside Coq
    cases = []; meta = []
    n = ctx.q(150, 900)
    guard = 0
    while len(cases) < n and guard < 50 * n:
        guard += 1
        cplx = bool(rng.integers(0, 2)); p = int(rng.integers(1, 5)); N = int(rng.integers(max(4, 2 * p), 17))
        style = str(rng.choice(['noise', 'noise', 'exp', 'exp+noise', 'scaled', 'list', 'int']))
        fname = str(rng.choice(['arcovar', 'modcovar', 'pcovar', 'pmodcovar']))
        mod = fname in ('modcovar', 'pmodcovar')
        if rng.integers(0, 15) == 0 and fname in ('arcovar', 'modcovar') and style not in ('exp', 'exp+noise'):
            p = 0                                   # order 0: a = [], e = signal energy (twice for the stacked matrix)
        if style == 'exp':
            x, _z = exact_exp(rng, N, p)
        elif style == 'exp+noise':
            x, _z = exact_exp(rng, N, p); x = x + lowbit(rng, N, True, bits=1) / 4.0
        elif style == 'scaled':
            x = lowbit(rng, N, cplx, bits=3) * 2.0 ** int(rng.choice([-12, 16, 20, 24, 26]))
        else:
            x = lowbit(rng, N, cplx, bits=int(rng.integers(2, 4))) / float(rng.choice([1, 2, 4]))
        arg = x
        if style == 'list':
            arg = [complex(t) for t in x] if np.iscomplexobj(x) else [float(t) for t in x]
        elif style == 'int' and not np.iscomplexobj(x):
            x = np.round(x * 4); arg = x.astype(int)
        T = datamat(x, p, mod); Xc = T[:, 1:]; X1 = T[:, 0]
        sv = np.linalg.svd(Xc, compute_uv=False) if p > 0 else np.array([1.0])
        if sv[-1] <= 0 or (sv[0] / sv[-1]) ** 2 > 1e6:
            ctx.count('regenerated_illconditioned'); continue
        kap2 = float((sv[0] / sv[-1]) ** 2); s = float(np.vdot(X1, X1).real)
        raised = False; a = []; e = 0.0
        try:
            if fname in ('arcovar', 'modcovar'):
                a, e = getattr(spectrum, fname)(arg, p)
            else:
                obj = getattr(spectrum, fname)(arg, p, NFFT=32); obj(); a = obj.ar; e = obj.rho
                s = s / ((2.0 if mod else 1.0) * (N - p))
        except (AssertionError, ValueError, np.linalg.LinAlgError):
            raised = True
        tol = tolq(1e-9 * kap2)
        cases.append('%s %s %s %s %d%%nat %s %s %s' % (
            {'arcovar': 'covar_case', 'modcovar': 'modcovar_case', 'pcovar': 'pcovar_case', 'pmodcovar': 'pmodcovar_case'}[fname],
            tol, tolq(s), czl(x), p, 'true' if raised else 'false', czl(a), cz(e)))
        meta.append({'function': fname, 'style': style, 'x': vlib.hexv(x), 'order': p, 'impl_raised': raised})
        ctx.count('corr/%s/%s/%s' % (fname, style if p else 'order0', 'raised' if raised else 'returned'))
        ctx.case((fname, np.asarray(x).tobytes(), p), nontrivial=(p >= 2),
                 sample={'function': fname, 'style': style, 'x': [str(t) for t in x], 'order': p})
    for i in ctx.coq_cases('c14_covar', PRE, cases, shard=30,
                           descr='arcovar, modcovar, pcovar.rho/ar, pmodcovar.rho/ar vs Model.Ls at QcC (exact solver, tolerance 1e-9*cond^2)'):
        ctx.corr_disagreement(meta[i]['function'], i, meta[i])

    # Marple's fast recursions: executable model vs implementation, and (TEST) model == exact least squares
    fcases = []; fmeta = []
    nf = ctx.q(60, 360)
    guard = 0
    while len(fcases) < 2 * nf and guard < 50 * nf:
        guard += 1
        cplx = bool(rng.integers(0, 2)); p = int(rng.integers(1, 5)); N = int(rng.integers(max(5, 2 * p + 1), 15))
        style = str(rng.choice(['noise', 'noise', 'exp+noise', 'scaled']))
        mod = bool(rng.integers(0, 2))
        if style == 'exp+noise':
            x, _z = exact_exp(rng, N, p); x = x + lowbit(rng, N, True, bits=1) / 4.0
        elif style == 'scaled':
            x = lowbit(rng, N, cplx, bits=3) * 2.0 ** int(rng.choice([-12, 16, 24]))
        else:
            x = lowbit(rng, N, cplx, bits=int(rng.integers(2, 4)))
        # the recursion passes through every lower order (forward and backward problems): all must be well conditioned
        kap2 = 0.0
        for q in range(1, p + 1):
            for Tq in (datamat(x, q, mod), datamat(x, q, mod)[:, ::-1]):
                sv = np.linalg.svd(Tq[:, 1:], compute_uv=False)
                kap2 = max(kap2, np.inf if sv[-1] <= 0 else float((sv[0] / sv[-1]) ** 2))
        if kap2 > 1e5:
            ctx.count('regenerated_illconditioned_marple'); continue
        T = datamat(x, p, mod); s = float(np.vdot(T[:, 0], T[:, 0]).real) / ((2.0 if mod else 1.0) * (N - p))
        xm = np.asarray(x, dtype=complex)
        tol = tolq(1e-9 * kap2)
        with np.errstate(all='ignore'):
            if mod:
                raised = False; am = []; pm = 0.0
                try:
                    am, pm, _pv = spectrum.modcovar_marple(xm, p)
                except ValueError:
                    raised = True
                if not raised and not (np.all(np.isfinite(am)) and np.isfinite(pm)):
                    ctx.count('regenerated_degenerate_marple'); continue
                fcases.append('marple_mod_case %s %s %s %d%%nat %s %s %s' % (tol, tolq(s), czl(x), p, 'true' if raised else 'false', czl(am), cz(pm)))
                fcases.append('true' if raised else 'marple_mod_exact %s %d%%nat' % (czl(x), p))
                fname = 'modcovar_marple'
            else:
                af, pf, ab, pb, _pv = spectrum.arcovar_marple(xm, p)
                if not (np.all(np.isfinite(af)) and np.all(np.isfinite(ab)) and np.isfinite(pf) and np.isfinite(pb)):
                    ctx.count('regenerated_degenerate_marple'); continue
                raised = False
                fcases.append('marple_cov_case %s %s %s %d%%nat %s %s %s %s' % (tol, tolq(s), czl(x), p, czl(af), cz(pf), czl(ab), cz(pb)))
                fcases.append('marple_cov_exact %s %d%%nat' % (czl(x), p))
                fname = 'arcovar_marple'
        for kind in ('model-vs-implementation', 'TEST model == exact least squares (coefficients, per-sample minimum)'):
            fmeta.append({'function': fname, 'what': kind, 'style': style, 'x': vlib.hexv(x), 'order': p, 'impl_raised': raised})
        ctx.count('corr/%s/%s/%s' % (fname, style, 'raised' if raised else 'returned'))
        ctx.case((fname, np.asarray(x).tobytes(), p), nontrivial=(p >= 2))
    for i in ctx.coq_cases('c14_marple', PRE, fcases, shard=30,
                           descr='arcovar_marple / modcovar_marple vs Model.CovarMarple at QcC (even indices), and TEST: the Marple model equals the exact least-squares model with zero tolerance (odd indices)'):
        ctx.corr_disagreement('%s [%s]' % (fmeta[i]['function'], fmeta[i]['what']), i, fmeta[i])

    # loop-IR tie: arcovar_marple / modcovar_marple are translated from the snapshot source on this run; the IR programs are evaluated
    # inside Coq (QcC, zero tolerance) against the hand model Model/CovarMarple.v AND against the exact least-squares model, and
    # (tolerance) against the implementation
    loopir_tie(ctx, ['arcovar_marple', 'modcovar_marple'])

    mcases = []; mmeta = []
    for _ in range(ctx.q(40, 200)):
        cplx = bool(rng.integers(0, 2)); m = int(rng.integers(0, 5)); N = int(rng.integers(m + 1, 12))
        x = lowbit(rng, N, cplx, bits=3); method = str(rng.choice(['covariance', 'modified']))
        arg = x if rng.integers(0, 2) else (list(x) if cplx else [float(t) for t in x])
        C = corrmtx(arg, m, method)
        mcases.append('corrmtx_case %s %d%%nat %s %s' % (czl(x), m, 'MCovariance' if method == 'covariance' else 'MModified', mat_lit(C)))
        mmeta.append({'function': 'corrmtx', 'kind': 'corrmtx', 'x': vlib.hexv(x), 'order': m, 'method': method})
        ctx.count('corr/corrmtx/%s/%s' % (method, 'complex' if cplx else 'real'))
        ctx.case(('corrmtx', x.tobytes(), m, method), nontrivial=(m >= 1))
        if not corrmtx_ok(x, m, method):
            ctx.violation('corrmtx_shape/corrmtx/%s' % method, 'corrmtx(x, %d, %r) is not the matrix of rows n=m..N-1 (and its fliplr(conj) block)' % (m, method), mmeta[-1])
    for i in ctx.coq_cases('c14_corrmtx', PRE, mcases, shard=60, descr="corrmtx 'covariance'/'modified' vs Model.Corr (exact)"):
        ctx.corr_disagreement('corrmtx', i, mmeta[i])

    # ---------------- search on the implementation
    for it in range(ctx.q(110, 1400)):
        cplx = bool(rng.integers(0, 2)); N = int(rng.integers(6, 129)); p = int(rng.integers(1, min(N // 2, 20) + 1))
        style = str(rng.choice(['noise', 'tone', 'tones', 'int', 'scaled', 'scaled', 'edge']))
        t = np.arange(N)
        noise = rng.standard_normal(N) + (1j * rng.standard_normal(N) if cplx else 0)
        if style == 'noise':
            x = noise
        elif style == 'tone':
            f = rng.uniform(0.05, 0.45)
            x = (np.exp(2j * np.pi * f * t) if cplx else np.cos(2 * np.pi * f * t)) + 0.2 * noise
        elif style == 'tones':
            x = 0.05 * noise
            for _ in range(int(rng.integers(1, 5))):
                f = rng.uniform(-0.5, 0.5); A = rng.uniform(0.5, 3)
                x = x + (A * np.exp(2j * np.pi * (f * t + rng.uniform())) if cplx else A * np.cos(2 * np.pi * (f * t + rng.uniform())))
        elif style == 'int':
            x = lowbit(rng, N, cplx, bits=6)
        elif style == 'edge':
            # records whose first and / or last samples vanish EXACTLY or are negligible (a sine started at phase 0, a tapered record, a delayed
            # or zero-padded burst): the gains of the fast recursions sit on the boundary of their admissible range there
            f = rng.uniform(0.05, 0.45); x = (np.exp(2j * np.pi * f * t) - 1 if cplx else np.sin(2 * np.pi * f * t)) + 0.0
            k = int(rng.integers(0, 5))
            if k == 1:
                x = (noise + x) * np.hanning(N)
            elif k == 2:
                x = np.concatenate(([0.0], (noise + x)[:-1]))
            elif k == 3:
                x = np.concatenate(((noise + x)[:-1], [0.0]))
            elif k == 4:
                x = noise + x; x[0] = x[0] * 1e-12; x[-1] = x[-1] * 1e-13
        else:
            x = noise * 10.0 ** int(rng.choice([-12, -10, -9, -8, -7, -6, -5, -4, -3, -2, -1, 1, 2, 3, 4, 5, 6, 7, 9]))      # every clause is scale free
        if it % 6 == 5 and N >= 4:
            # the LARGEST admissible order of the covariance method (N = 2p: a square system), with the sample that ends the first row
            # of the data matrix vanishing exactly, nearly, or not at all
            N = N - (N % 2); p = N // 2; x = x[:N].copy(); ctx.count('search/square-system')
            if len(x) == N and p >= 1:
                x[p - 1] = x[p - 1] * [0.0, 1e-11, 1.0][(it // 6) % 3]
        tag = ('complex' if cplx else 'real')
        for fname in ('arcovar', 'modcovar'):
            ctx.count('search/%s/%s/%s' % (fname, tag, style))
            ctx.case(('search', fname, x.tobytes(), p), nontrivial=(p >= 2),
                     sample={'function': fname + ' (search)', 'N': N, 'order': p, 'kind': tag + '/' + style})
            bad, info = check_fit(x, p, fname, tag)
            if info and info.get('skipped'):
                ctx.count('search/skipped-' + info['skipped'])
            if info and info.get('marple'):
                ctx.count('search/marple-' + info['marple'])
            for key, what in bad:
                ctx.violation(key, what, {'function': fname, 'x': vlib.hexv(x), 'order': p})

    # exact recovery of p noiseless exponentials (complex: p frequencies; real: p/2 sinusoids), all amplitudes
    for it in range(ctx.q(100, 800)):
        cplx = bool(rng.integers(0, 3)); p = int(rng.integers(1, 13))
        if not cplx and p % 2:
            p += 1
        N = int(rng.integers(max(6, 2 * p), 129))
        if p > min(N // 2, 20):
            continue
        t = np.arange(N)
        close = bool(rng.integers(0, 3) == 0)     # a pair of close frequencies: moderately ill-conditioned, still well inside the domain
        if cplx:
            f = rng.uniform(-0.5, 0.5, p); amp = rng.uniform(0.5, 2, p) * np.exp(2j * np.pi * rng.uniform(0, 1, p))
            if close and p >= 2:
                f[1] = f[0] + 10.0 ** rng.uniform(-3.5, -1.5)
            z = np.exp(2j * np.pi * f); x = sum(amp[i] * z[i] ** t for i in range(p))
            if close and p >= 2 and rng.integers(0, 2) == 0:
                # steer the pair into the band cond = 1e6..1e8: full column rank in double precision, yet any
                # regularisation / truncation of the solver shows
                for _ in range(16):
                    sv = np.linalg.svd(datamat(x, p, False)[:, 1:], compute_uv=False)
                    if sv[-1] <= 0 or sv[0] / sv[-1] >= 3e6:
                        break
                    f[1] = f[0] + (f[1] - f[0]) / 2.0
                    z = np.exp(2j * np.pi * f); x = sum(amp[i] * z[i] ** t for i in range(p))
        else:
            f = rng.uniform(0.02, 0.48, p // 2); amp = rng.uniform(0.5, 2, p // 2); ph = rng.uniform(0, 2 * np.pi, p // 2)
            if close and p >= 4:
                f[1] = min(0.49, f[0] + 10.0 ** rng.uniform(-3, -1.5))
            x = sum(amp[i] * np.cos(2 * np.pi * f[i] * t + ph[i]) for i in range(p // 2))
            z = np.concatenate([np.exp(2j * np.pi * f), np.exp(-2j * np.pi * f)])
        x = x * 10.0 ** int(rng.integers(-5, 8))
        tag = ('complex' if cplx else 'real')
        for fname in ('arcovar', 'modcovar'):
            ctx.count('recovery/%s/%s%s' % (fname, tag, '/close-pair' if close else ''))
            ctx.case(('recovery', fname, np.asarray(x).tobytes(), p), nontrivial=(p >= 2))
            bad, info = check_recovery(x, p, z, fname, tag)
            if info and info.get('skipped'):
                ctx.count('recovery/skipped-' + info['skipped'])
            elif info:
                ctx.count('recovery/cond-1e%d' % int(np.floor(np.log10(max(info['kappa'], 1.0)))))
            for key, what in bad:
                ctx.violation(key, what, {'function': fname, 'kind': 'recovery', 'x': vlib.hexv(x), 'order': p, 'z': vlib.hexv(z)})

    # ---------------- statelessness: the same buffer object, overwritten in place, fitted again
    for it in range(ctx.q(24, 240)):
        fname = ['arcovar', 'modcovar', 'arcovar_marple', 'modcovar_marple', 'corrmtx_covariance', 'corrmtx_modified'][it % 6]
        cplx = bool(rng.integers(0, 2)); N = int(rng.integers(12, 65)); p = int(rng.integers(1, min(N // 3, 8) + 1))
        x1 = rng.standard_normal(N) + (1j * rng.standard_normal(N) if cplx else 0)
        x2 = rng.standard_normal(N) + (1j * rng.standard_normal(N) if cplx else 0)
        tag = 'complex' if cplx else 'real'
        ctx.count('search/reuse/%s/%s' % (fname, tag)); ctx.case(('reuse', fname, x1.tobytes(), x2.tobytes(), p), nontrivial=True)
        try:
            bad = check_reuse(x1, x2, p, fname)
        except Exception as e:
            bad = [('stateless/' + fname, 'raised %r' % (e,))]
        for key, what in bad:
            ctx.violation(key, what, {'kind': 'reuse', 'function': fname, 'x': vlib.hexv(np.asarray(x1, dtype=complex)), 'x2': vlib.hexv(np.asarray(x2, dtype=complex)), 'order': p, 'datatype': tag})

    # ---------------- input dtype: single-precision real / complex records are data too (values exactly representable)
    import spectrum as _sp
    for it in range(ctx.q(16, 120)):
        fname = ['arcovar', 'modcovar', 'corrmtx_covariance', 'corrmtx_modified'][it % 4]
        cplx = bool((it // 4) % 2); N = int(rng.integers(12, 41)); p = int(rng.integers(1, min(N // 4, 5) + 1))
        x = rng.integers(-8, 9, size=N).astype(float) + (1j * rng.integers(-8, 9, size=N) if cplx else 0)
        if not np.any(x):
            x[0] = 1
        lo = x.astype(np.complex64 if cplx else np.float32)
        f = {'arcovar': _sp.arcovar, 'modcovar': _sp.modcovar,
             'corrmtx_covariance': lambda b, q: (_sp.corrmtx(b, q, 'covariance'),), 'corrmtx_modified': lambda b, q: (_sp.corrmtx(b, q, 'modified'),)}[fname]
        tag = 'complex64' if cplx else 'float32'
        ctx.count('search/dtype/%s/%s' % (fname, tag)); ctx.case(('dtype', fname, x.tobytes(), p, tag), nontrivial=True)
        rep = {'kind': 'dtype', 'function': fname, 'x': vlib.hexv(np.asarray(x, dtype=complex)), 'order': p, 'datatype': tag}
        try:
            want = f(x, p); got = f(lo, p)
            bad = False
            for g, w in zip(got, want):
                g = np.atleast_1d(np.asarray(g, dtype=complex)); w = np.atleast_1d(np.asarray(w, dtype=complex))
                if g.shape != w.shape or (w.size and np.max(np.abs(g - w)) > 2e-3 * max(1.0, np.max(np.abs(w)))):
                    bad = True
            if bad:
                ctx.violation('dtype/%s/%s' % (fname, tag), '%s on %s data (values exactly representable) differs from the result on the same samples in double precision' % (fname, tag), rep)
        except Exception as e:
            ctx.violation('dtype/%s/%s' % (fname, tag), '%s raised %r on %s data' % (fname, e, tag), rep)

    # ---------------- results depend on the VALUES given only: call protocol (repeat, aliasing, buffer reuse, memory layout, integer / single-precision dtypes)
    from props import _purity
    _purity.run_protocol(ctx, ['arcovar', 'modcovar', 'arcovar_marple', 'modcovar_marple'])
