"""helpers of the C19 check: independent DFT oracle, Thomson weights, replica of the adaptive loop."""
import numpy as np


def dft_oracle(rows, nfft):
    """direct-sum DFT of every row (cropped / zero padded to nfft); exact integer phase reduction,
    no FFT library involved.  rows: (k, N) -> (k, nfft)"""
    rows = np.atleast_2d(np.asarray(rows, dtype=complex))
    k, N = rows.shape
    M = min(N, nfft)
    table = np.exp(-2j * np.pi * np.arange(nfft) / nfft)
    idx = (np.outer(np.arange(nfft, dtype=np.int64), np.arange(M, dtype=np.int64))) % nfft
    W = table[idx]                                   # (nfft, M)
    return (W @ rows[:, :M].T).T


def thomson(S, lam, sig2):
    """b^2 * lambda with b = S / (lambda S + (1-lambda) sigma^2);  S: (nfft,) or (nfft,1), lam: (k,) -> (nfft, k)"""
    S = np.asarray(S, dtype=float).reshape(-1, 1)
    lam = np.asarray(lam, dtype=float).reshape(1, -1)
    b = S / (S * lam + sig2 * (1 - lam))
    return b * b * lam


def thomson_slope_max(lo, hi, lam, a):
    """max over S in [lo,hi] (lo>=0) of d/dS [lam S^2/(lam S + a)^2] = 2 lam S a/(lam S + a)^3 (unimodal, peak at a/(2 lam))"""
    def g(S):
        return 2 * lam * S * a / (lam * S + a) ** 3
    pk = a / (2 * lam)
    m = np.maximum(g(lo), g(hi))
    inside = (lo <= pk) & (pk <= hi)
    return np.where(inside, g(pk), m)


def adaptive_replica(Sk, lam, sig2, nfft, maxit=100):
    """the iteration of pmtm(method='adapt') written independently (per-bin weighted means, explicit loops over tapers).
    Sk: (k, nfft) real eigenspectra |.|^2.  Returns dict(weights (nfft,k), S (last estimate), Sprev (estimate the returned
    weights were computed from; None when no pass was made), count, margin (smallest relative distance of a stopping test
    from its threshold))."""
    Sk = np.asarray(Sk, dtype=float)
    k = Sk.shape[0]
    lam = np.asarray(lam, dtype=float)
    c = min(2, k)
    S = sum(Sk[j] for j in range(c)) / float(c)
    Sold = np.zeros(nfft)
    tol = 0.0005 * sig2 / float(nfft)
    w = np.ones((nfft, 1)) * lam.reshape(1, -1)
    Sprev = None
    count = 0
    margin = np.inf
    with np.errstate(all='ignore'):
        while True:
            err = 0.0
            for v in np.abs(S - Sold):
                err = err + v
            err = err / nfft
            if tol > 0:
                margin = min(margin, abs(err - tol) / tol)
            else:
                margin = min(margin, 0.0 if err == 0 else np.inf)
            if not (err > tol and count < maxit):
                break
            count += 1
            w = thomson(S, lam, sig2)
            num = np.zeros(nfft); den = np.zeros(nfft)
            for j in range(k):
                num = num + w[:, j] * Sk[j]
                den = den + w[:, j]
            Sprev = S
            Sold = S
            S = num / den
    return {'weights': w, 'S': S, 'Sprev': Sprev, 'count': count, 'margin': margin, 'tol': tol}


def fold(S, nfft, real):
    S = np.asarray(S)
    if not real:
        return S
    keep = nfft // 2 + 1 if nfft % 2 == 0 else (nfft + 1) // 2
    return 2 * S[:keep]
