"""Helpers of the C18 check: raw C call, stub of the C library, oracles, rational cos enclosure."""
import ctypes
from ctypes import c_int, c_float, c_void_p
from fractions import Fraction
import math
import numpy as np


# ----------------------------------------------------------------------------- the C routine, called the way dpss() calls it
def c_multitap(N, NW, k):
    """raw output of multitap: (k*N samples row-major, k tapsums)"""
    from spectrum import mtm
    lam = np.zeros(k, dtype=float); tapers = np.zeros(k * N, dtype=float); tapsum = np.zeros(k, dtype=float)
    mtm.mtspeclib.multitap.restype = None
    mtm.mtspeclib.multitap(c_int(N), c_int(k), lam.ctypes.data_as(c_void_p), c_float(NW),
                           tapers.ctypes.data_as(c_void_p), tapsum.ctypes.data_as(c_void_p))
    return tapers, tapsum


class _StubFn:
    """stands for mtspeclib.multitap: writes prescribed values where the C routine would write its result"""
    restype = None

    def __init__(self, raw, tapsum):
        self.raw = [float(t) for t in raw]; self.tapsum = [float(t) for t in tapsum]; self.calls = []

    def __call__(self, N, k, lam, NW, tapers, tapsum):
        n = N.value; kk = k.value
        self.calls.append((n, kk, NW.value))
        buf = (ctypes.c_double * (n * kk)).from_address(tapers.value)
        ts = (ctypes.c_double * kk).from_address(tapsum.value)
        for i, t in enumerate(self.raw[:n * kk]):
            buf[i] = t
        for i, t in enumerate(self.tapsum[:kk]):
            ts[i] = t


class _StubLib:
    def __init__(self, raw, tapsum):
        self.multitap = _StubFn(raw, tapsum)


def dpss_with_stub(N, NW, k, raw, tapsum):
    """run the snapshot's dpss() with the C library replaced by prescribed output (Python half only)"""
    from spectrum import mtm
    saved = mtm.mtspeclib
    mtm.mtspeclib = _StubLib(raw, tapsum)
    try:
        return mtm.dpss(N, NW, k)
    finally:
        mtm.mtspeclib = saved


# ----------------------------------------------------------------------------- independent oracles
def slepian_tridiag(N, W):
    i = np.arange(N)
    d = ((N - 1 - 2 * i) / 2.0) ** 2 * np.cos(2 * np.pi * W)
    e = i[1:] * (N - i[1:]) / 2.0
    return d, e


def tridiag_top(N, W, k):
    """k leading eigenpairs of Slepian's tridiagonal matrix, norm of the matrix, gaps around each eigenvalue"""
    from scipy.linalg import eigh_tridiagonal
    d, e = slepian_tridiag(N, W)
    kk = min(k + 1, N)
    w, v = eigh_tridiagonal(d, e, select='i', select_range=(N - kk, N - 1))
    w = w[::-1]; v = v[:, ::-1]
    nrm = max(float(np.abs(d).max() + 2 * np.abs(e).max()), 1.0)
    gaps = -np.diff(w)
    if len(gaps) < k:
        gaps = np.r_[gaps, gaps[-1] if len(gaps) else nrm]
    g = np.minimum(gaps[:k], np.r_[np.inf, gaps[:k - 1]]) if k > 1 else gaps[:1]
    return w[:k], v[:, :k], nrm, g


def sinc_kernel(N, W):
    i = np.arange(N)
    return 2 * W * np.sinc(2 * W * (i[:, None] - i[None, :]))


_GL = {}


def band_energy_fraction(v, W, nodes=240):
    """integral of |sum_n v[n] exp(-2 pi i f n)|^2 over |f| <= W by Gauss-Legendre, divided by sum v^2
    (Parseval: the integral over the whole period is sum v^2)"""
    if nodes not in _GL:
        _GL[nodes] = np.polynomial.legendre.leggauss(nodes)
    x, wq = _GL[nodes]
    f = W * x
    n = np.arange(len(v))
    E = np.exp(-2j * np.pi * np.outer(f, n))
    S = np.abs(E @ v) ** 2
    return float(W * np.dot(wq, S) / np.dot(v, v))


def first_lobe_sign(v):
    """sign of the first sample that is clearly above the solver's noise (1e-3 of the peak)"""
    a = np.abs(v)
    idx = int(np.nonzero(a > 1e-3 * a.max())[0][0])
    return (1 if v[idx] > 0 else -1), idx


# ----------------------------------------------------------------------------- exact enclosure of cos(2 pi W)
_PI_LO = Fraction(314159265358979323846264338327950288419716939937510, 10 ** 50)
_PI_HI = _PI_LO + Fraction(1, 10 ** 50)


def _cos_bounds(x):
    """(lo, hi) with lo <= cos(x) <= hi for a rational 0 <= x <= 3.2, by the alternating Taylor series"""
    assert 0 <= x <= Fraction(32, 10)
    term = Fraction(1); s = Fraction(1); x2 = x * x
    lo = None; hi = s
    for n in range(1, 40):
        term = -term * x2 / ((2 * n - 1) * (2 * n))
        s += term
        # from n >= 1 on the terms decrease in modulus (x^2 < 12), so consecutive partial sums bracket the limit
        if term < 0:
            lo = s
        else:
            hi = s
    return lo, hi


def cos_enclosure(NW, N, bits=100):
    """dyadic (num, exp) pairs clo <= cos(2 pi NW/N) <= chi for the exact rational value of the float NW"""
    W = Fraction(float(NW)) / N
    assert 0 < W < Fraction(1, 2)
    xlo = 2 * _PI_LO * W; xhi = 2 * _PI_HI * W
    lo = _cos_bounds(xhi)[0]; hi = _cos_bounds(xlo)[1]      # cos is decreasing on [0, pi]
    s = 1 << bits
    nlo = math.floor(lo * s); nhi = math.ceil(hi * s)
    c = math.cos(2 * math.pi * float(W))
    assert Fraction(nlo, s) - Fraction(1, 10 ** 14) <= Fraction(c) <= Fraction(nhi, s) + Fraction(1, 10 ** 14)
    assert nhi - nlo <= 4
    return (nlo, -bits), (nhi, -bits)


def dyq(x):
    import vlib
    n, e = vlib.dyadic(x)
    return '(dy (%d) (%d))' % (n, e)


def dyql(v):
    return '[' + '; '.join(dyq(t) for t in v) + ']'
