"""C07 translator: psd.py + the __init__/__call__ of the twelve estimator classes of the snapshot
-> Gallina text over coq/Model/PsdMachineLib.v.   FAIL-CLOSED: any construct outside the recognised
shapes raises Fail (the check reports it as a broken obligation).

Shallow embedding in continuation style: a method body is translated statement by statement,
`if c: A else: B; rest` becomes `if c then [[A; rest]] else [[B; rest]]`, so early returns,
raises and branch-local variables need no special treatment and the result does not depend on a
particular statement order.  Reads of properties with a trivial getter are inlined as field reads;
reads with an effectful getter (psd) and method calls are hoisted, in evaluation order, into
`bind`s in front of the statement they occur in.
"""
import ast, os
from fractions import Fraction


class Fail(Exception):
    pass


class Unbound(Exception):
    pass


def U(n):
    return ast.unparse(n)


PSD_CLASSES = ['Range', 'Spectrum', 'FourierSpectrum', 'ParametricSpectrum']
# name-mangled private attributes -> state field
FIELD = {
    ('Range', '__N'): 'rangeN', ('Range', '__sampling'): 'rangeS', ('Range', '__df'): 'range_df',
    ('Spectrum', '__data'): 'data', ('Spectrum', '__data_y'): 'data_y', ('Spectrum', '__sampling'): 'sampling',
    ('Spectrum', '__detrend'): 'detrend', ('Spectrum', '__scale_by_freq'): 'sbf', ('Spectrum', '__sides'): 'sides',
    ('Spectrum', '__N'): 'N', ('Spectrum', '__NFFT'): 'NFFT', ('Spectrum', '__df'): 'df_priv',
    ('Spectrum', '__datatype'): 'datatype', ('Spectrum', '__psd'): 'cache', ('Spectrum', '__method'): 'method',
    ('FourierSpectrum', '__window'): 'window', ('FourierSpectrum', '__lag'): 'lag',
    ('ParametricSpectrum', '__lag'): 'lag', ('ParametricSpectrum', '__ar_order'): 'ar_order',
    ('ParametricSpectrum', '__ma_order'): 'ma_order',
}
# private attributes holding results of a computation (never read by the cache logic): stores are dropped
RESULT_PRIV = {('ParametricSpectrum', '__ar'), ('ParametricSpectrum', '__ma'), ('ParametricSpectrum', '__reflection'),
               ('ParametricSpectrum', '__rho')}
PUBLIC_FIELD = {'modified': 'modified'}
# public attribute names of the operation alphabet; when a class has no property of that name an
# assignment is a plain attribute store into the field
ALPHA_ATTR = {'data': 'data', 'NFFT': 'NFFT', 'sampling': 'sampling', 'detrend': 'detrend', 'scale_by_freq': 'sbf',
              'sides': 'sides', 'window': 'window', 'lag': 'lag', 'ar_order': 'ar_order', 'ma_order': 'ma_order'}
# result attributes (properties with a trivial setter, or plain) and constructor constants outside the alphabet
RESULT_ATTR = {'ar', 'ma', 'rho', 'reflection', 'eigenvalues', 'Sk', 'weights'}
CONST_ATTR = {'criteria', 'NSIG', 'threshold', 'verbose', 'NW', 'k', 'e', 'v', 'method', '_norm_aryule', 'data_y'}
MASK_FIELDS = ['data', 'N', 'datatype', 'sampling', 'detrend', 'sbf', 'NFFT', 'window', 'lag', 'ar_order', 'ma_order']
READ2MASK = {'data': 'data', 'N': 'N', 'datatype': 'datatype', 'sampling': 'sampling', 'detrend': 'detrend',
             'scale_by_freq': 'sbf', 'NFFT': 'NFFT', 'window': 'window', 'lag': 'lag', 'ar_order': 'ar_order',
             'ma_order': 'ma_order'}
ESTIMATORS = {'periodogram.py': ['Periodogram'], 'correlog.py': ['pcorrelogram'], 'burg.py': ['pburg'],
              'yulewalker.py': ['pyule'], 'covar.py': ['pcovar'], 'modcovar.py': ['pmodcovar'], 'arma.py': ['parma', 'pma'],
              'minvar.py': ['pminvar'], 'eigenfre.py': ['pmusic', 'pev'], 'mtm.py': ['MultiTapering']}
SKIP_METHODS = {'run', 'plot', 'power', '__str__', '_str_title', 'plot_reflection', 'periodogram',
                'centerdc_gen', 'twosided_gen', 'onesided_gen', '_MultiTapering__str_title', '__str_title'}
STOOLS = {'twosided_2_onesided': 'conv_two2one', 'onesided_2_twosided': 'conv_one2two',
          'twosided_2_centerdc': 'conv_two2cen', 'centerdc_2_twosided': 'conv_cen2two'}


def qstr(s):
    if '"' in s:
        raise Fail('string literal with a quote: %r' % s)
    return '"%s"' % s


def const(v):
    if v is None:
        return 'VNone'
    if v is True:
        return '(VBool true)'
    if v is False:
        return '(VBool false)'
    if isinstance(v, str):
        return '(VStr %s)' % qstr(v)
    if isinstance(v, int):
        return '(VInt (%d))' % v
    if isinstance(v, float):
        f = Fraction(v)
        return '(VNum (Q2Qc ((%d) # %d)))' % (f.numerator, f.denominator)
    raise Fail('constant %r' % (v,))


def strip_doc(body):
    if body and isinstance(body[0], ast.Expr) and isinstance(body[0].value, ast.Constant) and isinstance(body[0].value.value, str):
        return body[1:]
    return body


class ClassInfo:
    def __init__(self, node, module_file):
        self.name = node.name
        self.node = node
        self.file = module_file
        self.bases = [U(b) for b in node.bases]
        self.methods = {}
        self.props = {}           # name -> (fget, fset)
        self.consts = {}          # class-level list constants
        self.aliases = {}         # class-level Name aliases  (_window = window_names)
        for st in node.body:
            if isinstance(st, ast.FunctionDef):
                self.methods[st.name] = st
            elif isinstance(st, ast.Assign) and len(st.targets) == 1 and isinstance(st.targets[0], ast.Name):
                t = st.targets[0].id; v = st.value
                if isinstance(v, ast.Call) and U(v.func) == 'property':
                    kw = {k.arg: k.value for k in v.keywords}
                    if v.args:
                        raise Fail('property() with positional arguments in %s.%s' % (self.name, t))
                    for k in kw:
                        if k not in ('fget', 'fset', 'doc'):
                            raise Fail('property() keyword %s' % k)
                    self.props[t] = (kw['fget'].id if 'fget' in kw else None, kw['fset'].id if 'fset' in kw else None)
                elif isinstance(v, ast.List):
                    self.consts[t] = [const(ast.literal_eval(e)) for e in v.elts]
                elif isinstance(v, ast.Name):
                    self.aliases[t] = v.id
                elif isinstance(v, ast.Constant):
                    pass          # docstrings bound to names (_doc_sides)
                else:
                    raise Fail('class-level statement in %s: %s' % (self.name, U(st)[:60]))
            elif isinstance(st, ast.Expr) and isinstance(st.value, ast.Constant):
                pass
            else:
                raise Fail('class-level statement in %s: %s' % (self.name, U(st)[:60]))


class Translator:
    def __init__(self, srcdir):
        self.src = srcdir
        self.classes = {}
        self.window_names = None
        self.out = []
        self.load()

    # ------------------------------------------------------------------ loading
    def load(self):
        t = ast.parse(open(os.path.join(self.src, 'psd.py')).read())
        for n in t.body:
            if isinstance(n, ast.ClassDef):
                if n.name not in PSD_CLASSES:
                    raise Fail('unexpected class %s in psd.py' % n.name)
                self.classes[n.name] = ClassInfo(n, 'psd.py')
        for c in PSD_CLASSES:
            if c not in self.classes:
                raise Fail('class %s missing from psd.py' % c)
        for fn, names in ESTIMATORS.items():
            t = ast.parse(open(os.path.join(self.src, fn)).read())
            found = {n.name: n for n in t.body if isinstance(n, ast.ClassDef)}
            for c in names:
                if c not in found:
                    raise Fail('class %s missing from %s' % (c, fn))
                self.classes[c] = ClassInfo(found[c], fn)
        w = ast.parse(open(os.path.join(self.src, 'window.py')).read())
        for n in w.body:
            if isinstance(n, ast.Assign) and len(n.targets) == 1 and U(n.targets[0]) == 'window_names':
                if not isinstance(n.value, ast.Dict):
                    raise Fail('window_names is not a dict literal')
                self.window_names = [const(ast.literal_eval(k)) for k in n.value.keys]
        if self.window_names is None:
            raise Fail('window_names not found in window.py')

    def mro(self, cname):
        out = []
        c = cname
        while True:
            ci = self.classes.get(c)
            if ci is None:
                raise Fail('unknown class %s' % c)
            out.append(ci)
            if ci.bases == ['object'] or not ci.bases:
                return out
            if len(ci.bases) != 1:
                raise Fail('multiple inheritance in %s' % c)
            c = ci.bases[0]

    def find_prop(self, cname, attr):
        for ci in self.mro(cname):
            if attr in ci.props:
                return ci, ci.props[attr]
        return None, None

    def find_method(self, cname, meth):
        for ci in self.mro(cname):
            if meth in ci.methods:
                return ci
        return None

    def find_const(self, cname, attr):
        for ci in self.mro(cname):
            if attr in ci.consts:
                return ci.consts[attr]
            if attr in ci.aliases:
                if ci.aliases[attr] == 'window_names':
                    return self.window_names
                raise Fail('class-level alias %s.%s = %s' % (ci.name, attr, ci.aliases[attr]))
        return None

    @staticmethod
    def mname(ci, meth):
        return '%s_%s' % (ci.name, meth)

    # ------------------------------------------------------------------ expressions
    class Ctx:
        def __init__(self, cls, bound, dyn=None):
            self.cls = cls            # class whose method is being translated (for name mangling)
            self.dyn = dyn or cls     # most derived class known (method/property resolution)
            self.bound = set(bound)
            self.pre = []             # hoisted effectful reads: (tmp, text)
            self.ntmp = [0]
            self.state_read = False

        def child(self):
            c = Translator.Ctx(self.cls, self.bound, self.dyn)
            c.ntmp = self.ntmp
            return c

        def tmp(self):
            self.ntmp[0] += 1
            return 't%d' % self.ntmp[0]

    def hoist(self, ctx, text):
        if ctx.state_read:
            raise Fail('an attribute is read before an effectful read in the same statement (evaluation order): ' + text)
        t = ctx.tmp()
        ctx.pre.append((t, text))
        return t

    def field_read(self, ctx, f):
        ctx.state_read = True
        return '(f_%s s)' % f

    def getter(self, ctx, owner_dyn, attr, what):
        """read of property `attr` on an object of class owner_dyn"""
        ci, (fget, fset) = self.find_prop(owner_dyn, attr)
        if fget is None:
            raise Fail('property %s without getter' % attr)
        gci = self.find_method(owner_dyn, fget)
        if gci is None:
            raise Fail('getter %s not found' % fget)
        body = strip_doc(gci.methods[fget].body)
        if len(body) == 1 and isinstance(body[0], ast.Return) and body[0].value is not None:
            # trivial getter: inline if its value is a pure read
            sub = Translator.Ctx(gci.name, [], owner_dyn)
            sub.ntmp = ctx.ntmp
            try:
                txt = self.expr(body[0].value, sub)
            except Unbound:
                raise Fail('getter %s reads an unbound name' % fget)
            if not sub.pre:
                ctx.state_read = ctx.state_read or sub.state_read
                return txt
        # effectful getter
        return self.hoist(ctx, '%s call_ s' % self.mname(gci, fget))

    def self_attr(self, e, ctx):
        """e = self.<attr> (load)"""
        a = e.attr
        if a.startswith('__') and not a.endswith('__'):
            if (ctx.cls, a) in FIELD:
                return self.field_read(ctx, FIELD[(ctx.cls, a)])
            raise Fail('unknown private attribute %s.%s' % (ctx.cls, a))
        if a == '__class__':
            return '(VClass "self")'
        if a in PUBLIC_FIELD:
            return self.field_read(ctx, PUBLIC_FIELD[a])
        ci, pr = self.find_prop(ctx.dyn, a)
        if ci is not None:
            return self.getter(ctx, ctx.dyn, a, U(e))
        if a in ALPHA_ATTR:           # plain attribute of the alphabet
            return self.field_read(ctx, ALPHA_ATTR[a])
        raise Fail('read of unknown attribute self.%s in class %s' % (a, ctx.cls))

    def expr(self, e, ctx):
        if isinstance(e, ast.Constant):
            return const(e.value)
        if isinstance(e, ast.UnaryOp) and isinstance(e.op, ast.USub) and isinstance(e.operand, ast.Constant):
            return const(-e.operand.value)
        if isinstance(e, ast.Name):
            if e.id == 'self':
                return '(VClass "self")'
            if e.id in ctx.bound:
                return 'x_' + e.id
            raise Unbound(e.id)
        if isinstance(e, ast.Attribute):
            if isinstance(e.value, ast.Name) and e.value.id == 'self':
                return self.self_attr(e, ctx)
            if U(e.value) == 'self._range':
                ci, pr = self.find_prop('Range', e.attr)
                if ci is None:
                    raise Fail('self._range.%s' % e.attr)
                sub = Translator.Ctx('Range', [], 'Range'); sub.ntmp = ctx.ntmp; sub.pre = ctx.pre
                sub.state_read = ctx.state_read
                r = self.getter(sub, 'Range', e.attr, U(e))
                ctx.state_read = sub.state_read
                return r
            if e.attr == 'size':
                return '(vsize %s)' % self.expr(e.value, ctx)
            raise Fail('attribute ' + U(e))
        if isinstance(e, ast.Call):
            return self.call(e, ctx)
        if isinstance(e, ast.BinOp):
            return self.binop(e, ctx)
        raise Fail('expression ' + U(e)[:80])

    def args_of(self, ci, meth, call, ctx):
        """argument texts of a call to a translated method, in the order of its parameters"""
        fn = ci.methods[meth]
        if fn.args.vararg or fn.args.kwarg or fn.args.kwonlyargs:
            raise Fail('signature of %s.%s' % (ci.name, meth))
        params = [a.arg for a in fn.args.args][1:]
        defaults = fn.args.defaults
        dmap = dict(zip(params[len(params) - len(defaults):], defaults))
        given = {}
        for i, a in enumerate(call.args):
            if isinstance(a, ast.Starred) or i >= len(params):
                raise Fail('call ' + U(call))
            given[params[i]] = a
        for k in call.keywords:
            if k.arg is None or k.arg not in params or k.arg in given:
                raise Fail('call ' + U(call))
            given[k.arg] = k.value
        out = []
        for p in params:
            if p in given:
                out.append(self.expr(given[p], ctx))
            elif p in dmap:
                try:
                    dv = ast.literal_eval(dmap[p])
                except Exception:
                    raise Fail('non-constant default of %s.%s(%s)' % (ci.name, meth, p))
                out.append(const(dv))
            else:
                raise Fail('missing argument %s in %s' % (p, U(call)))
        return out

    def method_call(self, e, ctx):
        """self.m(args) / self._range.m(args) / super(X, self).__init__(args): text of the Res-valued call"""
        f = e.func
        if isinstance(f, ast.Attribute) and isinstance(f.value, ast.Name) and f.value.id == 'self':
            ci = self.find_method(ctx.dyn, f.attr)
            if ci is None or f.attr in SKIP_METHODS:
                raise Fail('call of unknown method ' + U(e))
            args = self.args_of(ci, f.attr, e, ctx)
            return '%s call_ %s s' % (self.mname(ci, f.attr), ' '.join(args)) if args else '%s call_ s' % self.mname(ci, f.attr)
        if isinstance(f, ast.Attribute) and U(f.value) == 'self._range':
            ci = self.find_method('Range', f.attr)
            if ci is None or f.attr in SKIP_METHODS:
                raise Fail('call of unknown method ' + U(e))
            args = self.args_of(ci, f.attr, e, ctx)
            return ('%s call_ %s s' % (self.mname(ci, f.attr), ' '.join(args))).replace('  ', ' ')
        if isinstance(f, ast.Attribute) and f.attr == '__init__' and isinstance(f.value, ast.Call) and U(f.value.func) == 'super':
            sa = [U(a) for a in f.value.args]
            if sa != [ctx.cls, 'self']:
                raise Fail('super call ' + U(e))
            parent = self.classes[ctx.cls].bases[0]
            ci = self.find_method(parent, '__init__')
            if ci is None:
                raise Fail('no parent constructor for ' + ctx.cls)
            args = self.args_of(ci, '__init__', e, ctx)
            return '%s call_ %s s' % (self.mname(ci, '__init__'), ' '.join(args))
        return None

    def call(self, e, ctx):
        fn = U(e.func)
        mc = self.method_call(e, ctx)
        if mc is not None:
            return self.hoist(ctx, mc)
        a = e.args
        if e.keywords:
            raise Fail('call ' + U(e))
        if fn == 'len' and len(a) == 1:
            return '(vlen %s)' % self.expr(a[0], ctx)
        if fn == 'float' and len(a) == 1:
            return '(vfloat %s)' % self.expr(a[0], ctx)
        if fn == 'int' and len(a) == 1 and isinstance(a[0], ast.Call) and U(a[0].func) == 'pow' and len(a[0].args) == 2 \
                and U(a[0].args[0]) == '2':
            return '(vpow2 %s)' % self.expr(a[0].args[1], ctx)
        if fn == 'nextpow2' and len(a) == 1:
            return '(vnextpow2 %s)' % self.expr(a[0], ctx)
        if fn in ('numpy.array', 'array') and len(a) == 1:
            return '(varray %s)' % self.expr(a[0], ctx)
        if fn.endswith('.copy') and not a:
            return '(vcopy %s)' % self.expr(e.func.value, ctx)
        if fn.startswith('stools.') and fn[7:] in STOOLS and len(a) == 1:
            return '(%s %s)' % (STOOLS[fn[7:]], self.expr(a[0], ctx))
        if fn == 'getattr' and len(a) == 3 and U(a[0]) == 'self' and isinstance(a[1], ast.Constant) and U(a[2]) == 'None':
            nm = a[1].value
            for (c, p), f in FIELD.items():
                if '_' + c + p == nm:
                    return self.field_read(ctx, f)
            raise Fail('getattr ' + U(e))
        if fn == 'list' and len(a) == 1 and isinstance(a[0], ast.Call) and isinstance(a[0].func, ast.Attribute) \
                and U(a[0].func.value) == 'self' and a[0].func.attr.endswith('_gen') and not a[0].args:
            return self.gen_axis(ctx, a[0].func.attr)
        raise Fail('call ' + U(e)[:80])

    def gen_axis(self, ctx, gname):
        """list(self.X_gen()) in Range: the generator is `for a in range(0, E): yield ...`, possibly under one if/else"""
        ci = self.find_method(ctx.dyn, gname)
        if ci is None:
            raise Fail('generator ' + gname)
        body = strip_doc(ci.methods[gname].body)
        sub = Translator.Ctx(ci.name, [], ctx.dyn); sub.ntmp = ctx.ntmp

        def loop(st):
            if not (isinstance(st, ast.For) and isinstance(st.iter, ast.Call) and U(st.iter.func) == 'range'
                    and len(st.iter.args) == 2 and U(st.iter.args[0]) == '0' and not st.orelse and len(st.body) == 1
                    and isinstance(st.body[0], ast.Expr) and isinstance(st.body[0].value, ast.Yield)):
                raise Fail('generator shape in %s' % gname)
            return self.expr(st.iter.args[1], sub)
        if len(body) == 1 and isinstance(body[0], ast.If) and len(body[0].body) == 1 and len(body[0].orelse) == 1:
            c = self.cond(body[0].test, sub)
            txt = '(if %s then %s else %s)' % (c, loop(body[0].body[0]), loop(body[0].orelse[0]))
        elif len(body) == 1:
            txt = loop(body[0])
        else:
            raise Fail('generator shape in %s' % gname)
        if sub.pre:
            raise Fail('effect in generator ' + gname)
        ctx.state_read = True
        nm = gname[:-4]
        return '(vaxis (VStr %s) %s)' % (qstr(nm), txt)

    def binop(self, e, ctx):
        s = U(e)
        op = e.op
        # numpy.concatenate((A, A[-1:0:-1])) / 2.0
        if isinstance(op, ast.Div) and isinstance(e.left, ast.Call) and U(e.left.func) == 'numpy.concatenate' \
                and isinstance(e.right, ast.Constant) and e.right.value == 2.0:
            tup = e.left.args[0] if len(e.left.args) == 1 else None
            if isinstance(tup, ast.Tuple) and len(tup.elts) == 2 and isinstance(tup.elts[1], ast.Subscript) \
                    and U(tup.elts[1].slice) == '-1:0:-1' and U(tup.elts[1].value) == U(tup.elts[0]):
                x = self.expr(tup.elts[0], ctx); y = self.expr(tup.elts[1].value, ctx)
                return '(vmirror_half %s %s)' % (x, y)
            raise Fail('concatenate ' + s)
        if isinstance(op, ast.Div):
            if isinstance(e.right, ast.Call) and U(e.right.func) == 'float':
                return '(vquot %s %s)' % (self.expr(e.left, ctx), self.expr(e.right, ctx))
            raise Fail('division ' + s)
        table = {ast.Add: 'vadd', ast.Sub: 'vsub', ast.Mult: 'vmul', ast.FloorDiv: 'vfloordiv', ast.Mod: 'vmod'}
        for k, v in table.items():
            if isinstance(op, k):
                return '(%s %s %s)' % (v, self.expr(e.left, ctx), self.expr(e.right, ctx))
        raise Fail('operator ' + s)

    def cond(self, c, ctx):
        if isinstance(c, ast.BoolOp):
            if isinstance(c.op, ast.And):
                opn = ' && '
            else:
                opn = ' || '
            parts = []
            for i, v in enumerate(c.values):
                sub = ctx.child(); sub.state_read = ctx.state_read
                parts.append(self.cond(v, sub))
                if sub.pre:
                    if i > 0:
                        raise Fail('effectful operand under a short-circuit operator: ' + U(c))
                    ctx.pre += sub.pre
                ctx.state_read = sub.state_read
            return '(' + opn.join(parts) + ')'
        if isinstance(c, ast.UnaryOp) and isinstance(c.op, ast.Not):
            return '(negb %s)' % self.cond(c.operand, ctx)
        if isinstance(c, ast.Compare) and len(c.ops) == 1:
            l, r, o = c.left, c.comparators[0], c.ops[0]
            if isinstance(l, ast.Call) and U(l.func) == 'type' and U(r) == 'list' and isinstance(o, ast.Eq):
                return '(vis_listtype %s)' % self.expr(l.args[0], ctx)
            if isinstance(o, (ast.In, ast.NotIn)):
                lst = None
                if isinstance(r, ast.List):
                    lst = [self.expr(x, ctx) for x in r.elts]
                elif isinstance(r, ast.Attribute) and U(r.value) == 'self':
                    lst = self.find_const(ctx.dyn, r.attr)
                if lst is None:
                    raise Fail('membership in ' + U(r))
                t = '(vin %s [%s])' % (self.expr(l, ctx), '; '.join(lst))
                return t if isinstance(o, ast.In) else '(negb %s)' % t
            le = self.vexpr(l, ctx); re_ = self.vexpr(r, ctx)
            if isinstance(o, (ast.Eq, ast.Is)):
                return '(veqb %s %s)' % (le, re_)
            if isinstance(o, (ast.NotEq, ast.IsNot)):
                return '(negb (veqb %s %s))' % (le, re_)
            if isinstance(o, ast.Gt):
                return '(vltb %s %s)' % (re_, le)
            if isinstance(o, ast.Lt):
                return '(vltb %s %s)' % (le, re_)
            raise Fail('comparison ' + U(c))
        if isinstance(c, ast.Call):
            fn = U(c.func)
            if fn == 'numpy.isrealobj' and len(c.args) == 1:
                return '(visreal %s)' % self.expr(c.args[0], ctx)
            if fn == 'isinstance' and len(c.args) == 2 and U(c.args[1]) == 'int':
                return '(vis_int %s)' % self.expr(c.args[0], ctx)
            if fn == 'hasattr' and len(c.args) == 2 and U(c.args[0]) == 'self' and U(c.args[1]) == "'_range'":
                return '(veqb %s (VBool true))' % self.field_read(ctx, 'has_range')
        raise Fail('condition ' + U(c)[:80])

    def vexpr(self, e, ctx):
        """expression inside a comparison: list literals allowed (compare unequal to atoms)"""
        if isinstance(e, ast.List):
            return '(VList [%s])' % '; '.join(self.expr(x, ctx) for x in e.elts)
        return self.expr(e, ctx)

    # ------------------------------------------------------------------ statements
    @staticmethod
    def wrap(pre, text, pad):
        """put the hoisted binds in front of `text` (which continues with the rest)"""
        out = ''
        for t, call in pre:
            out += pad + 'bind (%s) (fun %s s =>\n' % (call, t)
        return out, ')' * len(pre)

    def stmts(self, body, ctx, ind):
        pad = '  ' * ind
        if not body:
            return pad + 'ret s'
        st, rest = body[0], body[1:]
        try:
            return self.stmt(st, rest, ctx, ind)
        except Unbound as u:
            return pad + 'err "UnboundLocalError" s'

    def cont(self, rest, ctx, ind, newbound=()):
        c = Translator.Ctx(ctx.cls, set(ctx.bound) | set(newbound), ctx.dyn)
        c.ntmp = ctx.ntmp
        return self.stmts(rest, c, ind)

    def stmt(self, st, rest, ctx, ind):
        pad = '  ' * ind
        ctx.pre = []; ctx.state_read = False
        if isinstance(st, ast.Expr):
            s = U(st)
            if isinstance(st.value, ast.Constant) or s.startswith('logging.'):
                return self.cont(rest, ctx, ind)
            if s == 'self()':
                return pad + 'bind (call_ s) (fun _ s =>\n' + self.cont(rest, ctx, ind) + ')'
            if isinstance(st.value, ast.Call):
                mc = self.method_call(st.value, ctx)
                if mc is not None:
                    pre, close = self.wrap(ctx.pre, '', pad)
                    return pre + pad + 'bind (%s) (fun _ s =>\n' % mc + self.cont(rest, ctx, ind) + ')' + close
            raise Fail('expression statement ' + s[:80])
        if isinstance(st, (ast.Import, ast.ImportFrom)):
            return self.cont(rest, ctx, ind)
        if isinstance(st, ast.Pass):
            return self.cont(rest, ctx, ind)
        if isinstance(st, ast.Return):
            if st.value is None:
                return pad + 'ret s'
            v = self.expr(st.value, ctx)
            pre, close = self.wrap(ctx.pre, '', pad)
            return pre + pad + 'retv %s s' % v + close
        if isinstance(st, ast.Raise):
            if st.exc is None:
                raise Fail('bare raise')
            nm = U(st.exc).split('(')[0].split('.')[-1]
            return pad + 'err %s s' % qstr(nm)
        if isinstance(st, ast.Assert):
            c = self.cond(st.test, ctx)
            pre, close = self.wrap(ctx.pre, '', pad)
            return pre + pad + 'if negb %s then err "AssertionError" s else\n' % c + self.cont(rest, ctx, ind) + close
        if isinstance(st, ast.If):
            c = self.cond(st.test, ctx)
            pre, close = self.wrap(ctx.pre, '', pad)
            a = self.cont(list(st.body) + list(rest), ctx, ind + 1)
            b = self.cont(list(st.orelse) + list(rest), ctx, ind + 1)
            return pre + pad + 'if %s then\n%s\n%selse\n%s' % (c, a, pad, b) + close
        if isinstance(st, ast.AugAssign):
            return self.augassign(st, rest, ctx, ind)
        if isinstance(st, ast.Assign) and len(st.targets) == 1:
            return self.assign(st, rest, ctx, ind)
        raise Fail('statement %s: %s' % (type(st).__name__, U(st)[:70]))

    def augassign(self, st, rest, ctx, ind):
        pad = '  ' * ind
        tg = st.target
        if U(tg) == 'self.psd' and isinstance(st.op, ast.Mult) and U(st.value).replace(' ', '') == '2*numpy.pi/self.df':
            g = self.expr(tg, ctx)                       # getter first
            ctx.state_read = False
            df = self.expr(st.value.right, ctx)           # then the right-hand side
            setter = self.setter_call(ctx, 'psd', '(vimul_twopi_over %s %s)' % (g, df))
            pre, close = self.wrap(ctx.pre, '', pad)
            return pre + pad + 'bind (%s) (fun _ s =>\n' % setter + self.cont(rest, ctx, ind) + ')' + close
        if isinstance(tg, ast.Subscript) and isinstance(tg.value, ast.Name) and U(tg.slice) == '0' and isinstance(st.op, ast.Mult) \
                and isinstance(st.value, ast.Constant) and st.value.value == 2.0:
            x = self.expr(tg.value, ctx)
            return pad + 'let %s := vscale_dc %s in\n' % (x, x) + self.cont(rest, ctx, ind)
        raise Fail('augmented assignment ' + U(st)[:70])

    def setter_call(self, ctx, attr, vtxt, owner=None):
        owner = owner or ctx.dyn
        ci, (fget, fset) = self.find_prop(owner, attr)
        if fset is None:
            raise Fail('assignment to read-only property %s' % attr)
        sci = self.find_method(owner, fset)
        return '%s call_ %s s' % (self.mname(sci, fset), vtxt)

    def assign(self, st, rest, ctx, ind):
        pad = '  ' * ind
        tg = st.targets[0]; v = st.value
        # self._range = Range(a, b)
        if U(tg) == 'self._range':
            if not (isinstance(v, ast.Call) and U(v.func) == 'Range'):
                raise Fail('assignment ' + U(st))
            ci = self.classes['Range']
            args = self.args_of(ci, '__init__', v, ctx)
            pre, close = self.wrap(ctx.pre, '', pad)
            return (pre + pad + 'bind (Range___init__ call_ %s s) (fun _ s =>\n' % ' '.join(args) + pad +
                    'let s := upd_has_range (VBool true) s in\n' + self.cont(rest, ctx, ind) + ')' + close)
        if isinstance(tg, ast.Name):
            val = self.expr(v, ctx)
            pre, close = self.wrap(ctx.pre, '', pad)
            if tg.id == '_':
                return pre + self.cont(rest, ctx, ind) + close
            return pre + pad + 'let x_%s := %s in\n' % (tg.id, val) + self.cont(rest, ctx, ind, [tg.id]) + close
        if isinstance(tg, ast.Attribute) and U(tg.value) == 'self._range':
            val = self.expr(v, ctx)
            setter = self.setter_call(ctx, tg.attr, val, owner='Range')
            pre, close = self.wrap(ctx.pre, '', pad)
            return pre + pad + 'bind (%s) (fun _ s =>\n' % setter + self.cont(rest, ctx, ind) + ')' + close
        if isinstance(tg, ast.Attribute) and isinstance(tg.value, ast.Name) and tg.value.id == 'self':
            a = tg.attr
            val = self.expr(v, ctx)
            pre, close = self.wrap(ctx.pre, '', pad)
            if a.startswith('__') and not a.endswith('__'):
                if (ctx.cls, a) in RESULT_PRIV:
                    return pre + self.cont(rest, ctx, ind) + close
                if (ctx.cls, a) not in FIELD:
                    raise Fail('unknown private attribute %s.%s' % (ctx.cls, a))
                return pre + pad + 'let s := upd_%s %s s in\n' % (FIELD[(ctx.cls, a)], val) + self.cont(rest, ctx, ind) + close
            if a in PUBLIC_FIELD:
                return pre + pad + 'let s := upd_%s %s s in\n' % (PUBLIC_FIELD[a], val) + self.cont(rest, ctx, ind) + close
            ci, pr = self.find_prop(ctx.dyn, a)
            if ci is not None:
                if a in RESULT_ATTR:
                    return pre + self.cont(rest, ctx, ind) + close
                setter = self.setter_call(ctx, a, val)
                return pre + pad + 'bind (%s) (fun _ s =>\n' % setter + self.cont(rest, ctx, ind) + ')' + close
            if a in ALPHA_ATTR:
                return pre + pad + 'let s := upd_%s %s s in\n' % (ALPHA_ATTR[a], val) + self.cont(rest, ctx, ind) + close
            if a in CONST_ATTR or a in RESULT_ATTR:
                return pre + self.cont(rest, ctx, ind) + close
            raise Fail('assignment to unknown attribute self.%s' % a)
        raise Fail('assignment ' + U(st)[:70])

    # ------------------------------------------------------------------ methods
    def method(self, ci, name, dyn=None):
        fn = ci.methods[name]
        if fn.decorator_list or fn.args.vararg or fn.args.kwarg or fn.args.kwonlyargs:
            raise Fail('signature of %s.%s' % (ci.name, name))
        params = [a.arg for a in fn.args.args][1:]
        ctx = Translator.Ctx(ci.name, params, dyn or ci.name)
        body = self.stmts(strip_doc(fn.body), ctx, 1)
        ptxt = ''.join(' (x_%s : val)' % p for p in params)
        return 'Definition %s (call_ : St -> Res)%s (s : St) : Res :=\n%s.\n' % (self.mname(ci, name), ptxt, body)


# ====================================================================== estimator classes
ALLOWED_EST_METHODS = {'__init__', '__call__', '_str_title', '__str__', '__str_title'}
ATTR_OPS = [('AData', 'data'), ('ANFFT', 'NFFT'), ('ASampling', 'sampling'), ('ADetrend', 'detrend'), ('AScale', 'scale_by_freq'),
            ('ASides', 'sides'), ('AWindow', 'window'), ('ALag', 'lag'), ('AAr', 'ar_order'), ('AMa', 'ma_order')]
SLICE_EVEN = 'int(self.NFFT/2+1)'
SLICE_ODD = 'int((self.NFFT+1)/2)'


class Pipeline(Translator):
    """__call__ of an estimator class: the numerical part (functional estimator, stored results) is abstracted to
    `vraw (msnap mask s) NFFT`; the store path (real/complex branches, slices, psd setter, scale(), flag) is translated
    with the generic statement translator."""

    def __init__(self, base, cname):
        self.__dict__.update(base.__dict__)
        self.cname = cname
        self.est_locals = set()
        self.stored = set()
        self.reads = set()
        ci = self.classes[cname]
        for m in ci.methods:
            if m not in ALLOWED_EST_METHODS:
                raise Fail('estimator class %s defines method %s' % (cname, m))
        if ci.props or ci.consts or ci.aliases:
            raise Fail('estimator class %s defines class-level attributes' % cname)
        if '__call__' not in ci.methods or '__init__' not in ci.methods:
            raise Fail('estimator class %s lacks __init__/__call__' % cname)
        fn = ci.methods['__call__']
        if [a.arg for a in fn.args.args] != ['self'] or fn.args.vararg or fn.args.kwarg:
            raise Fail('signature of %s.__call__' % cname)
        self.call_fn = fn
        self.everstored = set()
        for n in ast.walk(fn):
            if isinstance(n, (ast.Assign, ast.AugAssign)):
                tg = n.targets if isinstance(n, ast.Assign) else [n.target]
                for t in tg:
                    if isinstance(t, ast.Attribute) and U(t.value) == 'self' and t.attr in RESULT_ATTR:
                        self.everstored.add(t.attr)

    # ---- reads of self.X inside the numerical part
    def note_reads(self, node):
        for n in ast.walk(node):
            if isinstance(n, ast.Attribute) and isinstance(n.value, ast.Name) and n.value.id == 'self' and isinstance(n.ctx, ast.Load):
                a = n.attr
                if a in READ2MASK:
                    self.reads.add(READ2MASK[a])
                elif a in RESULT_ATTR:
                    if a in self.stored:
                        pass
                    elif a in self.everstored:
                        raise Fail('%s.__call__ reads result attribute %s before storing it (depends on an earlier run)' % (self.cname, a))
                    # never stored by this class: a constant of the object (outside the operation alphabet)
                elif a in CONST_ATTR:
                    pass
                else:
                    raise Fail('%s.__call__ reads self.%s' % (self.cname, a))
            elif isinstance(n, ast.Name) and n.id == 'self':
                pass
        for n in ast.walk(node):
            if isinstance(n, ast.Call) and isinstance(n.func, ast.Attribute) and U(n.func.value) == 'self':
                raise Fail('%s.__call__: method call inside the numerical part: %s' % (self.cname, U(n)[:60]))
            if isinstance(n, ast.Name) and n.id == 'self' and not isinstance(getattr(n, '_parent_attr', None), ast.Attribute):
                pass

    def uses_only_est(self, e):
        for n in ast.walk(e):
            if isinstance(n, ast.Name) and isinstance(n.ctx, ast.Load) and n.id not in self.est_locals \
                    and n.id not in ('abs', 'np', 'numpy', 'float', 'int', 'self', 'tools', 'arma', 'None', 'False', 'True') \
                    and n.id not in self.imported:
                return False
        return True

    def psd_expr(self, e, ctx):
        """expression handed to the psd setter / sliced"""
        if isinstance(e, ast.Name):
            if e.id in self.est_locals:
                return 'x_raw'
            if e.id in ctx.bound:
                return 'x_' + e.id
            raise Unbound(e.id)
        if isinstance(e, ast.Attribute) and U(e.value) == 'self' and e.attr in RESULT_ATTR and e.attr in self.stored:
            return 'x_raw'
        if isinstance(e, ast.Subscript) and U(e.slice) == '::-1':
            return '(vflip %s)' % self.psd_expr(e.value, ctx)
        if isinstance(e, ast.Call) and len(e.args) == 1 and not e.keywords:
            f = U(e.func)
            if f in ('tools.twosided_2_onesided', 'twosided_2_onesided'):
                return '(conv_two2one %s)' % self.psd_expr(e.args[0], ctx)
            if f in ('centerdc_2_twosided', 'tools.centerdc_2_twosided') and self.psd_expr(e.args[0], ctx) == 'x_raw':
                return 'x_raw'     # eigen() returns a centred array; in FFT order it is the NFFT-point raw estimate
        raise Fail('%s.__call__: expression stored as psd: %s' % (self.cname, U(e)[:60]))

    def stmt(self, st, rest, ctx, ind):
        pad = '  ' * ind
        # --- numerical part
        if isinstance(st, ast.Assign) and len(st.targets) == 1:
            tg = st.targets[0]; v = st.value
            names = None
            if isinstance(tg, ast.Name):
                names = [tg.id]
            elif isinstance(tg, ast.Tuple) and all(isinstance(x, ast.Name) for x in tg.elts):
                names = [x.id for x in tg.elts]
            if names is not None:
                sl = self.slice_of(v, ctx)
                if sl is not None:
                    return pad + 'let x_%s := %s in\n' % (names[0], sl) + self.cont(rest, ctx, ind, [names[0]])
                if self.uses_only_est(v):
                    self.note_reads(v)
                    self.est_locals |= set(names)
                    return self.cont(rest, ctx, ind)
                raise Fail('%s.__call__: assignment %s' % (self.cname, U(st)[:60]))
            if isinstance(tg, ast.Attribute) and U(tg.value) == 'self':
                if tg.attr in RESULT_ATTR:
                    if not self.uses_only_est(v):
                        raise Fail('%s.__call__: stored result %s' % (self.cname, U(st)[:60]))
                    self.note_reads(v)
                    self.stored.add(tg.attr)
                    return self.cont(rest, ctx, ind)
                if tg.attr == 'psd':
                    ctx.pre = []; ctx.state_read = False
                    val = self.psd_expr(v, ctx)
                    setter = self.setter_call(ctx, 'psd', val)
                    return pad + 'bind (%s) (fun _ s =>\n' % setter + self.cont(rest, ctx, ind) + ')'
        if isinstance(st, ast.If) and U(st.test) in ("self.method == 'adapt'",):
            for b in list(st.body) + list(st.orelse):
                if not (isinstance(b, ast.Assign) and len(b.targets) == 1 and isinstance(b.targets[0], ast.Name)
                        and self.uses_only_est(b.value)):
                    raise Fail('%s.__call__: numerical branch %s' % (self.cname, U(b)[:60]))
                self.note_reads(b.value)
                self.est_locals.add(b.targets[0].id)
            return self.cont(rest, ctx, ind)
        if isinstance(st, (ast.Import, ast.ImportFrom)):
            for a in st.names:
                self.imported.add((a.asname or a.name).split('.')[0])
        if isinstance(st, ast.If):
            self.note_reads(st.test)
        return Translator.stmt(self, st, rest, ctx, ind)

    def slice_of(self, v, ctx):
        if isinstance(v, ast.BinOp) and isinstance(v.op, ast.Mult) and isinstance(v.right, ast.Constant) and v.right.value == 2 \
                and isinstance(v.left, ast.Subscript) and isinstance(v.left.slice, ast.Slice) and v.left.slice.step is None:
            lo = U(v.left.slice.lower) if v.left.slice.lower else '0'
            hi = U(v.left.slice.upper).replace(' ', '') if v.left.slice.upper else ''
            if lo == '0' and hi == SLICE_EVEN:
                return '(vslice_half_even %s (f_NFFT s))' % self.psd_expr(v.left.value, ctx)
            if lo == '0' and hi == SLICE_ODD:
                return '(vslice_half_odd %s (f_NFFT s))' % self.psd_expr(v.left.value, ctx)
            raise Fail('%s.__call__: slice %s' % (self.cname, U(v)[:60]))
        return None

    def translate_call(self):
        self.imported = set()
        # module-level imports of the estimator's file are irrelevant here: names that are not locals are functions
        t = ast.parse(open(os.path.join(self.src, self.classes[self.cname].file)).read())
        for n in t.body:
            if isinstance(n, (ast.Import, ast.ImportFrom)):
                for a in n.names:
                    self.imported.add((a.asname or a.name).split('.')[0])
            if isinstance(n, ast.FunctionDef):
                self.imported.add(n.name)
        ctx = Translator.Ctx(self.cname, [], self.cname)
        body = self.stmts(strip_doc(self.call_fn.body), ctx, 1)
        mask = 'mkMask ' + ' '.join('true' if f in self.reads else 'false' for f in MASK_FIELDS)
        txt = 'Definition mask_%s : mask := %s.\n' % (self.cname, mask)
        txt += ('Definition body_%s (call_ : St -> Res) (s : St) : Res :=\n  let x_raw := vraw (msnap mask_%s s) (f_NFFT s) in\n%s.\n'
                % (self.cname, self.cname, body))
        if self.cname == 'Periodogram' or 'vslice_half' not in body and 'conv_two2one' not in body:
            # no real/complex branch in the class: the functional estimator itself returns rfft bins for real data
            txt = txt.replace('let x_raw := vraw (msnap mask_%s s) (f_NFFT s) in' % self.cname,
                              'let x_raw := vest_auto (msnap mask_%s s) (f_data s) (f_NFFT s) in' % self.cname)
            self.reads.add('data')
            mask = 'mkMask ' + ' '.join('true' if f in self.reads else 'false' for f in MASK_FIELDS)
            txt = 'Definition mask_%s : mask := %s.\n' % (self.cname, mask) + txt.split('\n', 1)[1]
        txt += 'Definition call_%s : St -> Res := body_%s (err "RecursionError").\n' % (self.cname, self.cname)
        return txt


def translate_all(srcdir):
    """returns (gallina text of the Gen module body, info dict for the harness)"""
    tr = Translator(srcdir)
    done = {}
    order = []

    def need(ci, m, dyn=None):
        key = tr.mname(ci, m)
        if key in done:
            return
        done[key] = None
        txt = tr.method(ci, m, dyn)
        # dependencies: every translated method mentioned
        import re
        for dep in re.findall(r'\b((?:Range|Spectrum|FourierSpectrum|ParametricSpectrum)_[A-Za-z_0-9]+) call_', txt):
            if dep != key and dep not in done:
                c, mm = dep.split('_', 1)
                need(tr.classes[c], mm if mm in tr.classes[c].methods else '_' + mm)
        done[key] = txt
        order.append(key)

    def mkey2(c, name):
        return tr.classes[c], name
    # roots in psd.py
    roots = [('Spectrum', m) for m in ('_setData', '_setNFFT', '_setSampling', '_setDetrend', '_setScale', '_setSides',
                                       '_getPSD', '_setPSD', 'get_converted_psd', 'frequencies', 'scale', '__init__')]
    roots += [('FourierSpectrum', '__init__'), ('ParametricSpectrum', '__init__')]
    for c, m in roots:
        if m not in tr.classes[c].methods:
            raise Fail('%s.%s missing' % (c, m))
        need(tr.classes[c], m)
    info = {'classes': {}}
    cls_txt = []
    for fn, names in ESTIMATORS.items():
        for cn in names:
            pl = Pipeline(tr, cn)
            ctxt = pl.translate_call()
            ci = tr.classes[cn]
            base = [x.name for x in tr.mro(cn)][1]
            # every property setter of the alphabet the class inherits
            disp = {}
            for opn, attr in ATTR_OPS:
                pci, pr = tr.find_prop(cn, attr)
                if pci is not None:
                    if pr[1] is None:
                        raise Fail('%s.%s has no setter' % (cn, attr))
                    sci = tr.find_method(cn, pr[1])
                    need(sci, pr[1])
                    c0 = Translator.Ctx(pci.name, [], cn)
                    g = tr.getter(c0, cn, attr, attr)
                    if c0.pre:
                        raise Fail('effectful getter of %s' % attr)
                    if g != '(f_%s s)' % ALPHA_ATTR[attr]:
                        raise Fail('getter of %s.%s is not a plain read of its field: %s' % (cn, attr, g))
                    disp[attr] = ('%s call_%s' % (tr.mname(sci, pr[1]), cn), g)
                else:
                    disp[attr] = (None, '(f_%s s)' % ALPHA_ATTR[attr])
            # constructor
            itxt = tr.method(ci, '__init__', cn).replace('Definition %s___init__' % cn, 'Definition ctor_%s' % cn)
            import re
            for dep in re.findall(r'\b((?:Range|Spectrum|FourierSpectrum|ParametricSpectrum)_[A-Za-z_0-9]+) call_', itxt):
                if dep not in done:
                    raise Fail('constructor of %s uses untranslated %s' % (cn, dep))
            params = [a.arg for a in ci.methods['__init__'].args.args][1:]

            def setter(attr, vtxt):
                d = disp[attr][0]
                if d is None:
                    return 'ret (upd_%s %s s)' % (ALPHA_ATTR[attr], vtxt)
                return '%s %s s' % (d, vtxt)
            run = 'Definition run_%s (s : St) (o : op) : Res :=\n  match o with\n' % cn
            run += '  | OSetData d => %s\n' % setter('data', '(VData d)')
            run += '  | OSetNFFT v => %s\n' % setter('NFFT', 'v')
            run += '  | OSetSampling q => %s\n' % setter('sampling', '(VNum q)')
            run += '  | OSetDetrend v => %s\n' % setter('detrend', '(ostr v)')
            run += '  | OSetScale b => %s\n' % setter('scale_by_freq', '(VBool b)')
            run += '  | OSetSides v => %s\n' % setter('sides', '(VStr v)')
            run += '  | OSetWindow v => %s\n' % setter('window', '(VStr v)')
            run += '  | OSetLag z => %s\n' % setter('lag', '(VInt z)')
            run += '  | OSetAr v => %s\n' % setter('ar_order', '(oint v)')
            run += '  | OSetMa v => %s\n' % setter('ma_order', '(oint v)')
            run += '  | OReassign a => match a with\n'
            for opn, attr in ATTR_OPS:
                run += '      | %s => %s\n' % (opn, setter(attr, disp[attr][1]))
            run += '      end\n'
            run += '  | OCall => call_%s s\n' % cn
            run += '  | ORead => Spectrum__getPSD call_%s s\n' % cn
            run += '  | OConv v => Spectrum_get_converted_psd call_%s (VStr v) s\n' % cn
            run += '  | OFreq v => Spectrum_frequencies call_%s (ostr v) s\n' % cn
            run += '  end.\nDefinition step_%s (s : St) (o : op) : St := fst (run_%s s o).\n' % (cn, cn)
            init = 'Definition init_%s %s : Res := ctor_%s call_%s %s blank.\n' % (
                cn, ' '.join('(x_%s : val)' % p for p in params), cn, cn, ' '.join('x_' + p for p in params))
            cls_txt.append('(* ---------------- %s (%s) *)\n' % (cn, base) + ctxt + itxt + init + run)
            info['classes'][cn] = {'base': base, 'params': params, 'mask': sorted(pl.reads),
                                   'plain': [a for a in disp if disp[a][0] is None],
                                   'setters': {a: (disp[a][0] or 'plain') for a in disp}}
    info['methods'] = order
    # observers of Spectrum (inlined trivial getters)
    obs = ''
    for nm, attr in (('get_df', 'df'), ('get_sampling', 'sampling'), ('get_NFFT', 'NFFT'), ('get_sides', 'sides'), ('get_N', 'N')):
        c0 = Translator.Ctx('Spectrum', [], 'Spectrum')
        g = tr.getter(c0, 'Spectrum', attr, attr)
        if c0.pre:
            raise Fail('effectful getter of %s' % attr)
        obs += 'Definition %s (s : St) : val := %s.\n' % (nm, g)
    sc = tr.find_const('Spectrum', '_sides_choices')
    if sc is None:
        raise Fail('Spectrum._sides_choices not found')
    import re as _re
    info['sides_choices'] = [_re.match(r'\(VStr "(.*)"\)$', x).group(1) for x in sc]
    text = '\n'.join(done[k] for k in order) + '\n' + obs + '\n' + '\n'.join(cls_txt)
    return text, info


HEADER = """(* GENERATED by tools/props/_c07_translate.py from the snapshot of src/spectrum on this run. Do not edit. *)
From Coq Require Import List ZArith Bool String Lia QArith Qcanon.
Require Import Spectrum.Model.PsdMachineLib.
Import ListNotations.
Local Open Scope string_scope.
Local Open Scope bool_scope.
"""

if __name__ == '__main__':
    import sys, json
    src = sys.argv[1] if len(sys.argv) > 1 else '/repo/src/spectrum'
    text, info = translate_all(src)
    print(HEADER + text)
    sys.stderr.write(json.dumps(info, indent=1) + '\n')
