"""C02 — Every estimator puts spectral values on the frequency axis it reports."""
import json
import os
import numpy as np
import vlib
from props import _estimators as E
from props import _pipelines as P

LEVEL_TEXT = ("Coq theorems (Properties/C02.v, 33 statements, axiom-free): the reported axes have NFFT/2+1 | (NFFT+1)/2 | NFFT entries and entry k is bin k; "
              "what each functional estimator returns (lengths) and, for every store of the pipeline vocabulary, entry j of the stored PSD = one "
              "coefficient * positive weight * functional result at the entry of the SAME frequency -- composed with arma2psd (C08), minvar (C16), "
              "multitaper (C19), eigen (C17) into class-level axis statements; over the pipeline table GENERATED from the snapshot on every run "
              "(8 theorems, recompiled): every class of the statement, every NFFT, real/complex: length psd = length frequencies() = the stated count, "
              "entry j = coef * c * S(bin j) with frequencies()[j] = j*sampling/NFFT.  Tone location proved for noiseless data: periodogram (model of "
              "speriodogram and of the class: any window with non-negative samples, any N <= NFFT, both signs, real- and complex-data storage), real "
              "sinusoid with the rectangular window on the whole grid (bins k and NFFT-k are the two maxima, all others 0), correlogram "
              "(rectangular/biased/lag N-1 via Wiener-Khinchin), MUSIC/EV at class level (denominator exactly 0 at the entries of the true bins, > 0 at "
              "every other bin), covariance / modified covariance (AR polynomial vanishes on the NFFT grid exactly at the true bins; rho = 0, the stored "
              "spectrum is 0 resp. 0/0 there).  Non-negativity/realness collected per class under the guards of the formulas.  The tone-IN-NOISE "
              "clauses (exact / within one bin / within the taper bandwidth / within the main lobe) for all 12 classes are decided by a "
              "property-directed search on the implementation only.")
TRUSTED = ["Coq 8.16.1 kernel + vm_compute", "model of Range (Model/Convert.v freq_bins), tied by exact correspondence of the reported bins",
           "fail-closed AST translator tools/props/_pipelines.py and the interpreter coq/Model/PipelineLib.v it targets (shared with C08; its "
           "correspondence against real objects runs in C08)",
           "models of the functional estimators (Periodogram, Arma2psd, Minvar, Eigen, Mtm, Ls): tied to the code by the correspondence runs of "
           "C01 / C08 / C16 / C17 / C19 / C14, not here",
           "numpy.fft modelled by the DFT specification; numpy.linalg.svd / scipy lstsq quantified by svd_spec / lstsq_spec", "Python harness"]
UNPROVED = ["tone 'in noise' for every class (exact for periodogram / correlogram / covariance / modified covariance / MUSIC / EV, within one bin for "
            "Burg / Yule-Walker / ARMA / minimum variance, within the taper bandwidth for multitaper): perturbed non-linear estimators, no closed "
            "form -- search only",
            "real sinusoid within the main lobe for windows other than the rectangular one or N < NFFT, and through the non-Fourier classes: search only",
            "correlogram peak for lag windows / lags other than rectangular, biased, lag N-1, NFFT >= 2N-1: search only",
            "noiseless Burg / Yule-Walker / ARMA / minimum variance / multitaper location: no theorem (the estimators are biased even without noise)",
            "'finite' in binary64 (overflow, inf at exact zeros of a denominator): the theorems carry the guard 'denominator <> 0' instead; search checks isfinite"]
ASSUMPTIONS = ["exact arithmetic in the theorems", "tone dominance in the search: amplitude 1 against white noise of standard deviation 1e-2 (1e-3 for the exact clauses)",
               "the functional-result lengths used by the generated pipeline_length theorem are the theorem functional_lengths about the models"]
RULE = ("every class x real/complex x N (even/odd) x NFFT in {None, 'nextpow2', even >= N, odd >= N} x sampling (1, 0.5, 7.5, 1000, 1024, 44100) x tone bin "
        "(both signs for complex data, including bins 0, +-1, NFFT/2 and NFFT/2 +- 1) x orders in domain; non-trivial = tone bin not 0 and NFFT >= 8; "
        "distinct = distinct (class, config, NFFT, bin, data)")
GEN_NAMES = ['c02_table_complete', 'store_rows', 'default_axis', 'pipeline_length', 'pipeline_axis', 'pipeline_axis_fourier', 'pipeline_axis_subspace',
             'pipeline_axis_unscaled']

PRE = """Require Import Spectrum.Model.Convert.
From Coq Require Import ZArith List.
Import ListNotations.
Local Open Scope Z_scope.
Definition zeqb_list (a b : list Z) : bool := Nat.eqb (length a) (length b) && forallb (fun p => Z.eqb (fst p) (snd p)) (combine a b).
Definition bad_indices (cases : list bool) : list nat :=
  map fst (filter (fun p => negb (snd p)) (combine (seq 0 (length cases)) cases)).
Definition axis_case (n : nat) (one two cen : list Z) : bool :=
  zeqb_list (freq_bins One n) one && zeqb_list (freq_bins Two n) two && zeqb_list (freq_bins Center n) cen.
"""

EXACT = ['Periodogram', 'pcorrelogram', 'pcovar', 'pmodcovar', 'pmusic', 'pev']
ONE_BIN = ['pburg', 'pyule', 'parma', 'pminvar']


def resolve_nfft(NFFT, N):
    if NFFT is None:
        return N
    if NFFT == 'nextpow2':
        n = 1
        while n < N:
            n *= 2
        return n
    return NFFT


def tone_cfg(cls, N, rng, cplx):
    """orders in the documented domain, suited to ONE complex exponential (or one real sinusoid = two exponentials)"""
    npoles = 1 if cplx else 2
    if cls == 'Periodogram':
        return {'window': str(rng.choice(['hann', 'hamming', 'rectangular', 'blackman', 'bartlett']))}
    if cls == 'pcorrelogram':
        return {'lag': int(rng.integers(4, max(5, N // 2))), 'window': str(rng.choice(['hamming', 'hann', 'rectangular']))}
    if cls in ('pburg', 'pyule', 'pcovar', 'pmodcovar', 'pminvar'):
        return {'order': int(rng.integers(npoles + (1 if cls == 'pminvar' else 0), npoles + 4))}
    if cls == 'parma':
        P = int(rng.integers(npoles, npoles + 2)); Q = int(rng.integers(1, 3)); lo = max(Q, 2 * P) + 2
        return {'P': P, 'Q': Q, 'lag': int(rng.integers(lo, max(lo, min(lo + 4, N - 2 * P + Q)) + 1))}
    if cls == 'pma':
        Q = int(rng.integers(1, 4)); return {'Q': Q, 'M': int(rng.integers(Q + 2, Q + 8))}
    if cls in ('pmusic', 'pev'):
        return {'IP': int(rng.integers(npoles + 2, npoles + 6)), 'NSIG': npoles}
    if cls == 'MultiTapering':
        NW = float(rng.choice([2.0, 2.5, 3.0])); return {'NW': NW, 'k': int(rng.integers(2, int(2 * NW))), 'method': str(rng.choice(['unity', 'eigen', 'adapt']))}
    raise KeyError(cls)


def allowed_bins(cls, cfg, N, nfft, cplx, window=None):
    """how far (in bins of the NFFT grid) the maximum may sit from the tone's bin, per the property statement"""
    if cplx:
        if cls in EXACT:
            return 0
        if cls in ONE_BIN:
            return 1
        if cls == 'MultiTapering':
            return int(np.ceil(cfg['NW'] * nfft / N))
    # real sinusoid: within the estimator's main-lobe half-width of |f|
    w = {'rectangular': 1, 'hann': 2, 'hamming': 2, 'bartlett': 2, 'blackman': 3}
    if cls == 'Periodogram':
        return int(np.ceil(w[cfg['window']] * nfft / N))
    if cls == 'pcorrelogram':
        return int(np.ceil(w[cfg['window']] * nfft / (2 * cfg['lag'] + 1) * 2))
    if cls == 'MultiTapering':
        return int(np.ceil(cfg['NW'] * nfft / N)) + 1
    return int(np.ceil(2.0 * nfft / N)) + 1


def check_basic(cls, x, cfg, NFFT, sampling, cplx, route='fresh'):
    """the clauses every default PSD must meet; returns list of (clause, what)"""
    bad = []
    # scale_by_freq on or off (derived from the case): the clauses below do not depend on a positive constant factor
    sbf = E.route_for(x, cls, NFFT, sampling)[1]
    p = E.build(cls, x, cfg, NFFT=NFFT, sampling=sampling, scale_by_freq=sbf, route=route)
    psd = np.asarray(p.psd); f = np.asarray(p.frequencies())
    nfft = resolve_nfft(NFFT, len(x))
    want = nfft if cplx else (nfft // 2 + 1 if nfft % 2 == 0 else (nfft + 1) // 2)
    if np.iscomplexobj(psd):
        bad.append(('real', 'the default PSD is complex-valued'))
    if not np.all(np.isfinite(psd)):
        bad.append(('finite', 'the default PSD has non-finite values'))
    if len(psd) != len(f):
        bad.append(('length', 'len(psd)=%d but len(frequencies())=%d' % (len(psd), len(f))))
    if len(psd) != want:
        bad.append(('count', 'len(psd)=%d, expected %d for NFFT=%d' % (len(psd), want, nfft)))
    if len(f) == want and np.max(np.abs(f - np.arange(want) * sampling / nfft)) > 1e-9 * sampling:
        bad.append(('axis', 'frequencies() is not k*sampling/NFFT'))
    if abs(p.df - sampling / nfft) > 1e-12 * sampling:
        bad.append(('df', 'df=%r, expected sampling/NFFT=%r' % (p.df, sampling / nfft)))
    return bad, p


def tone_data(N, nfft, k, cplx, noise, seed, offset=0.0):
    r = np.random.default_rng(seed)
    n = np.arange(N)
    if cplx:
        return np.exp(2j * np.pi * k * n / nfft) + noise * (r.standard_normal(N) + 1j * r.standard_normal(N)) + offset * (1 + 0.25j)
    return np.cos(2 * np.pi * k * n / nfft + 0.3) + noise * r.standard_normal(N) + offset


def check_tone(cls, cfg, N, NFFT, sampling, k, cplx, noise, seed, offset=0.0):
    nfft = resolve_nfft(NFFT, N)
    x = tone_data(N, nfft, k, cplx, noise, seed, offset)
    bad, p = check_basic(cls, x, cfg, NFFT, sampling, cplx, E.route_for(x, cls, 'tone')[0])
    if bad or cls == 'pma':
        return bad
    psd = np.asarray(p.psd); f = np.asarray(p.frequencies())
    j = int(np.argmax(psd))
    if cplx:
        target = (k % nfft) * sampling / nfft
        d = abs(f[j] - target) / (sampling / nfft); d = min(d, nfft - d)          # circular distance in bins
    else:
        kk = k % nfft; kk = min(kk, nfft - kk)
        d = abs(f[j] - kk * sampling / nfft) / (sampling / nfft)
    tol = allowed_bins(cls, cfg, N, nfft, cplx) + (1 if offset else 0)      # (leakage of the smaller constant component may tilt the main lobe by a bin)
    if d > tol + 1e-6:
        bad.append(('tone', 'maximum at reported frequency %.6g (entry %d), tone at bin %d of NFFT=%d: %.1f bins away, allowed %d' % (f[j], j, k, nfft, d, tol)))
    return bad


def check_sinusoid_exact(N, k, sampling):
    """theorem real_sinusoid_peak on the implementation: real on-grid sinusoid, rectangular window, N = NFFT (whole periods), 2k != 0 mod N:
    the one-sided periodogram is A^2 N / 4 * 2 ... at the entry of |f| = min(k, N-k) and (numerically) 0 at every other entry"""
    bad = []
    n = np.arange(N)
    x = 1.5 * np.cos(2 * np.pi * k * n / N + 0.7)
    p = E.build('Periodogram', x, {'window': 'rectangular'}, NFFT=N, sampling=sampling, scale_by_freq=False)
    psd = np.asarray(p.psd); f = np.asarray(p.frequencies())
    kk = k % N; kk = min(kk, N - kk)
    want = N // 2 + 1 if N % 2 == 0 else (N + 1) // 2
    if len(psd) != want or len(f) != want:
        return [('count', 'len(psd)=%d len(frequencies())=%d expected %d' % (len(psd), len(f), want))]
    j = int(np.argmax(psd))
    if j != kk or abs(f[j] - kk * sampling / N) > 1e-9 * sampling:
        bad.append(('tone', 'real sinusoid at bin %d of N=NFFT=%d (rectangular): maximum at entry %d (f=%.6g), expected entry %d' % (k, N, j, f[j], kk)))
    rest = np.delete(psd, kk)
    if rest.size and np.max(np.abs(rest)) > 1e-9 * psd[kk]:
        bad.append(('tone', 'real sinusoid at bin %d of N=NFFT=%d (rectangular): entries off the tone are not 0 (max %.3g of the peak)' % (k, N, np.max(np.abs(rest)) / psd[kk])))
    return bad


def check_range(n, sampling):
    """Range(n, sampling) against the theorem default_axis: counts and k*sampling/n"""
    from spectrum.psd import Range
    bad = []
    r = Range(n, sampling)
    one = np.asarray(r.onesided(), dtype=float); two = np.asarray(r.twosided(), dtype=float); cen = np.asarray(r.centerdc(), dtype=float)
    w1 = n // 2 + 1 if n % 2 == 0 else (n + 1) // 2
    for name, v, want, off in (('onesided', one, w1, 0), ('twosided', two, n, 0), ('centerdc', cen, n, n // 2)):
        if len(v) != want:
            bad.append(('count', 'Range(%d, %r).%s() has %d entries, expected %d' % (n, sampling, name, len(v), want)))
        elif np.max(np.abs(v - (np.arange(want) - off) * sampling / n)) > 1e-9 * sampling:
            bad.append(('axis', 'Range(%d, %r).%s() is not (k - %d)*sampling/N' % (n, sampling, name, off)))
    return bad


def replay(rep):
    if rep.get('replay', {}).get('form') == 'routes':
        from props import _estimators as E_
        return E_.replay_routes(rep['replay'])
    r = rep['replay']
    try:
        if r['what'] == 'tone':
            return not check_tone(r['estimator'], r['cfg'], r['N'], r['NFFT'], r['sampling'], r['k'], r['datatype'] == 'complex', r['noise'], r['seed'], r.get('offset', 0.0))
        if r['what'] == 'sinusoid':
            return not check_sinusoid_exact(r['N'], r['k'], r['sampling'])
        if r['what'] == 'range':
            return not check_range(r['n'], r['sampling'])
        x = vlib.unhexv(r['x'])
        if r['datatype'] == 'real':
            x = np.real(x)
        return not check_basic(r['estimator'], x, r['cfg'], r['NFFT'], r['sampling'], r['datatype'] == 'complex', r.get('route', 'fresh'))[0]
    except Exception:
        return False


def jcfg(cfg):
    return {k: (v.item() if isinstance(v, (np.integer, np.floating)) else v) for k, v in cfg.items()}


def run(ctx):
    from spectrum.psd import Range
    rng = ctx.rng
    ctx.check_theorems('Properties/C02.v')
    # the estimate an object holds does not depend on the history that gave it its data and settings (every route of _estimators.via)
    from props import _estimators as E_
    E_.class_route_stream(ctx, E_.CLASSES, 'routes')

    # ---------------- translator + theorems over the generated pipeline table (lengths, placement on the axis)
    src = os.path.join(vlib.SNAP, 'src', 'spectrum')
    table_v = None
    try:
        tab = P.extract(src)
        table_v = P.gallina(tab)
    except P.Fail as e:
        for n in GEN_NAMES:
            ctx.obligations.append((n, False, []))
        ctx.broken.append({'theorem': 'translator:pipelines (source outside the recognised shapes)', 'where': src, 'log': str(e)})
    if table_v is not None:
        thm = open(os.path.join(os.path.dirname(os.path.abspath(__file__)), '_c02_theorems.v.in')).read()
        ctx.check_generated('C02_pipelines', table_v + thm, GEN_NAMES)

    # ---------------- the reported bins of Range against the model (exact integers, inside Coq)
    cases = []
    for n in range(1, ctx.q(48, 128) + 1):
        r = Range(n, 1.0)
        df = 1.0 / n
        def zl(v):
            return '[' + '; '.join('(%d)' % int(round(t / df)) for t in v) + ']'
        cases.append('axis_case %d%%nat %s %s %s' % (n, zl(r.onesided()), zl(r.twosided()), zl(r.centerdc())))
        ctx.case(('range', n), nontrivial=(n >= 3), sample={'function': 'Range(n).onesided/twosided/centerdc', 'n': n} if n in (7, 8) else None)
    for i in ctx.coq_cases('c02_axis', PRE, cases, shard=64, descr='Range(n) bins vs Model.Convert.freq_bins, exact'):
        ctx.corr_disagreement('Range', i, {'n': i + 1})

    # ---------------- Range with sampling != 1: counts and values for every n up to a bound x sampling rates (float truncation of the count)
    for n in range(1, ctx.q(200, 600) + 1):
        for fs in (1.0, 3.0, 10.0, 100.0, 1000.0, 0.5, 7.5, 1024.0, 44100.0):
            ctx.case(('range-fs', n, fs), nontrivial=(n >= 3), sample={'function': 'Range(n, sampling)', 'n': n, 'sampling': fs} if (n, fs) == (30, 1000.0) else None)
            for clause, what in check_range(n, fs):
                # the axis of every class: show it on an estimator object too (len(psd) vs len(frequencies()))
                x = np.cos(0.9 * np.arange(max(n, 8)))[:max(n, 4)]
                rep = {'what': 'range', 'n': n, 'sampling': fs}
                ctx.violation('%s/Range/sampling' % clause, 'Range(N=%d, sampling=%r): %s (frequencies() of every estimator with NFFT=%d)' % (n, fs, what, n), rep)

    # ---------------- exhaustive small space, NOISELESS (the theorems periodogram_peak / real_sinusoid_peak on the implementation)
    for N in (8, 9):
        for NFFT in (None, N + 1, 16, 17):
            nfft = resolve_nfft(NFFT, N)
            for window in ('rectangular', 'hann', 'hamming'):
                for k in range(-nfft, nfft + 1):
                    cfg = {'window': window}
                    ctx.count('noiseless/Periodogram/complex')
                    ctx.case(('noiseless', N, str(NFFT), window, k), nontrivial=(k % nfft != 0),
                             sample={'clause': 'tone (noiseless)', 'estimator': 'Periodogram', 'N': N, 'NFFT': NFFT, 'window': window, 'bin': k} if (N, NFFT, window, k) == (9, 17, 'hann', -3) else None)
                    rep = {'what': 'tone', 'estimator': 'Periodogram', 'cfg': cfg, 'N': N, 'NFFT': NFFT, 'sampling': 7.5, 'k': k, 'datatype': 'complex', 'noise': 0.0, 'seed': 0}
                    try:
                        bad = check_tone('Periodogram', cfg, N, NFFT, 7.5, k, True, 0.0, 0)
                    except Exception as e:
                        bad = [('raises', 'raised %s: %s' % (type(e).__name__, str(e)[:100]))]
                    for clause, what in bad:
                        ctx.violation('%s/Periodogram/complex' % clause, 'Periodogram (noiseless complex exponential, NFFT=%s, %s): %s' % (NFFT, window, what), rep)
    for N in (8, 9, 12, 15, 30):
        for k in range(1, N):
            if (2 * k) % N == 0:
                continue
            fs = [1.0, 1000.0, 7.5][k % 3]
            ctx.count('noiseless/Periodogram/real-sinusoid')
            ctx.case(('sinusoid', N, k, fs), nontrivial=True, sample={'clause': 'real sinusoid (noiseless, rectangular, N=NFFT)', 'N': N, 'bin': k, 'sampling': fs} if (N, k) == (9, 2) else None)
            rep = {'what': 'sinusoid', 'N': N, 'k': k, 'sampling': fs}
            try:
                bad = check_sinusoid_exact(N, k, fs)
            except Exception as e:
                bad = [('raises', 'raised %s: %s' % (type(e).__name__, str(e)[:100]))]
            for clause, what in bad:
                ctx.violation('%s/Periodogram/real' % clause, 'Periodogram: %s' % what, rep)

    # ---------------- every class: basic clauses on generic data
    for it in range(ctx.q(20, 800) * len(E.CLASSES)):
        cls = E.CLASSES[it % len(E.CLASSES)]
        cplx = bool((it // len(E.CLASSES)) % 2); N = int(rng.integers(16, 50))
        x, kind = E.gen_data(rng, N, cplx)
        cfg = E.default_cfg(cls, N, rng, cplx)
        if cls == 'pcorrelogram' and rng.integers(0, 2):
            cfg['lag'] = int(rng.integers(N // 2, N))          # long lags of the documented domain lag < N (2*lag+1 may exceed NFFT)
        route = E.pick_route(rng); ctx.count('basic/route/%s' % route)
        NFFT = [None, 'nextpow2', N + 2 + (N % 2), N + 3 + (N % 2), 2 * N, 2 * N + 1][int(rng.integers(0, 6))]
        if cls == 'pminvar' and isinstance(NFFT, int):
            NFFT = max(NFFT, 2 * cfg['order'])
        sampling = float(rng.choice([1.0, 0.5, 7.5, 1000.0, 1024.0, 44100.0]))
        tag = 'complex' if cplx else 'real'
        ctx.count('basic/%s/%s/NFFT=%s' % (cls, tag, NFFT if not isinstance(NFFT, int) else ('even' if NFFT % 2 == 0 else 'odd')))
        ctx.case(('basic', cls, json.dumps(jcfg(cfg), sort_keys=True), str(NFFT), sampling, x.tobytes()), nontrivial=True,
                 sample={'clause': 'basic', 'estimator': cls, 'cfg': jcfg(cfg), 'N': N, 'NFFT': NFFT, 'sampling': sampling, 'datatype': tag, 'kind': kind})
        rep = {'what': 'basic', 'estimator': cls, 'cfg': jcfg(cfg), 'NFFT': NFFT, 'sampling': sampling, 'x': vlib.hexv(np.asarray(x, dtype=complex)), 'datatype': tag, 'route': route}
        try:
            bad, _ = check_basic(cls, x, cfg, NFFT, sampling, cplx, route)
        except Exception as e:
            bad = [('raises', 'raised %s: %s' % (type(e).__name__, str(e)[:100]))]
        for clause, what in bad:
            ctx.violation('%s/%s/%s' % (clause, cls, tag), '%s (%s data, NFFT=%s): %s' % (cls, tag, NFFT, what), rep)

    # ---------------- a dominant complex exponential PLUS a smaller constant component, for every named window and both detrend settings of the
    # Fourier classes: the maximum stays at the tone (a constant is another, weaker, exponential at f = 0)
    for wi, wname in enumerate(E.ALL_WINDOWS):
        for di, dt in enumerate((None, 'mean')):
            cls = 'Periodogram'; N = 32 + (wi % 9); NFFT = [None, 2 * N, N + 5][(wi + di) % 3]; nfft = resolve_nfft(NFFT, N)
            k = (nfft // 3) * (1 if wi % 2 else -1); cfg = {'window': wname, 'detrend': dt}; sampling = [1.0, 1024.0][di]
            ctx.count('tone+constant/%s' % cls)
            ctx.case(('tone+const', cls, wname, dt, N, str(NFFT), k), nontrivial=True,
                     sample={'clause': 'tone + smaller constant', 'estimator': cls, 'cfg': cfg, 'N': N, 'NFFT': NFFT, 'bin': k} if wi == 9 else None)
            rep = {'what': 'tone', 'estimator': cls, 'cfg': cfg, 'N': N, 'NFFT': NFFT, 'sampling': sampling, 'k': k, 'datatype': 'complex', 'noise': 1e-3, 'seed': wi,
                   'offset': 0.6}
            try:
                bad = check_tone(cls, cfg, N, NFFT, sampling, k, True, 1e-3, wi, 0.6)
            except Exception as e:
                bad = [('raises', 'raised %s: %s' % (type(e).__name__, str(e)[:100]))]
            for clause, what in bad:
                ctx.violation('%s/%s/complex/window_%s' % (clause, cls, wname), '%s (window %r, detrend=%r, tone + constant 0.6): %s' % (cls, wname, dt, what), rep)

    # ---------------- tone location on the reported axis
    for it in range(ctx.q(40, 3000) * len(E.CLASSES)):
        cls = E.CLASSES[it % len(E.CLASSES)]
        cplx = bool((it // len(E.CLASSES)) % 2); N = int(rng.integers(24, 50))
        NFFT = [None, 'nextpow2', N + 2 + (N % 2), N + 3 + (N % 2), 2 * N, 2 * N + 1][int(rng.integers(0, 6))]
        nfft = resolve_nfft(NFFT, N)
        cfg = tone_cfg(cls, N, rng, cplx)
        if cls == 'pminvar':
            if isinstance(NFFT, int):
                NFFT = max(NFFT, 2 * cfg['order'] + 2); nfft = NFFT
        if cls == 'pcorrelogram' and nfft < 2 * cfg['lag'] + 1:
            cfg['lag'] = max(2, (nfft - 1) // 2)
        sampling = float(rng.choice([1.0, 0.5, 7.5, 1000.0, 1024.0, 44100.0]))
        if cplx:
            if rng.integers(0, 4) == 0:                                                 # the ends of the axis: DC, +-1, Nyquist and its neighbours
                k = int(rng.choice([0, 1, -1, nfft // 2, nfft // 2 + 1, -(nfft // 2), (nfft - 1) // 2, nfft - 1]))
            else:
                k = int(rng.integers(1, nfft)) * (1 if rng.integers(0, 2) else -1)      # positive and negative frequencies
        else:
            lo = max(2, int(np.ceil(0.12 * nfft))); hi = max(lo + 1, int(np.floor(0.38 * nfft)))    # away from 0 and sampling/2
            k = int(rng.integers(lo, hi + 1))
        noise = 1e-3 if (cplx and cls in EXACT) else 1e-2
        seed = int(rng.integers(0, 2 ** 31))
        tag = 'complex' if cplx else 'real'
        ctx.count('tone/%s/%s/NFFT=%s' % (cls, tag, NFFT if not isinstance(NFFT, int) else ('even' if NFFT % 2 == 0 else 'odd')))
        ctx.case(('tone', cls, json.dumps(jcfg(cfg), sort_keys=True), str(NFFT), N, k, seed), nontrivial=(nfft >= 8 and k % nfft != 0),
                 sample={'clause': 'tone', 'estimator': cls, 'cfg': jcfg(cfg), 'N': N, 'NFFT': NFFT, 'bin': k, 'datatype': tag})
        rep = {'what': 'tone', 'estimator': cls, 'cfg': jcfg(cfg), 'N': N, 'NFFT': NFFT, 'sampling': sampling, 'k': k, 'datatype': tag, 'noise': noise, 'seed': seed}
        try:
            bad = check_tone(cls, cfg, N, NFFT, sampling, k, cplx, noise, seed)
        except Exception as e:
            bad = [('raises', 'raised %s: %s' % (type(e).__name__, str(e)[:100]))]
        for clause, what in bad:
            ctx.violation('%s/%s/%s' % (clause, cls, tag), '%s (%s data, NFFT=%s): %s' % (cls, tag, NFFT, what), rep)
