"""C02 — Every estimator puts spectral values on the frequency axis it reports."""
import json
import numpy as np
import vlib
from props import _estimators as E

LEVEL_TEXT = ("Coq theorems: the reported axes have NFFT/2+1 | (NFFT+1)/2 | NFFT entries and entry k is bin k (model of Range, tied to the "
              "code by the exact bin correspondence); in the abstract ordered *-field the windowed periodogram of a pure on-grid exponential "
              "(any amplitude, any bin of either sign, any window with non-negative samples, any N <= NFFT) attains its maximum at the entry of "
              "that bin (triangle inequality proved without square roots).  The per-class clauses (real, finite, length = len(frequencies()), "
              "tone located on the reported axis: exactly / within one bin / within the taper bandwidth; real sinusoid within the main lobe) "
              "are decided by a property-directed search over all 12 classes.")
TRUSTED = ["Coq 8.16.1 kernel + vm_compute", "model of Range (Model/Convert.v freq_bins), tied by exact correspondence of the reported bins",
           "numpy.fft modelled by the DFT specification", "Python harness"]
UNPROVED = ["tone 'in noise' through the non-linear estimators (Burg, Yule-Walker, ARMA, minimum variance, multitaper): no closed form, search only",
            "covariance / modified covariance / MUSIC / EV exact location: search here (noiseless statements are C14 / C17)",
            "per-class real / finite / length clauses: search only at this commit"]
ASSUMPTIONS = ["exact arithmetic in the theorems", "tone dominance: amplitude 1 against white noise of standard deviation 1e-2 (1e-3 for the exact clauses)"]
RULE = ("every class x real/complex x N (even/odd) x NFFT in {None, 'nextpow2', even >= N, odd >= N} x sampling x tone bin (both signs for complex data) "
        "x orders in domain; non-trivial = tone bin not 0 and NFFT >= 8; distinct = distinct (class, config, NFFT, bin, data)")

PRE = """Require Import Spectrum.Model.Convert.
From Coq Require Import ZArith List.
Import ListNotations.
Local Open Scope Z_scope.
Definition zeqb_list (a b : list Z) : bool := Nat.eqb (length a) (length b) && forallb (fun p => Z.eqb (fst p) (snd p)) (combine a b).
Definition bad_indices (cases : list bool) : list nat :=
  map fst (filter (fun p => negb (snd p)) (combine (seq 0 (length cases)) cases)).
Definition axis_case (n : nat) (one two cen : list Z) : bool :=
  zeqb_list (freq_bins One n) one && zeqb_list (freq_bins Two n) two && zeqb_list (freq_bins Center n) cen.
"""

EXACT = ['Periodogram', 'pcorrelogram', 'pcovar', 'pmodcovar', 'pmusic', 'pev']
ONE_BIN = ['pburg', 'pyule', 'parma', 'pminvar']


def resolve_nfft(NFFT, N):
    if NFFT is None:
        return N
    if NFFT == 'nextpow2':
        n = 1
        while n < N:
            n *= 2
        return n
    return NFFT


def tone_cfg(cls, N, rng, cplx):
    """orders in the documented domain, suited to ONE complex exponential (or one real sinusoid = two exponentials)"""
    npoles = 1 if cplx else 2
    if cls == 'Periodogram':
        return {'window': str(rng.choice(['hann', 'hamming', 'rectangular', 'blackman', 'bartlett']))}
    if cls == 'pcorrelogram':
        return {'lag': int(rng.integers(4, max(5, N // 2))), 'window': str(rng.choice(['hamming', 'hann', 'rectangular']))}
    if cls in ('pburg', 'pyule', 'pcovar', 'pmodcovar', 'pminvar'):
        return {'order': int(rng.integers(npoles + (1 if cls == 'pminvar' else 0), npoles + 4))}
    if cls == 'parma':
        P = int(rng.integers(npoles, npoles + 2)); Q = int(rng.integers(1, 3)); lo = max(Q, 2 * P) + 2
        return {'P': P, 'Q': Q, 'lag': int(rng.integers(lo, max(lo, min(lo + 4, N - 2 * P + Q)) + 1))}
    if cls == 'pma':
        Q = int(rng.integers(1, 4)); return {'Q': Q, 'M': int(rng.integers(Q + 2, Q + 8))}
    if cls in ('pmusic', 'pev'):
        return {'IP': int(rng.integers(npoles + 2, npoles + 6)), 'NSIG': npoles}
    if cls == 'MultiTapering':
        NW = float(rng.choice([2.0, 2.5, 3.0])); return {'NW': NW, 'k': int(rng.integers(2, int(2 * NW))), 'method': str(rng.choice(['unity', 'eigen', 'adapt']))}
    raise KeyError(cls)


def allowed_bins(cls, cfg, N, nfft, cplx, window=None):
    """how far (in bins of the NFFT grid) the maximum may sit from the tone's bin, per the property statement"""
    if cplx:
        if cls in EXACT:
            return 0
        if cls in ONE_BIN:
            return 1
        if cls == 'MultiTapering':
            return int(np.ceil(cfg['NW'] * nfft / N))
    # real sinusoid: within the estimator's main-lobe half-width of |f|
    w = {'rectangular': 1, 'hann': 2, 'hamming': 2, 'bartlett': 2, 'blackman': 3}
    if cls == 'Periodogram':
        return int(np.ceil(w[cfg['window']] * nfft / N))
    if cls == 'pcorrelogram':
        return int(np.ceil(w[cfg['window']] * nfft / (2 * cfg['lag'] + 1) * 2))
    if cls == 'MultiTapering':
        return int(np.ceil(cfg['NW'] * nfft / N)) + 1
    return int(np.ceil(2.0 * nfft / N)) + 1


def check_basic(cls, x, cfg, NFFT, sampling, cplx):
    """the clauses every default PSD must meet; returns list of (clause, what)"""
    bad = []
    p = E.build(cls, x, cfg, NFFT=NFFT, sampling=sampling, scale_by_freq=False)
    psd = np.asarray(p.psd); f = np.asarray(p.frequencies())
    nfft = resolve_nfft(NFFT, len(x))
    want = nfft if cplx else (nfft // 2 + 1 if nfft % 2 == 0 else (nfft + 1) // 2)
    if np.iscomplexobj(psd):
        bad.append(('real', 'the default PSD is complex-valued'))
    if not np.all(np.isfinite(psd)):
        bad.append(('finite', 'the default PSD has non-finite values'))
    if len(psd) != len(f):
        bad.append(('length', 'len(psd)=%d but len(frequencies())=%d' % (len(psd), len(f))))
    if len(psd) != want:
        bad.append(('count', 'len(psd)=%d, expected %d for NFFT=%d' % (len(psd), want, nfft)))
    if len(f) == want and np.max(np.abs(f - np.arange(want) * sampling / nfft)) > 1e-9 * sampling:
        bad.append(('axis', 'frequencies() is not k*sampling/NFFT'))
    if abs(p.df - sampling / nfft) > 1e-12 * sampling:
        bad.append(('df', 'df=%r, expected sampling/NFFT=%r' % (p.df, sampling / nfft)))
    return bad, p


def tone_data(N, nfft, k, cplx, noise, seed):
    r = np.random.default_rng(seed)
    n = np.arange(N)
    if cplx:
        return np.exp(2j * np.pi * k * n / nfft) + noise * (r.standard_normal(N) + 1j * r.standard_normal(N))
    return np.cos(2 * np.pi * k * n / nfft + 0.3) + noise * r.standard_normal(N)


def check_tone(cls, cfg, N, NFFT, sampling, k, cplx, noise, seed):
    nfft = resolve_nfft(NFFT, N)
    x = tone_data(N, nfft, k, cplx, noise, seed)
    bad, p = check_basic(cls, x, cfg, NFFT, sampling, cplx)
    if bad or cls == 'pma':
        return bad
    psd = np.asarray(p.psd); f = np.asarray(p.frequencies())
    j = int(np.argmax(psd))
    if cplx:
        target = (k % nfft) * sampling / nfft
        d = abs(f[j] - target) / (sampling / nfft); d = min(d, nfft - d)          # circular distance in bins
    else:
        kk = k % nfft; kk = min(kk, nfft - kk)
        d = abs(f[j] - kk * sampling / nfft) / (sampling / nfft)
    tol = allowed_bins(cls, cfg, N, nfft, cplx)
    if d > tol + 1e-6:
        bad.append(('tone', 'maximum at reported frequency %.6g (entry %d), tone at bin %d of NFFT=%d: %.1f bins away, allowed %d' % (f[j], j, k, nfft, d, tol)))
    return bad


def replay(rep):
    r = rep['replay']
    try:
        if r['what'] == 'tone':
            return not check_tone(r['estimator'], r['cfg'], r['N'], r['NFFT'], r['sampling'], r['k'], r['datatype'] == 'complex', r['noise'], r['seed'])
        x = vlib.unhexv(r['x'])
        if r['datatype'] == 'real':
            x = np.real(x)
        return not check_basic(r['estimator'], x, r['cfg'], r['NFFT'], r['sampling'], r['datatype'] == 'complex')[0]
    except Exception:
        return False


def jcfg(cfg):
    return {k: (v.item() if isinstance(v, (np.integer, np.floating)) else v) for k, v in cfg.items()}


def run(ctx):
    from spectrum.psd import Range
    rng = ctx.rng
    ctx.check_theorems('Properties/C02.v')

    # ---------------- the reported bins of Range against the model (exact integers, inside Coq)
    cases = []
    for n in range(1, ctx.q(48, 128) + 1):
        r = Range(n, 1.0)
        df = 1.0 / n
        def zl(v):
            return '[' + '; '.join('(%d)' % int(round(t / df)) for t in v) + ']'
        cases.append('axis_case %d%%nat %s %s %s' % (n, zl(r.onesided()), zl(r.twosided()), zl(r.centerdc())))
        ctx.case(('range', n), nontrivial=(n >= 3), sample={'function': 'Range(n).onesided/twosided/centerdc', 'n': n} if n in (7, 8) else None)
    for i in ctx.coq_cases('c02_axis', PRE, cases, shard=64, descr='Range(n) bins vs Model.Convert.freq_bins, exact'):
        ctx.corr_disagreement('Range', i, {'n': i + 1})

    # ---------------- every class: basic clauses on generic data
    for it in range(ctx.q(20, 100) * len(E.CLASSES)):
        cls = E.CLASSES[it % len(E.CLASSES)]
        cplx = bool((it // len(E.CLASSES)) % 2); N = int(rng.integers(16, 50))
        x, kind = E.gen_data(rng, N, cplx)
        cfg = E.default_cfg(cls, N, rng, cplx)
        NFFT = [None, 'nextpow2', N + 2 + (N % 2), N + 3 + (N % 2), 2 * N, 2 * N + 1][int(rng.integers(0, 6))]
        if cls == 'pminvar' and isinstance(NFFT, int):
            NFFT = max(NFFT, 2 * cfg['order'])
        sampling = float(rng.choice([1.0, 0.5, 7.5, 1024.0, 44100.0]))
        tag = 'complex' if cplx else 'real'
        ctx.count('basic/%s/%s/NFFT=%s' % (cls, tag, NFFT if not isinstance(NFFT, int) else ('even' if NFFT % 2 == 0 else 'odd')))
        ctx.case(('basic', cls, json.dumps(jcfg(cfg), sort_keys=True), str(NFFT), sampling, x.tobytes()), nontrivial=True,
                 sample={'clause': 'basic', 'estimator': cls, 'cfg': jcfg(cfg), 'N': N, 'NFFT': NFFT, 'sampling': sampling, 'datatype': tag, 'kind': kind})
        rep = {'what': 'basic', 'estimator': cls, 'cfg': jcfg(cfg), 'NFFT': NFFT, 'sampling': sampling, 'x': vlib.hexv(np.asarray(x, dtype=complex)), 'datatype': tag}
        try:
            bad, _ = check_basic(cls, x, cfg, NFFT, sampling, cplx)
        except Exception as e:
            bad = [('raises', 'raised %s: %s' % (type(e).__name__, str(e)[:100]))]
        for clause, what in bad:
            ctx.violation('%s/%s/%s' % (clause, cls, tag), '%s (%s data, NFFT=%s): %s' % (cls, tag, NFFT, what), rep)

    # ---------------- tone location on the reported axis
    for it in range(ctx.q(40, 250) * len(E.CLASSES)):
        cls = E.CLASSES[it % len(E.CLASSES)]
        cplx = bool((it // len(E.CLASSES)) % 2); N = int(rng.integers(24, 50))
        NFFT = [None, 'nextpow2', N + 2 + (N % 2), N + 3 + (N % 2), 2 * N, 2 * N + 1][int(rng.integers(0, 6))]
        nfft = resolve_nfft(NFFT, N)
        cfg = tone_cfg(cls, N, rng, cplx)
        if cls == 'pminvar':
            if isinstance(NFFT, int):
                NFFT = max(NFFT, 2 * cfg['order'] + 2); nfft = NFFT
        if cls == 'pcorrelogram' and nfft < 2 * cfg['lag'] + 1:
            cfg['lag'] = max(2, (nfft - 1) // 2)
        sampling = float(rng.choice([1.0, 0.5, 7.5, 1024.0]))
        if cplx:
            k = int(rng.integers(1, nfft)) * (1 if rng.integers(0, 2) else -1)          # positive and negative frequencies
        else:
            lo = max(2, int(np.ceil(0.12 * nfft))); hi = max(lo + 1, int(np.floor(0.38 * nfft)))    # away from 0 and sampling/2
            k = int(rng.integers(lo, hi + 1))
        noise = 1e-3 if (cplx and cls in EXACT) else 1e-2
        seed = int(rng.integers(0, 2 ** 31))
        tag = 'complex' if cplx else 'real'
        ctx.count('tone/%s/%s/NFFT=%s' % (cls, tag, NFFT if not isinstance(NFFT, int) else ('even' if NFFT % 2 == 0 else 'odd')))
        ctx.case(('tone', cls, json.dumps(jcfg(cfg), sort_keys=True), str(NFFT), N, k, seed), nontrivial=(nfft >= 8 and k % nfft != 0),
                 sample={'clause': 'tone', 'estimator': cls, 'cfg': jcfg(cfg), 'N': N, 'NFFT': NFFT, 'bin': k, 'datatype': tag})
        rep = {'what': 'tone', 'estimator': cls, 'cfg': jcfg(cfg), 'N': N, 'NFFT': NFFT, 'sampling': sampling, 'k': k, 'datatype': tag, 'noise': noise, 'seed': seed}
        try:
            bad = check_tone(cls, cfg, N, NFFT, sampling, k, cplx, noise, seed)
        except Exception as e:
            bad = [('raises', 'raised %s: %s' % (type(e).__name__, str(e)[:100]))]
        for clause, what in bad:
            ctx.violation('%s/%s/%s' % (clause, cls, tag), '%s (%s data, NFFT=%s): %s' % (cls, tag, NFFT, what), rep)
