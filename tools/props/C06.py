"""C06 — side conversions are lossless, length-consistent and axis-aligned."""
import itertools
import numpy as np
import vlib
from vlib import cz, czl

LEVEL_TEXT = ("Coq theorems over an abstract field with 1+1<>0, for every NFFT >= 1 of both parities and every PSD vector, about the "
              "model of get_converted_psd / the sides setter / the four tools helpers: result length = length of frequencies(t); "
              "entry j = sum of the source entries whose signed bin is +-bin(j) (1/2 for interior one-sided values); total power "
              "preserved; inverse laws; composition law; for EVERY list of sides (induction on the list) the folded conversions equal "
              "the direct conversion, unconditionally for complex data and on Hermitian-symmetric vectors (= everything reachable "
              "from a one-sided PSD) for real data; round trip. Tie: exhaustive exact in-Coq correspondence (all basis vectors x all "
              "paths x real/complex x NFFT range, object API and helpers) and a model-independent search oracle built from "
              "frequencies() of the implementation.")
TRUSTED = ["Coq 8.16.1 kernel + vm_compute (no native_compute)",
           "hand-written model coq/Model/Convert.v; tie = exhaustive correspondence on basis vectors (the conversions are linear) "
           "for the NFFT range of the tier, plus random integer combinations",
           "numpy.fft.fftshift / ifftshift / concatenate / slicing are modelled by index formulas, not verified",
           "Python harness (snapshot, enumeration of paths, float->dyadic conversion, frequency-matching oracle)"]
UNPROVED = ["get_converted_psd does not modify the stored PSD or its argument (aliasing is outside the pure model): search only",
            "arma2psd(sides='centerdc') and conversions of PSDs computed by the estimator classes: search only",
            "NFFT above the exhaustive range of the tier is covered by the theorems through the model only (tie is per length)"]
ASSUMPTIONS = ["exact arithmetic (the code only scales by 2 and 1/2, which is exact in binary64 away from overflow/underflow)",
               "real data: the stored one-sided PSD has the length of frequencies('onesided') for the object's NFFT; a two-sided "
               "or centred PSD of real data is Hermitian symmetric (always true of what the object API produces)",
               "complex data never ask for 'onesided' (the code raises AssertionError, modelled as an error)"]
RULE = ("exhaustive: every basis vector x every sequence of sides of length <= 3 (quick) / 4 (thorough) x real/complex x NFFT 1..24 "
        "(quick) / 1..64 (thorough), Spectrum and FourierSpectrum with a directly assigned psd, sampling in {1, 1024, 0.5}; the four "
        "tools helpers on all basis vectors of all lengths; random small-integer vectors; estimator-computed PSDs; "
        "non-trivial = NFFT >= 3 and a path with at least one real conversion; distinct = distinct (datatype, NFFT, vector, path)")

SIDES = ['onesided', 'twosided', 'centerdc']
SC = {'onesided': 'One', 'twosided': 'Two', 'centerdc': 'Center'}

PRE = """Require Import Spectrum.Theory.Ops Spectrum.Theory.Vec Spectrum.Model.Convert Spectrum.Instances.QcC.
From Coq Require Import QArith Qcanon.
Local Open Scope Z_scope.
Definition QZ : QcC := cz (0,0) (0,0).
Definition veq (l1 l2 : list QcC) : bool := qcc_close_list 0%Qc l1 l2.
Definition basis (n k : nat) : list QcC := map (fun i => if Nat.eqb i k then cz (1,0) (0,0) else QZ) (seq 0 n).
Fixpoint lookup (i : nat) (nz : list (nat * QcC)) : QcC :=
  match nz with [] => QZ | (k, v) :: r => if Nat.eqb i k then v else lookup i r end.
Definition sparse (len : nat) (nz : list (nat * QcC)) : list QcC := map (fun i => lookup i nz) (seq 0 len).
Definition E := option (side * nat * nat * list (nat * QcC)).
Definition st_ok (m : option (@pstate QcC)) (e : E) : bool :=
  match m, e with
  | None, None => true
  | Some st, Some (s, nf, len, nz) => side_eqb (st_sides st) s && Nat.eqb (st_nfft st) nf && veq (st_psd st) (sparse len nz)
  | _, _ => false
  end.
(* all basis vectors of one (datatype, NFFT, path): exp has one entry per basis vector *)
Definition path_case (cplx : bool) (nfft L : nat) (path : list side) (exp : list E) : bool :=
  Nat.eqb (length exp) L &&
  forallb (fun ke => st_ok (@run_path _ qcc_ops path (@assign_psd QcC cplx nfft (basis L (fst ke)))) (snd ke))
          (combine (seq 0 L) exp).
Definition dense_case (cplx : bool) (nfft : nat) (path : list side) (v : list QcC) (e : option (side * nat * list QcC)) : bool :=
  match @run_path _ qcc_ops path (@assign_psd QcC cplx nfft v), e with
  | None, None => true
  | Some st, Some (s, nf, out) => side_eqb (st_sides st) s && Nat.eqb (st_nfft st) nf && veq (st_psd st) out
  | _, _ => false
  end.
Definition helper (h : nat) (x : list QcC) : list QcC :=
  match h with
  | 0%nat => @two2one _ qcc_ops x
  | 1%nat => @one2two_even _ qcc_ops x
  | 2%nat => @two2center _ qcc_ops x
  | _ => @center2two _ qcc_ops x
  end.
Definition helper_case (h n : nat) (exp : list (nat * list (nat * QcC))) : bool :=
  Nat.eqb (length exp) n &&
  forallb (fun ke => veq (helper h (basis n (fst ke))) (sparse (fst (snd ke)) (snd (snd ke)))) (combine (seq 0 n) exp).
Definition helper_dense (h : nat) (x out : list QcC) : bool := veq (helper h x) out.
Definition cshift_case (x : list QcC) (off : Z) (out : list QcC) : bool := veq (@cshift _ qcc_ops x off) out.
Definition bins_case (s : side) (n : nat) (l : list Z) : bool :=
  Nat.eqb (length l) (length (freq_bins s n)) && forallb (fun ab => Z.eqb (fst ab) (snd ab)) (combine (freq_bins s n) l).
"""


# ----------------------------------------------------------------------------- implementation runs
def make_object(cplx, nfft, vec, cls='Spectrum', sampling=1.0, intpsd=False):
    """an object of the requested datatype with a directly assigned psd"""
    from spectrum.psd import Spectrum, FourierSpectrum
    N = max(nfft, 4)
    data = np.arange(1., N + 1)
    if cplx:
        data = data + 1j * np.arange(N)
    if cls == 'FourierSpectrum':
        p = FourierSpectrum(data, sampling=sampling, NFFT=nfft)
    else:
        p = Spectrum(data, sampling=sampling, NFFT=nfft)
    if intpsd and not np.iscomplexobj(vec):
        p.psd = [int(t) for t in vec] if intpsd == 'list' else np.array(vec, dtype=np.int64)      # integer-valued PSD stored as given
    else:
        p.psd = np.array(vec, dtype=float) if not np.iscomplexobj(vec) else np.array(vec)
    return p


def run_path_impl(p, path):
    """apply p.sides = t for t in path; returns ('ok', None) or ('assert'|'error', repr)"""
    for t in path:
        try:
            p.sides = t
        except AssertionError as e:
            return 'assert', repr(e)
        except Exception as e:  # any other exception is never expected
            return 'error', repr(e)
    return 'ok', None


def stored(p):
    return p._Spectrum__psd


def nz_lit(v):
    v = np.asarray(v)
    idx = np.nonzero(v)[0]
    return '[' + '; '.join('(%d%%nat, %s)' % (i, cz(v[i])) for i in idx) + ']'


def path_lit(path):
    return '[' + '; '.join(SC[t] for t in path) + ']'


# ----------------------------------------------------------------------------- oracle (independent of the model)
def congr(d, sampling):
    d = np.asarray(d, dtype=float) / sampling
    return np.abs(d - np.round(d)) < 1e-9


def weight_matrix(fsrc, src_one, ftgt, tgt_one, sampling):
    """W[j, i] = weight with which the source entry at frequency fsrc[i] must appear in the target entry at ftgt[j]:
    frequencies equal modulo the sampling frequency (up to sign when one side is one-sided); an interior one-sided
    value (neither DC nor Nyquist) is split equally between +f and -f."""
    fs = np.asarray(fsrc, dtype=float)[None, :]
    ft = np.asarray(ftgt, dtype=float)[:, None]
    if src_one or tgt_one:
        m = congr(ft - fs, sampling) | congr(ft + fs, sampling)
    else:
        m = congr(ft - fs, sampling)
    W = m.astype(float)
    if src_one and not tgt_one:
        interior = ~(congr(fs, sampling) | congr(2 * fs, sampling))
        W = W * np.where(interior, 0.5, 1.0)
    return W


class Oracle:
    """expected conversions for one object, from ITS frequencies()"""

    def __init__(self, p):
        self.sampling = float(p.sampling)
        self.f = {s: np.asarray(p.frequencies(s), dtype=float) for s in SIDES}
        self.W = {}

    def matrix(self, s, t):
        if (s, t) not in self.W:
            self.W[(s, t)] = weight_matrix(self.f[s], s == 'onesided', self.f[t], t == 'onesided', self.sampling)
        return self.W[(s, t)]

    def axes_consistent(self, s, t):
        """every source frequency is present in the target axis with total weight one"""
        W = self.matrix(s, t)
        return W.shape[1] > 0 and np.allclose(W.sum(axis=0), 1.0)

    def expected(self, s, t, v):
        return self.matrix(s, t) @ np.asarray(v)


_ORACLES = {}


def oracle_for(p, cplx, nfft, cls, sampling):
    key = (cplx, nfft, cls, sampling)
    if key not in _ORACLES:
        # the matrices are N x N: keep the cache below ~400 MB whatever the budgets (escalated runs visit many large grids)
        if sum(w.size for o in _ORACLES.values() for w in o.W.values()) > 5e7:
            _ORACLES.clear()
        _ORACLES[key] = Oracle(p)
    return _ORACLES[key]


def close(a, b):
    a = np.asarray(a); b = np.asarray(b)
    if a.shape != b.shape:
        return False
    scale = max(1.0, float(np.max(np.abs(b))) if b.size else 1.0)
    return bool(np.all(np.abs(a - b) <= 1e-12 * scale))


def conf(cplx, nfft):
    return '%s/%s' % ('complex' if cplx else 'real', 'even' if nfft % 2 == 0 else 'odd')


def check_object(cplx, nfft, vec, path, cls='Spectrum', sampling=1.0, queries=True, obj=None, s0=None, intpsd=False):
    """run one path on the implementation and test every clause of C06 with the frequency-matching oracle.
    returns (failures [(key, what)], final) with final = None (raised) or (sides, NFFT, psd copy)"""
    bad = []
    p = obj if obj is not None else make_object(cplx, nfft, vec, cls, sampling, intpsd)
    c = conf(cplx, nfft)
    s0 = s0 or p.sides
    v0 = np.array(stored(p), copy=True)
    orc = oracle_for(p, cplx, nfft, cls, sampling) if obj is None else Oracle(p)
    if len(v0) != len(orc.f[s0]):
        return [('wf/harness/' + c, 'harness: assigned psd has not the length of frequencies(%s)' % s0)], None
    expect_assert = cplx and 'onesided' in path
    status, msg = run_path_impl(p, path)
    if status == 'assert':
        if not expect_assert:
            bad.append(('raises/sides_setter/' + c, 'AssertionError on an allowed path %s: %s' % (path, msg)))
        return bad, None
    if status == 'error':
        bad.append(('raises/sides_setter/' + c, 'exception on path %s: %s' % (path, msg)))
        return bad, None
    if expect_assert:
        bad.append(('raises/sides_setter/' + c, 'no AssertionError although complex data were asked for onesided (path %s)' % (path,)))
        return bad, (p.sides, p.NFFT, np.array(stored(p), copy=True))
    t = path[-1] if path else s0
    out = np.array(stored(p), copy=True)
    step = '%s->%s' % (path[-2] if len(path) >= 2 else s0, t)
    if p.sides != t:
        bad.append(('state/sides_setter/' + c, 'sides is %r after assigning %r' % (p.sides, t)))
    if not orc.axes_consistent(s0, t):
        bad.append(('axis/frequencies/%s->%s/%s' % (s0, t, c),
                    'frequencies(%s) does not contain each frequency of frequencies(%s) exactly once (modulo sampling%s)' % (
                        t, s0, ', up to sign' if 'onesided' in (s0, t) else '')))
    if len(out) != len(orc.f[t]):
        bad.append(('length/sides_setter/%s/%s' % (step, c), 'len(psd)=%d but len(frequencies(%s))=%d after path %s' % (len(out), t, len(orc.f[t]), path)))
    exp = orc.expected(s0, t, v0)
    if not close(out, exp):
        key = 'axis' if len(path) <= 1 else 'path'
        bad.append(('%s/sides_setter/%s/%s' % (key, step, c),
                    'psd after path %s from %s is %s; values carried along the frequency axes (= direct conversion) give %s' % (
                        path, s0, np.array2string(out, threshold=20), np.array2string(exp, threshold=20))))
    if abs(np.sum(out) - np.sum(v0)) > 1e-12 * max(1.0, float(np.sum(np.abs(v0)))):
        bad.append(('power/sides_setter/%s/%s' % (step, c), 'total power %r became %r after path %s' % (float(np.sum(v0)), float(np.sum(out)), path)))
    if path and t == s0 and not close(out, v0):
        bad.append(('roundtrip/sides_setter/%s/%s' % (step, c), 'returning to %s by path %s does not restore the original values' % (s0, path)))
    if queries:
        # pure queries from the final state: each twice, then the stored psd must be untouched and still convertible
        for u in SIDES:
            if cplx and u == 'onesided':
                try:
                    p.get_converted_psd(u)
                    bad.append(('raises/get_converted_psd/' + c, 'no AssertionError for complex data asked for onesided'))
                except AssertionError:
                    pass
                except Exception as e:
                    bad.append(('raises/get_converted_psd/' + c, 'exception %r' % e))
                continue
            expq = orc.expected(s0, u, v0)
            for rep in (1, 2):
                try:
                    q = np.array(p.get_converted_psd(u), copy=True)
                except Exception as e:
                    bad.append(('raises/get_converted_psd/%s->%s/%s' % (t, u, c), 'exception %r' % e)); break
                if len(q) != len(orc.f[u]):
                    bad.append(('length/get_converted_psd/%s->%s/%s' % (t, u, c), 'len=%d but len(frequencies(%s))=%d (state reached by %s)' % (len(q), u, len(orc.f[u]), path)))
                elif not close(q, expq):
                    bad.append(('%s/get_converted_psd/%s->%s/%s' % ('axis' if not path else 'path', t, u, c),
                                'query #%d get_converted_psd(%s) in the state reached by %s gives %s, the frequency axes require %s' % (
                                    rep, u, path, np.array2string(q, threshold=20), np.array2string(expq, threshold=20))))
                if not close(stored(p), out) or p.sides != t:
                    bad.append(('pure/get_converted_psd/%s->%s/%s' % (t, u, c),
                                'get_converted_psd(%s) changed the stored %s psd from %s to %s' % (u, t, np.array2string(out, threshold=20), np.array2string(np.asarray(stored(p)), threshold=20))))
                    break
    return bad, (p.sides, p.NFFT, out)


HELPERS = ['twosided_2_onesided', 'onesided_2_twosided', 'twosided_2_centerdc', 'centerdc_2_twosided']


def helper_axes(name, n_in):
    """(source sides, target sides, NFFT) a helper converts between, for an input of length n_in; None if out of its domain"""
    if name == 'twosided_2_onesided':
        return 'twosided', 'onesided', n_in
    if name == 'onesided_2_twosided':
        return ('onesided', 'twosided', 2 * n_in - 2) if n_in >= 2 else None   # documented for even NFFT only
    if name == 'twosided_2_centerdc':
        return 'twosided', 'centerdc', n_in
    return 'centerdc', 'twosided', n_in


def check_helper(name, x):
    """oracle check of one tools helper on one input (x symmetric when the source is a two-sided PSD folded to one side)"""
    from spectrum import tools
    from spectrum.psd import Range
    bad = []
    x = np.asarray(x, dtype=float)
    ax = helper_axes(name, len(x))
    if ax is None:
        return bad
    s, t, n = ax
    c = 'even' if n % 2 == 0 else 'odd'
    r = Range(n, 1.0)
    f = {'onesided': r.onesided, 'twosided': r.twosided, 'centerdc': r.centerdc}
    fs_, ft_ = np.asarray(f[s]()), np.asarray(f[t]())
    arg = x.copy()
    try:
        y = np.array(getattr(tools, name)(arg), copy=True)
    except Exception as e:
        return [('raises/tools.%s/%s' % (name, c), 'exception %r for an input of length %d' % (e, len(x)))]
    if not np.array_equal(arg, x):
        bad.append(('pure/tools.%s/%s' % (name, c), 'the helper modified its argument: %s became %s' % (np.array2string(x, threshold=20), np.array2string(arg, threshold=20))))
    if len(fs_) != len(x):
        return bad
    W = weight_matrix(fs_, s == 'onesided', ft_, t == 'onesided', 1.0)
    if len(y) != len(ft_):
        bad.append(('length/tools.%s/%s' % (name, c), 'len(result)=%d, len(Range(%d).%s())=%d' % (len(y), n, t, len(ft_))))
    elif not close(y, W @ x):
        bad.append(('axis/tools.%s/%s' % (name, c), 'result %s, frequency axes of Range(%d) require %s' % (np.array2string(y, threshold=20), n, np.array2string(W @ x, threshold=20))))
    if abs(np.sum(y) - np.sum(x)) > 1e-12 * max(1.0, float(np.sum(np.abs(x)))):
        bad.append(('power/tools.%s/%s' % (name, c), 'sum %r became %r' % (float(np.sum(x)), float(np.sum(y)))))
    return bad


def sym_basis(n, k):
    """k-th Hermitian-symmetric basis vector of length n (k <= n//2): e_k + e_{n-k}"""
    x = np.zeros(n)
    x[k] = 1.0
    x[(n - k) % n] = 1.0
    return x


def helper_inverse_failures(n):
    """the helpers are mutually inverse (round trip through the helpers alone)"""
    from spectrum import tools
    bad = []
    c = 'even' if n % 2 == 0 else 'odd'
    for k in range(n):
        e = np.zeros(n); e[k] = 1.0
        try:
            if not np.array_equal(tools.centerdc_2_twosided(tools.twosided_2_centerdc(e.copy())), e):
                bad.append(('roundtrip/tools.twosided_2_centerdc+centerdc_2_twosided/' + c, 'centerdc_2_twosided(twosided_2_centerdc(e_%d)) != e_%d for length %d' % (k, k, n)))
            if not np.array_equal(tools.twosided_2_centerdc(tools.centerdc_2_twosided(e.copy())), e):
                bad.append(('roundtrip/tools.centerdc_2_twosided+twosided_2_centerdc/' + c, 'twosided_2_centerdc(centerdc_2_twosided(e_%d)) != e_%d for length %d' % (k, k, n)))
        except Exception as ex:
            bad.append(('raises/tools.centerdc/' + c, repr(ex)))
    if n >= 2:
        for k in range(n):
            e = np.zeros(n); e[k] = 1.0
            try:
                if not np.array_equal(tools.twosided_2_onesided(tools.onesided_2_twosided(e.copy())), e):
                    bad.append(('roundtrip/tools.onesided_2_twosided+twosided_2_onesided/even', 'twosided_2_onesided(onesided_2_twosided(e_%d)) != e_%d for one-sided length %d' % (k, k, n)))
            except Exception as ex:
                bad.append(('raises/tools.onesided/even', repr(ex)))
    return bad


# ----------------------------------------------------------------------------- replay
def replay(rep):
    r = rep['replay']
    if r.get('site') == 'object':
        bad, _ = check_object(r['cplx'], r['nfft'], vlib.unhexv(r['psd']), r['path'], r.get('cls', 'Spectrum'), r.get('sampling', 1.0), intpsd=r.get('intpsd', False))
        return not bad
    if r.get('site') == 'tools':
        return not check_helper(r['helper'], vlib.unhexv(r['x']))
    if r.get('site') == 'tools-inverse':
        return not helper_inverse_failures(r['n'])
    if r.get('site') == 'estimator':
        return not estimator_failures(r['cls'], r['cplx'], r['N'], r['nfft'], r['seed'], r['path'])
    if r.get('site') == 'stale':
        return not stale_failures(r['cls'], r['cplx'], r['N'], r['nfft'], r['seed'], r['path'], r['what'], r['query'])
    if r.get('site') == 'arma2psd':
        return not arma_failures(r['nfft'])
    return True


def estimator_failures(clsname, cplx, N, nfft, seed, path):
    """conversions of a PSD computed by an estimator class (float data)"""
    import spectrum
    rng = np.random.default_rng(seed)
    x = rng.standard_normal(N) + (1j * rng.standard_normal(N) if cplx else 0)
    if clsname == 'Periodogram':
        p = spectrum.Periodogram(x, NFFT=nfft, sampling=2.0)
    elif clsname == 'pburg':
        p = spectrum.pburg(x, 3, NFFT=nfft, sampling=2.0)
    else:
        p = spectrum.pcorrelogram(x, lag=4, NFFT=nfft, sampling=2.0)
    _ = p.psd
    bad, _ = check_object(cplx, nfft, None, path, obj=p)
    return [(k.replace('/sides_setter/', '/%s.sides_setter/' % clsname).replace('/get_converted_psd/', '/%s.get_converted_psd/' % clsname), w) for k, w in bad]


def stale_failures(clsname, cplx, N, nfft, seed, path, what, query):
    """a conversion asked of an object whose stored PSD is in a NON-default representation and has gone stale (an attribute changed
    since it was computed, nothing read in between): the result must be the conversion of the up-to-date estimate"""
    import spectrum
    rng = np.random.default_rng(seed)
    x = rng.standard_normal(N) + (1j * rng.standard_normal(N) if cplx else 0)

    def make(fs, sbf):
        if clsname == 'Periodogram':
            return spectrum.Periodogram(x, NFFT=nfft, sampling=fs, scale_by_freq=sbf)
        if clsname == 'pburg':
            return spectrum.pburg(x, 3, NFFT=nfft, sampling=fs, scale_by_freq=sbf)
        return spectrum.pcorrelogram(x, lag=4, NFFT=nfft, sampling=fs, scale_by_freq=sbf)
    p = make(2.0, False)
    _ = p.psd
    for t in path[:-1]:
        p.sides = t
    fs, sbf = 2.0, False
    if what == 'sampling':
        fs = 5.0; p.sampling = fs
    else:
        sbf = True; p.scale_by_freq = sbf
    t = path[-1]
    f = make(fs, sbf); v0 = np.array(f.psd, copy=True); s0 = f.sides
    orc = Oracle(f)
    exp = orc.expected(s0, t, v0)
    c = conf(cplx, nfft)
    try:
        if query:
            out = np.array(p.get_converted_psd(t), copy=True)
        else:
            p.sides = t; out = np.array(p.psd, copy=True)
    except Exception as e:
        return [('raises/%s.stale/%s' % (clsname, c), 'exception %r converting a stale PSD to %s' % (e, t))]
    site = '%s.%s_on_stale_psd' % (clsname, 'get_converted_psd' if query else 'sides_setter')
    if len(out) != len(orc.f[t]):
        return [('length/%s/%s' % (site, c), 'len=%d but len(frequencies(%s))=%d (stored representation %s, %s changed since it was computed)' % (
            len(out), t, len(orc.f[t]), path[-2] if len(path) >= 2 else s0, what))]
    sc = max(1e-300, float(np.max(np.abs(exp))))
    if not np.all(np.abs(out - exp) <= 1e-9 * sc):
        return [('axis/%s/%s' % (site, c), 'the conversion to %s of a stale PSD stored as %s (%s changed) is not the conversion of the up-to-date estimate (max rel dev %.3g)' % (
            t, path[-2] if len(path) >= 2 else s0, what, float(np.max(np.abs(out - exp))) / sc))]
    return []


def arma_failures(nfft):
    from spectrum.arma import arma2psd
    from spectrum.psd import Range
    two = arma2psd(A=[0.5, 0.25], B=[0.25], NFFT=nfft, sides='default')
    cen = arma2psd(A=[0.5, 0.25], B=[0.25], NFFT=nfft, sides='centerdc')
    r = Range(nfft, 1.0)
    W = weight_matrix(r.twosided(), False, r.centerdc(), False, 1.0)
    c = 'even' if nfft % 2 == 0 else 'odd'
    if len(cen) != len(r.centerdc()) or not close(cen, W @ two):
        return [('axis/arma2psd/centerdc/' + c, 'arma2psd(sides=centerdc) is not the default PSD carried to Range(%d).centerdc()' % nfft)]
    return []


# ----------------------------------------------------------------------------- run
def all_paths(maxlen):
    out = [()]
    for l in range(1, maxlen + 1):
        out += list(itertools.product(SIDES, repeat=l))
    return out


def onesided_len(n):
    return n // 2 + 1 if n % 2 == 0 else (n + 1) // 2


def run(ctx):
    from spectrum import tools
    from spectrum.psd import Range
    rng = ctx.rng
    ctx.check_theorems('Properties/C06.v')

    nmax = ctx.q(24, 64)
    maxlen = ctx.q(3, 4)
    paths = all_paths(maxlen)
    classes = ['Spectrum', 'FourierSpectrum']
    samplings = [1.0, 1024.0, 0.5]
    seen_keys = set()

    def report(bad, replay_dict):
        for key, what in bad:
            if key in seen_keys:
                continue
            seen_keys.add(key)
            ctx.violation(key, what, replay_dict)

    # ---------------- frequency axes: Range vs freq_bins
    cases = []; meta = []
    for n in range(1, nmax + 1):
        for s in SIDES:
            r = Range(n, 1.0)
            f = np.asarray({'onesided': r.onesided, 'twosided': r.twosided, 'centerdc': r.centerdc}[s]())
            b = f / r.df
            bins = np.round(b)
            if np.max(np.abs(b - bins)) > 1e-9:
                # half-integer (or otherwise off-grid) bins: written scaled so that the comparison fails inside Coq
                bins = np.round(b * 2) + 10 ** 6
            cases.append('bins_case %s %d%%nat [%s]' % (SC[s], n, '; '.join('(%d)' % int(t) for t in bins)))
            meta.append({'function': 'Range.%s' % s, 'N': n})
            ctx.count('Range/%s' % s)
            ctx.case(('Range', s, n), nontrivial=(n >= 3))
    for i in ctx.coq_cases('c06_bins', PRE, cases, descr='Range.onesided/twosided/centerdc vs Model.Convert.freq_bins (integer bins)'):
        ctx.corr_disagreement('Range', i, meta[i])

    # ---------------- object API: all basis vectors x all paths x real/complex x NFFT (exhaustive)
    cases = []; meta = []
    for nfft in range(1, nmax + 1):
        for cplx in (False, True):
            L = nfft if cplx else onesided_len(nfft)
            cls = classes[(nfft + int(cplx)) % 2]
            sampling = samplings[nfft % 3]
            for path in paths:
                exps = []
                for k in range(L):
                    e = np.zeros(L); e[k] = 1.0
                    # queries at the end of the longest paths and of every path of length <= 2 (pure-query clause)
                    bad, fin = check_object(cplx, nfft, e, list(path), cls, sampling, queries=(len(path) <= 2 or len(path) == maxlen))
                    report(bad, {'site': 'object', 'cls': cls, 'cplx': cplx, 'nfft': nfft, 'sampling': sampling, 'psd': vlib.hexv(e), 'path': list(path)})
                    if fin is None:
                        exps.append('None')
                    else:
                        exps.append('Some (%s, %d%%nat, %d%%nat, %s)' % (SC[fin[0]], fin[1], len(fin[2]), nz_lit(fin[2])))
                    ctx.case(('object', cplx, nfft, k, path), nontrivial=(nfft >= 3 and len(set((('twosided' if cplx else 'onesided'),) + path)) >= 2),
                             sample={'datatype': 'complex' if cplx else 'real', 'NFFT': nfft, 'basis_vector': k, 'path': list(path), 'class': cls})
                cases.append('path_case %s %d%%nat %d%%nat %s [%s]' % ('true' if cplx else 'false', nfft, L, path_lit(path), '; '.join(exps)))
                meta.append({'site': 'object', 'cls': cls, 'cplx': cplx, 'nfft': nfft, 'path': list(path), 'vectors': 'all %d basis vectors' % L})
                ctx.count('object/%s/%s/len%d' % ('complex' if cplx else 'real', 'even' if nfft % 2 == 0 else 'odd', len(path)), L)
    ctx.extra['exhaustive'] = {'object_api': 'all basis vectors x all paths of length <= %d x real/complex x NFFT 1..%d' % (maxlen, nmax),
                               'tools_helpers': 'all basis vectors of every length 1..%d' % nmax}
    for i in ctx.coq_cases('c06_paths', PRE, cases, shard=120, descr='p.psd = e_k; p.sides = t ... vs Model.Convert.run_path/assign_psd at QcC, exact'):
        ctx.corr_disagreement('sides_setter', i, meta[i])

    # ---------------- object API: random small-integer vectors (real: any one-sided vector; complex: any two-sided vector)
    cases = []; meta = []
    for it in range(ctx.q(150, 1200)):
        nfft = int(rng.integers(1, nmax + 1)); cplx = bool(rng.integers(0, 2))
        L = nfft if cplx else onesided_len(nfft)
        v = rng.integers(0, 64, size=L).astype(float)
        ln = int(rng.integers(1, maxlen + 3))
        pool = SIDES[1:] if (cplx and rng.integers(0, 4) > 0) else SIDES
        path = [pool[int(t)] for t in rng.integers(0, len(pool), size=ln)]
        cls = classes[it % 2]; sampling = samplings[it % 3]
        intpsd = [False, False, 'array', 'list'][it % 4]
        bad, fin = check_object(cplx, nfft, v, path, cls, sampling, intpsd=intpsd)
        report(bad, {'site': 'object', 'cls': cls, 'cplx': cplx, 'nfft': nfft, 'sampling': sampling, 'psd': vlib.hexv(v), 'path': path, 'intpsd': intpsd})
        e = 'None' if fin is None else 'Some (%s, %d%%nat, %s)' % (SC[fin[0]], fin[1], czl(fin[2]))
        cases.append('dense_case %s %d%%nat %s %s (%s)' % ('true' if cplx else 'false', nfft, path_lit(path), czl(v), e))
        meta.append({'site': 'object', 'cls': cls, 'cplx': cplx, 'nfft': nfft, 'path': path, 'psd': vlib.hexv(v)})
        ctx.count('object-random/%s' % ('complex' if cplx else 'real'))
        ctx.case(('object-random', cplx, nfft, v.tobytes(), tuple(path)), nontrivial=(nfft >= 3))
    for i in ctx.coq_cases('c06_random', PRE, cases, descr='random integer PSD vectors, random paths (length <= %d), vs run_path' % (maxlen + 2)):
        ctx.corr_disagreement('sides_setter(random)', i, meta[i])

    # ---------------- object API on LARGE grids and many sampling rates (implementation vs the frequency-matching oracle only):
    # every grid on which the axis arithmetic is inexact in binary64 (the reported Nyquist frequency (NFFT/2)*(sampling/NFFT) differs from
    # sampling/2, or df*NFFT from sampling) -- a conversion that consults frequencies() instead of the lengths goes wrong exactly there --
    # plus a random sample of the other grids
    big_s = [1.0, 2.0, 1024.0, 1000.0, 8000.0, 44100.0, 0.1, 1.0 / 3.0, 1e-3, 1e6]
    top = ctx.q(512, 2048)
    sens = [(n, sp) for sp in big_s for n in range(nmax + 1, top + 1)
            if (n // 2) * (sp / n) != sp / 2 * (1 if n % 2 == 0 else (n - 1) / n) or (sp / n) * n != sp]
    sens = [sens[int(i)] for i in rng.choice(len(sens), size=min(len(sens), ctx.q(160, 1500)), replace=False)] if sens else []
    rand = [(int(rng.integers(nmax + 1, top + 1)), float(rng.choice(big_s))) for _ in range(ctx.q(60, 400))]
    for it, (nfft, sampling) in enumerate(sens + rand):
        cplx = bool(it % 3 == 2)
        L = nfft if cplx else onesided_len(nfft)
        v = rng.integers(0, 64, size=L).astype(float)
        pool = SIDES[1:] if cplx else SIDES
        path = [pool[int(t)] for t in rng.integers(0, len(pool), size=int(rng.integers(1, 3)))]
        cls = classes[it % 2]
        bad, fin = check_object(cplx, nfft, v, path, cls, sampling)
        report(bad, {'site': 'object', 'cls': cls, 'cplx': cplx, 'nfft': nfft, 'sampling': sampling, 'psd': vlib.hexv(v), 'path': path})
        ctx.count('object-large/%s/%s' % ('complex' if cplx else 'real', 'rounding-sensitive grid' if it < len(sens) else 'random grid'))
        ctx.case(('object-large', cplx, nfft, sampling, v.tobytes(), tuple(path)), nontrivial=True,
                 sample={'NFFT': nfft, 'sampling': sampling, 'datatype': 'complex' if cplx else 'real', 'path': path} if it % 40 == 0 else None)
    _ORACLES.clear()

    # ---------------- tools helpers: all basis vectors of every length
    cases = []; meta = []
    for h, name in enumerate(HELPERS):
        fn = getattr(tools, name)
        for n in range(1, nmax + 1):
            exps = []
            for k in range(n):
                e = np.zeros(n); e[k] = 1.0
                try:
                    y = np.asarray(fn(e.copy()))
                    exps.append('(%d%%nat, %s)' % (len(y), nz_lit(y)))
                except Exception as ex:
                    exps.append('(%d%%nat, [])' % (10 ** 6))   # never equal to the model's output
                    report([('raises/tools.%s/%s' % (name, 'even' if n % 2 == 0 else 'odd'), 'exception %r on a basis vector of length %d' % (ex, n))],
                           {'site': 'tools', 'helper': name, 'x': vlib.hexv(e)})
                ctx.case(('tools', name, n, k), nontrivial=(n >= 3))
            cases.append('helper_case %d%%nat %d%%nat [%s]' % (h, n, '; '.join(exps)))
            meta.append({'site': 'tools', 'helper': name, 'length': n})
            ctx.count('tools/%s' % name, n)
            # oracle: two-sided sources folded to one side must be symmetric; the others take every basis vector
            if name == 'twosided_2_onesided':
                inputs = [sym_basis(n, k) for k in range(n // 2 + 1)]
            else:
                inputs = [np.eye(n)[k] for k in range(n)]
            for x in inputs:
                report(check_helper(name, x), {'site': 'tools', 'helper': name, 'x': vlib.hexv(x)})
        for it in range(ctx.q(20, 100)):
            n = int(rng.integers(1, nmax + 1))
            x = rng.integers(0, 64, size=n).astype(float)
            try:
                y = np.asarray(fn(x.copy()))
            except Exception as ex:
                report([('raises/tools.%s/%s' % (name, 'even' if n % 2 == 0 else 'odd'), 'exception %r on an input of length %d' % (ex, n))],
                       {'site': 'tools', 'helper': name, 'x': vlib.hexv(x)})
                y = np.zeros(10 ** 3)
            cases.append('helper_dense %d%%nat %s %s' % (h, czl(x), czl(y)))
            meta.append({'site': 'tools', 'helper': name, 'x': vlib.hexv(x)})
            if name == 'twosided_2_onesided':
                x = x + np.concatenate(([x[0]], x[:0:-1]))       # symmetrise for the oracle
            report(check_helper(name, x), {'site': 'tools', 'helper': name, 'x': vlib.hexv(x)})
            ctx.case(('tools-random', name, x.tobytes()), nontrivial=(n >= 3))
    for n in range(1, nmax + 1):
        report(helper_inverse_failures(n), {'site': 'tools-inverse', 'n': n})
        ctx.case(('tools-inverse', n), nontrivial=(n >= 3))
    # cshift (no longer used by the conversions; kept in the model)
    for it in range(ctx.q(40, 200)):
        n = int(rng.integers(1, 12)); off = int(rng.integers(-2 * n - 1, 2 * n + 2))
        x = rng.integers(-8, 9, size=n).astype(float)
        y = tools.cshift(x, off)
        cases.append('cshift_case %s (%d) %s' % (czl(x), off, czl(y)))
        meta.append({'site': 'tools', 'helper': 'cshift', 'x': vlib.hexv(x), 'offset': off})
        ctx.case(('cshift', x.tobytes(), off), nontrivial=(n >= 3 and off % n != 0))
        ctx.count('tools/cshift')
    for i in ctx.coq_cases('c06_tools', PRE, cases, shard=60, descr='tools.twosided_2_onesided, onesided_2_twosided, twosided_2_centerdc, centerdc_2_twosided, cshift vs the model, exact'):
        ctx.corr_disagreement('tools', i, meta[i])

    # ---------------- search only: PSDs computed by estimator classes, arma2psd(sides='centerdc')
    for it in range(ctx.q(40, 300)):
        clsname = ['Periodogram', 'pburg', 'pcorrelogram'][it % 3]
        cplx = bool(rng.integers(0, 2)); N = int(rng.integers(8, 20)); nfft = int(rng.integers(N, N + 12))
        seed = int(rng.integers(0, 2 ** 31))
        pool = SIDES[1:] if cplx else SIDES
        path = [pool[int(t)] for t in rng.integers(0, len(pool), size=int(rng.integers(1, maxlen + 2)))]
        rep = {'site': 'estimator', 'cls': clsname, 'cplx': cplx, 'N': N, 'nfft': nfft, 'seed': seed, 'path': path}
        try:
            bad = estimator_failures(clsname, cplx, N, nfft, seed, path)
        except Exception as e:
            bad = [('raises/%s/%s' % (clsname, conf(cplx, nfft)), 'exception %r while computing / converting the PSD' % e)]
        report(bad, rep)
        ctx.count('estimator/%s/%s' % (clsname, conf(cplx, nfft)))
        ctx.case(('estimator', clsname, cplx, N, nfft, seed, tuple(path)), sample=rep)
    for it in range(ctx.q(48, 400)):
        clsname = ['Periodogram', 'pburg', 'pcorrelogram'][it % 3]
        cplx = bool((it // 3) % 2); N = int(rng.integers(8, 20)); nfft = int(rng.integers(N, N + 12))
        seed = int(rng.integers(0, 2 ** 31))
        pool = SIDES[1:] if cplx else SIDES
        path = [pool[int(t)] for t in rng.integers(0, len(pool), size=int(rng.integers(2, 4)))]
        what = ['sampling', 'scale_by_freq'][(it // 6) % 2]; query = bool((it // 12) % 2)
        rep = {'site': 'stale', 'cls': clsname, 'cplx': cplx, 'N': N, 'nfft': nfft, 'seed': seed, 'path': path, 'what': what, 'query': query}
        try:
            bad = stale_failures(clsname, cplx, N, nfft, seed, path, what, query)
        except Exception as e:
            bad = [('raises/%s.stale/%s' % (clsname, conf(cplx, nfft)), 'exception %r' % e)]
        report(bad, rep)
        ctx.count('stale/%s/%s/%s' % (clsname, conf(cplx, nfft), what))
        ctx.case(('stale', clsname, cplx, N, nfft, seed, tuple(path), what, query), sample=rep if it < 2 else None)
    for nfft in range(3, nmax + 1):
        try:
            bad = arma_failures(nfft)
        except Exception as e:
            bad = [('raises/arma2psd/centerdc', repr(e))]
        report(bad, {'site': 'arma2psd', 'nfft': nfft})
        ctx.case(('arma2psd', nfft), nontrivial=(nfft >= 3))
