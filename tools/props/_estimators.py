"""Registry of the PSD classes and functional estimators of spectrum, used by the cross-cutting
properties (C02-C05, C08).  Everything goes through the public API of the snapshot."""
import numpy as np

CLASSES = ['Periodogram', 'pcorrelogram', 'pburg', 'pyule', 'pcovar', 'pmodcovar', 'parma', 'pma',
           'pminvar', 'pmusic', 'pev', 'MultiTapering']
AR_FAMILY = ['pburg', 'pyule', 'pcovar', 'pmodcovar', 'parma', 'pma']      # spectra built by arma2psd
FOURIER = ['Periodogram', 'pcorrelogram']
SUBSPACE = ['pmusic', 'pev']


# every name create_window accepts without a mandatory shape parameter (a fixed list: the relations the cross-cutting properties state hold
# for any real symmetric taper, and a change may concern ONE named window only)
ALL_WINDOWS = ['bartlett', 'bartlett_hann', 'blackman', 'blackman_harris', 'blackman_nuttall', 'bohman', 'cauchy', 'chebwin', 'cosine',
               'flattop', 'gaussian', 'hamming', 'hann', 'hanning', 'kaiser', 'lanczos', 'nuttall', 'parzen', 'poisson', 'poisson_hanning',
               'rectangle', 'rectangular', 'riemann', 'riesz', 'sinc', 'sine', 'taylor', 'triangular', 'tukey']


def pick_window(rng, usual):
    """one of the usual names half of the time, any admissible name otherwise"""
    u = str(rng.choice(usual)); a = ALL_WINDOWS[int(rng.integers(0, len(ALL_WINDOWS)))]
    return u if rng.integers(0, 2) else a


def default_cfg(cls, N, rng, cplx, tone=False):
    """order-like parameters in the documented domain of the class (small, well inside the domain)"""
    if cls == 'Periodogram':
        return {'window': pick_window(rng, ['hann', 'hamming', 'rectangular', 'blackman'])}
    if cls == 'pcorrelogram':
        return {'lag': int(rng.integers(2, max(3, min(N // 2, 12)))), 'window': pick_window(rng, ['hamming', 'hann', 'rectangular'])}
    if cls in ('pburg', 'pyule', 'pcovar', 'pmodcovar'):
        return {'order': int(rng.integers(1, max(2, min(N // 4, 8))))}
    if cls == 'parma':
        P = int(rng.integers(1, 4)); Q = int(rng.integers(1, 4))
        # lag >= 2P: the modified Yule-Walker least-squares step (covariance method of order P on `lag` lags) must not be
        # under-determined, otherwise the AR part is 0/0 rounding noise (degenerate configuration, outside every property)
        lo = max(Q, 2 * P) + 2
        lag = int(rng.integers(lo, max(lo, min(lo + 6, N - 2 * P + Q)) + 1))     # documented domain: lag + 2P - Q <= N
        return {'P': P, 'Q': Q, 'lag': lag}
    if cls == 'pma':
        Q = int(rng.integers(1, 4)); M = int(rng.integers(Q + 2, Q + 10))
        return {'Q': Q, 'M': M}
    if cls == 'pminvar':
        return {'order': int(rng.integers(2, max(3, min(N // 4, 8))))}
    if cls in ('pmusic', 'pev'):
        IP = int(rng.integers(3, max(4, min(N // 3, 8))))
        return {'IP': IP, 'NSIG': int(rng.integers(1, IP))}
    if cls == 'MultiTapering':
        NW = float(rng.choice([2.0, 2.5, 3.0])); k = int(rng.integers(1, int(2 * NW)))
        return {'NW': NW, 'k': k, 'method': str(rng.choice(['unity', 'eigen', 'adapt']))}
    raise KeyError(cls)


ROUTES = ['fresh', 'data_assigned', 'data_inplace', 'data_refilled', 'sampling_assigned', 'nfft_assigned', 'scale_assigned',
          # histories through a NON-default representation (sides), staleness and the scale_by_freq toggle; all end in the default layout
          'sides_first', 'sides_then_stale', 'sides_same_after_stale', 'stale_then_scale_toggle', 'datatype_flip', 'sides_call_call',
          'data_other_length', 'stale_then_reassign_all', 'sides_roundtrip', 'sides_chain', 'stale_sides_call', 'detrend_toggle',
          'deepcopy_equal', 'deepcopy_independent', 'second_instance_after', 'second_instance_between', 'sides_stale_sides', 'shallow_copy_mutated']
NO_AXIS_ROUTES = {'shallow_copy_mutated'}       # a shallow copy shares the frequency-axis object with its original (by definition of a shallow copy)


def pick_route(rng, p_fresh=0.5):
    """how the object under test comes to hold its settings: freshly constructed, or an object that already computed an estimate for
    OTHER data / sampling / NFFT / scale_by_freq and was then given the wanted values through its attributes.  The relations the
    properties state are about estimator OBJECTS, not only about constructor calls."""
    R = [r for r in ROUTES[1:] if r not in NO_AXIS_ROUTES]
    return 'fresh' if rng.random() < p_fresh else R[int(rng.integers(0, len(R)))]


def route_for(x, *salt):
    """a route and a scale_by_freq flag derived from the case itself (so that a replay needs no extra field): half of the cases fresh"""
    import zlib
    h = zlib.crc32(np.ascontiguousarray(np.asarray(x)).tobytes() + repr(salt).encode())
    R = [r for r in ROUTES[1:] if r not in NO_AXIS_ROUTES]      # (a shallow copy shares the axis object with its original: psd-only route of route_consistency)
    route = 'fresh' if h % 2 == 0 else R[(h // 2) % len(R)]
    return route, bool((h // 64) % 2)


def build(cls, x, cfg, NFFT=None, sampling=1.0, scale_by_freq=False, route='fresh', prev=None):
    """an object of class cls holding data x and the given settings, reached by `route` (see pick_route)"""
    return via(lambda d, n, s, b: _construct(cls, d, cfg, n, s, b), x, NFFT, sampling, scale_by_freq, route, prev)


def via(make, x, NFFT, sampling, scale_by_freq, route='fresh', prev=None):
    """make(data, NFFT, sampling, scale_by_freq) constructs an object; returns one holding (x, NFFT, sampling, scale_by_freq) reached by
    `route`: constructed with them, or constructed with another value of ONE of them, evaluated, and then given the wanted value
    through the attribute."""
    x = np.asarray(x)
    if route in (None, 'fresh') or (route == 'nfft_assigned' and not isinstance(NFFT, (int, np.integer))):
        return make(x, NFFT, sampling, scale_by_freq)
    # the data the object held before: `prev` (e.g. the untransformed record: the caller studies x -> T(x) on ONE object) or, by
    # default, other values of the same length and dtype kind
    other = np.ascontiguousarray(x[::-1]) * 0.75 + (0.5 + (0.25j if np.iscomplexobj(x) else 0)) * max(float(np.max(np.abs(x))), 1e-300)
    if prev is not None and np.shape(prev) == x.shape and np.iscomplexobj(prev) == np.iscomplexobj(x):
        other = np.array(prev)
    if route == 'data_assigned':
        p = make(other, NFFT, sampling, scale_by_freq); _ = p.psd
        p.data = x
    elif route == 'data_inplace':
        p = make(x / 2, NFFT, sampling, scale_by_freq); _ = p.psd
        p.data *= 2                             # getter hands out the array, scaled in place, setter receives that very array
    elif route == 'data_refilled':
        p = make(other, NFFT, sampling, scale_by_freq); _ = p.psd
        d = p.data; d[...] = x; p.data = d
    elif route == 'sampling_assigned':
        p = make(x, NFFT, sampling * 2, scale_by_freq); _ = p.psd
        p.sampling = sampling
    elif route == 'nfft_assigned':
        p = make(x, NFFT + 3, sampling, scale_by_freq); _ = p.psd
        p.NFFT = NFFT
    elif route == 'scale_assigned':
        p = make(x, NFFT, sampling, not scale_by_freq); _ = p.psd
        p.scale_by_freq = scale_by_freq
    elif route == 'sides_first':
        # a non-default representation chosen BEFORE the first computation, estimate read in it, then back to the default
        p = make(x, NFFT, sampling, scale_by_freq)
        p.sides = _alt_sides(x, 0); _ = p.psd
        p.sides = 'default'
    elif route == 'sides_then_stale':
        # computed, moved to a non-default representation, made stale (new data), recomputed by the read, back to the default
        p = make(other, NFFT, sampling, scale_by_freq); _ = p.psd
        p.sides = _alt_sides(x, 1)
        p.data = x
        _ = p.psd
        p.sides = 'default'
    elif route == 'sides_same_after_stale':
        # made stale, then `sides` assigned the value it already has (a no-op conversion must not mark the stale estimate fresh)
        p = make(other, NFFT, sampling, scale_by_freq); _ = p.psd
        p.data = x
        p.sides = p.sides
    elif route == 'stale_then_scale_toggle':
        # sampling changed (estimate stale, not read), then scale_by_freq toggled: the toggle must not revive the stale estimate
        p = make(x, NFFT, sampling * 2, not scale_by_freq); _ = p.psd
        p.sampling = sampling
        p.scale_by_freq = scale_by_freq
    elif route == 'datatype_flip':
        # the same object holds real, complex, real (or complex, real, complex) records in turn
        flip = (other + 0j) if not np.iscomplexobj(x) else np.real(other).copy()
        p = make(other, NFFT, sampling, scale_by_freq); _ = p.psd
        p.data = flip; _ = p.psd
        p.data = x
    elif route == 'data_other_length':
        # the object held a record of ANOTHER length before; the NFFT specification (None / 'nextpow2' / an integer) is re-assigned afterwards
        longer = np.tile(other, 6)[:6 * len(other) - 3] * (1 + 0.01 * np.arange(6 * len(other) - 3) / len(other))      # a much longer record
        p = make(longer, NFFT, sampling, scale_by_freq); _ = p.psd
        p.data = x
        p.NFFT = NFFT
    elif route == 'stale_then_reassign_all':
        # made stale, then every settable attribute re-assigned with the value it already has: none of them may revive the stale estimate
        p = make(other, NFFT, sampling, scale_by_freq); _ = p.psd
        p.data = x
        for attr in ('ar_order', 'ma_order', 'lag', 'window', 'detrend', 'scale_by_freq', 'sampling'):
            try:
                v = getattr(p, attr)
            except Exception:
                continue
            if v is not None or attr == 'detrend':
                try:
                    setattr(p, attr, v)
                except Exception:
                    pass
    elif route == 'sides_roundtrip':
        # an up-to-date estimate converted to a non-default representation, read there, and converted back
        p = make(x, NFFT, sampling, scale_by_freq); _ = p.psd
        p.sides = _alt_sides(x, 1); _ = p.psd
        p.sides = 'default'
    elif route == 'sides_chain':
        # ... through every other representation in turn (real: onesided -> centerdc -> twosided -> onesided; complex: via get_converted_psd too)
        p = make(x, NFFT, sampling, scale_by_freq); _ = p.psd
        p.sides = 'centerdc'
        _ = p.get_converted_psd('twosided')
        if not np.iscomplexobj(x):
            p.sides = 'twosided'
        p.sides = 'default'
    elif route == 'stale_sides_call':
        # explicit computation, new data, a `sides` assignment BEFORE anything recomputes, explicit computation again
        p = make(other, NFFT, sampling, scale_by_freq); p()
        p.data = x
        p.sides = _alt_sides(x, 0)
        p()
        p.sides = 'default'
    elif route == 'detrend_toggle':
        # another detrend setting used for one computation, then the original one restored
        p = make(x, NFFT, sampling, scale_by_freq)
        v0 = p.detrend
        p.detrend = 'mean' if v0 != 'mean' else None
        p()
        p.detrend = v0
    elif route == 'deepcopy_equal':
        import copy
        q = make(x, NFFT, sampling, scale_by_freq); _ = q.psd
        p = copy.deepcopy(q)
        p.data = x                                  # (re-assigned: the copy recomputes by itself)
    elif route == 'deepcopy_independent':
        import copy
        p = make(x, NFFT, sampling, scale_by_freq); _ = p.psd
        q = copy.deepcopy(p)
        q.data = other; q.sampling = sampling * 3
        if isinstance(NFFT, (int, np.integer)):
            q.NFFT = NFFT + 5
        _ = q.psd
        p.scale_by_freq = scale_by_freq
        p.data = x
    elif route == 'sides_stale_sides':
        # computed, moved to a non-default representation, made stale (new data, nothing read), and moved back by a `sides` assignment:
        # the assignment has to recompute first and convert the NEW estimate from the layout it is really in
        p = make(other, NFFT, sampling, scale_by_freq); _ = p.psd
        p.sides = _alt_sides(x, 1)
        p.data = x
        p.sides = 'default'
    elif route == 'second_instance_after':
        # ANOTHER object of the same class is constructed and evaluated (other data, other sampling) after this one was: nothing of it may
        # show through this one (state kept at class or module level)
        p = make(x, NFFT, sampling, scale_by_freq); _ = p.psd
        q = make(other, NFFT, sampling * 3, scale_by_freq); q()
    elif route == 'second_instance_between':
        # both objects exist before either is evaluated; the other one is evaluated last
        p = make(x, NFFT, sampling, scale_by_freq)
        q = make(other, NFFT, sampling * 3, not scale_by_freq)
        p(); q()
        try:
            q.data = other * 2; _ = q.psd
        except Exception:
            pass
    elif route == 'shallow_copy_mutated':
        import copy
        if scale_by_freq:
            return make(x, NFFT, sampling, scale_by_freq)      # (a shallow copy shares the axis object: df, hence the scaling, is shared too)
        p = make(x, NFFT, sampling, scale_by_freq); _ = p.psd
        q = copy.copy(p)
        q.NFFT = int(p.NFFT) + 5
        p.data = x
    elif route == 'sides_call_call':
        # explicit computations while a non-default representation is selected
        p = make(other, NFFT, sampling, scale_by_freq); p()
        p.sides = _alt_sides(x, 2)
        p.data = x
        p()
        p.sides = 'default'
    else:
        raise KeyError(route)
    return p


# class-specific settings: configuration key -> attribute of the object
CFG_ATTRS = {'Periodogram': {'window': 'window'}, 'pcorrelogram': {'lag': 'lag', 'window': 'window'},
             'pburg': {'order': 'ar_order', 'criteria': 'criteria'}, 'pyule': {'order': 'ar_order'}, 'pcovar': {'order': 'ar_order'}, 'pmodcovar': {'order': 'ar_order'},
             'pminvar': {'order': 'ar_order'}, 'parma': {'P': 'ar_order', 'Q': 'ma_order', 'lag': 'lag'}, 'pma': {'Q': 'ma_order', 'M': 'ar_order'},
             'pmusic': {'IP': 'ar_order', 'NSIG': 'NSIG'}, 'pev': {'IP': 'ar_order', 'NSIG': 'NSIG'},
             'MultiTapering': {'NW': 'NW', 'k': 'k', 'method': 'method'}}
# a plain (untracked) attribute and a value the estimator rejects at computation time
FAILING = {'pmusic': ('NSIG', lambda p: int(p.ar_order)), 'pev': ('NSIG', lambda p: int(p.ar_order)),
           'MultiTapering': ('NW', lambda p: float(p.N)), 'pburg': ('criteria', lambda p: 'no-such-criterion')}


PLAIN_ATTRS = {'NSIG', 'NW', 'k', 'method', 'criteria', 'threshold'}


def _alt_value(key, v):
    if key == 'criteria':
        return None if v else 'AIC'              # order selection switched off / on
    if isinstance(v, str):
        if key == 'window':
            return 'bartlett' if v != 'bartlett' else 'hann'
        if key == 'method':
            return 'unity' if v != 'unity' else 'eigen'
        return v
    if isinstance(v, float):
        return v + 0.5
    return v - 1 if v >= 2 else v + 1


def config_routes(cls, cfg):
    out = []
    for key, attr in CFG_ATTRS.get(cls, {}).items():
        if key in cfg and _alt_value(key, cfg[key]) != cfg[key]:
            out += ['cfg_assigned:%s' % key, 'cfg_roundtrip:%s' % key]
    if cls in FAILING:
        out.append('failed_compute_recovery')
    return out


def via_config(cls, cfg, x, NFFT, sampling, scale_by_freq, route):
    """routes through the class-specific settings: constructed with ANOTHER value of one setting, evaluated, the wanted value assigned
    (cfg_assigned); the setting changed, evaluated, changed back (cfg_roundtrip); a computation that FAILS because of a rejected plain
    attribute, the attribute repaired, next read (failed_compute_recovery)"""
    x = np.asarray(x)
    if route == 'failed_compute_recovery':
        attr, badv = FAILING[cls]
        other = np.ascontiguousarray(x[::-1]) * 0.75 + (0.5 + (0.25j if np.iscomplexobj(x) else 0)) * max(float(np.max(np.abs(x))), 1e-300)
        p = _construct(cls, other, cfg, NFFT, sampling, scale_by_freq); _ = p.psd
        p.data = x
        v0 = getattr(p, attr)
        setattr(p, attr, badv(p))
        try:
            _ = p.psd
        except Exception:
            pass
        try:
            str(p)                                   # (a summary that swallows the failure must not mark the estimate as computed either)
        except Exception:
            pass
        setattr(p, attr, v0)                         # (no explicit computation here: the failed one left the estimate pending, so the next
        return p                                     #  read must compute it with the repaired setting - that is the point of this route)
    kind, key = route.split(':')
    attr = CFG_ATTRS[cls][key]
    alt = dict(cfg); alt[key] = _alt_value(key, cfg[key])
    plain = attr in PLAIN_ATTRS                      # untracked attributes: the documented way to apply them is an explicit computation
    if kind == 'cfg_assigned':
        p = _construct(cls, x, alt, NFFT, sampling, scale_by_freq); _ = p.psd
        setattr(p, attr, cfg[key])
        if plain:
            p()
    else:
        p = _construct(cls, x, cfg, NFFT, sampling, scale_by_freq); _ = p.psd
        setattr(p, attr, alt[key])
        if plain:
            p()
        _ = p.psd
        setattr(p, attr, cfg[key])
        if plain:
            p()
    return p


def class_vs_function(cls, x, cfg, NFFT=None):
    """the parametric classes expose the model of their functional estimator: pburg(x, p, criteria) holds arburg(x, p, criteria),
    pyule(x, p, norm) holds aryule(x, p, norm) - same number of coefficients, same values.  Returns [(what)]"""
    import spectrum
    x = np.asarray(x); bad = []
    p = _construct(cls, x, cfg, NFFT); p()
    if cls == 'pburg':
        a, rho, k = spectrum.arburg(x, cfg['order'], cfg.get('criteria'))
        want = {'ar': a, 'rho': rho, 'reflection': k}
    elif cls == 'pyule':
        a, rho, k = spectrum.aryule(x, cfg['order'], norm=cfg.get('norm', 'biased'))
        want = {'ar': a, 'reflection': k}
    else:
        raise KeyError(cls)
    for name, w in want.items():
        g = np.atleast_1d(np.asarray(getattr(p, name))); w = np.atleast_1d(np.asarray(w))
        if g.shape != w.shape:
            bad.append('%s.%s has %d values, the functional estimator returns %d' % (cls, name, g.size, w.size))
        elif g.size and np.max(np.abs(g - w)) > 1e-12 * max(1.0, float(np.max(np.abs(w)))):
            bad.append('%s.%s differs from the functional estimator (max dev %.3g)' % (cls, name, float(np.max(np.abs(g - w)))))
    return bad


def route_consistency(make, x, NFFT, sampling, scale_by_freq, routes=None, rtol=1e-9, cls=None, cfg=None):
    """the estimate an object holds must not depend on HOW it came to hold its data and settings: every route of `via` against the freshly
    constructed object.  Returns [(route, what)].  (With this, a relation checked on fresh objects holds on every route.)"""
    bad = []
    ref_obj = make(np.asarray(x), NFFT, sampling, scale_by_freq)
    ref = np.array(ref_obj.psd); fref = np.asarray(ref_obj.frequencies(), dtype=float); sc = max(float(np.max(np.abs(ref))), 1e-300)
    allr = list(routes) if routes else (ROUTES[1:] + (config_routes(cls, cfg) if cls is not None else []))
    for route in allr:
        try:
            if ':' in route or route == 'failed_compute_recovery':
                try:
                    p = via_config(cls, cfg, x, NFFT, sampling, scale_by_freq, route)
                except Exception:
                    continue                        # the OTHER value of the setting is outside the estimator's domain for this record
            else:
                p = via(make, x, NFFT, sampling, scale_by_freq, route)
            got = p.psd
            if got is None:
                bad.append((route, 'reading psd returns None')); continue
            got = np.atleast_1d(np.array(got)); f = np.asarray(p.frequencies(), dtype=float)
        except Exception as e:
            try:
                via(make, x, NFFT, sampling, scale_by_freq, 'data_assigned')       # is the OTHER record of the routes inside the estimator's domain at all?
            except Exception:
                continue
            bad.append((route, 'raised %s: %s' % (type(e).__name__, str(e)[:80]))); continue
        if got.shape != ref.shape:
            bad.append((route, 'psd has %d values, a freshly constructed object %d' % (len(got), len(ref))))
        elif route not in NO_AXIS_ROUTES and (len(f) != len(got) or len(f) != len(fref) or np.max(np.abs(f - fref)) > 1e-9 * max(1.0, abs(sampling))):
            bad.append((route, 'frequencies() differs from the axis of a freshly constructed object (%d vs %d entries)' % (len(f), len(fref))))
        elif not np.all(np.isfinite(got)) or np.max(np.abs(got - ref)) > rtol * sc:
            bad.append((route, 'psd differs from a freshly constructed object with the same data and settings (max rel dev %.3g)' % (np.max(np.abs(got - ref)) / sc)))
        else:
            # the exposed model parameters too (ar, ma, rho, reflection, eigenvalues)
            m0 = model_params(ref_obj); m1 = model_params(p)
            for k in m0:
                if k == 'weights':
                    continue
                if k not in m1 or m0[k].shape != m1[k].shape or np.max(np.abs(m0[k] - m1[k])) > max(rtol, 1e-9) * max(float(np.max(np.abs(m0[k]))), 1e-300):
                    bad.append((route, 'the exposed model parameter .%s differs from a freshly constructed object with the same data and settings' % k)); break
    return bad


def class_route_stream(ctx, classes, prop_key, make_cfg=None, n_per_class=None):
    """route consistency for every class x real/complex x scale_by_freq on/off, NFFT != N with both parities; reports through ctx.violation
    with key <prop_key>/<class>/<route>.  Replays are self-contained (form 'routes')."""
    import vlib
    rng = ctx.rng
    for ci, cls in enumerate(classes):
        for cplx in ((False, True) + (False,) * 8) if cls == 'pburg' else (False, True):      # pburg: nine real records with an order-selection criterion
            N = int(rng.integers(20, 41))
            x, kind = gen_data(rng, N, cplx, ['noise', 'tone', 'ar'][int(rng.integers(0, 3))] if not (cls == 'pburg' and not cplx) else 'ar')
            if rng.integers(0, 2):
                x = x + (1.5 + (0.75j if cplx else 0))          # a record with a mean (mean removal must not leak between computations)
            cfg = (make_cfg or default_cfg)(cls, N, rng, cplx)
            if cls == 'parma' and cplx:
                cfg['Q'] = cfg['P']; cfg['lag'] = max(cfg['lag'], 2 * cfg['P'] + 2)      # equal orders: an assigned order may coincide with the OTHER order
            if cls == 'pburg':
                cfg.setdefault('criteria', None)     # (an explicit None: the criterion is one of the settings walked by the configuration routes)
            if cls == 'pburg' and not cplx:
                cfg['criteria'] = str(rng.choice(['AIC', 'MDL', 'FPE', 'AICc', 'KIC', 'AKICc']))   # order selection keeps state tied to the record length
                cfg['order'] = int(rng.integers(6, 9))
            NFFT = N + 3 + ((ci + int(cplx)) % 2) + (2 * cfg.get('lag', 0) if cls == 'pcorrelogram' else 0) + (2 * cfg.get('order', 0) if cls == 'pminvar' else 0)
            if rng.integers(0, 3) == 0:
                NFFT = None                         # the default grid (resolved from the data length)
            sampling = float(rng.choice([1.0, 4.0, 0.25]))
            sbf = bool(rng.integers(0, 2))
            rtol = 1e-3 if (cls == 'MultiTapering' and cfg.get('method') == 'adapt') else 1e-9
            ctx.count('routes/%s/%s' % (cls, 'complex' if cplx else 'real'))
            ctx.case(('routes', cls, cplx, x.tobytes(), NFFT, sampling, sbf), nontrivial=True,
                     sample={'estimator': cls, 'routes': len(ROUTES) - 1, 'N': N, 'NFFT': NFFT, 'scale_by_freq': sbf} if ci == 0 else None)
            jc = {k: (v.item() if isinstance(v, (np.integer, np.floating)) else v) for k, v in cfg.items()}
            try:
                bad = route_consistency(lambda d, n, s_, b: _construct(cls, d, cfg, n, s_, b), x, NFFT, sampling, sbf, rtol=rtol, cls=cls, cfg=cfg)
            except Exception as e:
                ctx.count('routes/%s/fresh-raised' % cls); continue
            for route, what in bad:
                ctx.violation('%s/%s/%s' % (prop_key, cls, route), '%s (%s data, NFFT=%d, scale_by_freq=%s) reached by route %s: %s' % (
                    cls, 'complex' if cplx else 'real', NFFT if NFFT is not None else -1, sbf, route, what),
                    {'form': 'routes', 'estimator': cls, 'cfg': jc, 'NFFT': NFFT, 'sampling': sampling, 'scale_by_freq': sbf, 'route': route,
                     'x': vlib.hexv(np.asarray(x, dtype=complex)), 'datatype': 'complex' if cplx else 'real'})


def replay_routes(r):
    """True = holds"""
    import vlib
    x = vlib.unhexv(r['x'])
    if r['datatype'] == 'real':
        x = np.real(x)
    cls = r['estimator']; cfg = r['cfg']
    rtol = 1e-3 if (cls == 'MultiTapering' and cfg.get('method') == 'adapt') else 1e-9
    return not route_consistency(lambda d, n, s_, b: _construct(cls, d, cfg, n, s_, b), x, r['NFFT'], r['sampling'], r['scale_by_freq'], routes=[r['route']], rtol=rtol, cls=cls, cfg=cfg)


def _alt_sides(x, i):
    """a representation other than the default one of the data type"""
    return 'centerdc' if np.iscomplexobj(x) else ['twosided', 'centerdc', 'twosided'][i % 3]


def _construct(cls, x, cfg, NFFT=None, sampling=1.0, scale_by_freq=False):
    import spectrum
    from spectrum import mtm
    C = getattr(spectrum, cls) if cls != 'MultiTapering' else mtm.MultiTapering
    kw = dict(cfg)
    if cls in ('pburg', 'pyule', 'pcovar', 'pmodcovar', 'pminvar'):
        order = kw.pop('order')
        return C(x, order, NFFT=NFFT, sampling=sampling, scale_by_freq=scale_by_freq, **kw)
    if cls == 'parma':
        return C(x, kw['P'], kw['Q'], kw['lag'], NFFT=NFFT, sampling=sampling, scale_by_freq=scale_by_freq)
    if cls == 'pma':
        return C(x, kw['Q'], kw['M'], NFFT=NFFT, sampling=sampling, scale_by_freq=scale_by_freq)
    if cls in ('pmusic', 'pev'):
        IP = kw.pop('IP')
        return C(x, IP, NFFT=NFFT, sampling=sampling, scale_by_freq=scale_by_freq, **kw)
    return C(x, NFFT=NFFT, sampling=sampling, scale_by_freq=scale_by_freq, **kw)


def model_params(p):
    """exposed model parameters of an object after its PSD was computed"""
    out = {}
    for name in ('ar', 'ma', 'rho', 'reflection', 'eigenvalues', 'weights'):
        v = getattr(p, name, None)
        if v is None:
            continue
        try:
            a = np.atleast_1d(np.asarray(v))
            if a.dtype == object or a.size == 0:
                continue
            out[name] = a
        except Exception:
            continue
    return out


def gen_data(rng, N, cplx, kind=None):
    """noise / tones in noise / integer data / AR-generated data"""
    kind = kind or str(rng.choice(['noise', 'tone', 'int', 'ar'] + (['realc'] if cplx else [])))
    t = np.arange(N)
    if kind == 'realc':
        # real samples DECLARED complex (x.astype(complex), the output of an ifft, ...): the imaginary part is exactly zero, the data
        # type is complex, so every two-sided statement applies
        sub = str(rng.choice(['noise', 'tone', 'int']))
        return gen_data(rng, N, False, sub)[0].astype(complex), 'realc-' + sub

    def noise(s=1.0):
        return s * (rng.standard_normal(N) + (1j * rng.standard_normal(N) if cplx else 0))
    if kind == 'noise':
        x = noise()
    elif kind == 'tone':
        f = rng.uniform(0.05, 0.45)
        x = (np.exp(2j * np.pi * f * t) if cplx else np.cos(2 * np.pi * f * t + rng.uniform(0, 6))) + 0.3 * noise()
    elif kind == 'int':
        x = rng.integers(-20, 21, size=N).astype(float) + (1j * rng.integers(-20, 21, size=N) if cplx else 0)
        if not np.any(x):
            x[0] = 1
    else:
        e = noise()
        x = np.zeros(N, dtype=complex if cplx else float)
        a1, a2 = 0.6 * (np.exp(0.9j) if cplx else 1.0), -0.3
        for n in range(N):
            x[n] = e[n] + (a1 * x[n - 1] if n >= 1 else 0) + (a2 * x[n - 2] if n >= 2 else 0)
    return x, kind
