"""Fail-closed ast translator for spectrum/cholesky.py: CHOLESKY's dispatch on `method` and the composition of library calls in each
back end are regenerated as a Gallina function over the oracle record of coq/Model/Cholesky.v, and proved equal to the hand-written model
(for all arguments) in the generated file; the theorems of Proofs/CholeskyTheory.v are then instantiated for the regenerated function."""
import ast
import os


class Fail(Exception):
    pass


def _is_attr(e, *names):
    """e is the dotted name names[0].names[1]..."""
    for n in reversed(names[1:]):
        if not (isinstance(e, ast.Attribute) and e.attr == n):
            return False
        e = e.value
    return isinstance(e, ast.Name) and e.id == names[0]


class Tr:
    def __init__(self, tree):
        self.fns = {n.name: n for n in tree.body if isinstance(n, ast.FunctionDef)}
        for n in tree.body:
            if isinstance(n, (ast.FunctionDef, ast.Import, ast.ImportFrom)):
                continue
            if isinstance(n, ast.Expr) and isinstance(n.value, ast.Constant):
                continue
            if isinstance(n, ast.Assign) and len(n.targets) == 1 and isinstance(n.targets[0], ast.Name) and n.targets[0].id == '__all__':
                continue
            raise Fail('module-level statement: %s' % ast.unparse(n)[:60])

    def expr(self, e, env):
        """matrix / vector expression -> Gallina"""
        if isinstance(e, ast.Name):
            if e.id not in env:
                raise Fail('unknown name %s' % e.id)
            return env[e.id]
        if isinstance(e, ast.Call) and isinstance(e.func, ast.Attribute) and e.func.attr == 'conjugate' and not e.args and not e.keywords:
            i = e.func.value
            if isinstance(i, ast.Call) and isinstance(i.func, ast.Attribute) and i.func.attr == 'transpose' and not i.args and not i.keywords:
                return '(herm %s)' % self.expr(i.func.value, env)
        raise Fail('expression: %s' % ast.unparse(e)[:60])

    def call(self, e, env):
        """a library call -> (Gallina option expression)"""
        if not isinstance(e, ast.Call) or e.keywords:
            raise Fail('call: %s' % ast.unparse(e)[:60])
        f = e.func
        if _is_attr(f, 'numpy', 'linalg', 'solve') and len(e.args) == 2:
            return '(np_solve O n %s %s)' % (self.expr(e.args[0], env), self.expr(e.args[1], env))
        if _is_attr(f, 'numpy', 'linalg', 'cholesky') and len(e.args) == 1:
            return '(np_cholesky O n %s)' % self.expr(e.args[0], env)
        if _is_attr(f, 'scipy', 'linalg', 'cholesky') and len(e.args) == 1:
            return '(sp_cholesky O n %s)' % self.expr(e.args[0], env)
        if _is_attr(f, 'scipy', 'linalg', 'cho_solve') and len(e.args) == 2:
            t = e.args[0]
            if isinstance(t, ast.Tuple) and len(t.elts) == 2 and isinstance(t.elts[1], ast.Constant) and t.elts[1].value is False:
                return '(sp_cho_solve O n %s %s)' % (self.expr(t.elts[0], env), self.expr(e.args[1], env))
        raise Fail('library call: %s' % ast.unparse(e)[:60])

    def body(self, stmts, env, helper_ok=True):
        """straight-line code ending in `return <name>[, <name>]` -> Gallina term of type cerr + vector (first returned value)"""
        if not stmts:
            raise Fail('fell off the end of a back end')
        s = stmts[0]
        if isinstance(s, ast.Expr) and isinstance(s.value, ast.Constant) and isinstance(s.value.value, str):
            return self.body(stmts[1:], env, helper_ok)
        if isinstance(s, ast.Import) and all(a.name in ('scipy.linalg', 'numpy') and a.asname is None for a in s.names):
            return self.body(stmts[1:], env, helper_ok)
        if isinstance(s, ast.Return):
            v = s.value
            if isinstance(v, ast.Tuple) and v.elts:
                v = v.elts[0]
            if len(stmts) != 1 or not isinstance(v, ast.Name):
                raise Fail('return form: %s' % ast.unparse(s)[:60])
            return '(inr %s)' % self.expr(v, env)
        if isinstance(s, ast.Assign) and len(s.targets) == 1:
            t = s.targets[0]
            if isinstance(t, ast.Tuple) and t.elts and all(isinstance(x, ast.Name) for x in t.elts):
                t = t.elts[0]                    # X, _L = helper(...): the first component
            if not isinstance(t, ast.Name):
                raise Fail('assignment target: %s' % ast.unparse(s)[:60])
            v = s.value
            if helper_ok and isinstance(v, ast.Call) and isinstance(v.func, ast.Name) and v.func.id in self.fns and not v.keywords:
                h = self.fns[v.func.id]
                ps = [a.arg for a in h.args.args]
                if len(ps) != len(v.args) or h.args.vararg or h.args.kwarg or h.args.defaults or h.args.kwonlyargs:
                    raise Fail('helper signature: %s' % h.name)
                henv = {p: self.expr(a, env) for p, a in zip(ps, v.args)}
                inner = self.body(h.body, henv, helper_ok=False)
                env2 = dict(env); env2[t.id] = t.id
                return '(match %s with inl e => inl e | inr %s => %s end)' % (inner, t.id, self.body(stmts[1:], env2, helper_ok))
            c = self.call(v, env)
            env2 = dict(env); env2[t.id] = t.id
            return '(match %s with None => inl LinAlgError | Some %s => %s end)' % (c, t.id, self.body(stmts[1:], env2, helper_ok))
        raise Fail('statement: %s' % ast.unparse(s)[:60])

    def dispatch(self):
        f = self.fns.get('CHOLESKY')
        if f is None:
            raise Fail('no function CHOLESKY')
        ps = [a.arg for a in f.args.args]
        if ps != ['A', 'B', 'method'] or f.args.vararg or f.args.kwarg or f.args.kwonlyargs or len(f.args.defaults) != 1 \
                or not (isinstance(f.args.defaults[0], ast.Constant) and isinstance(f.args.defaults[0].value, str)):
            raise Fail('signature of CHOLESKY')
        default = f.args.defaults[0].value
        body = [s for s in f.body if not (isinstance(s, ast.Expr) and isinstance(s.value, ast.Constant))]
        if len(body) not in (1, 2) or not isinstance(body[0], ast.If):
            raise Fail('CHOLESKY is not one if/elif chain (plus a final return)')
        tail = body[1:]
        env = {'A': 'A', 'B': 'B'}

        def chain(node):
            t = node.test
            if not (isinstance(t, ast.Compare) and len(t.ops) == 1 and isinstance(t.ops[0], ast.Eq) and isinstance(t.left, ast.Name)
                    and t.left.id == 'method' and isinstance(t.comparators[0], ast.Constant) and isinstance(t.comparators[0].value, str)):
                raise Fail('test: %s' % ast.unparse(t)[:60])
            s = t.comparators[0].value
            stm = list(node.body)
            if not stm or not isinstance(stm[-1], ast.Return):
                stm = stm + tail                 # falls through to the statements after the chain
            then = self.body(stm, env)
            oe = node.orelse
            if len(oe) == 1 and isinstance(oe[0], ast.If):
                els = chain(oe[0])
            elif len(oe) == 1 and isinstance(oe[0], ast.Raise) and isinstance(oe[0].exc, ast.Call) and isinstance(oe[0].exc.func, ast.Name) \
                    and oe[0].exc.func.id == 'ValueError' and all(isinstance(a, ast.Constant) for a in oe[0].exc.args):
                els = '(inl ValueError)'
            else:
                raise Fail('else branch: %s' % ' ; '.join(ast.unparse(x)[:40] for x in oe))
            return '(if String.eqb method "%s" then %s else %s)' % (s, then, els)
        return default, chain(body[0])


HEADER = """From Coq Require Import String List.
Require Import Spectrum.Theory.Ops Spectrum.Theory.Sum Spectrum.Model.Cholesky Spectrum.Proofs.CholeskyTheory.
Local Open Scope string_scope.
Section Gen.
Context {F : Type} {OF : Ops F}.
(* regenerated from spectrum/cholesky.py of the snapshot on this run *)
Definition gen_default_method : string := "%s".
Definition gen_CHOLESKY (O : @oracles F) (n : nat) (A : matrix) (B : vector) (method : string) : cerr + vector :=
%s.
Lemma gen_CHOLESKY_is_model O n A B method : gen_CHOLESKY O n A B method = CHOLESKY O n A B method.
Proof.
  unfold gen_CHOLESKY, CHOLESKY, parse_method, numpy_cholesky, lift.
  repeat match goal with |- context [String.eqb ?a ?b] => destruct (String.eqb a b) end;
  repeat match goal with |- context [match ?o with _ => _ end] => destruct o end; reflexivity.
Qed.
End Gen.
Theorem gen_cholesky_translated {F} {OF : Ops F} : forall O n A B method, @gen_CHOLESKY F OF O n A B method = CHOLESKY O n A B method.
Proof. exact gen_CHOLESKY_is_model. Qed.
Theorem gen_cholesky_solves {F} {OF : Ops F} {L : Laws OF} (O : @oracles F) n A B method x :
  solve_spec O -> np_chol_spec O -> sp_chol_spec O -> cho_solve_spec O ->
  gen_CHOLESKY O n A B method = inr x -> solves n A x B.
Proof. intros. rewrite gen_CHOLESKY_is_model in *. eapply cholesky_solves_thm; eassumption. Qed.
Theorem gen_cholesky_default_accepted {F} {OF : Ops F} (O : @oracles F) n A B : gen_CHOLESKY O n A B gen_default_method <> inl ValueError.
Proof.
  rewrite gen_CHOLESKY_is_model. intros H. apply (proj2 (cholesky_method_thm O n A B gen_default_method)) in H.
  destruct H as (H1 & H2 & H3). unfold gen_default_method in *. first [apply H1; reflexivity | apply H2; reflexivity | apply H3; reflexivity].
Qed.
Print Assumptions gen_cholesky_translated.
Print Assumptions gen_cholesky_solves.
Print Assumptions gen_cholesky_default_accepted.
"""
GEN_NAMES = ['gen_cholesky_translated', 'gen_cholesky_solves', 'gen_cholesky_default_accepted']


def generate(srcdir):
    tree = ast.parse(open(os.path.join(srcdir, 'cholesky.py')).read())
    default, term = Tr(tree).dispatch()
    return HEADER % (default, term)


SELFTEST_BAD = [     # edits of the real source that must be refused or must make the generated lemma fail
    ('another back end call', "y = numpy.linalg.solve(L,B)", "y = numpy.linalg.lstsq(L,B)"),
    ('loop', "    L = numpy.linalg.cholesky(A)\n", "    L = numpy.linalg.cholesky(A)\n    for i in range(2):\n        pass\n"),
    ('non-literal method test', "method == 'numpy_solver'", "method.lower() == 'numpy_solver'"),
    ('other exception', "raise ValueError(", "raise KeyError("),
]


def selftest(srcdir):
    src = open(os.path.join(srcdir, 'cholesky.py')).read()
    wrong = []
    for what, old, new in SELFTEST_BAD:
        if old not in src:
            continue
        try:
            Tr(ast.parse(src.replace(old, new, 1))).dispatch()
            wrong.append(what)
        except Fail:
            pass
    return wrong
