"""T10: case generators of the loop-IR tie for arma.arma_estimate (and lpc.lpc, below).

arma_estimate: each case is `q_arma_estimate prog isreal x P Q lag orc oe [o1..o6]` (coq/Model/LoopIRArma.v): `run program input` =
Model.ArmaEst.arma_estimate with lsm := the hand model of arcovar_marple (the program embeds Marple's recursion) and lsq := the constant
function returning `orc`, the array fed into the ORACLE slot of `arcovar(Y.copy(), P)` (scipy lstsq; read only when P > 4) - ZERO
tolerance, at QcC.  `orc`, `oe` (arcovar's second result, never read) and the six pylab_rms_flat slots of the embedded CORRELATIONs
(never read: norm is 'unbiased' / 'biased') are ARBITRARY low-bit values: the claim is for all oracle values.  In the cases against the
implementation (`ir_close` / `ir_raises`) the arcovar slot holds the implementation's own arcovar result, exactly.
"""
import numpy as np
import vlib
from vlib import cz, czl, tolq


def in_domain(N, P, Q, lag):
    """the documented domain of arma_estimate (property C15) intersected with lag >= 2P (as many equations as unknowns)"""
    return 0 < Q <= lag and lag + 2 * P - Q <= N and 2 * Q < N - P and 2 * P <= lag < N


def corr_ref(x, maxlag, unbiased):
    x = np.asarray(x, dtype=complex); N = len(x)
    return np.array([np.vdot(x[:N - k], x[k:]) / ((N - k) if unbiased else N) for k in range(maxlag + 1)])


def arma_y_ref(R, P, Q, lag):
    y = np.zeros(lag, dtype=complex)
    for k in range(min(lag, lag - Q + P)):
        d = k + Q + 1 - P
        y[k] = R[d] if d >= 0 else np.conj(R[-d])
    return y


def yw_ref(x, p):
    from scipy.linalg import toeplitz
    r = corr_ref(x, p, False)
    if p == 0:
        return np.zeros(0, complex), r[0].real
    a = np.linalg.solve(toeplitz(r[:p]), -r[1:p + 1])
    return a, (r[0] + np.dot(a, np.conj(r[1:p + 1]))).real


def kappa_lev(x, p):
    a, rho = yw_ref(x, p)
    return max(1.0, float(np.mean(np.abs(x) ** 2)) / max(rho, 1e-300))


def qmax(P, cplx):
    """largest MA order of an exact case: the exact rationals of the chain CORRELATION -> Marple -> filter -> two Levinson recursions (orders 2Q, Q)
    grow quickly (measured: P = 3, Q = 2 takes 105 s, P = 2, Q = 2 complex 41 s, P = 1, Q = 3 complex 30..70 s, real 23 s per case)"""
    if P == 0:
        return 2 if cplx else 3
    if P == 1:
        return 2
    if P == 2:
        return 1 if cplx else 2
    return 1


def pick_domain(rng, Ps, Nmax, cplx):
    """(N, P, Q, lag) in the documented domain with lag >= 2P, small (Q = 3 - a Levinson recursion of order 6 on the chained exact
    rationals - only for real data with P <= 1: 30..70 s per case otherwise)"""
    for _ in range(200):
        P = int(rng.choice(Ps)); Q = int(rng.integers(1, 1 + qmax(P, cplx)))
        lo = max(2 * P, Q, 1); lag = lo + int(rng.integers(0, 3))
        Nmin = max(lag + 2 * P - Q, P + 2 * Q + 1, lag + 1)
        N = Nmin + int(rng.integers(0, 3))
        if N <= Nmax and in_domain(N, P, Q, lag):
            return N, P, Q, lag
    raise RuntimeError('no admissible (N, P, Q, lag)')


def gen_arma_estimate(rng, n, nimpl):
    from props import _loopir as L
    from spectrum.arma import arma_estimate
    from spectrum.covar import arcovar
    c = L.Cases('arma_estimate')
    kinds = ['dom', 'dom34', 'dom_oracle', 'lag_ge_N', 'dom', 'N_lt_P', 'index_R', 'dom', 'index_Y', 'marple_assert', 'dom_oracle', 'lag0',
             'oracle_short', 'dom', 'q0', 'ma_assert', 'underdet', 'any', 'dom34', 'any', 'dom', 'underdet', 'any']
    i = 0
    while len(c.exact) < n:
        kind = kinds[i % len(kinds)]; i += 1
        cplx = bool(rng.integers(0, 2))
        if kind == 'dom':
            N, P, Q, lag = pick_domain(rng, [0, 1, 1, 2, 2], 12, cplx)
        elif kind == 'dom34':
            cplx = True                                 # P >= Q + 2: the only place where the `KPQ < 0: Y[K] = R[-KPQ].conjugate()` branch is taken on non-real lags
            N, P, Q, lag = pick_domain(rng, [3, 4], 16, cplx)
        elif kind == 'dom_oracle':
            N, P, Q, lag = pick_domain(rng, [5, 5, 6], 24, cplx)
        elif kind == 'lag_ge_N':
            N = int(rng.integers(4, 9)); P = int(rng.integers(0, 7)); Q = int(rng.integers(0, 3)); lag = N + int(rng.integers(0, 2))
        elif kind == 'N_lt_P':
            N = int(rng.integers(3, 6)); P = N + int(rng.integers(1, 3)); Q = 1; lag = int(rng.integers(2, N))
        elif kind == 'index_R':                     # R[P-Q-1] beyond lag: lag + Q + 1 < P
            P = int(rng.integers(3, 7)); Q = int(rng.integers(0, 2)); lag = max(2, P - Q - 2 - int(rng.integers(0, 2))) if P - Q - 2 >= 2 else 2
            P = max(P, lag + Q + 2); N = P + lag + int(rng.integers(1, 4))
        elif kind == 'index_Y':                     # Y[K] beyond N-P: N - P < lag + P - Q
            P = int(rng.integers(1, 5)); Q = int(rng.integers(1, 3)); lag = int(rng.integers(2, 6)); N = max(lag + 1, P + lag + P - Q - int(rng.integers(1, 3)))
        elif kind == 'marple_assert':               # lag < P <= 4, no index error before it: the assertion of the embedded arcovar_marple
            P = int(rng.integers(2, 5)); lag = int(rng.integers(1, P)); Q = max(0, P - lag - 1) + int(rng.integers(0, 2)); N = max(2 * P + lag - Q, lag + 1) + int(rng.integers(0, 3))
        elif kind == 'lag0':
            P = 0; Q = 0; lag = 0; N = int(rng.integers(2, 6))
        elif kind == 'oracle_short':                # P > 4, 2 <= lag <= P < N: arcovar returns lag-1 coefficients, the filter reads beyond them
            P = int(rng.integers(5, 7)); lag = int(rng.integers(2, P + 1)); Q = max(1, P - lag - 1) + int(rng.integers(0, 2))
            N = max(2 * P + lag - Q, lag + 1, P + 1) + int(rng.integers(0, 3))
        elif kind == 'q0':
            P = int(rng.integers(0, 3)); Q = 0; lag = 2 * P + int(rng.integers(1, 3)); N = lag + 2 * P + int(rng.integers(1, 3))
        elif kind == 'ma_assert':                   # 2Q >= N - P: the assertion of the CORRELATION inside ma's first aryule
            P = int(rng.integers(0, 2)); Q = int(rng.integers(2, 4)); lag = max(2 * P, Q); N = P + 2 * Q - int(rng.integers(0, 2))
            if N - P < lag + P - Q or N <= lag:
                continue
        elif kind == 'underdet':                    # P <= lag < 2P (P <= 4): fewer equations than unknowns, Marple divides by zero somewhere (total division)
            P = int(rng.integers(2, 5)); lag = int(rng.integers(P, 2 * P)); Q = int(rng.integers(1, min(lag, qmax(P, cplx)) + 1)); N = lag + 2 * P - Q + int(rng.integers(0, 2))
            N = max(N, P + 2 * Q + 1, lag + 1)
        else:
            N = int(rng.integers(3, 11)); P = int(rng.integers(0, 7)); Q = int(rng.integers(0, 4)); lag = int(rng.integers(0, N + 2))
            if P > 4 and lag < 2:
                continue                            # arcovar itself raises there: the oracle call's own exceptions are outside the tie
        if N > 24 or N < 1:
            continue
        x = L.lowbit(rng, N, cplx, bits=2 if P <= 2 else 1)
        xi = x if cplx else np.real(x)
        with np.errstate(all='ignore'):
            res = L.call_impl(arma_estimate, xi, P, Q, lag)
        # the oracle slots: arbitrary low-bit values of the length arcovar returns
        nor = (lag - 1 if lag <= P else P) if P > 4 else int(rng.integers(0, 3))
        orc = L.lowbit(rng, max(nor, 0), True, bits=2) / 4.0 if nor > 0 else np.zeros(0, dtype=complex)
        oe = complex(int(rng.integers(1, 9)) / 4.0)
        o = L.oracle_vals(rng, 6)
        tags = [False] if cplx else [True, False]
        for tag in tags:
            c.add('q_arma_estimate prog_arma_estimate %s %s %d%%nat %d%%nat %d%%nat %s %s [%s]'
                  % ('true' if tag else 'false', czl(x), P, Q, lag, czl(orc), cz(oe), '; '.join(cz(v) for v in o)),
                  impl=res, x=vlib.hexv(x), P=P, Q=Q, lag=lag, declared_real=tag, kind=kind, in_domain=bool(in_domain(N, P, Q, lag)))
        if len(c.impl) < nimpl and kind in ('dom', 'dom34', 'dom_oracle', 'lag_ge_N', 'N_lt_P', 'index_R', 'index_Y', 'marple_assert', 'lag0', 'q0', 'ma_assert', 'oracle_short'):
            out, ex = res
            # against the implementation the arcovar slot holds the implementation's own result on the sequence the code builds
            orc_i, oe_i = np.zeros(0, dtype=complex), 0.0
            if P > 4 and lag >= 2 and lag < N and N >= P:
                try:
                    with np.errstate(all='ignore'):
                        orc_i, oe_i = arcovar(arma_y_ref(corr_ref(x, lag, True), P, Q, lag), P)
                except Exception:
                    continue
                if not np.all(np.isfinite(orc_i)):
                    continue
            args = '[%s; %s; %s; %s; %s; %s; %s]' % (L.A_(not cplx, x), L.I_(P), L.I_(Q), L.I_(lag), L.A_(False, orc_i), L.S_(oe_i), '; '.join(L.S_(v) for v in o))
            if ex is not None:
                if ex in L.EXC and not any(m.get('kind') == kind for m in c.impl_meta):
                    c.add_impl('ir_raises (qrun prog_arma_estimate %s) %s' % (args, ex), x=vlib.hexv(x), P=P, Q=Q, lag=lag, impl_raised=ex, kind=kind)
            elif kind in ('dom', 'dom34', 'dom_oracle'):
                a, b, rho = out
                if not (np.all(np.isfinite(a)) and np.all(np.isfinite(b)) and np.isfinite(rho)) or len(a) != P:
                    continue
                y = arma_y_ref(corr_ref(x, lag, True), P, Q, lag)
                Xc = np.array([[y[t - 1 - j] for j in range(P)] for t in range(P, lag)], dtype=complex).reshape(max(lag - P, 0), P)
                kls = float(np.linalg.cond(Xc.conj().T @ Xc)) if P else 1.0
                e = np.array([x[k] + sum(a[j] * x[k - j - 1] for j in range(P)) for k in range(P, N)])
                try:
                    kap = kls * kappa_lev(e, 2 * Q) * kappa_lev(np.concatenate(([1], yw_ref(e, 2 * Q)[0])), Q)
                except Exception:
                    continue
                if np.isfinite(kap) and kap < 1e4:
                    sc = max(1.0, float(np.max(np.abs(a))) if P else 1.0)
                    c.add_impl('ir_close %s (qrun prog_arma_estimate %s) %s' % (tolq(1e-9 * kap * sc), args, L.outs(a, b, rho)),
                               x=vlib.hexv(x), P=P, Q=Q, lag=lag, kind=kind)
    return c


# ================================================================================================ lpc
def gen_lpc(rng, n, nimpl, nflt):
    """lpc: exact cases only where exact twiddle characters exist (transform lengths 1, 2, 4: len(x) after the resize <= 2); binary64 cases
    (twiddle table from the harness) for general lengths against BOTH Model.Yule.lpc and the implementation (tolerance of C12's correspondence)"""
    import cmath, math
    from props import _loopir as L
    from props import _loopir_vec as V
    from spectrum.lpc import lpc
    from vlib import fl, fc, fcl
    c = L.Cases('lpc')
    i = 0
    combos = [(1, None), (1, 0), (1, 1), (2, None), (2, 0), (2, 1), (2, None), (2, 1)]
    while len(c.exact) < n:
        m, Narg = combos[i % len(combos)]; i += 1
        cplx = bool(rng.integers(0, 3) == 0)
        x = L.lowbit(rng, m, cplx, bits=3) / float(rng.choice([1, 2, 4]))
        if i % 11 == 0 and m == 2:
            x = np.array([x[0], x[0]])                         # r1 = r0: P = 0 at stage 1 (ValueError of LEVINSON when N >= 1)
        res = None
        if m > 1:
            with np.errstate(all='ignore'):
                res = L.call_impl(lpc, np.array(x if cplx else np.real(x)), Narg)
        nt = 'None' if Narg is None else '(Some %d%%nat)' % Narg
        for tag in ([False] if cplx else [True, False]):
            c.add('q_lpc prog_lpc %s %s %s' % ('true' if tag else 'false', czl(x), nt), impl=res, x=vlib.hexv(x), N=Narg, declared_real=tag,
                  kind='m=%d' % m)
        if len(c.impl) < nimpl and m == 2 and res is not None:
            out, ex = res
            args = '[%s; %s; Tw]' % (L.A_(not cplx, x), 'Omit' if Narg is None else L.I_(Narg))
            if ex is not None:
                if ex == 'ValueError' and not any(mm.get('impl_raised') for mm in c.impl_meta) and i % 11 == 0:
                    c.add_impl('ir_raises (qrun prog_lpc %s) %s' % (args, ex), x=vlib.hexv(x), N=Narg, impl_raised=ex)
            else:
                a, e = out
                if np.all(np.isfinite(a)) and np.isfinite(e) and abs(e) > 1e-6:
                    r0 = float(np.sum(np.abs(x) ** 2)); kap = max(1.0, r0 / abs(e), float(np.max(np.abs(a))) if len(a) else 1.0)
                    if kap < 1e4:
                        c.add_impl('ir_close %s (qrun prog_lpc %s) %s' % (tolq(1e-9 * kap), args, L.outs(a, e)), x=vlib.hexv(x), N=Narg)
    tries = 0
    while len(c.flt) < nflt and tries < 40 * nflt + 40:
        tries += 1
        cplx = bool(rng.integers(0, 4) == 0)
        m = int(rng.integers(2, 25))
        mode = str(rng.choice(['none', 'le', 'le', 'gt']))
        if mode == 'none':
            Narg = None; p = m - 1
            if p > 9:
                continue
        elif mode == 'le':
            p = int(rng.integers(0, min(m, 8))); Narg = p
        else:
            p = m + int(rng.integers(0, 3)); Narg = p
            if p > 8:
                continue
        style = str(rng.choice(['int', 'noise', 'tone']))
        if style == 'int':
            x = L.lowbit(rng, m, cplx, bits=3)
        elif style == 'noise':
            x = rng.standard_normal(m) + (1j * rng.standard_normal(m) if cplx else 0)
        else:
            t = np.arange(m); x = np.cos(0.9 * t + 0.3) + 0.5 * rng.standard_normal(m) + (0.25j * rng.standard_normal(m) if cplx else 0)
        x = np.asarray(x, dtype=complex if cplx else float)
        Lx = max(m, p + 1) if Narg is not None else m
        nfft = 1 << int(math.ceil(math.log2(2 * Lx - 1))) if 2 * Lx - 1 > 1 else 1
        with np.errstate(all='ignore'):
            out, ex = L.call_impl(lpc, np.array(x), Narg)
        if ex is not None:
            continue                                           # numpy refuses the in-place resize / singular: not compared at binary64
        a, e = out
        if not (np.all(np.isfinite(a)) and np.isfinite(e)) or e == 0:
            continue
        r0 = float(np.sum(np.abs(x) ** 2)) / (m - 1.0)
        kap = max(1.0, r0 / max(abs(e), 1e-300), float(np.max(np.abs(a))) if len(a) else 1.0)
        if kap > 1e4:
            continue
        tbl = [cmath.exp(-2j * math.pi * j / nfft) for j in range(nfft)]
        c.add_flt('f_lpc %s %s %s %s prog_lpc %s %s %s None %s %s' % (
            fl(1e-8 * kap), fl(1e-8 * kap), fl(1.0), fcl(tbl), 'false' if cplx else 'true', fcl(x), 'None' if Narg is None else '(Some %d%%nat)' % Narg,
            fcl(a), fc(e)), x=vlib.hexv(x), N=Narg, nfft=nfft, kind=mode + '/' + style)
    return c
