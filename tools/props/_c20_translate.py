"""Fail-closed `ast` translator  window.py -> Gallina tables (C20).

Reads the SNAPSHOT's spectrum/window.py and emits the definitions
    gen_names   : list (string * string)                     the window_names dict
    gen_routes  : list (string * list string)                windows_with_parameters (keys per name)
    gen_route_defaults                                        which f.__defaults__[i] each route entry reads
    gen_sigs    : list (string * list (string * lit_t))      keyword parameters (literal defaults) of each generator
    gen_coeffs  : list (string * list (string * (Z * positive)))   a0..a4 literals of the cosine-sum generators
Everything that is not of the recognised shape raises TranslationError: the control flow of
create_window, Window.__init__ (+ the three getters) and enbw() must be *exactly* the skeletons below
(strings in messages/docstrings are ignored), because Model/Window.v's create_window / window_object /
enbw are hand-written interpretations of those skeletons over the generated tables.
"""
import ast
from decimal import Decimal
from fractions import Fraction


class TranslationError(Exception):
    pass


# ----------------------------------------------------------------------------- expected skeletons
CREATE_WINDOW_SKELETON = '''
def create_window(N, name=None, **kargs):
    if name is None:
        name = "rectangle"
    name = name.lower()
    assert name in list(window_names.keys()), "MSG"
    f = eval(window_names[name])
    windows_with_parameters = TABLE
    if name not in list(windows_with_parameters.keys()):
        if len(kargs) == 0:
            w = f(N)
        else:
            raise ValueError("MSG")
    elif name in list(windows_with_parameters.keys()):
        dargs = {}
        for arg in list(kargs.keys()):
            try:
                default = windows_with_parameters[name][arg]
            except:
                raise ValueError("MSG")
            dargs[arg] = kargs.get(arg, default)
        w = f(N, **dargs)
    return w
'''

WINDOW_INIT_SKELETON = '''
def __init__(self, N, name=None, norm=True, **kargs):
    assert N > 0, "MSG"
    if name is None or name not in list(window_names.keys()):
        raise ValueError("MSG")
    self.__N = N
    self.__name = name
    self.__norm = norm
    self.__data = create_window(N, name, **kargs)
    self.__frequencies = None
    self.__response = None
    self.__enbw = enbw(self.data)
'''

GETTERS = {'_getN': 'def _getN(self):\n    return self.__N\n',
           '_getData': 'def _getData(self):\n    return self.__data\n',
           '_getENBW': 'def _getENBW(self):\n    return self.__enbw\n'}
PROPERTIES = {'N': '_getN', 'data': '_getData', 'enbw': '_getENBW'}

ENBW_SKELETON = '''
def enbw(data):
    N = len(data)
    return N * np.sum(data**2) / np.sum(data) ** 2
'''

COEFF_FUNCS = {'window_nuttall': 4, 'window_blackman_nuttall': 4, 'window_blackman_harris': 4,
               'window_flattop': 5, 'window_bartlett_hann': 3}


# ----------------------------------------------------------------------------- helpers
class _Normalise(ast.NodeTransformer):
    """drop docstrings / comments, replace every string in assert / raise messages by "MSG" """

    def visit_Assert(self, node):
        self.generic_visit(node)
        if node.msg is not None:
            node.msg = ast.Constant('MSG')
        return node

    def visit_Raise(self, node):
        self.generic_visit(node)
        if isinstance(node.exc, ast.Call) and len(node.exc.args) == 1 and not node.exc.keywords:
            node.exc.args = [ast.Constant('MSG')]
        return node


def _strip_doc(body):
    if body and isinstance(body[0], ast.Expr) and isinstance(body[0].value, ast.Constant) and isinstance(body[0].value.value, str):
        return body[1:]
    return body


def _dump_fn(fn):
    fn = _Normalise().visit(ast.parse(ast.unparse(fn)).body[0])
    fn.body = _strip_doc(fn.body)
    fn.decorator_list = fn.decorator_list
    return ast.dump(fn, annotate_fields=True, include_attributes=False)


def _expect_same(fn, skeleton_src, what):
    want = ast.parse(skeleton_src).body[0]
    got = _dump_fn(fn)
    exp = _dump_fn(want)
    if got != exp:
        raise TranslationError('%s is not of the recognised shape:\n got  %s\n want %s' % (what, ast.unparse(fn)[:1500], skeleton_src))


def _lit(node, what):
    """Python literal -> ('num', n, d) | ('int', z) | ('str', s) | ('none',)"""
    neg = False
    if isinstance(node, ast.UnaryOp) and isinstance(node.op, ast.USub):
        neg = True; node = node.operand
    if not isinstance(node, ast.Constant):
        raise TranslationError('%s: default/coefficient is not a literal: %s' % (what, ast.dump(node)))
    v = node.value
    if v is None and not neg:
        return ('none',)
    if isinstance(v, bool):
        raise TranslationError('%s: boolean literal not supported' % what)
    if isinstance(v, str) and not neg:
        if not all(32 <= ord(c) < 127 and c != '"' for c in v):
            raise TranslationError('%s: string literal outside printable ASCII' % what)
        return ('str', v)
    if isinstance(v, int):
        return ('int', -v if neg else v)
    if isinstance(v, float):
        fr = Fraction(Decimal(repr(v)))
        if float(fr) != v or fr.numerator >= 2 ** 53 or fr.denominator >= 2 ** 53:
            raise TranslationError('%s: float literal %r has no short exact decimal form' % (what, v))
        if neg:
            fr = -fr
        return ('num', fr.numerator, fr.denominator)
    raise TranslationError('%s: unsupported literal %r' % (what, v))


def _is_defaults_ref(node):
    """eval(window_names["k"]).__defaults__[i]  ->  (k, i)"""
    try:
        assert isinstance(node, ast.Subscript)
        i = node.slice
        assert isinstance(i, ast.Constant) and isinstance(i.value, int) and not isinstance(i.value, bool)
        a = node.value
        assert isinstance(a, ast.Attribute) and a.attr == '__defaults__'
        c = a.value
        assert isinstance(c, ast.Call) and isinstance(c.func, ast.Name) and c.func.id == 'eval' and len(c.args) == 1 and not c.keywords
        s = c.args[0]
        assert isinstance(s, ast.Subscript) and isinstance(s.value, ast.Name) and s.value.id == 'window_names'
        k = s.slice
        assert isinstance(k, ast.Constant) and isinstance(k.value, str)
        return (k.value, i.value)
    except AssertionError:
        return None


# ----------------------------------------------------------------------------- extraction
def extract(src):
    mod = ast.parse(src)
    top = {}
    for st in mod.body:
        if isinstance(st, ast.FunctionDef):
            if st.name in top:
                raise TranslationError('function %s defined twice' % st.name)
            top[st.name] = st
        elif isinstance(st, ast.ClassDef):
            if st.name in top:
                raise TranslationError('class %s defined twice' % st.name)
            top[st.name] = st
    # window_names
    names = None
    for st in mod.body:
        if isinstance(st, ast.Assign) and len(st.targets) == 1 and isinstance(st.targets[0], ast.Name) and st.targets[0].id == 'window_names':
            if names is not None:
                raise TranslationError('window_names assigned twice')
            d = st.value
            if not isinstance(d, ast.Dict):
                raise TranslationError('window_names is not a dict literal')
            names = []
            for k, v in zip(d.keys, d.values):
                if not (isinstance(k, ast.Constant) and isinstance(k.value, str) and isinstance(v, ast.Constant) and isinstance(v.value, str)):
                    raise TranslationError('window_names entry is not "str": "str"')
                if k.value in [a for a, _ in names]:
                    raise TranslationError('window_names has the key %r twice' % k.value)
                names.append((k.value, v.value))
        elif isinstance(st, (ast.AugAssign, ast.Delete)) or (isinstance(st, ast.Expr) and isinstance(st.value, ast.Call)):
            # any module-level statement that could modify window_names after its definition
            txt = ast.unparse(st)
            if 'window_names' in txt:
                raise TranslationError('window_names is modified at module level: %s' % txt)
    if names is None:
        raise TranslationError('window_names not found')
    for st in ast.walk(mod):
        if isinstance(st, (ast.Assign, ast.AugAssign)):
            for t in (st.targets if isinstance(st, ast.Assign) else [st.target]):
                if isinstance(t, ast.Subscript) and isinstance(t.value, ast.Name) and t.value.id == 'window_names':
                    raise TranslationError('window_names[...] is assigned somewhere')

    # create_window
    cw = top.get('create_window')
    if not isinstance(cw, ast.FunctionDef):
        raise TranslationError('create_window not found')
    body = _strip_doc(cw.body)
    table = None
    for i, st in enumerate(body):
        if isinstance(st, ast.Assign) and len(st.targets) == 1 and isinstance(st.targets[0], ast.Name) and st.targets[0].id == 'windows_with_parameters':
            if table is not None:
                raise TranslationError('windows_with_parameters assigned twice')
            table = st.value
            st.value = ast.Name('TABLE', ast.Load())
    if not isinstance(table, ast.Dict):
        raise TranslationError('windows_with_parameters is not a dict literal inside create_window')
    _expect_same(cw, CREATE_WINDOW_SKELETON, 'create_window')
    routes = []; route_defaults = []
    for k, v in zip(table.keys, table.values):
        if not (isinstance(k, ast.Constant) and isinstance(k.value, str) and isinstance(v, ast.Dict)):
            raise TranslationError('windows_with_parameters entry is not "str": {...}')
        if k.value in [a for a, _ in routes]:
            raise TranslationError('windows_with_parameters has the key %r twice' % k.value)
        ps = []; ds = []
        for pk, pv in zip(v.keys, v.values):
            if not (isinstance(pk, ast.Constant) and isinstance(pk.value, str)):
                raise TranslationError('parameter name in windows_with_parameters[%r] is not a string literal' % k.value)
            ref = _is_defaults_ref(pv)
            if ref is None:
                raise TranslationError('default of %r/%r is not eval(window_names["..."]).__defaults__[i]' % (k.value, pk.value))
            if pk.value in ps:
                raise TranslationError('parameter %r listed twice for %r' % (pk.value, k.value))
            ps.append(pk.value); ds.append((pk.value, ref[0], ref[1]))
        routes.append((k.value, ps)); route_defaults.append((k.value, ds))

    # generator signatures
    sigs = []
    gens = []
    for _, g in names:
        if g not in gens:
            gens.append(g)
    for g in gens:
        fn = top.get(g)
        if not isinstance(fn, ast.FunctionDef):
            raise TranslationError('generator %s (a value of window_names) is not a module-level def' % g)
        a = fn.args
        if a.vararg or a.kwarg or a.kwonlyargs or a.posonlyargs or fn.decorator_list:
            raise TranslationError('generator %s has */**/keyword-only parameters or decorators' % g)
        if not a.args or a.args[0].arg != 'N':
            raise TranslationError('first parameter of %s is not N' % g)
        nd = len(a.defaults)
        if nd != len(a.args) - 1:
            raise TranslationError('%s: N must be the only parameter without default' % g)
        kws = []
        for arg, d in zip(a.args[1:], a.defaults):
            kws.append((arg.arg, _lit(d, '%s(%s=...)' % (g, arg.arg))))
        sigs.append((g, kws))
    # the __defaults__[i] references must exist (eval(...).__defaults__[i] is evaluated on every call)
    sigd = dict(sigs); named = dict(names)
    for k, ds in route_defaults:
        for p, ref, i in ds:
            if ref not in named:
                raise TranslationError('windows_with_parameters[%r][%r] reads window_names[%r] which does not exist' % (k, p, ref))
            if i >= len(sigd[named[ref]]) or i < 0:
                raise TranslationError('windows_with_parameters[%r][%r] reads __defaults__[%d] of %s which has %d defaults'
                                       % (k, p, i, named[ref], len(sigd[named[ref]])))

    # Window.__init__, getters, properties
    wc = top.get('Window')
    if not isinstance(wc, ast.ClassDef):
        raise TranslationError('class Window not found')
    meths = {}; props = {}
    for st in wc.body:
        if isinstance(st, ast.FunctionDef):
            if st.name in meths:
                raise TranslationError('Window.%s defined twice' % st.name)
            meths[st.name] = st
        elif isinstance(st, ast.Assign) and len(st.targets) == 1 and isinstance(st.targets[0], ast.Name):
            v = st.value
            if isinstance(v, ast.Call) and isinstance(v.func, ast.Name) and v.func.id == 'property':
                fget = [kw.value for kw in v.keywords if kw.arg == 'fget']
                if v.args or len(fget) != 1 or not isinstance(fget[0], ast.Name) or any(kw.arg in ('fset', 'fdel') for kw in v.keywords):
                    raise TranslationError('Window.%s: property(...) not of the form property(fget=<name>, doc=...)' % st.targets[0].id)
                if st.targets[0].id in props:
                    raise TranslationError('Window.%s assigned twice' % st.targets[0].id)
                props[st.targets[0].id] = fget[0].id
            elif st.targets[0].id in PROPERTIES:
                raise TranslationError('Window.%s is not a property' % st.targets[0].id)
    if '__init__' not in meths:
        raise TranslationError('Window.__init__ not found')
    _expect_same(meths['__init__'], WINDOW_INIT_SKELETON, 'Window.__init__')
    for g, srcg in GETTERS.items():
        if g not in meths:
            raise TranslationError('Window.%s not found' % g)
        _expect_same(meths[g], srcg, 'Window.' + g)
    for p, g in PROPERTIES.items():
        if props.get(p) != g:
            raise TranslationError('Window.%s is not property(fget=%s)' % (p, g))
    for bad in ('__getattr__', '__getattribute__', '__setattr__', '__new__'):
        if bad in meths:
            raise TranslationError('Window defines %s' % bad)
    if wc.decorator_list or wc.keywords or [ast.unparse(b) for b in wc.bases] != ['object']:
        raise TranslationError('class Window has unexpected bases/decorators')

    # enbw
    en = top.get('enbw')
    if not isinstance(en, ast.FunctionDef):
        raise TranslationError('enbw not found')
    _expect_same(en, ENBW_SKELETON, 'enbw')

    # cosine-sum coefficients: top-level "aK = <float literal>" of the generator body
    coeffs = []
    for g, n in COEFF_FUNCS.items():
        fn = top.get(g)
        if not isinstance(fn, ast.FunctionDef):
            raise TranslationError('%s not found' % g)
        cs = {}
        for st in fn.body:
            if isinstance(st, ast.Assign) and len(st.targets) == 1 and isinstance(st.targets[0], ast.Name):
                nm = st.targets[0].id
                if len(nm) == 2 and nm[0] == 'a' and nm[1].isdigit():
                    if nm in cs:
                        raise TranslationError('%s: %s assigned twice' % (g, nm))
                    l = _lit(st.value, '%s: %s' % (g, nm))
                    if l[0] == 'int':
                        l = ('num', l[1], 1)
                    if l[0] != 'num':
                        raise TranslationError('%s: %s is not a numeric literal' % (g, nm))
                    cs[nm] = (l[1], l[2])
        want = ['a%d' % i for i in range(n)]
        if sorted(cs) != want:
            raise TranslationError('%s: expected literals %s, found %s' % (g, want, sorted(cs)))
        coeffs.append((g, [(a, cs[a]) for a in want]))
    return {'names': names, 'routes': routes, 'route_defaults': route_defaults, 'sigs': sigs, 'coeffs': coeffs}


# ----------------------------------------------------------------------------- Gallina
def _s(x):
    return '"%s"' % x


def _z(z):
    return '%d' % z if z >= 0 else '(%d)' % z


def _glit(l):
    if l[0] == 'num':
        return '(LNum %s %d)' % (_z(l[1]), l[2])
    if l[0] == 'int':
        return '(LInt %s)' % _z(l[1])
    if l[0] == 'str':
        return '(LStr %s)' % _s(l[1])
    return 'LNone'


def _list(items, sep='; '):
    return '[' + sep.join(items) + ']'


def gallina(t):
    out = []
    out.append('Definition gen_names : list (string * string) :=\n  ' +
               _list(['(%s, %s)' % (_s(a), _s(b)) for a, b in t['names']], ';\n   ') + '.')
    out.append('Definition gen_routes : list (string * list string) :=\n  ' +
               _list(['(%s, %s)' % (_s(a), _list([_s(p) for p in ps])) for a, ps in t['routes']], ';\n   ') + '.')
    out.append('Definition gen_route_defaults : list (string * list (string * (string * nat))) :=\n  ' +
               _list(['(%s, %s)' % (_s(a), _list(['(%s, (%s, %d%%nat))' % (_s(p), _s(r), i) for p, r, i in ds])) for a, ds in t['route_defaults']], ';\n   ') + '.')
    out.append('Definition gen_sigs : list (string * list (string * lit_t)) :=\n  ' +
               _list(['(%s, %s)' % (_s(g), _list(['(%s, %s)' % (_s(p), _glit(l)) for p, l in kws])) for g, kws in t['sigs']], ';\n   ') + '.')
    out.append('Definition gen_coeffs : list (string * list (string * (Z * positive))) :=\n  ' +
               _list(['(%s, %s)' % (_s(g), _list(['(%s, cq %s %d)' % (_s(a), _z(n), d) for a, (n, d) in cs])) for g, cs in t['coeffs']], ';\n   ') + '.')
    return '\n'.join(out) + '\n'


def translate_file(path):
    src = open(path).read()
    t = extract(src)
    return t, gallina(t)


if __name__ == '__main__':
    import sys
    t, g = translate_file(sys.argv[1])
    print(g)
