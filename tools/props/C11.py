"""C11 — Linear-prediction representations convert losslessly into each other."""
import math
import numpy as np
from props._loopir import loopir_tie, TRUSTED_LINE
import vlib
from vlib import cz, czl, tolq

LEVEL_TEXT = ("Theorems in Coq over an abstract field with conjugation (every order, by induction): one step down undoes one step up "
              "and conversely when |k|^2 <> 1; poly2rc(rc2poly k) = k and rc2poly(poly2rc a) = a; the final error of rc2poly is "
              "r0*prod(1-|k|^2); ac2poly = rc2poly o ac2rc; rlevinson inverts LEVINSON (poly2ac(ac2poly r) = r, rc2ac(ac2rc r) = r) and, "
              "in an ordered *-field with r0 > 0 and |k| < 1, LEVINSON inverts rlevinson; the LSF sum/difference polynomials are "
              "(anti)palindromic, vanish at the roots the code divides out and reconstruct a = (P1+Q1)/2; log-area-ratio and inverse-sine "
              "maps are inverse bijections in Coq's R. The hand-written Gallina model (Model/LinPred.v) is tied to linear_prediction.py / "
              "levinson.py by running both on the same exact dyadic inputs (vm_compute over Gaussian rationals, comparison inside Coq), "
              "including every error branch, and a property-directed search runs every pair of representations on the implementation. "
              "rlevinson itself (the 2-D array U, its column stores, the embedded call of levdown) is moreover translated from the snapshot "
              "source to a loop-IR program on every run and `run program (a, efinal)` is compared with Model.LinPred.rlevinson EXACTLY "
              "(QcC, zero tolerance: same outcome / exception class, every entry of R, U, kr, e, dtype tags; orders 1..5, both dtypes, every "
              "error branch); this equality is a theorem about the generated program for EVERY input and order (Proofs/LoopIRRlevinsonAll.v; T9). "
              "(T6) The conversions THEMSELVES - ac2poly, ac2rc, poly2ac, poly2rc, ar2rc, rc2poly, rc2ac: thin wrappers around LEVINSON / rlevinson / "
              "levup - are translated too, their callees (other modules: imports resolved syntactically, fail-closed) embedded as calls, and "
              "`run program input` is compared EXACTLY with Model.LinPred.{ac2poly, ac2rc, poly2ac, poly2rc, rc2poly, rc2ac} (same outcome / "
              "exception class, every entry, dtype tags; orders <= 5, both dtypes, a[0] != 1, empty / short inputs, non-positive-definite r, k = 1, |k| = 1); "
              "for ac2poly, ac2rc and rc2poly `run program = model` is moreover a theorem (Proofs/LoopIRAc2.v, LoopIRRc2poly.v).")
TRUSTED = [TRUSTED_LINE, "Coq 8.16.1 kernel + vm_compute (no native_compute)",
           "hand-written model coq/Model/LinPred.v (+ Model/Levinson.v), tied to linear_prediction.py/levinson.py by the correspondence run "
           "(float tolerance) and, for LEVINSON / levup / levdown / rlevinson, by the loop-IR tie (exact; theorem for LEVINSON, levup, levdown, "
           "and rlevinson for all inputs and orders) and, for the wrappers "
           "ac2poly / ac2rc / poly2ac / poly2rc / ar2rc / rc2poly / rc2ac, by the loop-IR tie with the callees embedded (exact evaluation on sampled inputs; moreover a theorem "
           "for ac2poly, ac2rc - from LEVINSON's through the call -, for rc2poly - from levup's, by induction over its loop - and for poly2ac, poly2rc, rc2ac - from rlevinson's)",
           "numpy.roots / numpy.poly / scipy.signal.deconvolve inside poly2lsf / lsf2poly: the arguments handed to roots and the values "
           "returned by poly are captured on the unmodified snapshot and compared with the model; root finding itself is not verified",
           "numpy.arctanh/tanh/arcsin/sin (lar/is): compared with math.log1p/expm1/asin/sin; the Coq theorems about them are over stdlib Reals",
           "Python harness (snapshot, generators, float->dyadic conversion)"]
UNPROVED = ["LSF: the roots of the sum/difference polynomials lie on the unit circle, interlace and give strictly increasing angles in (0,pi) "
            "(Hermite-Biehler argument): search only",
            "minimum phase (roots inside the unit disc) <=> |k_i| < 1: search only",
            "positive definiteness of the autocorrelation returned by rc2ac/poly2ac beyond 'LEVINSON returns on it with the same k': search (Toeplitz equations)",
            "lar/is: theorems are about ln/tanh/asin/sin in R, the numpy float functions are tied by an oracle comparison only",
            "loop-IR tie: ar2rc (raises NotImplementedError) by evaluation only; "
            "ac2poly / ac2rc: theorem for non-empty data, float dtype only for real-valued data with a positive lag 0; "
            "the dtype tag of rc2poly's polynomial is not compared (IR scalars carry no dtype)"]
ASSUMPTIONS = ["exact arithmetic in the theorems; rounding error of the binary64 code is not bounded by any theorem",
               "inputs of the correspondence run are dyadic rationals with few significant bits, orders <= 8, |k| <= 0.9",
               "search: orders 1..16, |k| <= 0.98, cases with prod 1/(1-|k|^2) > 1e6 are regenerated (counted)"]
RULE = ("reflection-coefficient sets (real/complex, orders 1..8 exact in Coq with k in Z[i]/16, orders 1..16 with |k| <= 0.98 in the search), "
        "autocorrelations of random data, polynomials from roots inside the unit disc, increasing LSF vectors, every error branch; "
        "a case is non-trivial when the order is >= 2; distinct = distinct (function, input) hashes")

PRE = """Require Import Spectrum.Theory.Ops Spectrum.Theory.Vec Spectrum.Model.Levinson Spectrum.Model.LinPred Spectrum.Instances.QcC Spectrum.Instances.QcCEq_C11.
From Coq Require Import QArith Qcanon.
Local Open Scope Z_scope.
Definition close tol := qcc_close_rel tol (dy 1 0).
Definition rc2poly_case (tol : Qc) (k : list QcC) (r0 : QcC) (raised : bool) (ia : list QcC) (ie : QcC) : bool :=
  match @rc2poly _ qcc_ops k r0 with None => raised | Some (a, e) => negb raised && close tol a ia && close tol [e] [ie] end.
Definition Urows (st : list (list QcC * QcC)) : list (list QcC) :=
  map (fun i => map (fun m => @Umat _ qcc_ops st i m) (seq 0 (S (length st)))) (seq 0 (S (length st))).
Definition rlev_case (tol : Qc) (a : list QcC) (e : QcC) (raised : bool) (iR ik ie : list QcC) (iU : list (list QcC)) : bool :=
  match @rlevinson _ qcc_ops _ a e with None => raised
  | Some (R, st, kr, es) => negb raised && close tol R iR && close tol kr ik && close tol es ie
      && Nat.eqb (length iU) (S (length st)) && forallb (fun p => close tol (fst p) (snd p)) (combine (Urows st) iU) end.
Definition optl_case (tol : Qc) (m : option (list QcC)) (raised : bool) (iv : list QcC) : bool :=
  match m with None => raised | Some v => negb raised && close tol v iv end.
Definition poly2rc_case tol a e := optl_case tol (@poly2rc _ qcc_ops _ a e).
Definition poly2ac_case tol a e := optl_case tol (@poly2ac _ qcc_ops _ a e).
Definition rc2ac_case tol k r0 := optl_case tol (@rc2ac _ qcc_ops _ k r0).
Definition ac2poly_case (tol : Qc) (r : list QcC) (raised : bool) (ia : list QcC) (ie : QcC) : bool :=
  match @ac2poly _ qcc_ops r with None => raised | Some (a, e) => negb raised && close tol a ia && close tol [e] [ie] end.
Definition ac2rc_case (tol : Qc) (r : list QcC) (raised : bool) (ik : list QcC) (i0 : QcC) : bool :=
  match @ac2rc _ qcc_ops r with None => raised | Some (k, r0) => negb raised && close tol k ik && close tol [r0] [i0] end.
Definition levdown_case (tol : Qc) (a : list QcC) (e : QcC) (raised : bool) (ia : list QcC) (ie : QcC) : bool :=
  match @levdown_chk _ qcc_ops _ a e with None => raised | Some (a', e') => negb raised && close tol a' ia && close tol [e'] [ie] end.
Definition allzero (l : list QcC) : bool := forallb (fun z => qcc_eqb z (dy 0 0, dy 0 0)) l.
(* poly2lsf: the polynomials handed to numpy.roots; the two divisions leave no remainder *)
Definition lsf_pq_case (tol : Qc) (a iP iQ : list QcC) : bool :=
  let '((P, rP), (Q, rQ)) := @lsf_PQ _ qcc_ops a in
  close tol P iP && close tol Q iQ && allzero rP && allzero rQ.
(* lsf2poly: from the values numpy.poly returned to the result *)
Definition lsf_comb_case (tol : Qc) (p : nat) (P Q ia : list QcC) : bool :=
  close tol (@lsf_combine _ qcc_ops p P Q) ia.
"""

EXC = (ValueError, AssertionError, IndexError)
B = lambda b: 'true' if b else 'false'


# ----------------------------------------------------------------------------- generators
def lowbit_k(rng, p, cplx):
    """reflection coefficients in Z[i]/16 with |k| <= 0.9"""
    if cplx:
        k = (rng.integers(-12, 13, size=p) + 1j * rng.integers(-12, 13, size=p)) / 16.0
        k = np.where(np.abs(k) > 0.9, k / 2, k)
        if not np.any(k.imag):
            k[0] = k[0].real + 0.25j
    else:
        k = rng.integers(-14, 15, size=p) / 16.0
    return k


def search_k(rng, p, cplx):
    """|k| <= 0.98; mostly moderate, often one or two close to the bound"""
    mag = rng.uniform(0, 0.75, size=p)
    for _ in range(int(rng.integers(0, 3))):
        mag[int(rng.integers(0, p))] = rng.uniform(0.9, 0.98)
    if rng.random() < 0.1:
        mag[int(rng.integers(0, p))] = 0.98
    if cplx:
        return mag * np.exp(2j * np.pi * rng.random(p))
    return mag * rng.choice([-1.0, 1.0], size=p)


def grid(v, bits):
    s = float(1 << bits)
    v = np.asarray(v)
    if np.iscomplexobj(v):
        return np.round(v.real * s) / s + 1j * np.round(v.imag * s) / s
    return np.round(v * s) / s


def kappa_of(k):
    return float(1.0 / np.prod(1 - np.abs(np.asarray(k)) ** 2))


def lowbit(rng, n, cplx, bits=3):
    s = 1 << bits
    x = rng.integers(-s, s + 1, size=n).astype(float)
    if cplx:
        x = x + 1j * rng.integers(-s, s + 1, size=n)
    if not np.any(x):
        x[0] = 1
    return x


def acorr_int(x, p):
    N = len(x)
    return np.array([np.sum(x[k:] * np.conj(x[:N - k])) for k in range(p + 1)])


# ----------------------------------------------------------------------------- capture of the library calls inside poly2lsf / lsf2poly
class Capture:
    """records the arguments of numpy.roots and the results of numpy.poly while the (unmodified) snapshot code runs"""

    def __enter__(self):
        self.roots_args = []; self.poly_out = []
        self._roots = np.roots; self._poly = np.poly

        def roots(p):
            self.roots_args.append(np.array(p, copy=True))
            return self._roots(p)

        def poly(z):
            out = self._poly(z)
            self.poly_out.append(np.atleast_1d(np.array(out, copy=True)))
            return out
        np.roots = roots; np.poly = poly
        return self

    def __exit__(self, *a):
        np.roots = self._roots; np.poly = self._poly
        return False


# ----------------------------------------------------------------------------- oracles of the search
def toeplitz_residual(R, a, e):
    """max_i | sum_j a_j R(i-j) - e*[i==0] |  with R(-d) = conj R(d)"""
    p = len(a) - 1
    worst = 0.0
    for i in range(p + 1):
        s = 0
        for j in range(p + 1):
            d = i - j
            s = s + a[j] * (R[d] if d >= 0 else np.conj(R[-d]))
        worst = max(worst, abs(s - (e if i == 0 else 0)))
    return worst


def maxdiff(x, y):
    x = np.asarray(x); y = np.asarray(y)
    if x.shape != y.shape:
        return np.inf
    if x.size == 0:
        return 0.0
    d = np.max(np.abs(x - y))
    return d if np.isfinite(d) else np.inf


def check_chain(k, r0, tag):
    """all pairs of {ac, poly+e, rc+r0} starting from reflection coefficients; list of (key, what)"""
    from spectrum.linear_prediction import rc2poly, poly2rc, rc2ac, poly2ac, ac2poly, ac2rc
    bad = []
    k = np.asarray(k); p = len(k); kap = kappa_of(k)
    a, e = rc2poly(k, r0)
    amax = max(1.0, float(np.max(np.abs(a))))
    tol = 1e-9 * kap * amax

    def fail(key, what):
        bad.append(('%s/%s' % (key, tag), what))
    if len(a) != p + 1 or a[0] != 1:
        fail('shape/rc2poly', 'polynomial of order %d has length %d, a[0]=%r' % (p, len(a), a[0] if len(a) else None))
        return bad
    if abs(e - r0 / kap) > 1e-9 * r0:
        fail('error/rc2poly', 'final error %r != r0*prod(1-|k|^2) = %r' % (e, r0 / kap))
    k2 = poly2rc(a, e)
    if maxdiff(k2, k) > tol:
        fail('roundtrip/poly2rc(rc2poly)', 'poly2rc(rc2poly(k)) differs from k by %.3g' % maxdiff(k2, k))
    a2, e2 = rc2poly(k2, r0)
    if maxdiff(a2, a) > tol:
        fail('roundtrip/rc2poly(poly2rc)', 'rc2poly(poly2rc(a)) differs from a by %.3g' % maxdiff(a2, a))
    R = rc2ac(k, r0)
    if len(R) != p + 1:
        fail('shape/rc2ac', 'autocorrelation of order %d has length %d' % (p, len(R))); return bad
    if abs(R[0] - r0) > 1e-9 * kap * r0:
        fail('zero-lag/rc2ac', 'R[0] = %r, r0 = %r' % (R[0], r0))
    tolR = tol * r0 * (p + 1)
    res = toeplitz_residual(R, a, e)
    if not res <= tolR:
        fail('toeplitz/rc2ac', 'the autocorrelation from rc2ac does not satisfy T[1,a] = [e,0..0] (residual %.3g)' % res)
    Rp = poly2ac(a, e)
    if maxdiff(Rp, R) > tolR:
        fail('commute/rc2ac=poly2ac(rc2poly)', 'differ by %.3g' % maxdiff(Rp, R))
    if not np.iscomplexobj(k) and float(np.max(np.abs(np.imag(R)))) != 0.0:
        fail('real/rc2ac', 'real coefficients give an autocorrelation with non-zero imaginary part')
    Rin = R if np.iscomplexobj(k) else np.real(R)
    try:
        a3, e3 = ac2poly(Rin)
        k3, r03 = ac2rc(Rin)
    except ValueError as ex:
        fail('pd/ac2poly(rc2ac)', 'LEVINSON raised %r on the autocorrelation of an admissible parameter set' % ex); return bad
    if maxdiff(a3, a) > tol * (p + 1) or abs(e3 - e) > 1e-9 * kap * kap * abs(e) * (p + 1):
        fail('roundtrip/ac2poly(rc2ac)', 'ac2poly(rc2ac(k)) differs from rc2poly(k): %.3g, error %r vs %r' % (maxdiff(a3, a), e3, e))
    if maxdiff(k3, k) > tol * (p + 1) or abs(r03 - r0) > 1e-9 * kap * r0:
        fail('roundtrip/ac2rc(rc2ac)', 'ac2rc(rc2ac(k)) differs from k by %.3g, r0 %r vs %r' % (maxdiff(k3, k), r03, r0))
    a4, e4 = rc2poly(k3, r03)
    if maxdiff(a4, a3) > tol or abs(e4 - e3) > 1e-9 * kap * abs(e3):
        fail('commute/ac2poly=rc2poly(ac2rc)', 'differ by %.3g, error %r vs %r' % (maxdiff(a4, a3), e4, e3))
    k5 = poly2rc(a3, e3)
    if maxdiff(k5, k3) > tol * (p + 1):
        fail('commute/ac2rc=poly2rc(ac2poly)', 'differ by %.3g' % maxdiff(k5, k3))
    R6 = poly2ac(a3, e3)
    if maxdiff(R6, R) > tolR * (p + 1):
        fail('roundtrip/poly2ac(ac2poly)', 'poly2ac(ac2poly(R)) differs from R by %.3g' % maxdiff(R6, R))
    R7 = rc2ac(k3, r03)
    if maxdiff(R7, R) > tolR * (p + 1):
        fail('roundtrip/rc2ac(ac2rc)', 'rc2ac(ac2rc(R)) differs from R by %.3g' % maxdiff(R7, R))
    if kap < 1e4:
        rt = np.roots(a)
        if len(rt) and np.max(np.abs(rt)) >= 1 + 1e-7:
            fail('minimum-phase/rc2poly', '|k|<1 but a root has modulus %.8f' % np.max(np.abs(rt)))
    return bad


def check_from_ac(r, tag):
    """start from a positive-definite autocorrelation"""
    from spectrum.linear_prediction import rc2poly, poly2rc, rc2ac, poly2ac, ac2poly, ac2rc
    bad = []
    r = np.asarray(r); p = len(r) - 1

    def fail(key, what):
        bad.append(('%s/%s' % (key, tag), what))
    a, e = ac2poly(r)
    k, r0 = ac2rc(r)
    kap = kappa_of(k); amax = max(1.0, float(np.max(np.abs(a))))
    if kap > 1e6:
        return None
    tol = 1e-9 * kap * amax * (p + 1); sc = float(abs(r[0]))
    if not (np.all(np.abs(k) < 1) and e > 0):
        fail('pd/ac2rc', 'positive-definite autocorrelation gives max|k| = %r, e = %r' % (np.max(np.abs(k)), e))
    if abs(r0 - r[0]) != 0:
        fail('zero-lag/ac2rc', 'r0 = %r, r[0] = %r' % (r0, r[0]))
    res = toeplitz_residual(r, a, e)
    if not res <= tol * sc:
        fail('toeplitz/ac2poly', 'T[1,a] != [e,0..0] (residual %.3g)' % res)
    R1 = poly2ac(a, e)
    if maxdiff(R1, r) > tol * sc:
        fail('roundtrip/poly2ac(ac2poly)', 'differs from r by %.3g' % maxdiff(R1, r))
    R2 = rc2ac(k, r0)
    if maxdiff(R2, r) > tol * sc:
        fail('roundtrip/rc2ac(ac2rc)', 'differs from r by %.3g' % maxdiff(R2, r))
    a2, e2 = rc2poly(k, r0)
    if maxdiff(a2, a) > tol or abs(e2 - e) > 1e-9 * kap * abs(e) * (p + 1):
        fail('commute/ac2poly=rc2poly(ac2rc)', 'differ by %.3g, error %r vs %r' % (maxdiff(a2, a), e2, e))
    k2 = poly2rc(a, e)
    if maxdiff(k2, k) > tol:
        fail('commute/ac2rc=poly2rc(ac2poly)', 'differ by %.3g' % maxdiff(k2, k))
    return bad


def check_from_poly(a, efinal, tag):
    """start from a minimum-phase polynomial (roots inside the unit disc)"""
    from spectrum.linear_prediction import rc2poly, poly2rc, poly2ac, ac2poly
    bad = []
    a = np.asarray(a); p = len(a) - 1

    def fail(key, what):
        bad.append(('%s/%s' % (key, tag), what))
    k = poly2rc(a, efinal)
    if not np.all(np.abs(k) < 1):
        fail('minimum-phase/poly2rc', 'roots inside the unit disc but max|k| = %r' % np.max(np.abs(k))); return bad
    kap = kappa_of(k)
    if kap > 1e6:
        return None
    amax = max(1.0, float(np.max(np.abs(a)))); tol = 1e-9 * kap * amax * (p + 1)
    r0 = efinal * kap
    a2, e2 = rc2poly(k, r0)
    if maxdiff(a2, a) > tol:
        fail('roundtrip/rc2poly(poly2rc)', 'differs from a by %.3g' % maxdiff(a2, a))
    if abs(e2 - efinal) > 1e-9 * kap * efinal:
        fail('error/rc2poly(poly2rc)', 'error %r, expected %r' % (e2, efinal))
    R = poly2ac(a, efinal)
    if abs(R[0] - r0) > 1e-9 * kap * r0:
        fail('zero-lag/poly2ac', 'R[0] = %r, efinal/prod(1-|k|^2) = %r' % (R[0], r0))
    Rin = R if np.iscomplexobj(a) else np.real(R)
    try:
        a3, e3 = ac2poly(Rin)
    except ValueError as ex:
        fail('pd/ac2poly(poly2ac)', 'LEVINSON raised %r' % ex); return bad
    if maxdiff(a3, a) > tol * (p + 1) or abs(e3 - efinal) > 1e-9 * kap * kap * efinal * (p + 1):
        fail('roundtrip/ac2poly(poly2ac)', 'differs from (a, e) by %.3g, %r vs %r' % (maxdiff(a3, a), e3, efinal))
    return bad


def check_lsf(a, tag):
    """real minimum-phase a: poly2lsf gives p strictly increasing angles in (0,pi) and lsf2poly returns a"""
    from spectrum.linear_prediction import poly2lsf, lsf2poly
    bad = []
    a = np.asarray(a, dtype=float); p = len(a) - 1

    def fail(key, what):
        bad.append(('%s/%s' % (key, tag), what))
    lsf = np.asarray(poly2lsf(a.copy()), dtype=float)
    if len(lsf) != p:
        fail('lsf-count/poly2lsf', 'order %d gives %d frequencies' % (p, len(lsf))); return bad, None
    ext = np.concatenate(([0.0], lsf, [np.pi]))
    gap = float(np.min(np.diff(ext)))
    if gap < 1e-4:
        return None, gap                      # nearly coincident frequencies: ill-conditioned, regenerate
    if not (np.all(np.diff(lsf) > 0) and lsf[0] > 0 and lsf[-1] < np.pi):
        fail('lsf-increasing/poly2lsf', 'frequencies are not strictly increasing inside (0,pi): %r' % lsf.tolist())
        return bad, gap
    a2 = lsf2poly(lsf)
    if maxdiff(a2, a) > 1e-7 / gap * max(1.0, float(np.max(np.abs(a)))):
        fail('roundtrip/lsf2poly(poly2lsf)', 'differs from a by %.3g' % maxdiff(a2, a))
    return bad, gap


def check_lsf_from(lsf, tag):
    from spectrum.linear_prediction import poly2lsf, lsf2poly
    bad = []
    lsf = np.asarray(lsf, dtype=float); p = len(lsf)
    a = lsf2poly(lsf)
    gap = float(np.min(np.diff(np.concatenate(([0.0], lsf, [np.pi])))))
    if len(a) != p + 1 or abs(a[0] - 1) > 1e-12 or np.iscomplexobj(a) and np.max(np.abs(np.imag(a))) > 1e-12:
        bad.append(('shape/lsf2poly/' + tag, 'not a real monic polynomial of order %d: %r' % (p, a))); return bad
    rt = np.roots(a)
    if len(rt) and np.max(np.abs(rt)) >= 1 - 1e-9:
        bad.append(('minimum-phase/lsf2poly/' + tag, 'interlaced frequencies but a root has modulus %.9f' % np.max(np.abs(rt)))); return bad
    if np.max(np.abs(rt)) > 1 - 1e-4:
        return None
    lsf2 = np.asarray(poly2lsf(np.real(a).copy()), dtype=float)
    if maxdiff(lsf2, lsf) > 1e-7 / gap:
        bad.append(('roundtrip/poly2lsf(lsf2poly)/' + tag, 'differs from lsf by %.3g' % maxdiff(lsf2, lsf)))
    return bad


def check_lar_is(k, tag='real'):
    from spectrum.linear_prediction import rc2lar, lar2rc, rc2is, is2rc
    bad = []
    k = np.asarray(k, dtype=float)
    g = np.asarray(rc2lar(k)); s = np.asarray(rc2is(k))
    g_or = np.array([math.log1p(t) - math.log1p(-t) for t in k])
    s_or = np.array([2 / math.pi * math.asin(t) for t in k])
    if g.shape != k.shape or np.max(np.abs(g - g_or) / np.maximum(1e-300, np.abs(g_or) + 1e-3)) > 1e-11:
        bad.append(('oracle/rc2lar/' + tag, 'rc2lar(k) != log((1+k)/(1-k))'))
    if s.shape != k.shape or np.max(np.abs(s - s_or)) > 1e-13:
        bad.append(('oracle/rc2is/' + tag, 'rc2is(k) != (2/pi) asin(k)'))
    kb = np.asarray(lar2rc(g)); ks = np.asarray(is2rc(s))
    if np.max(np.abs(kb - k)) > 1e-13:
        bad.append(('roundtrip/lar2rc(rc2lar)/' + tag, 'differs from k by %.3g' % np.max(np.abs(kb - k))))
    if np.max(np.abs(ks - k)) > 1e-13:
        bad.append(('roundtrip/is2rc(rc2is)/' + tag, 'differs from k by %.3g' % np.max(np.abs(ks - k))))
    o = np.argsort(k); ku = k[o]
    strict = np.diff(ku) > 1e-9
    if np.any(np.diff(g[o])[strict] <= 0) or np.any(np.diff(s[o])[strict] <= 0):
        bad.append(('monotone/rc2lar,rc2is/' + tag, 'not strictly increasing'))
    if np.any(np.abs(s) >= 1):
        bad.append(('range/rc2is/' + tag, 'inverse sine parameter outside (-1,1)'))
    return bad


def check_lar_is_back(g, s, tag='real'):
    """start from log-area ratios g (any real) and inverse-sine parameters s in (-1,1)"""
    from spectrum.linear_prediction import rc2lar, lar2rc, rc2is, is2rc
    bad = []
    g = np.asarray(g, dtype=float); s = np.asarray(s, dtype=float)
    k = np.asarray(lar2rc(g))
    k_or = np.array([math.expm1(t) / (math.expm1(t) + 2) for t in g])
    if k.shape != g.shape or np.max(np.abs(k - k_or)) > 1e-14:
        bad.append(('oracle/lar2rc/' + tag, 'lar2rc(g) != (e^g-1)/(e^g+1)'))
    if np.any(np.abs(k) >= 1):
        bad.append(('range/lar2rc/' + tag, 'reflection coefficient of modulus >= 1')); return bad
    g2 = np.asarray(rc2lar(k))
    if np.max(np.abs(g2 - g) / (np.cosh(g / 2) ** 2)) > 1e-13 * 4:
        bad.append(('roundtrip/rc2lar(lar2rc)/' + tag, 'differs from g by %.3g' % np.max(np.abs(g2 - g))))
    k2 = np.asarray(is2rc(s))
    k2_or = np.array([math.sin(t * math.pi / 2) for t in s])
    if np.max(np.abs(k2 - k2_or)) > 1e-14:
        bad.append(('oracle/is2rc/' + tag, 'is2rc(s) != sin(pi s/2)'))
    inside = np.abs(k2) < 1
    if np.any(inside):
        s2 = np.asarray(rc2is(k2[inside]))
        if np.max(np.abs(s2 - s[inside]) * np.sqrt(1 - np.abs(k2[inside]) + 1e-16)) > 1e-13 * 40:
            bad.append(('roundtrip/rc2is(is2rc)/' + tag, 'differs from s by %.3g' % np.max(np.abs(s2 - s[inside]))))
    return bad


def error_branches_ok():
    """the guards of the closed-form maps; list of (key, what)"""
    from spectrum.linear_prediction import rc2lar, lar2rc, rc2is
    bad = []
    for f, name in ((rc2lar, 'rc2lar'), (rc2is, 'rc2is')):
        for v in ([0.5, 1.0], [-1.0], [0.2, -1.5]):
            try:
                f(v)
                bad.append(('guard/%s/modulus>=1' % name, 'no exception for %r' % (v,)))
            except ValueError:
                pass
        try:
            f(np.array([0.5 + 0.1j]))
            bad.append(('guard/%s/complex' % name, 'no exception for complex input'))
        except AssertionError:
            pass
    try:
        lar2rc(np.array([0.5 + 0.1j]))
        bad.append(('guard/lar2rc/complex', 'no exception for complex input'))
    except AssertionError:
        pass
    return bad


# ----------------------------------------------------------------------------- replay
def replay(rep):
    if rep['replay'].get('protocol') == 'values_only':
        from props import _purity
        return _purity.replay_protocol(rep['replay'])
    r = rep['replay']; kind = r.get('kind')
    try:
        if kind == 'chain':
            return not check_chain(vlib.unhexv(r['k']), float.fromhex(r['r0']), r.get('tag', 'replay'))
        if kind == 'from_ac':
            return not check_from_ac(vlib.unhexv(r['r']), r.get('tag', 'replay'))
        if kind == 'from_poly':
            return not check_from_poly(vlib.unhexv(r['a']), float.fromhex(r['e']), r.get('tag', 'replay'))
        if kind == 'lsf':
            return not check_lsf(vlib.unhexv(r['a']), r.get('tag', 'replay'))[0]
        if kind == 'lsf_from':
            return not check_lsf_from(vlib.unhexv(r['lsf']), r.get('tag', 'replay'))
        if kind == 'lar_is':
            return not check_lar_is(vlib.unhexv(r['k']))
        if kind == 'lar_is_back':
            return not check_lar_is_back(vlib.unhexv(r['g']), vlib.unhexv(r['s']))
        if kind == 'guards':
            return not error_branches_ok()
    except Exception:
        return False
    return True


# ----------------------------------------------------------------------------- run
def run(ctx):
    from spectrum.linear_prediction import rc2poly, poly2rc, rc2ac, poly2ac, ac2poly, ac2rc, poly2lsf, lsf2poly
    from spectrum.levinson import rlevinson, levdown
    rng = ctx.rng
    ctx.check_theorems('Properties/C11.v')
    # IR programs regenerated from the source vs the hand models: exact, zero tolerance.  rlevinson (2-D array U, column stores, the call of
    # levdown) is translated too: `run program (a, efinal)` = Model.LinPred.rlevinson, same outcome, every entry of R, U, kr, e
    # (T6) the conversions themselves - thin wrappers around LEVINSON / rlevinson / levup - are translated with their callees embedded and compared
    # with Model.LinPred.{ac2poly, ac2rc, poly2ac, poly2rc, rc2poly, rc2ac} (ar2rc: raises NotImplementedError)
    loopir_tie(ctx, ['LEVINSON', 'levup', 'levdown', 'rlevinson', 'ac2poly', 'ac2rc', 'poly2ac', 'poly2rc', 'ar2rc', 'rc2poly', 'rc2ac'])

    def call(f, *args):
        try:
            return False, f(*args)
        except EXC:
            return True, None

    # ---------------- correspondence 1: the step-up / step-down family
    cases = []; meta = []

    def add(expr, m, desc, nontrivial):
        cases.append(expr); meta.append(m); ctx.case(desc, nontrivial=nontrivial, sample=m if len(ctx.samples) < 3 else None)

    n = ctx.q(44, 400)
    made = 0; tries = 0
    while made < n and tries < 20 * n:
        tries += 1
        cplx = bool(rng.integers(0, 2)); p = int(rng.integers(1, 9)); tag = 'complex' if cplx else 'real'
        k = lowbit_k(rng, p, cplx); r0 = float(rng.integers(1, 33)) / 4
        kap = kappa_of(k)
        if kap > 1e4:
            ctx.count('corr_regenerated_illconditioned'); continue
        made += 1
        _, (a, e) = call(rc2poly, k, r0)
        amax = max(1.0, float(np.max(np.abs(a))))
        add('rc2poly_case %s %s %s false %s %s' % (tolq(1e-10 * amax), czl(k), cz(r0), czl(a), cz(e)),
            {'function': 'rc2poly', 'k': vlib.hexv(k), 'r0': r0}, ('rc2poly', k.tobytes(), r0), p >= 2)
        _, R = call(rc2ac, k, r0)
        add('rc2ac_case %s %s %s false %s' % (tolq(1e-9 * kap * amax), czl(k), cz(r0), czl(R)),
            {'function': 'rc2ac', 'k': vlib.hexv(k), 'r0': r0}, ('rc2ac', k.tobytes(), r0), p >= 2)
        # a polynomial on a dyadic grid close to the step-up polynomial (exact input for both sides)
        ag = grid(a, 12); ag[0] = 1; ef = float(rng.integers(1, 33)) / 8
        if not cplx:
            ag = np.real(ag)
        rs, out = call(rlevinson, ag, ef)
        if rs:
            ctx.count('corr_rlevinson_raised_unexpectedly'); continue
        Rg, U, kr, es = out
        kapg = kappa_of(kr)
        if not np.all(np.isfinite(Rg)) or kapg > 1e4 or np.max(np.abs(kr)) >= 0.97:
            ctx.count('corr_regenerated_illconditioned'); continue
        tolg = 1e-9 * kapg * kapg * max(1.0, float(np.max(np.abs(U))))
        add('rlev_case %s %s %s false %s %s %s %s' % (tolq(tolg), czl(ag), cz(ef), czl(Rg), czl(kr), czl(es), '[' + '; '.join(czl(row) for row in U) + ']'),
            {'function': 'rlevinson', 'a': vlib.hexv(ag), 'efinal': ef}, ('rlevinson', ag.tobytes(), ef), p >= 2)
        _, k2 = call(poly2rc, ag, ef)
        add('poly2rc_case %s %s %s false %s' % (tolq(tolg), czl(ag), cz(ef), czl(k2)),
            {'function': 'poly2rc', 'a': vlib.hexv(ag), 'efinal': ef}, ('poly2rc', ag.tobytes(), ef), p >= 2)
        _, R2 = call(poly2ac, ag, ef)
        add('poly2ac_case %s %s %s false %s' % (tolq(tolg), czl(ag), cz(ef), czl(R2)),
            {'function': 'poly2ac', 'a': vlib.hexv(ag), 'efinal': ef}, ('poly2ac', ag.tobytes(), ef), p >= 2)
        if p >= 2:
            rs, out = call(levdown, ag, ef)
            add('levdown_case %s %s %s %s %s %s' % (tolq(tolg), czl(ag), cz(ef), B(rs), czl(out[0]) if not rs else '[]', cz(out[1]) if not rs else cz(0)),
                {'function': 'levdown', 'a': vlib.hexv(ag), 'e': ef}, ('levdown', ag.tobytes(), ef), True)
        ctx.count('corr/stepupdown/%s/order%d' % (tag, p))

    # exhaustive small space: every k on the quarter grid for orders 1 and 2 (real), the half grid for order 1, 2 (complex);
    # includes zero coefficients; the step-up polynomial is exactly representable, so poly2rc gets the exact input
    import itertools
    vals_r = [j / 4.0 for j in range(-3, 4)]
    vals_c = [complex(x, y) / 2.0 for x in (-1, 0, 1) for y in (-1, 0, 1)]
    small = [np.array(t) for p in (1, 2) for t in itertools.product(vals_r, repeat=p)]
    small += [np.array(t) for p in (1, 2) for t in itertools.product(vals_c, repeat=p) if any(z.imag for z in t)]
    if ctx.tier == 'quick':
        small = [small[i] for i in sorted(rng.choice(len(small), size=48, replace=False))]
    for k in small:
        r0 = 2.0; kap = kappa_of(k)
        _, (a, e) = call(rc2poly, k, r0)
        _, R = call(rc2ac, k, r0)
        _, k2 = call(poly2rc, a, e)
        add('rc2ac_case %s %s %s false %s' % (tolq(1e-10 * kap), czl(k), cz(r0), czl(R)), {'function': 'rc2ac', 'k': vlib.hexv(k), 'r0': r0}, ('rc2ac-small', k.tobytes()), len(k) >= 2)
        add('poly2rc_case %s %s %s false %s' % (tolq(1e-10 * kap), czl(a), cz(e), czl(k2)), {'function': 'poly2rc', 'a': vlib.hexv(a), 'efinal': float(np.real(e))}, ('poly2rc-small', k.tobytes()), len(k) >= 2)
        ctx.count('corr/exhaustive-small')

    # error branches (exact inputs, no tolerance needed)
    for cplx in (False, True):
        for p in range(1, 6):
            k = lowbit_k(rng, p, cplx); a, _ = rc2poly(k, 1.0); a = grid(a, 12); a[0] = 1
            if not cplx:
                a = np.real(a)
            ef = 0.5
            # a[0] != 1
            b = a.copy(); b[0] = 2
            rs, _ = call(rlevinson, b, ef)
            add('rlev_case %s %s %s %s [] [] [] []' % (tolq(1e-9), czl(b), cz(ef), B(rs)), {'function': 'rlevinson', 'a': vlib.hexv(b), 'branch': 'a[0]!=1'}, ('rlev-a0', b.tobytes()), False)
            rs, _ = call(levdown, b, ef)
            add('levdown_case %s %s %s %s [] %s' % (tolq(1e-9), czl(b), cz(ef), B(rs), cz(0)), {'function': 'levdown', 'a': vlib.hexv(b), 'branch': 'a[0]!=1'}, ('levdown-a0', b.tobytes()), False)
            # last coefficient == 1 (order >= 2: the ValueError of levdown)
            if p >= 2:
                c = a.copy(); c[-1] = 1
                for f, nm, expr in ((rlevinson, 'rlevinson', 'rlev_case %s %s %s %s [] [] [] []'), (poly2rc, 'poly2rc', 'poly2rc_case %s %s %s %s []'),
                                    (poly2ac, 'poly2ac', 'poly2ac_case %s %s %s %s []')):
                    rs, _ = call(f, c, ef)
                    add(expr % (tolq(1e-9), czl(c), cz(ef), B(rs)), {'function': nm, 'a': vlib.hexv(c), 'branch': 'k==1'}, (nm + '-k1', c.tobytes()), True)
                rs, _ = call(levdown, c, ef)
                add('levdown_case %s %s %s %s [] %s' % (tolq(1e-9), czl(c), cz(ef), B(rs), cz(0)), {'function': 'levdown', 'a': vlib.hexv(c), 'branch': 'k==1'}, ('levdown-k1', c.tobytes()), True)
                kk = k.copy(); kk[-1] = 1
                rs, _ = call(rc2ac, kk, 1.0)
                add('rc2ac_case %s %s %s %s []' % (tolq(1e-9), czl(kk), cz(1.0), B(rs)), {'function': 'rc2ac', 'k': vlib.hexv(kk), 'branch': 'k==1'}, ('rc2ac-k1', kk.tobytes()), True)
            ctx.count('corr/error-branches')
    rs, _ = call(rlevinson, np.array([1.0]), 0.5)
    add('rlev_case %s %s %s %s [] [] [] []' % (tolq(1e-9), czl([1.0]), cz(0.5), B(rs)), {'function': 'rlevinson', 'branch': 'len<2'}, 'rlev-short', False)
    rs, _ = call(rc2poly, [], 1.0)
    add('rc2poly_case %s [] %s %s [] %s' % (tolq(1e-9), cz(1.0), B(rs), cz(0)), {'function': 'rc2poly', 'branch': 'empty'}, 'rc2poly-empty', False)
    rs, _ = call(ac2poly, [])
    add('ac2poly_case %s [] %s [] %s' % (tolq(1e-9), B(rs), cz(0)), {'function': 'ac2poly', 'branch': 'empty'}, 'ac2poly-empty', False)
    rs, _ = call(ac2rc, [])
    add('ac2rc_case %s [] %s [] %s' % (tolq(1e-9), B(rs), cz(0)), {'function': 'ac2rc', 'branch': 'empty'}, 'ac2rc-empty', False)
    for i in ctx.coq_cases('c11_stepupdown', PRE, cases, shard=60, descr='rc2poly, rc2ac, rlevinson (R, U, kr, e), poly2rc, poly2ac, levdown and their error branches vs Model.LinPred at QcC'):
        ctx.corr_disagreement(meta[i]['function'], i, meta[i])

    # ---------------- correspondence 2: ac2poly / ac2rc (LEVINSON at full order) and the LSF algebra
    cases = []; meta = []
    n = ctx.q(40, 300); made = 0; tries = 0
    while made < n and tries < 20 * n:
        tries += 1
        cplx = bool(rng.integers(0, 2)); p = int(rng.integers(0, 9)); N = p + int(rng.integers(2, 14))
        kind = str(rng.choice(['acorr', 'acorr', 'acorr', 'indef']))
        r = acorr_int(lowbit(rng, N, cplx), p)
        if kind == 'indef' and p >= 1:
            j = int(rng.integers(1, p + 1)); r = r.copy(); r[j] = r[j] + (3 + rng.integers(0, 3)) * np.real(r[0])
        if not cplx:
            r = np.real(r)
        rs, out = call(ac2poly, r)
        rs2, out2 = call(ac2rc, r)
        if rs != rs2:
            ctx.violation('raise-agreement/ac2poly,ac2rc/' + ('complex' if cplx else 'real'), 'one of ac2poly/ac2rc raised, the other did not',
                          {'kind': 'from_ac', 'r': vlib.hexv(r)})
        if not rs:
            kap = max(1.0, abs(r[0]) / max(abs(out[1]), 1e-300))
            if kap > 1e4:
                ctx.count('corr_regenerated_illconditioned'); continue
            tol = 1e-9 * kap
            a, e = out; k, r0 = out2
        else:
            tol = 1e-9; a, e, k, r0 = [], 0, [], 0
        made += 1
        add('ac2poly_case %s %s %s %s %s' % (tolq(tol), czl(r), B(rs), czl(a), cz(e)), {'function': 'ac2poly', 'r': vlib.hexv(r), 'raised': rs}, ('ac2poly', r.tobytes()), p >= 2)
        add('ac2rc_case %s %s %s %s %s' % (tolq(tol), czl(r), B(rs2), czl(k), cz(r0)), {'function': 'ac2rc', 'r': vlib.hexv(r), 'raised': rs2}, ('ac2rc', r.tobytes()), p >= 2)
        ctx.count('corr/ac2poly/%s/%s/%s' % ('complex' if cplx else 'real', kind, 'raised' if rs else 'returned'))
    n = ctx.q(30, 250); made = 0; tries = 0
    while made < n and tries < 20 * n:
        tries += 1
        p = int(rng.integers(1, 9)); k = lowbit_k(rng, p, False)
        if kappa_of(k) > 1e4:
            continue
        a, _ = rc2poly(k, 1.0); a = np.real(grid(a, 10)); a[0] = 1
        if np.max(np.abs(np.roots(a))) >= 0.999 if p >= 1 else False:
            continue
        with Capture() as cap:
            try:
                lsf = np.asarray(poly2lsf(a.copy()), dtype=float)
            except Exception:
                ctx.count('corr_lsf_poly2lsf_raised'); continue
        if len(cap.roots_args) != 3:
            ctx.broken.append({'theorem': 'correspondence:poly2lsf (expected 3 calls of numpy.roots)', 'where': 'capture', 'log': repr(len(cap.roots_args))}); break
        P, Q = cap.roots_args[1], cap.roots_args[2]
        made += 1
        add('lsf_pq_case %s %s %s %s' % (tolq(1e-10), czl(a), czl(P), czl(Q)), {'function': 'poly2lsf', 'a': vlib.hexv(a)}, ('poly2lsf', a.tobytes()), p >= 2)
        if len(lsf) == p and np.all(np.diff(np.concatenate(([0], lsf, [np.pi]))) > 1e-3):
            with Capture() as cap:
                a2 = lsf2poly(lsf)
            if len(cap.poly_out) != 2:
                ctx.broken.append({'theorem': 'correspondence:lsf2poly (expected 2 calls of numpy.poly)', 'where': 'capture', 'log': repr(len(cap.poly_out))}); break
            Qo, Po = cap.poly_out
            add('lsf_comb_case %s %d%%nat %s %s %s' % (tolq(1e-12), p, czl(Po), czl(Qo), czl(a2)), {'function': 'lsf2poly', 'lsf': vlib.hexv(lsf)}, ('lsf2poly', lsf.tobytes()), p >= 2)
        ctx.count('corr/lsf/order%d' % p)
    for i in ctx.coq_cases('c11_levinson_lsf', PRE, cases, shard=60, descr='ac2poly, ac2rc (incl. raising), the polynomials poly2lsf hands to numpy.roots, lsf2poly after numpy.poly vs Model.LinPred at QcC'):
        ctx.corr_disagreement(meta[i]['function'], i, meta[i])

    # ---------------- property-directed search on the implementation
    def report(bad, rep):
        for key, what in bad:
            ctx.violation(key, what, rep)

    nreg = 0
    for it in range(ctx.q(400, 4000)):
        cplx = bool(rng.integers(0, 2)); p = int(rng.integers(1, 17)); tag = 'complex' if cplx else 'real'
        k = search_k(rng, p, cplx); r0 = float(10.0 ** rng.uniform(-3, 3))
        if it % 4 == 3:
            r0 = float(10.0 ** rng.uniform(-25, 25))        # every conversion is homogeneous in the zero-lag value / final error
        if kappa_of(k) > 1e6:
            nreg += 1; ctx.count('search_regenerated_illconditioned'); continue
        rep = {'kind': 'chain', 'k': vlib.hexv(k), 'r0': r0.hex(), 'tag': tag}
        ctx.case(('chain', k.tobytes(), r0), nontrivial=(p >= 2), sample={'search': 'chain', 'order': p, 'kind': tag, 'max|k|': float(np.max(np.abs(k)))})
        ctx.count('search/chain/%s/order%s' % (tag, '1' if p == 1 else '2-8' if p <= 8 else '9-16'))
        try:
            report(check_chain(k, r0, tag), rep)
        except Exception as ex:
            ctx.violation('exception/chain/' + tag, 'raised %r on an admissible parameter set' % ex, rep)
    for it in range(ctx.q(120, 1200)):
        cplx = bool(rng.integers(0, 2)); p = int(rng.integers(1, 17)); N = p + int(rng.integers(4, 60)); tag = 'complex' if cplx else 'real'
        x = rng.standard_normal(N) + (1j * rng.standard_normal(N) if cplx else 0)
        if rng.integers(0, 3) == 0:
            t = np.arange(N); f = rng.uniform(0.05, 0.45)
            x = x * 0.3 + (np.exp(2j * np.pi * f * t) if cplx else np.cos(2 * np.pi * f * t))
        r = np.array([np.sum(x[j:] * np.conj(x[:N - j])) / N for j in range(p + 1)])
        if it % 4 == 3:
            r = r * float(10.0 ** rng.uniform(-25, 25))
        if not cplx:
            r = np.real(r)
        rep = {'kind': 'from_ac', 'r': vlib.hexv(r), 'tag': tag}
        try:
            bad = check_from_ac(r, tag)
        except Exception as ex:
            ctx.violation('exception/from_ac/' + tag, 'raised %r on a positive-definite autocorrelation' % ex, rep); continue
        if bad is None:
            ctx.count('search_regenerated_illconditioned'); continue
        ctx.case(('from_ac', r.tobytes()), nontrivial=(p >= 2)); ctx.count('search/from_ac/' + tag)
        report(bad, rep)
    for it in range(ctx.q(120, 1200)):
        cplx = bool(rng.integers(0, 2)); p = int(rng.integers(1, 17)); tag = 'complex' if cplx else 'real'
        if cplx:
            z = rng.uniform(0, 0.9, p) * np.exp(2j * np.pi * rng.random(p))
        else:
            m = p // 2; zz = rng.uniform(0, 0.9, m) * np.exp(1j * np.pi * rng.random(m))
            z = np.concatenate((zz, np.conj(zz), rng.uniform(-0.9, 0.9, p - 2 * m)))
        a = np.poly(z); a = a if cplx else np.real(a)
        ef = float(10.0 ** (rng.uniform(-2, 2) if it % 4 != 3 else rng.uniform(-25, 25)))
        rep = {'kind': 'from_poly', 'a': vlib.hexv(a), 'e': ef.hex(), 'tag': tag}
        try:
            bad = check_from_poly(a, ef, tag)
        except Exception as ex:
            ctx.violation('exception/from_poly/' + tag, 'raised %r on a minimum-phase polynomial' % ex, rep); continue
        if bad is None:
            ctx.count('search_regenerated_illconditioned'); continue
        ctx.case(('from_poly', a.tobytes(), ef), nontrivial=(p >= 2)); ctx.count('search/from_poly/' + tag)
        report(bad, rep)
    # line spectral frequencies (real polynomials)
    for it in range(ctx.q(250, 2500)):
        p = int(rng.integers(1, 17)); k = search_k(rng, p, False)
        if kappa_of(k) > 1e6:
            ctx.count('search_regenerated_illconditioned'); continue
        a, _ = rc2poly(k, 1.0); a = np.real(a)
        tag = 'even' if p % 2 == 0 else 'odd'
        rep = {'kind': 'lsf', 'a': vlib.hexv(a), 'tag': tag}
        try:
            bad, gap = check_lsf(a, tag)
        except Exception as ex:
            ctx.violation('exception/poly2lsf/' + tag, 'raised %r on a minimum-phase real polynomial' % ex, rep); continue
        if bad is None:
            ctx.count('search_lsf_regenerated_coincident'); continue
        ctx.case(('lsf', a.tobytes()), nontrivial=(p >= 2)); ctx.count('search/lsf/' + tag)
        report(bad, rep)
    for it in range(ctx.q(150, 1500)):
        p = int(rng.integers(1, 17)); tag = 'even' if p % 2 == 0 else 'odd'
        lsf = np.sort(rng.uniform(0.02, np.pi - 0.02, p))
        if p > 1 and np.min(np.diff(lsf)) < 2e-2:
            ctx.count('search_lsf_regenerated_coincident'); continue
        rep = {'kind': 'lsf_from', 'lsf': vlib.hexv(lsf), 'tag': tag}
        try:
            bad = check_lsf_from(lsf, tag)
        except Exception as ex:
            ctx.violation('exception/lsf2poly/' + tag, 'raised %r on increasing frequencies inside (0,pi)' % ex, rep); continue
        if bad is None:
            ctx.count('search_lsf_regenerated_coincident'); continue
        ctx.case(('lsf_from', lsf.tobytes()), nontrivial=(p >= 2)); ctx.count('search/lsf_from/' + tag)
        report(bad, rep)
    # log-area ratios and inverse-sine parameters
    for it in range(ctx.q(150, 1500)):
        p = int(rng.integers(1, 17))
        k = search_k(rng, p, False)
        if it % 5 == 0:
            k[int(rng.integers(0, p))] = float(rng.choice([-1, 1])) * (1 - 10.0 ** rng.uniform(-9, -2))
        ctx.case(('lar_is', k.tobytes()), nontrivial=True); ctx.count('search/lar_is')
        try:
            report(check_lar_is(k), {'kind': 'lar_is', 'k': vlib.hexv(k)})
        except Exception as ex:
            ctx.violation('exception/lar_is/real', 'raised %r for |k| < 1' % ex, {'kind': 'lar_is', 'k': vlib.hexv(k)})
        g = np.clip(rng.standard_normal(p) * 10.0 ** rng.uniform(-3, 1.2), -30, 30); s = rng.uniform(-1, 1, p)
        ctx.case(('lar_is_back', g.tobytes(), s.tobytes()), nontrivial=True)
        try:
            report(check_lar_is_back(g, s), {'kind': 'lar_is_back', 'g': vlib.hexv(g), 's': vlib.hexv(s)})
        except Exception as ex:
            ctx.violation('exception/lar_is_back/real', 'raised %r' % ex, {'kind': 'lar_is_back', 'g': vlib.hexv(g), 's': vlib.hexv(s)})
    report(error_branches_ok(), {'kind': 'guards'})
    ctx.case('guards', nontrivial=False)

    # ---------------- results depend on the VALUES given only: call protocol (repeat, aliasing, buffer reuse, memory layout, integer / single-precision dtypes)
    from props import _purity
    _purity.run_protocol(ctx, ['rc2poly', 'rc2ac', 'rc2lar', 'lar2rc', 'rc2is', 'is2rc', 'poly2rc', 'ac2poly', 'ac2rc', 'poly2lsf'])
