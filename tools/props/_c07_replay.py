"""C07 replay engine: histories of setter / call / read operations on real estimator objects,
observations, and the fresh-object oracle (independent of the cache logic under test)."""
import inspect
import numpy as np

CLASS_NAMES = ['Periodogram', 'pcorrelogram', 'pburg', 'pyule', 'pcovar', 'pmodcovar', 'parma', 'pma',
               'pminvar', 'pmusic', 'pev', 'MultiTapering']

# constructor arguments that are outside the operation alphabet (constructor constants), and the
# values of the alphabet attributes at construction (by constructor parameter name)
CTOR = {
    'Periodogram': dict(window='hann'),
    'pcorrelogram': dict(lag=6, window='hamming'),
    'pburg': dict(order=3),
    'pyule': dict(order=3),
    'pcovar': dict(order=3),
    'pmodcovar': dict(order=3),
    'parma': dict(P=3, Q=2, lag=8),
    'pma': dict(Q=3, M=8),
    'pminvar': dict(order=3),
    'pmusic': dict(IP=6, NSIG=2),
    'pev': dict(IP=6, NSIG=2),
    'MultiTapering': dict(NW=2.5, k=4),
}
# attribute name -> constructor parameter name, per class (None: no constructor parameter, assigned afterwards)
ATTR2PARAM = {
    'ar_order': {'pburg': 'order', 'pyule': 'order', 'pcovar': 'order', 'pmodcovar': 'order', 'parma': 'P',
                 'pma': 'M', 'pminvar': 'order', 'pmusic': 'IP', 'pev': 'IP'},
    'ma_order': {'parma': 'Q', 'pma': 'Q'},
}
ATTRS = ['data', 'sampling', 'NFFT', 'window', 'lag', 'detrend', 'scale_by_freq', 'ar_order', 'ma_order']


def cls_of(name):
    import spectrum
    return getattr(spectrum, name)


def base_of(name):
    import spectrum.psd as P
    c = cls_of(name)
    if issubclass(c, P.FourierSpectrum):
        return 'Fourier'
    if issubclass(c, P.ParametricSpectrum):
        return 'Parametric'
    return 'Spectrum'


def has_attr(name, attr):
    """is `attr` an attribute the class' objects really have (property or constructor-set)"""
    b = base_of(name)
    if attr in ('window',):
        return b == 'Fourier'
    if attr == 'lag':
        return b in ('Fourier', 'Parametric')
    if attr in ('ar_order', 'ma_order'):
        return b == 'Parametric'
    return True


def datasets():
    """deterministic non-degenerate signals; id -> array.  ids: r0 r1 (real, N=20/23), c0 c1 (complex)"""
    out = {}
    for i, N in enumerate((20, 23)):
        t = np.arange(N)
        out['r%d' % i] = np.cos(0.9 * t + i) + 0.5 * np.cos(2.1 * t + 0.3) + 0.125 * np.sin(7.7 * t * t + i)
        out['c%d' % i] = np.exp(1j * (0.9 * t + i)) + 0.5 * np.exp(-1j * 2.1 * t) + 0.125 * np.exp(1j * 7.7 * t * t)
    # records that a tolerance-based 'unchanged?' test would confuse: a relative perturbation of 2e-6 of r0 / c0, and pairs of DIFFERENT
    # records of very small amplitude (weak signals in SI units)
    n = np.arange(20)
    out['r0p'] = out['r0'] * (1 + 2e-6 * np.cos(3 * n)); out['c0p'] = out['c0'] * (1 + 2e-6 * np.cos(3 * n))
    out['r0t'] = out['r0'] * 1e-10; out['r0u'] = out['r0'][::-1].copy() * 1e-10
    out['c0t'] = out['c0'] * 1e-10; out['c0u'] = np.conj(out['c0'][::-1]) * 1e-10
    return out


CLOSE_PAIRS = [('r0', 'r0p'), ('c0', 'c0p'), ('r0t', 'r0u'), ('c0t', 'c0u')]
DATA = datasets()


def data_id(x):
    for k, v in DATA.items():
        if v.shape == np.shape(x) and v.dtype == np.asarray(x).dtype and np.array_equal(v, x):
            return k
    return None


def ctor_kwargs(name, attrs):
    """keyword arguments of the class constructor: all parameters explicit (defaults from the real signature)"""
    c = cls_of(name)
    sig = inspect.signature(c.__init__)
    kw = {}
    for pn, par in list(sig.parameters.items())[2:]:
        if par.default is not inspect.Parameter.empty:
            kw[pn] = par.default
    kw.update(CTOR[name])
    rest = {}
    for a, v in attrs.items():
        if a == 'data':
            continue
        pn = ATTR2PARAM.get(a, {}).get(name, a)
        if pn in sig.parameters:
            kw[pn] = v
        else:
            rest[a] = v
    return kw, rest


def construct(name, attrs):
    """a freshly constructed object having the given attribute values (constructor arguments where the
    constructor has the parameter, plain assignment right after construction otherwise), never read"""
    kw, rest = ctor_kwargs(name, attrs)
    p = cls_of(name)(attrs['data'], **kw)
    for a, v in rest.items():
        if has_attr(name, a):
            setattr(p, a, v)
    return p


def init_attrs(name, did):
    """attribute values of the initial object of a history"""
    return {'data': DATA[did]}


def cur_attrs(name, p):
    return {a: getattr(p, a) for a in ATTRS if has_attr(name, a)}


# ----------------------------------------------------------------------------- operations
# an op is a tuple: ('set', attr, value) | ('setnp', attr, value, numpy scalar type name) | ('reassign', attr) | ('call',) | ('read',) | ('conv', sides) | ('freq', sides|None)
# values of 'data' are dataset ids.

def apply_op(p, op):
    """returns (outcome, value): outcome 'ok' or the exception class name"""
    try:
        k = op[0]
        if k == 'set':
            v = DATA[op[2]] if op[1] == 'data' else op[2]
            setattr(p, op[1], v); return 'ok', None
        if k == 'setnp':                        # the same value as a numpy scalar (np.int64(3), np.float32(2.0), np.bool_(True))
            setattr(p, op[1], getattr(np, op[3])(op[2])); return 'ok', None
        if k == 'reassign':
            setattr(p, op[1], getattr(p, op[1])); return 'ok', None
        if k == 'call':
            p(); return 'ok', None
        if k == 'read':
            return 'ok', p.psd
        if k == 'conv':
            return 'ok', p.get_converted_psd(op[1])
        if k == 'freq':
            return 'ok', p.frequencies(op[1]) if op[1] is not None else p.frequencies()
        raise KeyError(op)
    except (AssertionError, ValueError, TypeError, IndexError, KeyError, ZeroDivisionError, AttributeError) as e:
        if isinstance(e, KeyError) and e.args and e.args[0] is op:
            raise
        return type(e).__name__, None
    except Exception as e:                      # spectrum.errors.*
        return type(e).__name__, None


def vlen(v):
    return -1 if v is None else len(v)


def observe(p):
    """non-mutating observations"""
    return {'modified': bool(p.modified), 'sides': p.sides, 'NFFT': int(p.NFFT), 'df': float(p.df),
            'sampling': float(p.sampling), 'cached': -1 if p._Spectrum__psd is None else len(p._Spectrum__psd),
            'flen': len(p.frequencies()), 'N': int(p.N), 'datatype': p.datatype}


_fresh_cache = {}


def _akey(name, attrs):
    out = [name]
    for a in ATTRS:
        if a in attrs:
            v = attrs[a]
            out.append((a, data_id(v) if a == 'data' else (type(v).__name__, v)))     # 3 and numpy.int64(3) are different keys
    return tuple(out)


def fresh_psd(name, attrs, sides):
    """the reference: construct with the final attribute values, read psd, assign sides := `sides`, read psd.
    Returns (psd array or None if the conversion is refused, outcome)"""
    key = (_akey(name, attrs), sides)
    if key in _fresh_cache:
        return _fresh_cache[key]
    f = construct(name, attrs)
    try:
        _ = f.psd
        f.sides = sides
        res = (np.array(f.psd), 'ok')
    except Exception as e:
        res = (None, type(e).__name__)
    if len(_fresh_cache) > 20000:
        _fresh_cache.clear()
    _fresh_cache[key] = res
    return res


def close(a, b):
    a = np.asarray(a); b = np.asarray(b)
    if a.shape != b.shape:
        return False
    s = max(1e-300, float(np.max(np.abs(b)))) if b.size else 1.0
    return bool(np.all(np.isfinite(a))) and float(np.max(np.abs(a - b))) <= 1e-9 * s if a.size else True


def final_checks(name, p, reassign=True):
    """the clauses of C07 evaluated on the object after a history; mutates p (reads psd).
    returns list of (clause, what)"""
    bad = []
    attrs = cur_attrs(name, p)
    try:
        psd = p.psd
    except Exception as e:
        # legitimate only if the estimator itself rejects these attribute values (a fresh object raises too)
        ref, out = fresh_psd(name, attrs, 'default')
        if ref is None and out == type(e).__name__:
            return []
        return [('read_raises', 'reading psd raises %s but a fresh object gives %s' % (type(e).__name__, out))]
    sides = p.sides
    if psd is None:
        return [('read_none', 'psd is None after a read')]
    if fresh_psd(name, attrs, 'default')[0] is None:
        # the estimator rejects the final attribute values on a fresh object (e.g. ar_order = numpy.int64(3), equal to the order 3 the
        # cached estimate was computed with, but refused by minvar's integer check): the history ends outside the estimator's domain
        return []
    ref, out = fresh_psd(name, attrs, sides)
    if ref is None:
        bad.append(('fresh_refuses', 'a fresh object refuses sides=%r (%s) that the object reports' % (sides, out)))
    elif not close(psd, ref):
        bad.append(('read_is_fresh', 'psd differs from a freshly constructed object with the same attribute values '
                    '(len %d vs %d%s)' % (len(psd), len(ref), '' if len(psd) != len(ref) else
                                           ', max rel err %.3g' % (np.max(np.abs(np.asarray(psd) - ref)) / max(1e-300, np.max(np.abs(ref)))))))
    if p.modified is not False:
        bad.append(('modified_after_read', 'modified is %r after a read' % (p.modified,)))
    df = float(p.sampling) / float(p.NFFT)
    if not abs(p.df - df) <= 1e-12 * abs(df):
        bad.append(('df_consistent', 'df = %r but sampling/NFFT = %r' % (p.df, df)))
    fl = len(p.frequencies())
    if fl != len(psd):
        bad.append(('freq_len_psd', 'len(frequencies()) = %d but len(psd) = %d' % (fl, len(psd))))
    # re-assigning every attribute with its own value must not alter the result
    for a in (ATTRS + ['sides'] if reassign else []):
        if a != 'sides' and not has_attr(name, a):
            continue
        try:
            setattr(p, a, getattr(p, a))
            again = p.psd
        except Exception as e:
            # legitimate only if the estimator itself rejects these attribute values (a fresh object raises the same): e.g. a cached
            # estimate for order 3 with ar_order = numpy.int16(3), which minvar's argument check refuses on recomputation
            ref0, out0 = fresh_psd(name, attrs, 'default')
            if not (ref0 is None and out0 == type(e).__name__):
                bad.append(('reassign_idempotent', 're-assigning %s raises %s' % (a, type(e).__name__)))
            break
        sides2 = p.sides
        if sides2 == sides:
            same = close(again, psd)
        else:                                   # the recomputation reset `sides`: compare in the new layout
            ref2, _ = fresh_psd(name, attrs, sides2)
            same = ref2 is not None and close(again, ref2)
        if not same:
            bad.append(('reassign_idempotent', 're-assigning %s with its own value alters psd' % a)); break
    return bad


def conv_check(name, p, sides_arg, value):
    """the value get_converted_psd returned, against a fresh object converted to the same sides.
    p is the object right after the call (not mutated here)."""
    attrs = cur_attrs(name, p)
    if fresh_psd(name, attrs, 'default')[0] is None:
        return []                               # outside the estimator's domain (see final_checks)
    ref, out = fresh_psd(name, attrs, sides_arg)
    if value is None:
        return [('converted_none', 'get_converted_psd(%r) returns None' % sides_arg)]
    if ref is None:
        return [('converted_refused', 'a fresh object refuses sides=%r (%s) but get_converted_psd returned a value' % (sides_arg, out))]
    if not close(value, ref):
        return [('converted_is_fresh', 'get_converted_psd(%r) differs from a fresh object converted to the same sides (len %d vs %d)'
                 % (sides_arg, len(value), len(ref)))]
    return []


def _plain_attrs(name, p):
    """the attribute values other than the data, with their types (3 and 3.0 are different assignments)"""
    return [(a, type(getattr(p, a)).__name__, getattr(p, a)) for a in ATTRS if a != 'data' and has_attr(name, a)]


def run_history(name, did, ops, check_conv=True):
    """replays ops on a new object; returns (object, trace, bad) where bad = [(clause, what, number of operations after which it fails)] and trace has one entry per op
    (outcome, returned length, observation) and bad the clauses failing along the way / at the end"""
    p = construct(name, init_attrs(name, did))
    trace = [('init', -2, observe(p))]
    bad = []
    for op in ops:
        before = None
        if op[0] == 'set' and op[1] not in ('data', 'sides'):
            before = (_plain_attrs(name, p), observe(p))
        out, val = apply_op(p, op)
        trace.append((out, vlen(val) if op[0] in ('read', 'conv', 'freq') and out == 'ok' else -2, observe(p)))
        i = len(trace) - 1
        if before is not None and out == 'ok' and _plain_attrs(name, p) == before[0] and trace[-1][2] != before[1]:
            # the assignment denotes the configuration the object already had (every getter returns what it returned before, e.g.
            # NFFT = 'nextpow2' or None on an object whose NFFT already is that length): it must not alter anything observable
            ch = sorted(k for k in before[1] if before[1][k] != trace[-1][2][k])
            bad.append(('reassign_idempotent', 'assigning %s = %r left every attribute at its value but changed %s' % (
                op[1], op[2], ', '.join('%s: %r -> %r' % (k, before[1][k], trace[-1][2][k]) for k in ch)), i))
        if out == 'ok' and op[0] in ('set', 'setnp') and op[1] == 'data':
            # the final attribute values are the ones that were ASSIGNED: an object that silently keeps its old samples would otherwise
            # be compared with a fresh object built from those old samples
            if not (np.shape(p.data) == np.shape(DATA[op[2]]) and np.array_equal(np.asarray(p.data), DATA[op[2]])):
                bad.append(('read_is_fresh', 'the data assignment returned normally but the object still holds other samples '
                            '(max difference %.3g): every later estimate is the one of the old data' %
                            (float(np.max(np.abs(np.asarray(p.data) - DATA[op[2]]))) if np.shape(p.data) == np.shape(DATA[op[2]]) else float('nan')), i))
        if out == 'ok' and op[0] == 'conv' and check_conv:
            bad += [(c, w, i) for c, w in conv_check(name, p, op[1], val)]
        if out == 'ok' and op[0] == 'read':
            ref, _ = fresh_psd(name, cur_attrs(name, p), p.sides)
            if fresh_psd(name, cur_attrs(name, p), 'default')[0] is None:
                continue                        # outside the estimator's domain (see final_checks)
            if val is None or ref is None or not close(val, ref):
                bad.append(('read_is_fresh', 'psd read inside the history differs from a fresh object', i))
    bad += [(c, w, len(ops)) for c, w in final_checks(name, p)]
    return p, trace, bad


def alphabet(name, did):
    """operation instances for the exhaustive histories of one (class, data) configuration"""
    real = did.startswith('r')
    other = ('r1' if real else 'c1')
    flip = ('c0' if real else 'r0')
    kw, _ = ctor_kwargs(name, {})
    sbf0 = kw.get('scale_by_freq')
    A = [('set', 'data', other), ('set', 'data', flip), ('set', 'NFFT', 33), ('set', 'NFFT', 32),
         ('set', 'sampling', 2.0), ('set', 'detrend', 'mean'), ('set', 'scale_by_freq', not sbf0),
         ('set', 'sides', 'twosided'), ('set', 'sides', 'centerdc'), ('set', 'sides', 'onesided'),
         ('call',), ('read',), ('conv', 'centerdc'), ('conv', 'twosided'), ('freq', None)]
    if has_attr(name, 'window'):
        A.append(('set', 'window', 'bartlett'))
    if has_attr(name, 'lag'):
        A.append(('set', 'lag', 5))
    if has_attr(name, 'ar_order'):
        A.append(('set', 'ar_order', {'pma': 9, 'pmusic': 5, 'pev': 5}.get(name, 2)))
        A.append(('set', 'ma_order', 3 if name != 'pma' else 2))
    return A


def core_alphabet(name, did):
    """a smaller alphabet for deeper exhaustive histories"""
    real = did.startswith('r')
    flip = ('c0' if real else 'r0')
    kw, _ = ctor_kwargs(name, {})
    sbf0 = kw.get('scale_by_freq')
    A = [('set', 'data', flip), ('set', 'NFFT', 33), ('set', 'sampling', 2.0), ('set', 'scale_by_freq', not sbf0),
         ('set', 'sides', 'twosided'), ('set', 'sides', 'centerdc'), ('call',), ('read',), ('conv', 'centerdc')]
    if has_attr(name, 'window'):
        A.append(('set', 'window', 'bartlett'))
    if has_attr(name, 'lag'):
        A.append(('set', 'lag', 5))
    if has_attr(name, 'ar_order'):
        A.append(('set', 'ar_order', {'pma': 9, 'pmusic': 5, 'pev': 5}.get(name, 2)))
        A.append(('set', 'ma_order', 3 if name != 'pma' else 2))
    return A
