"""C20 — every named window is a well-formed taper of the requested length."""
import math
import os
import numpy as np
import vlib
from vlib import fl, fll
from props import _c20_translate as tr

LEVEL_TEXT = ("Coq theorems over the real numbers (stdlib Reals) about the Gallina model of window.py, for every length N: "
              "length, symmetry w[n]=w[N-1-n], max<=1 and centre=1 (odd N) of the closed-form generators, ENBW>=1 for every real "
              "vector with non-zero sum (Cauchy-Schwarz, axiom-free in the abstract ordered field), flat-top centre = 1.000000003 > 1 "
              "(refutation, known finding D16) with the exact bound <= 1+4e-9; whatever the factory returns is one of the 24 generators.  The factory tables (window_names, windows_with_parameters, def signatures, cosine-sum "
              "coefficients) are re-translated from the snapshot by a fail-closed ast translator on every run and the alias / "
              "parameter-routing / rejection theorems are re-proved over the generated tables (finite domain: 29 names).  "
              "Tie: the same Gallina terms are executed at binary64 inside Coq (cos/sin/exp/log/I0 by argument reduction + series, "
              "validated against numpy in the same run) through the model of create_window over the GENERATED tables and compared "
              "sample by sample with the implementation; plus a property-directed search on the implementation.")
TRUSTED = ["Coq 8.16.1 kernel + vm_compute (no native_compute); theorems over R depend on the stdlib axioms Print Assumptions lists "
           "(sig_forall_dec, sig_not_dec, functional_extensionality_dep, classic); the interval tactic is NOT used (the cosine-sum "
           "bounds follow from one polynomial identity), the ENBW / factory / coefficient theorems are axiom-free",
           "hand-written model coq/Model/Window.v (tie = binary64 correspondence, tolerance 2^-36 relative to max(1,|w|))",
           "tools/props/_c20_translate.py (ast translator; the control flow of create_window, Window.__init__, the getters and "
           "enbw must equal fixed skeletons, otherwise the translation fails closed)",
           "numpy.hanning/hamming/bartlett/kaiser/sinc/linspace modelled by their numpy-2.x formulas, numpy.i0 by its power series, "
           "scipy.signal.windows.chebwin is an oracle (abstract symmetric max-normalised vector in the theorems; the harness "
           "passes scipy's vector to the model in the correspondence run): modelled, not verified",
           "binary64 cos/sin/exp/log/I0 of coq/Instances/FloatWin.v: not verified, measured against numpy on every run (c20_transc)",
           "Python harness (snapshot, generators, float->hex literals, independent closed forms incl. a direct-sum Dolph-Chebyshev)"]
UNPROVED = ["max<=1 of taylor (sign of the Fm coefficients), chebwin (oracle hypothesis only): search only",
            "ENBW>=1 is proved for every real vector with non-zero sum; that the sum of each named window is non-zero for N>=3 is search only",
            "closed forms of numpy/scipy-backed generators vs the libraries (hann/hamming/bartlett/kaiser/chebwin): correspondence + search",
            "finiteness (no NaN/inf) is a floating-point notion: search + correspondence only"]
ASSUMPTIONS = ["theorems are exact-arithmetic statements over R; rounding of the binary64 code is not bounded by a theorem",
               "shape-parameter domain (DESIGN C20): Kaiser beta in [0,30], alpha's in [0,8], Tukey r in [0,1], chebwin attenuation in "
               "[45,120] for N<=512 and [80,120] beyond (Dolph-Chebyshev end-point impulses exceed the centre for long, weakly "
               "attenuated windows: mathematics, not code), Taylor nbar in 2..6, sll in [-60,-20], flat-top mode symmetric/periodic",
               "periodic flat-top: symmetry is w[n]=w[N-n]; the centre clause does not apply"]
RULE = ("29 names x N=1..64 (quick) / 1..512 (thorough) with default parameters, shape parameters drawn from the documented ranges "
        "(end points included) on a sample of N, and sampled N up to 16384; a case is non-trivial when N>=3; "
        "distinct = distinct (name, N, parameters)")

TOL_EXACT = 1e-12          # clauses the statement gives as exact
TOL_CLOSED = 1e-10         # closed forms vs independent implementations
COQ_TOL = '0x1p-36'

GEN_OF = {'bartlett_hann': 'window_bartlett_hann', 'blackman_harris': 'window_blackman_harris',
          'blackman_nuttall': 'window_blackman_nuttall', 'bohman': 'window_bohman', 'blackman': 'window_blackman',
          'chebwin': 'window_chebwin', 'gaussian': 'window_gaussian', 'hamming': 'window_hamming', 'kaiser': 'window_kaiser',
          'lanczos': 'window_lanczos', 'sinc': 'window_lanczos', 'poisson': 'window_poisson', 'tukey': 'window_tukey',
          'nuttall': 'window_nuttall', 'parzen': 'window_parzen', 'flattop': 'window_flattop', 'riesz': 'window_riesz',
          'riemann': 'window_riemann', 'hann': 'window_hann', 'hanning': 'window_hann',
          'poisson_hanning': 'window_poisson_hanning', 'rectangular': 'window_rectangle', 'rectangle': 'window_rectangle',
          'bartlett': 'window_bartlett', 'triangular': 'window_bartlett', 'cosine': 'window_cosine', 'sine': 'window_cosine',
          'cauchy': 'window_cauchy', 'taylor': 'window_taylor'}
NAMES = list(GEN_OF)
ALIASES = [('hanning', 'hann'), ('sinc', 'lanczos'), ('rectangular', 'rectangle'), ('triangular', 'bartlett'), ('sine', 'cosine')]
PARAMS = {'kaiser': ['beta'], 'blackman': ['alpha'], 'cauchy': ['alpha'], 'gaussian': ['alpha'], 'poisson': ['alpha'],
          'poisson_hanning': ['alpha'], 'flattop': ['mode'], 'chebwin': ['attenuation'], 'tukey': ['r'], 'taylor': ['nbar', 'sll']}
DEFAULTS = {'kaiser': {'beta': 8.6}, 'blackman': {'alpha': 0.16}, 'cauchy': {'alpha': 3}, 'gaussian': {'alpha': 2.5},
            'poisson': {'alpha': 2}, 'poisson_hanning': {'alpha': 2}, 'flattop': {'mode': 'symmetric'},
            'chebwin': {'attenuation': 50}, 'tukey': {'r': 0.5}, 'taylor': {'nbar': 4, 'sll': -30}}
ALL_PARAM_NAMES = ['alpha', 'beta', 'r', 'mode', 'attenuation', 'nbar', 'sll', 'method', 'precision', 'N', 'name', 'foo']


# ----------------------------------------------------------------------------- independent closed forms
def _sinc(x):
    return 1.0 if x == 0 else math.sin(math.pi * x) / (math.pi * x)


def _cheb_poly(order, x):
    if x > 1:
        return math.cosh(order * math.acosh(x))
    if x < -1:
        return (1 - 2 * (order % 2)) * math.cosh(order * math.acosh(-x))
    return math.cos(order * math.acos(x))


def dolph_chebyshev(N, at):
    """direct-sum Dolph-Chebyshev window (independent of scipy's FFT route), max-normalised"""
    if N == 1:
        return np.ones(1)
    order = N - 1
    beta = math.cosh(math.acosh(10 ** (abs(at) / 20.0)) / order)
    k = np.arange(1, (N - 1) // 2 + 1 if N % 2 else N // 2)
    tk = np.array([_cheb_poly(order, beta * math.cos(math.pi * kk / N)) for kk in k])
    n = np.arange(N) - (N - 1) / 2.0
    w = _cheb_poly(order, beta) + 2 * np.sum(tk[None, :] * np.cos(2 * np.pi * np.outer(n, k) / N), axis=1)
    return w / np.max(w)


def closed_form(name, N, kw):
    """(array, source) from a definition that does not go through spectrum.window, or None"""
    import scipy.signal.windows as sw
    g = GEN_OF[name]
    u = [(2.0 * i / (N - 1) - 1.0) if N > 1 else -1.0 for i in range(N)]        # n/(N/2) of linspace(-N/2,N/2,N)
    if g == 'window_rectangle':
        return np.ones(N), 'ones'
    if N == 1:
        # scipy returns ones(1) for every window; the linspace-based generators of spectrum have their own N=1 value
        one = {'window_riesz': 0.0, 'window_poisson': math.exp(-kw.get('alpha', 2)), 'window_poisson_hanning': math.exp(-kw.get('alpha', 2)),
               'window_cauchy': 1.0 / (1 + kw.get('alpha', 3) ** 2), 'window_riemann': 0.0, 'window_bohman': 0.0}
        if g == 'window_flattop' and kw.get('mode') == 'periodic':
            return np.array([0.21557895 - 0.41663158 + 0.277263158 - 0.083578947 + 0.006947368]), 'flat-top at x=0'
        return np.array([one.get(g, 1.0)]), 'N=1 value'
    if g == 'window_bartlett':
        return sw.bartlett(N), 'scipy bartlett'
    if g == 'window_hann':
        return sw.hann(N), 'scipy hann'
    if g == 'window_hamming':
        return sw.hamming(N), 'scipy hamming'
    if g == 'window_blackman':
        a = kw.get('alpha', 0.16)
        return sw.general_cosine(N, [(1 - a) / 2.0, 0.5, a / 2.0]), 'scipy general_cosine'
    if g == 'window_blackman_harris':
        return sw.blackmanharris(N), 'scipy blackmanharris'
    if g == 'window_blackman_nuttall':
        return sw.nuttall(N), 'scipy nuttall'
    if g == 'window_nuttall':
        return sw.general_cosine(N, [0.355768, 0.487396, 0.144232, 0.012604]), 'scipy general_cosine'
    if g == 'window_flattop':
        return sw.flattop(N, sym=(kw.get('mode', 'symmetric') == 'symmetric')), 'scipy flattop'
    if g == 'window_bohman':
        return sw.bohman(N), 'scipy bohman'
    if g == 'window_parzen':
        return sw.parzen(N), 'scipy parzen'
    if g == 'window_tukey':
        return sw.tukey(N, kw.get('r', 0.5)), 'scipy tukey'
    if g == 'window_bartlett_hann':
        return sw.barthann(N), 'scipy barthann'
    if g == 'window_lanczos':
        return sw.lanczos(N), 'scipy lanczos'
    if g == 'window_taylor':
        return sw.taylor(N, kw.get('nbar', 4), -kw.get('sll', -30), norm=True), 'scipy taylor'
    if g == 'window_kaiser':
        return sw.kaiser(N, kw.get('beta', 8.6)), 'scipy kaiser'
    if g == 'window_chebwin':
        if N > 160:
            return None
        return dolph_chebyshev(N, kw.get('attenuation', 50)), 'direct-sum Dolph-Chebyshev'
    if g == 'window_gaussian':
        a = kw.get('alpha', 2.5)
        return np.array([math.exp(-0.5 * (a * (i - (N - 1) / 2.0) / (N / 2.0)) ** 2) for i in range(N)]), 'exp(-(alpha t/(N/2))^2/2)'
    if g == 'window_cosine':
        return np.array([math.sin(math.pi * i / (N - 1)) for i in range(N)]), 'sin(pi n/(N-1))'
    if g == 'window_riesz':
        return np.array([1 - t * t for t in u]), '1-(n/(N/2))^2'
    if g == 'window_riemann':
        return np.array([_sinc(t) for t in u]), 'sinc(n/(N/2))'
    if g == 'window_poisson':
        a = kw.get('alpha', 2)
        return np.array([math.exp(-a * abs(t)) for t in u]), 'exp(-alpha|n|/(N/2))'
    if g == 'window_cauchy':
        a = kw.get('alpha', 3)
        return np.array([1.0 / (1 + (a * t) ** 2) for t in u]), '1/(1+(alpha n/(N/2))^2)'
    if g == 'window_poisson_hanning':
        a = kw.get('alpha', 2)
        return np.array([0.5 * (1 - math.cos(2 * math.pi * i / (N - 1))) * math.exp(-a * abs(t)) for i, t in enumerate(u)]), 'hann*poisson'
    return None


# ----------------------------------------------------------------------------- the property on one (name, N, kwargs)
def parity(N):
    return 'N1' if N == 1 else ('N2' if N == 2 else ('odd_N' if N % 2 else 'even_N'))


def own_enbw(w):
    s = math.fsum(float(t) for t in w); s2 = math.fsum(float(t) * float(t) for t in w)
    return len(w) * s2 / (s * s) if s != 0 else float('inf')


def check_window(name, N, kw, closed=True):
    """all per-window clauses of the property on the implementation; returns [(key, what)]"""
    import spectrum
    from spectrum import window as W
    g = GEN_OF[name]; par = parity(N); bad = []
    periodic = (g == 'window_flattop' and kw.get('mode') == 'periodic')
    cfg = ('periodic_' if periodic else '') + par
    try:
        w = spectrum.create_window(N, name, **kw)
    except Exception as e:
        return [('returns/%s/%s' % (g, cfg), 'create_window(%d, %r, **%r) raised %r' % (N, name, kw, e))]
    w = np.asarray(w)
    if w.ndim != 1 or len(w) != N:
        return [('length/%s/%s' % (g, cfg), 'create_window(%d, %r, **%r) has shape %r' % (N, name, kw, w.shape))]
    if np.iscomplexobj(w) or w.dtype.kind != 'f':
        bad.append(('real/%s/%s' % (g, cfg), 'dtype %s is not a real floating type' % w.dtype))
    if not np.all(np.isfinite(w)):
        i = int(np.flatnonzero(~np.isfinite(w))[0])
        bad.append(('finite/%s/%s' % (g, cfg), 'sample %d of create_window(%d, %r, **%r) is %r' % (i, N, name, kw, w[i])))
        return bad
    # symmetry
    if periodic:
        asym = float(np.max(np.abs(w[1:] - w[1:][::-1]))) if N > 1 else 0.0
    else:
        asym = float(np.max(np.abs(w - w[::-1])))
    if asym > TOL_EXACT:
        bad.append(('symmetric/%s/%s' % (g, cfg), 'max |w[n]-w[%s-n]| = %.3g for create_window(%d, %r, **%r)' % ('N' if periodic else 'N-1', asym, N, name, kw)))
    # max <= 1 ; centre = 1
    mx = float(np.max(w)); centre_bad = False
    if N % 2 == 1 and N >= 3 and not periodic:
        c = float(w[(N - 1) // 2])
        centre_bad = abs(c - 1) > TOL_EXACT
    if g == 'window_flattop' and not periodic and N % 2 == 1 and N >= 3:
        # D16: one stable key for the whole family (centre sample = sum of the published coefficients = 1+3e-9)
        if mx > 1 + TOL_EXACT or centre_bad:
            if mx <= 1 + 4e-9 and abs(float(w[(N - 1) // 2]) - 1) <= 4e-9:
                bad.append(('max_le_1/window_flattop/odd_N', 'flat-top centre sample %s (N=%d) exceeds 1' % (float(w[(N - 1) // 2]).hex(), N)))
            else:
                bad.append(('max_le_1/window_flattop/odd_N_beyond_4e-9', 'flat-top max %r / centre %r outside 1+4e-9 (N=%d)' % (mx, float(w[(N - 1) // 2]), N)))
    elif g == 'window_flattop' and periodic and N % 2 == 0:
        if mx > 1 + TOL_EXACT:
            if mx <= 1 + 4e-9:
                bad.append(('max_le_1/window_flattop/periodic_even_N', 'periodic flat-top sample N/2 is %s (N=%d) > 1' % (float(w[N // 2]).hex(), N)))
            else:
                bad.append(('max_le_1/window_flattop/periodic_even_N_beyond_4e-9', 'periodic flat-top max %r (N=%d)' % (mx, N)))
    else:
        if mx > 1 + TOL_EXACT:
            bad.append(('max_le_1/%s/%s' % (g, cfg), 'max = %r > 1 for create_window(%d, %r, **%r)' % (mx, N, name, kw)))
        if centre_bad:
            bad.append(('centre_is_1/%s/%s' % (g, cfg), 'centre sample = %r for create_window(%d, %r, **%r)' % (float(w[(N - 1) // 2]), N, name, kw)))
    # ENBW >= 1 for N >= 3
    if N >= 3:
        e_impl = W.enbw(w); e_own = own_enbw(w)
        if not (e_own >= 1 - TOL_EXACT):
            bad.append(('enbw_ge_1/%s/%s' % (g, cfg), 'N sum w^2/(sum w)^2 = %r < 1' % e_own))
        if math.isfinite(e_own) and e_own < 1e6 and not abs(e_impl - e_own) <= 1e-9 * e_own:
            bad.append(('enbw_def/enbw/%s' % cfg, 'enbw() = %r but N sum w^2/(sum w)^2 = %r (%s, N=%d)' % (e_impl, e_own, name, N)))
    # closed form
    if closed:
        cf = closed_form(name, N, kw)
        if cf is not None:
            ref, src = cf
            d = float(np.max(np.abs(w - ref))) if len(ref) == N else float('inf')
            if not d <= TOL_CLOSED * max(1.0, float(np.max(np.abs(ref)))):
                bad.append(('closed_form/%s/%s' % (g, cfg), 'differs from %s by %.3g for create_window(%d, %r, **%r)' % (src, d, N, name, kw)))
    return bad


def check_aliases(N):
    import spectrum
    bad = []
    for a, b in ALIASES:
        wa = spectrum.create_window(N, a); wb = spectrum.create_window(N, b)
        if not (wa.shape == wb.shape and np.array_equal(wa, wb, equal_nan=True)):
            bad.append(('aliases_identical/%s/%s' % (a, parity(N)), 'create_window(%d, %r) != create_window(%d, %r)' % (N, a, N, b)))
    return bad


def check_window_object(name, N, kw):
    import spectrum
    bad = []
    try:
        wo = spectrum.Window(N, name, **kw)
    except Exception as e:
        return [('window_object/%s/raises' % GEN_OF[name], 'Window(%d, %r, **%r) raised %r' % (N, name, kw, e))]
    w = spectrum.create_window(N, name, **kw)
    if not (np.shape(wo.data) == np.shape(w) and np.array_equal(wo.data, w, equal_nan=True)):
        bad.append(('window_object/%s/data' % GEN_OF[name], 'Window(%d, %r, **%r).data differs from create_window' % (N, name, kw)))
    if wo.N != N or len(wo.data) != N:
        bad.append(('window_object/%s/N' % GEN_OF[name], 'Window(%d, %r).N = %r, len(data) = %d' % (N, name, wo.N, len(wo.data))))
    if np.all(np.isfinite(w)):
        e = own_enbw(w)
        if math.isfinite(e) and e < 1e6 and not abs(wo.enbw - e) <= 1e-9 * e:
            bad.append(('window_object/%s/enbw' % GEN_OF[name], 'Window(%d, %r, **%r).enbw = %r, N sum w^2/(sum w)^2 = %r' % (N, name, kw, wo.enbw, e)))
    if wo.name != name:
        bad.append(('window_object/%s/name' % GEN_OF[name], 'Window(...).name = %r' % (wo.name,)))
    if bad or not np.all(np.isfinite(w)):
        return bad
    # "the Window object reports the same samples, length and ENBW" also AFTER its other read-only services were used:
    # frequency response (cached, normalised or not), frequency axis, textual summary, mean square
    e0 = wo.enbw
    for what, f in (('response', lambda: wo.response), ('frequencies', lambda: wo.frequencies),
                    ('compute_response()', lambda: wo.compute_response()), ('compute_response(norm=False)', lambda: wo.compute_response(norm=False)),
                    ('compute_response(NFFT=64)', lambda: wo.compute_response(NFFT=64)), ('str()', lambda: str(wo)),
                    ('mean_square', lambda: wo.mean_square), ('enbw', lambda: wo.enbw)):
        try:
            f()
        except Exception as e:
            bad.append(('window_object_after_use/%s/raises' % GEN_OF[name], 'Window(%d, %r, **%r): %s raised %r' % (N, name, kw, what, e)))
            break
        if not (np.shape(wo.data) == np.shape(w) and np.array_equal(wo.data, w, equal_nan=True)) or wo.N != N:
            bad.append(('window_object_after_use/%s/data' % GEN_OF[name], 'Window(%d, %r, **%r).data no longer equals create_window after %s was used' % (N, name, kw, what)))
            break
        if not (wo.enbw == e0 or (wo.enbw != wo.enbw and e0 != e0)):          # (a window whose samples sum to 0 has ENBW nan)
            bad.append(('window_object_after_use/%s/enbw' % GEN_OF[name], 'Window(%d, %r, **%r).enbw changed after %s was used' % (N, name, kw, what)))
            break
    # copies of the object (copy, deepcopy, a pickle round trip) report the same samples, length and ENBW
    if not bad:
        import copy, pickle
        for what, f in (('copy.copy', copy.copy), ('copy.deepcopy', copy.deepcopy), ('pickle round trip', lambda o: pickle.loads(pickle.dumps(o)))):
            try:
                c = f(wo)
                ok = (np.shape(c.data) == np.shape(w) and np.array_equal(c.data, w, equal_nan=True) and c.N == N
                      and (c.enbw == wo.enbw or (c.enbw != c.enbw and wo.enbw != wo.enbw)))
            except Exception as e:
                bad.append(('window_object_copy/%s/raises' % GEN_OF[name], 'Window(%d, %r, **%r): %s raised %r' % (N, name, kw, what, e))); break
            if not ok:
                bad.append(('window_object_copy/%s/data' % GEN_OF[name], 'Window(%d, %r, **%r): its %s does not report the same samples / length / ENBW' % (N, name, kw, what))); break
    ms = float(np.sum(np.asarray(w, dtype=float) ** 2) / N)
    if not bad and not abs(wo.mean_square - ms) <= 1e-12 * max(ms, 1e-300):
        bad.append(('window_object_after_use/%s/mean_square' % GEN_OF[name], 'Window(%d, %r).mean_square = %r, sum w^2 / N = %r' % (N, name, wo.mean_square, ms)))
    return bad


def check_window_object_pair(name, N, kw1, kw2):
    """a Window reports the ENBW of ITS samples whatever was constructed before it in the same process"""
    import spectrum
    try:
        spectrum.Window(N, name, **kw1)
    except Exception:
        pass
    return [(k.replace('window_object/', 'window_object_after_another/'), w) for k, w in check_window_object(name, N, kw2)]


PROBE = {'alpha': (0.75, 3.5), 'beta': (2.0, 9.5), 'r': (0.25, 0.75), 'mode': ('symmetric', 'periodic'),
         'attenuation': (60, 90), 'nbar': (3, 5), 'sll': (-40.0, -25.0)}


def check_factory(name, N):
    """the factory forwards exactly the documented shape parameters of `name` and rejects everything else"""
    import spectrum
    from spectrum import window as W
    bad = []; g = GEN_OF[name]; f = getattr(W, g)
    base = spectrum.create_window(N, name)
    if not np.array_equal(base, f(N), equal_nan=True):
        bad.append(('factory_forward/%s/no_kwargs' % name, 'create_window(%d, %r) != %s(%d)' % (N, name, g, N)))
    for p in PARAMS.get(name, []):
        v1, v2 = PROBE[p]
        try:
            w1 = spectrum.create_window(N, name, **{p: v1}); w2 = spectrum.create_window(N, name, **{p: v2})
            wd = spectrum.create_window(N, name, **{p: DEFAULTS[name][p]})
        except Exception as e:
            bad.append(('factory_forward/%s/%s' % (name, p), 'create_window(%d, %r, %s=...) raised %r' % (N, name, p, e))); continue
        if not (np.array_equal(w1, f(N, **{p: v1}), equal_nan=True) and np.array_equal(w2, f(N, **{p: v2}), equal_nan=True)):
            bad.append(('factory_forward/%s/%s' % (name, p), 'create_window(%d, %r, %s=v) != %s(%d, %s=v) for v in %r' % (N, name, p, g, N, p, (v1, v2))))
        if N >= 8 and np.array_equal(w1, w2, equal_nan=True):
            bad.append(('factory_forward/%s/%s' % (name, p), 'create_window(%d, %r, %s=%r) == create_window(..., %s=%r): the parameter has no effect' % (N, name, p, v1, p, v2)))
        if not np.array_equal(wd, base, equal_nan=True):
            bad.append(('factory_forward/%s/%s_default' % (name, p), 'create_window(%d, %r, %s=<documented default %r>) != create_window(%d, %r)' % (N, name, p, DEFAULTS[name][p], N, name)))
    if len(PARAMS.get(name, [])) == 2:
        p, q = PARAMS[name]
        try:
            w12 = spectrum.create_window(N, name, **{p: PROBE[p][0], q: PROBE[q][1]})
            if not np.array_equal(w12, f(N, **{p: PROBE[p][0], q: PROBE[q][1]}), equal_nan=True):
                bad.append(('factory_forward/%s/%s+%s' % (name, p, q), 'two keyword arguments are not forwarded together'))
        except Exception as e:
            bad.append(('factory_forward/%s/%s+%s' % (name, p, q), 'raised %r' % e))
    for p in ALL_PARAM_NAMES:
        if p in PARAMS.get(name, []) or p in ('N', 'name'):
            continue
        v = PROBE[p][0] if p in PROBE else 1
        try:
            spectrum.create_window(N, name, **{p: v})
            bad.append(('factory_reject/%s/%s' % (name, p), 'create_window(%d, %r, %s=%r) was accepted' % (N, name, p, v)))
        except ValueError:
            pass
        except Exception as e:
            bad.append(('factory_reject/%s/%s' % (name, p), 'create_window(%d, %r, %s=%r) raised %r instead of ValueError' % (N, name, p, v, e)))
    for p in PARAMS.get(name, []):
        # a documented parameter together with an undocumented one is rejected too
        try:
            spectrum.create_window(N, name, **{p: PROBE[p][0], 'foo': 1})
            bad.append(('factory_reject/%s/%s+foo' % (name, p), 'an unknown keyword next to %s was accepted' % p))
        except ValueError:
            pass
        except Exception as e:
            bad.append(('factory_reject/%s/%s+foo' % (name, p), 'raised %r instead of ValueError' % e))
    return bad


# ----------------------------------------------------------------------------- replay
def kw_to_json(kw):
    return {k: (float(v).hex() if isinstance(v, float) else v) for k, v in kw.items()}


def kw_from_json(d):
    return {k: (float.fromhex(v) if isinstance(v, str) and v.lstrip('-').startswith('0x') else v) for k, v in d.items()}


def replay(rep):
    if rep['replay'].get('protocol') == 'values_only':
        from props import _purity
        return _purity.replay_protocol(rep['replay'])
    r = rep['replay']; fn = r.get('function')
    if fn == 'create_window':
        return not check_window(r['name'], r['N'], kw_from_json(r.get('kwargs', {})))
    if fn == 'aliases':
        return not check_aliases(r['N'])
    if fn == 'Window':
        return not check_window_object(r['name'], r['N'], kw_from_json(r.get('kwargs', {})))
    if fn == 'factory':
        return not check_factory(r['name'], r['N'])
    if fn == 'WindowPair':
        return not check_window_object_pair(r['name'], r['N'], kw_from_json(r.get('kwargs1', {})), kw_from_json(r.get('kwargs', {})))
    return True


# ----------------------------------------------------------------------------- parameter generators
def draw_params(rng, name, N, edge=None):
    """shape parameters inside the documented domain; floats are multiples of 1/64 (exact in both worlds)"""
    def grid(lo, hi):
        if edge == 'lo':
            return float(lo)
        if edge == 'hi':
            return float(hi)
        return float(rng.integers(int(lo * 64), int(hi * 64) + 1)) / 64.0
    if name == 'kaiser':
        return {'beta': grid(0, 30)}
    if name in ('blackman', 'cauchy', 'gaussian', 'poisson', 'poisson_hanning'):
        return {'alpha': grid(0, 8)}
    if name == 'tukey':
        return {'r': grid(0, 1)}
    if name == 'chebwin':
        return {'attenuation': grid(45, 120) if N <= 512 else grid(80, 120)}
    if name == 'flattop':
        return {'mode': 'periodic' if (edge == 'hi' or (edge is None and rng.integers(0, 2))) else 'symmetric'}
    if name == 'taylor':
        nb = 2 if edge == 'lo' else (6 if edge == 'hi' else int(rng.integers(2, 7)))
        return {'nbar': nb, 'sll': grid(-60, -20)}
    return {}


def kw_coq(kw):
    items = []
    for k, v in kw.items():
        if isinstance(v, str):
            items.append('("%s", PS "%s")' % (k, v))
        elif isinstance(v, (int, np.integer)) and not isinstance(v, bool):
            items.append('("%s", PZ %s)' % (k, ('(%d)' % v) if v < 0 else '%d' % v))
        else:
            items.append('("%s", PF %s)' % (k, fl(v)))
    return '[' + '; '.join(items) + ']'


ERR = {AssertionError: 1, ValueError: 2, TypeError: 3}


def impl_call(N, name, kw):
    """(error code, samples) of the implementation"""
    import spectrum
    try:
        w = spectrum.create_window(N, name, **kw)
    except Exception as e:
        return ERR.get(type(e), 9), []
    return 0, np.asarray(w, dtype=float)


def cheb_oracle(name, N, kw):
    """scipy's chebwin for the attenuation the factory is documented to forward (the library is an oracle of the model)"""
    if name is not None and name.lower() == 'chebwin' and set(kw) <= {'attenuation'}:
        import scipy.signal.windows as sw
        try:
            return sw.chebwin(N, kw.get('attenuation', 50))
        except Exception:
            return []
    return []


PRE_HEAD = """From Coq Require Import PrimFloat List String ZArith.
Import ListNotations.
Require Import Spectrum.Theory.Ops Spectrum.Theory.Vec Spectrum.Instances.FloatC Spectrum.Instances.FloatWin Spectrum.Model.Window Spectrum.Instances.QcC.
Notation length := List.length.
Local Open Scope string_scope.
Local Open Scope float_scope.
"""
PRE_TAIL = """
Definition ecode (e : werr) : nat := match e with EAssert => 1 | EValue => 2 | EType => 3 | EUnknownGen => 4 end%nat.
Definition win_case (tol : float) (cheb : list float) (N : nat) (name : option string) (kw : list (string * @pval float))
                    (err : nat) (impl : list float) : bool :=
  match @create_window float f_ops (f_tops cheb) gen_names gen_routes gen_sigs N name kw with
  | WErr e => Nat.eqb err (ecode e)
  | WOk w => Nat.eqb err 0 && f_close_rel tol 1 w impl
  end.
Definition obj_case (tol : float) (cheb : list float) (N : nat) (name : option string) (kw : list (string * @pval float))
                    (err : nat) (impl : list float) (iN : nat) (ienbw : float) : bool :=
  match @window_object float f_ops (f_tops cheb) gen_names gen_routes gen_sigs N name kw with
  | WErr e => Nat.eqb err (ecode e)
  | WOk (w, n, e) => Nat.eqb err 0 && f_close_rel tol 1 w impl && Nat.eqb n iN && f_close_rel 0x1p-30 1 [e] [ienbw]
  end.
Definition fun_case (tol : float) (g : float -> float) (xs ys : list float) : bool :=
  forallb (fun p => PrimFloat.leb (fabs (g (fst p) - snd p)) (tol * fmax 1 (fabs (snd p)))) (combine xs ys).
"""

GEN_THEOREMS = """
Theorem table_checks : table_ok gen_names gen_routes gen_sigs = true.
Proof. vm_compute. reflexivity. Qed.
Theorem coefficients_checks : coeffs_ok gen_coeffs = true.
Proof. vm_compute. reflexivity. Qed.
Section Gen.
Context {F : Type} {OF : Ops F} {TF : TOps F}.
Theorem aliases_identical (a b : string) (N : nat) (kw : list (string * pval)) :
  In (a, b) documented_aliases ->
  create_window gen_names gen_routes gen_sigs N (Some a) kw = create_window gen_names gen_routes gen_sigs N (Some b) kw.
Proof. exact (aliases_identical_thm gen_names gen_routes gen_sigs table_checks a b N kw). Qed.
Theorem factory_routes_documented_params (name : string) (N : nat) (kw : list (string * pval)) :
  In name documented_names ->
  (forall a, In a kw -> In (fst a) (documented_params name)) ->
  exists g sig, lookup name gen_names = Some g /\\ lookup g gen_sigs = Some sig /\\
    create_window gen_names gen_routes gen_sigs N (Some name) kw
    = run_gen g (kw ++ map (fun p => (fst p, pval_of_lit (snd p))) sig) N.
Proof. exact (factory_routes_thm gen_names gen_routes gen_sigs table_checks name N kw). Qed.
Theorem factory_rejects_unknown (name : string) (N : nat) (kw : list (string * pval)) :
  In name documented_names ->
  (exists a, In a kw /\\ ~ In (fst a) (documented_params name)) ->
  create_window gen_names gen_routes gen_sigs N (Some name) kw = WErr EValue.
Proof. exact (factory_rejects_thm gen_names gen_routes gen_sigs table_checks name N kw). Qed.
Theorem factory_rejects_unknown_name (name : string) (N : nat) (kw : list (string * pval)) :
  ~ In (lower name) documented_names ->
  create_window gen_names gen_routes gen_sigs N (Some name) kw = WErr EAssert.
Proof. exact (factory_unknown_name_thm gen_names gen_routes gen_sigs table_checks name N kw). Qed.
Theorem window_object_reports (N : nat) (name : option string) (kw : list (string * pval)) w n e :
  window_object gen_names gen_routes gen_sigs N name kw = WOk (w, n, e) ->
  create_window gen_names gen_routes gen_sigs N name kw = WOk w /\\ n = N /\\ e = enbw w /\\ N <> O.
Proof. exact (window_object_reports_thm gen_names gen_routes gen_sigs N name kw w n e). Qed.
End Gen.
Print Assumptions table_checks.
Print Assumptions coefficients_checks.
Print Assumptions aliases_identical.
Print Assumptions factory_routes_documented_params.
Print Assumptions factory_rejects_unknown.
Print Assumptions factory_rejects_unknown_name.
Print Assumptions window_object_reports.
"""
GEN_THEOREM_NAMES = ['table_checks', 'coefficients_checks', 'aliases_identical', 'factory_routes_documented_params',
                     'factory_rejects_unknown', 'factory_rejects_unknown_name', 'window_object_reports']
GEN_HEAD = """From Coq Require Import List String ZArith.
Import ListNotations.
Require Import Spectrum.Theory.Ops Spectrum.Theory.Vec Spectrum.Model.Window Spectrum.Proofs.WindowFactory.
Local Open Scope string_scope.
"""


def parse_assumptions_multiline(out):
    """vlib.parse_assumptions stops at the first axiom whose type is printed on the following lines
    (e.g. ClassicalDedekindReals.sig_forall_dec); this version keeps every axiom name of every block."""
    import re
    blocks = []; cur = None
    for line in out.split('\n'):
        if line.startswith('Closed under the global context'):
            if cur is not None:
                blocks.append(cur)
            blocks.append([]); cur = None
        elif line.startswith('Axioms:'):
            if cur is not None:
                blocks.append(cur)
            cur = []
        elif cur is not None:
            m = re.match(r'^([A-Za-z_][A-Za-z0-9_.\']*)\s*(:.*)?$', line)
            if m:
                cur.append(m.group(1))
            elif line and not line.startswith(' '):
                blocks.append(cur); cur = None
    if cur is not None:
        blocks.append(cur)
    return blocks


# ----------------------------------------------------------------------------- run
def run(ctx):
    # (vlib.parse_assumptions handles multi-line axiom types itself now)
    import time as _t; _t0 = _t.time()
    def lap(what):
        if os.environ.get('C20_TIMING'):
            print('  [%6.1fs] %s' % (_t.time() - _t0, what))
    import spectrum
    from spectrum import window as W
    rng = ctx.rng
    ctx.check_theorems('Properties/C20.v')

    # ---------------- translator: tables regenerated from the snapshot, theorems re-proved over them
    gen = None
    try:
        table, gen = tr.translate_file(os.path.join(os.path.dirname(W.__file__), 'window.py'))
    except tr.TranslationError as e:
        ctx.broken.append({'theorem': 'translator:window.py (source no longer has the recognised shape)', 'where': 'window.py', 'log': str(e)[:3000]})
        for n in GEN_THEOREM_NAMES:
            ctx.obligations.append((n, False, []))
    if gen is not None:
        ctx.check_generated('C20_table', GEN_HEAD + gen + GEN_THEOREMS, GEN_THEOREM_NAMES)
        ctx.extra['generated_tables'] = {'names': len(table['names']), 'routes': {k: v for k, v in table['routes']},
                                         'route_default_indices': {k: [(p, r, i) for p, r, i in v] for k, v in table['route_defaults']},
                                         'signatures': {g: [p for p, _ in s] for g, s in table['sigs'] if s}}

    PRE = PRE_HEAD + (gen or '') + PRE_TAIL
    lap('theorems + generated tables')

    # ---------------- the binary64 library functions of the model vs numpy (same run)
    if gen is not None:
        xs = np.concatenate([rng.uniform(-60, 60, 400), np.arange(0, 17) * math.pi / 2, [0.0, 1e-20, 1e-9]])
        es = np.concatenate([rng.uniform(-45, 9, 400), [0.0, -1e-3, -32.0]])
        ls = np.concatenate([rng.uniform(0.5, 4000, 300), [1.0, 10.0, 20.0, 1000.0]])
        bs = np.concatenate([rng.uniform(0, 31, 300), [0.0, 8.6, 30.0]])
        tc = ['fun_case 0x1p-46 fcos %s %s' % (fll(xs), fll(np.cos(xs))), 'fun_case 0x1p-46 fsin %s %s' % (fll(xs), fll(np.sin(xs))),
              'fun_case 0x1p-46 fexp %s %s' % (fll(es), fll(np.exp(es))), 'fun_case 0x1p-46 fln %s %s' % (fll(ls), fll(np.log(ls))),
              'fun_case 0x1p-44 fI0 %s %s' % (fll(bs), fll(np.i0(bs)))]
        for i in ctx.coq_cases('c20_transc', PRE, tc, descr='binary64 cos/sin/exp/log/I0 of Instances/FloatWin.v vs numpy (rel. 2^-46, I0 2^-44)'):
            ctx.corr_disagreement('FloatWin.' + ['fcos', 'fsin', 'fexp', 'fln', 'fI0'][i], i, {'function': ['cos', 'sin', 'exp', 'log', 'i0'][i]})

    # ---------------- correspondence: model of create_window over the generated tables, at binary64
    nmax = ctx.q(64, 512)
    cases = []; meta = []

    def add_case(name, N, kw, kind):
        err, w = impl_call(N, name, kw)
        if err == 0 and not np.all(np.isfinite(w)):
            # a non-finite sample cannot be written for the comparison: the model is finite everywhere, so this is a disagreement
            cases.append('false')
        else:
            cases.append('win_case %s %s %d%%nat %s %s %d%%nat %s' % (COQ_TOL, fll(cheb_oracle(name, N, kw)), N,
                         'None' if name is None else '(Some "%s")' % name, kw_coq(kw), err, fll(w)))
        meta.append({'function': 'create_window', 'name': name, 'N': N, 'kwargs': kw_to_json(kw), 'impl_error_code': err, 'kind': kind})
        ctx.count('corr/%s/%s' % (kind, 'error' if err else parity(N)))

    if gen is not None:
        for name in NAMES:
            for N in range(1, nmax + 1):
                add_case(name, N, {}, 'default')
        npar = ctx.q(5, 16)
        for name in PARAMS:
            for j in range(npar):
                edge = 'lo' if j == 0 else ('hi' if j == 1 else None)
                Ns = sorted(set([1, 2, 3, 4, 5] + [int(t) for t in rng.integers(6, nmax + 1, size=ctx.q(7, 20))]))
                kw0 = draw_params(rng, name, 8, edge)
                for N in Ns:
                    kw = draw_params(rng, name, N, edge) if name == 'chebwin' else kw0
                    add_case(name, N, kw, 'params')
        # error branches / routing
        for name in NAMES:
            N = int(rng.integers(2, 20))
            for p in ['alpha', 'beta', 'r', 'mode', 'attenuation', 'nbar', 'sll', 'foo']:
                if p in PARAMS.get(name, []):
                    continue
                if rng.integers(0, 3) == 0 or p == 'foo':
                    add_case(name, N, {p: (PROBE[p][0] if p in PROBE else 1)}, 'reject')
        for kw in ({'r': 1.5}, {'r': -0.25}):
            add_case('tukey', 9, kw, 'reject')
        add_case('flattop', 9, {'mode': 'foo'}, 'reject')
        add_case('nosuchwindow', 9, {}, 'reject'); add_case(None, 7, {}, 'default'); add_case('HaMMing', 7, {}, 'default')
        add_case('taylor', 16, {'nbar': 3, 'sll': -35.0}, 'params'); add_case('taylor', 17, {'sll': -50.0}, 'params')
        for i in ctx.coq_cases('c20_windows', PRE, cases, shard=ctx.q(120, 160),
                               descr='create_window (model over the generated tables, binary64) vs implementation, every sample, tol 2^-36'):
            ctx.corr_disagreement('create_window', i, meta[i])

        lap('correspondence default/params')
        # long windows (sampled N up to 16384)
        cases = []; meta = []
        for j in range(ctx.q(10, 60)):
            name = NAMES[int(rng.integers(0, len(NAMES)))] if j >= 4 else ['kaiser', 'tukey', 'parzen', 'taylor'][j]
            N = int(rng.integers(513, 16385)) if j % 3 else int(rng.choice([1024, 4096, 8192, 16384, 16383, 1025]))
            kw = draw_params(rng, name, N) if (rng.integers(0, 2) or name == 'chebwin') else {}
            add_case(name, N, kw, 'long')
        for i in ctx.coq_cases('c20_long', PRE, cases, shard=2, descr='sampled N in 513..16384'):
            ctx.corr_disagreement('create_window', i, meta[i])

        lap('correspondence long')
        # Window object
        cases = []; meta = []
        for name in NAMES:
            for N in sorted(set([3, 4] + [int(t) for t in rng.integers(5, nmax + 1, size=ctx.q(2, 8))])):
                kw = draw_params(rng, name, N) if (name in PARAMS and rng.integers(0, 2)) else {}
                try:
                    wo = spectrum.Window(N, name, **kw); err = 0; d = np.asarray(wo.data, dtype=float); rn = int(wo.N); re = float(wo.enbw)
                except Exception as e:
                    err = ERR.get(type(e), 9); d = []; rn = 0; re = 0.0
                if err == 0 and (not np.all(np.isfinite(d)) or not math.isfinite(re) or re > 1e6):
                    ctx.count('corr/object/skipped_nonfinite_or_illconditioned_enbw'); continue
                cases.append('obj_case %s %s %d%%nat (Some "%s") %s %d%%nat %s %d%%nat %s' % (COQ_TOL, fll(cheb_oracle(name, N, kw)), N, name, kw_coq(kw), err, fll(d), rn, fl(re)))
                meta.append({'function': 'Window', 'name': name, 'N': N, 'kwargs': kw_to_json(kw)})
                ctx.count('corr/object')
        for bad_name, N in (('Hamming', 8), ('nosuch', 8)):
            try:
                spectrum.Window(N, bad_name); err = 0
            except Exception as e:
                err = ERR.get(type(e), 9)
            cases.append('obj_case %s [] %d%%nat (Some "%s") [] %d%%nat [] 0%%nat 0' % (COQ_TOL, N, bad_name, err)); meta.append({'function': 'Window', 'name': bad_name, 'N': N})
        for i in ctx.coq_cases('c20_object', PRE, cases, shard=60, descr='Window(N, name, **kw): (data, N, enbw) vs model'):
            ctx.corr_disagreement('Window', i, meta[i])

    lap('correspondence object')
    # ---------------- property-directed search on the implementation
    def explore(name, N, kw, closed=True):
        ctx.case(('win', name, N, tuple(sorted(kw.items()))), nontrivial=(N >= 3),
                 sample={'function': 'create_window', 'name': name, 'N': N, 'kwargs': kw_to_json(kw)})
        ctx.count('search/%s/%s' % ('params' if kw else 'default', parity(N)))
        for key, what in check_window(name, N, kw, closed=closed):
            ctx.violation(key, what, {'function': 'create_window', 'name': name, 'N': N, 'kwargs': kw_to_json(kw)})

    for name in NAMES:
        for N in range(1, nmax + 1):
            explore(name, N, {})
    for name in PARAMS:
        for j in range(ctx.q(8, 40)):
            edge = 'lo' if j == 0 else ('hi' if j == 1 else None)
            for N in sorted(set([1, 2, 3, 4, 5, 8, 9] + [int(t) for t in rng.integers(6, nmax + 1, size=ctx.q(10, 40))])):
                explore(name, N, draw_params(rng, name, N, edge))
    for j in range(ctx.q(60, 600)):
        name = NAMES[int(rng.integers(0, len(NAMES)))]
        N = int(rng.integers(513, 16385)) if j % 4 else int(rng.choice([1024, 2048, 4096, 8192, 16384, 16383, 1025, 4097]))
        kw = draw_params(rng, name, N) if (rng.integers(0, 2) or name == 'chebwin') else {}
        explore(name, N, kw)
    for N in list(range(1, min(nmax, 128) + 1)) + [int(t) for t in rng.integers(129, 16385, size=ctx.q(4, 30))]:
        ctx.case(('aliases', N), nontrivial=(N >= 3)); ctx.count('search/aliases')
        for key, what in check_aliases(N):
            ctx.violation(key, what, {'function': 'aliases', 'N': N})
    for name in NAMES:
        for N in [1, 2, 3, 16, 17] + [int(t) for t in rng.integers(4, nmax + 1, size=ctx.q(2, 10))]:
            ctx.case(('factory', name, N), nontrivial=(N >= 3)); ctx.count('search/factory')
            for key, what in check_factory(name, N):
                ctx.violation(key, what, {'function': 'factory', 'name': name, 'N': N})
            kw = draw_params(rng, name, N) if rng.integers(0, 2) else {}
            ctx.case(('object', name, N, tuple(sorted(kw.items()))), nontrivial=(N >= 3)); ctx.count('search/object')
            for key, what in check_window_object(name, N, kw):
                ctx.violation(key, what, {'function': 'Window', 'name': name, 'N': N, 'kwargs': kw_to_json(kw)})
            if name in PARAMS:
                kw1 = draw_params(rng, name, N, 'lo'); kw2 = draw_params(rng, name, N, 'hi')
                ctx.case(('object-pair', name, N, tuple(sorted(kw1.items())), tuple(sorted(kw2.items()))), nontrivial=(N >= 3)); ctx.count('search/object-pair')
                for key, what in check_window_object_pair(name, N, kw1, kw2):
                    ctx.violation(key, what, {'function': 'WindowPair', 'name': name, 'N': N, 'kwargs1': kw_to_json(kw1), 'kwargs': kw_to_json(kw2)})
    lap('search')
    # names are case-insensitive in the factory, unknown names are refused by factory and object
    for nm in ('HANN', 'Kaiser'):
        try:
            if not np.array_equal(spectrum.create_window(16, nm), spectrum.create_window(16, nm.lower())):
                ctx.violation('factory_name/create_window/case', 'create_window(16, %r) differs from the lower-case name' % nm, {'function': 'factory', 'name': nm.lower(), 'N': 16})
        except Exception as e:
            ctx.violation('factory_name/create_window/case', 'create_window(16, %r) raised %r' % (nm, e), {'function': 'factory', 'name': nm.lower(), 'N': 16})
    for fn in (spectrum.create_window, spectrum.Window):
        try:
            fn(16, 'no_such_window')
            ctx.violation('factory_name/%s/unknown' % fn.__name__, 'an unknown window name was accepted', {'function': 'factory', 'name': 'hann', 'N': 16})
        except (AssertionError, ValueError):
            pass

    # ---------------- results depend on the VALUES given only: call protocol (repeat, aliasing, buffer reuse, memory layout, integer / single-precision dtypes)
    from props import _purity
    _purity.run_protocol(ctx, ['create_window_kaiser', 'create_window_hann'])
