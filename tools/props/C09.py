"""C09 — Correlation estimates match their definition and are consistent."""
import numpy as np
import vlib
from props._loopir import loopir_tie, TRUSTED_LINE
from vlib import cz, czl, tolq

LEVEL_TEXT = ("Coq theorems (abstract *-field / abstract ordered *-field, every length, lag and order) about the Gallina model of "
              "CORRELATION, xcorr and corrmtx: the four normalisations with zero padding of the shorter input, the raised "
              "exceptions, lags -maxlags..maxlags with conj(r_yx[k]) at -k, r[0] = mean|x|^2 >= 0, |r[k]|^2 <= r[0]^2 "
              "(Cauchy-Schwarz), c^H T c = (1/N) sum |x*c|^2 >= 0 (> 0 for x, c non-zero), Gram('autocorrelation') = N*T, shapes and "
              "entries of the five data matrices.  Tie: exact in-Coq correspondence (vm_compute over Gaussian rationals, "
              "comparison inside Coq) of all three functions incl. defaults and error cases, exhaustive over small shapes; "
              "search on the implementation with independent oracles (explicit lag sums, Toeplitz eigenvalues, Gram matrix).")
TRUSTED = ["Coq 8.16.1 kernel + vm_compute (no native_compute)",
           "hand-written models coq/Model/Corr.v + coq/Model/CorrC09.v, tied to correlation.py / linalg.corrmtx by the correspondence run only",
           "scipy.signal.correlate and scipy.linalg.toeplitz are modelled by what they return (lag sums / Toeplitz layout), checked by the same correspondence",
           "rms(x)*rms(y) of a cross-correlation with norm='coeff' is an input of the model (square roots); for the autocorrelation it is the rational mean power",
           "Python harness (snapshot, generators, float->dyadic conversion)"]
TRUSTED = TRUSTED + [TRUSTED_LINE]
LEVEL_TEXT = LEVEL_TEXT + (" Additionally the hand-written model is tied to the source text: a deep-embedded loop-IR program is regenerated from the Python source of CORRELATION on every run (fail-closed ast translator) and evaluated by the Coq interpreter at the exact instance against the model with zero tolerance (same outcome, every entry equal).")
UNPROVED = ["nothing of the statement is search-only; '|r[k]| <= r[0]' is proved in the square-root-free form |r[k]|^2 <= r[0]^2 and r[0] >= 0",
            "corrmtx with m >= N (the code returns differently shaped matrices) is outside the property's domain and outside the model"]
ASSUMPTIONS = ["exact arithmetic in the theorems; rounding error of the binary64 code is not bounded by any theorem",
               "inputs of the correspondence run are dyadic rationals with few significant bits",
               "inputs are float64/complex128/int arrays or Python lists (complex64 input makes corrmtx drop the imaginary part: not covered)"]
RULE = ("real/complex/mixed low-bit dyadic data, lengths 1..12, equal and unequal lengths both ways, y=None / y=x / y given, all four norms, "
        "maxlags None/0/N-1/random/N/N+k exactly in Coq (exhaustive over len(x),len(y) <= 4 for CORRELATION and N <= 6 for xcorr, corrmtx); "
        "noise, tones, integer, large-dynamic-range data N=1..64 in the search; non-trivial = N >= 3 and not the zero vector; "
        "distinct = distinct (function, configuration, input) hashes")

PRE = """Require Import Spectrum.Theory.Ops Spectrum.Theory.Vec Spectrum.Model.Corr Spectrum.Model.CorrC09 Spectrum.Instances.QcC.
From Coq Require Import QArith Qcanon.
Local Open Scope Z_scope.
Definition nm_of (n : nat) : cnorm := match n with O => Biased | 1%nat => Unbiased | 2%nat => Coeff | _ => NoNorm end.
Definition meth_of (n : nat) : cmethod :=
  match n with O => MAutocorrelation | 1%nat => MPrewindowed | 2%nat => MPostwindowed | 3%nat => MCovariance | _ => MModified end.
Definition one1 : Qc := dy 1 0.
(* code of the implementation's outcome: 0 returned, 1 AssertionError, 2 IndexError (anything else never agrees) *)
Definition res_case (tol : Qc) (res : cerr + list QcC) (code : nat) (out : list QcC) : bool :=
  match res with
  | inl EAssert => (code =? 1)%nat
  | inl EIndex => (code =? 2)%nat
  | inr r => (code =? 0)%nat && qcc_close_rel tol one1 r out
  end.
Definition corr_case tol (rp : QcC) (x : list QcC) (oy : option (list QcC)) (oml : option nat) (nm code : nat) (out : list QcC) : bool :=
  res_case tol (@correlation_c _ qcc_ops rp x oy oml (nm_of nm)) code out.
(* same data in both arguments: rms(x)*rms(y) is the exact mean power *)
Definition acorr_case tol (x : list QcC) (oy : option (list QcC)) (oml : option nat) (nm code : nat) (out : list QcC) : bool :=
  res_case tol (@correlation_c _ qcc_ops (@mean_pow _ qcc_ops x) x oy oml (nm_of nm)) code out.
Definition zl_eqb (a b : list Z) : bool := (length a =? length b)%nat && forallb (fun p => Z.eqb (fst p) (snd p)) (combine a b).
Definition xres_case (tol : Qc) (res : cerr + (list QcC * list Z)) (code : nat) (out : list QcC) (lags : list Z) : bool :=
  match res with
  | inl EAssert => (code =? 1)%nat
  | inl EIndex => (code =? 2)%nat
  | inr (r, l) => (code =? 0)%nat && qcc_close_rel tol one1 r out && zl_eqb l lags
  end.
Definition xcorr_case tol (rp : QcC) (x : list QcC) (oy : option (list QcC)) (oml : option nat) (nm code : nat) (out : list QcC) (lags : list Z) : bool :=
  xres_case tol (@xcorr_c _ qcc_ops rp x oy oml (nm_of nm)) code out lags.
Definition xacorr_case tol (x : list QcC) (oy : option (list QcC)) (oml : option nat) (nm code : nat) (out : list QcC) (lags : list Z) : bool :=
  xres_case tol (@xcorr_c _ qcc_ops (@mean_pow _ qcc_ops x) x oy oml (nm_of nm)) code out lags.
(* corrmtx: shape and every entry (entries are copies / conjugates of the data: compared exactly) *)
Definition cm_case (x : list QcC) (m meth rows cols : nat) (flat : list QcC) : bool :=
  let M := @corrmtx _ qcc_ops x m (meth_of meth) in
  (length M =? rows)%nat && forallb (fun row => (length row =? cols)%nat) M && qcc_close_list (dy 0 0) (concat M) flat
  && (rows =? @corrmtx_rows (length x) m (meth_of meth))%nat
  && forallb (fun n => forallb (fun j => qcc_close (dy 0 0) (nthF (OF:=qcc_ops) (nth n M []) j) (@corrmtx_entry _ qcc_ops x m (meth_of meth) n j)) (seq 0 (S m))) (seq 0 rows).
"""

NORMS = ['biased', 'unbiased', 'coeff', None]
NORM_ID = {'biased': 0, 'unbiased': 1, 'coeff': 2, None: 3}
METHODS = ['autocorrelation', 'prewindowed', 'postwindowed', 'covariance', 'modified']
TOL = 1e-12


# ----------------------------------------------------------------------------- helpers
def lowbit(rng, n, cplx, bits=3, den=1):
    s = 1 << bits
    x = rng.integers(-s, s + 1, size=n).astype(float) / den
    if cplx:
        x = x + 1j * rng.integers(-s, s + 1, size=n) / den
    if not np.any(x):
        x[0] = 1
    return x


def opt_list(v):
    return 'None' if v is None else '(Some %s)' % czl(v)


def opt_nat(m):
    return 'None' if m is None else '(Some %d%%nat)' % m


def zl(v):
    return '[' + '; '.join('(%d)' % int(t) for t in v) + ']'


def outcome(f, *a, **k):
    """(code, value): 0 returned, 1 AssertionError, 2 IndexError, 3 anything else"""
    try:
        return 0, f(*a, **k)
    except AssertionError:
        return 1, None
    except IndexError:
        return 2, None
    except Exception:       # noqa
        return 3, None


def as_input(v, form):
    """the container / dtype the caller hands over"""
    if v is None:
        return None
    if form == 'list':
        return [complex(t) if np.iscomplexobj(v) else float(t) for t in v]
    if form == 'int' and not np.iscomplexobj(v) and np.all(v == np.round(v)):
        return np.asarray(v).astype(int)
    return np.array(v)


def padded(x, y):
    N = max(len(x), len(y))
    xp = np.zeros(N, dtype=complex); yp = np.zeros(N, dtype=complex)
    xp[:len(x)] = x; yp[:len(y)] = y
    return N, xp, yp


def rms(v):
    return float(np.sqrt(np.mean(np.abs(v) ** 2)))


def oracle_lag(xp, yp, d):
    """sum_n x[n+d] conj(y[n]) over the overlap, any integer d (explicit loop: independent of numpy/scipy correlate)"""
    N = len(xp); s = 0j
    if N > 96:
        # long records: the same sum over array slices (elementwise products, no correlate / convolve / FFT)
        if d >= 0:
            return complex(np.sum(np.asarray(xp[d:], dtype=complex) * np.conj(np.asarray(yp[:N - d], dtype=complex)))) if d < N else 0j
        return complex(np.sum(np.asarray(xp[:N + d], dtype=complex) * np.conj(np.asarray(yp[-d:], dtype=complex)))) if -d < N else 0j
    for n in range(N):
        if 0 <= n + d < N:
            s += xp[n + d] * np.conj(yp[n])
    return s


def oracle_norm(s, N, d, norm, rp):
    if norm == 'biased':
        return s / N
    if norm == 'unbiased':
        return s / (N - abs(d))
    if norm == 'coeff':
        return s / rp / N
    return s


# ----------------------------------------------------------------------------- clause checkers (search + replay)
def check_correlation(x, y, maxlags, norm, same=False):
    """CORRELATION against the explicit lag sums.  y None = autocorrelation.  Returns [(key, what)]."""
    from spectrum import CORRELATION
    bad = []
    yy = x if y is None else y
    N, xp, yp = padded(np.asarray(x), np.asarray(yy))
    ml = N - 1 if maxlags is None else maxlags
    lk = 'auto' if (y is None or same) else ('equal' if len(x) == len(yy) else ('x_shorter' if len(x) < len(yy) else 'y_shorter'))
    site = 'CORRELATION/%s/%s' % (norm, lk)
    x0 = np.array(x, copy=True); y0 = None if y is None else np.array(y, copy=True)
    code, r = outcome(CORRELATION, x, y, maxlags=maxlags, norm=norm)
    if ml >= N:
        if code != 1:
            bad.append(('correlation_raises/' + site, 'maxlags=%r >= N=%d did not raise AssertionError (outcome code %d)' % (maxlags, N, code)))
        return bad
    if code != 0:
        return [('correlation_def/' + site, 'raised (outcome code %d) on admissible input N=%d maxlags=%r' % (code, N, maxlags))]
    r = np.asarray(r)
    if r.shape != (ml + 1,):
        return [('correlation_def/' + site, 'shape %r, expected (%d,)' % (r.shape, ml + 1))]
    if not np.array_equal(np.asarray(x), x0) or (y is not None and not np.array_equal(np.asarray(y), y0)):
        bad.append(('correlation_def/' + site + '/inputs_modified', 'the call modified its input arrays'))
    ex = np.sqrt(np.sum(np.abs(xp) ** 2)); ey = np.sqrt(np.sum(np.abs(yp) ** 2))
    rp = rms(xp) * rms(yp)
    for k in range(ml + 1):
        s = oracle_lag(xp, yp, k)
        if norm == 'coeff' and k == 0:
            want = 1.0; scale = 1.0
            if lk != 'auto':
                continue      # cross-correlation: the code pins r[0] = 1; the statement asks coeff for the autocorrelation only
        else:
            want = oracle_norm(s, N, k, norm, rp)
            scale = abs(oracle_norm(ex * ey, N, k, norm, rp))
        if not abs(r[k] - want) <= 1e-9 * max(scale, 1e-300):
            bad.append(('correlation_def/' + site, 'r[%d] = %r, definition gives %r (N=%d, len x=%d, len y=%d)' % (k, complex(r[k]), complex(want), N, len(x), len(yy))))
            break
    return bad


def check_xcorr(x, y, maxlags, norm, sameobj=False):
    """xcorr against the explicit lag sums, lags vector, CORRELATION at lags >= 0 and conj(r_yx[k]) at lag -k."""
    from spectrum import xcorr, CORRELATION
    bad = []
    x = np.asarray(x); N = len(x)
    yarg = x if sameobj else y
    yy = x if yarg is None else np.asarray(yarg)
    lk = 'auto' if (y is None or sameobj) else 'cross'
    site = 'xcorr/%s/%s' % (norm, lk)
    code, res = outcome(xcorr, x, yarg, maxlags=maxlags, norm=norm)
    ml = N - 1 if maxlags is None else maxlags
    if len(yy) != N or ml > N:
        if code != 1:
            bad.append(('xcorr_raises/' + site, 'unequal lengths / maxlags > N did not raise AssertionError (outcome code %d)' % code))
        return bad
    if ml == N:
        if code == 0:
            bad.append(('xcorr_raises/' + site, 'maxlags = N returned a value (the model of the current code raises IndexError)'))
        return bad
    if code != 0:
        return [('xcorr_def/' + site, 'raised (outcome code %d) on admissible input N=%d maxlags=%r' % (code, N, maxlags))]
    r, lags = res; r = np.asarray(r); lags = np.asarray(lags)
    if r.shape != (2 * ml + 1,) or list(lags) != list(range(-ml, ml + 1)):
        return [('xcorr_def/' + site + '/lags', 'shape %r / lags %r, expected lags -%d..%d' % (r.shape, list(lags)[:6], ml, ml))]
    xp = x.astype(complex); yp = yy.astype(complex)
    ex = np.sqrt(np.sum(np.abs(xp) ** 2)); ey = np.sqrt(np.sum(np.abs(yp) ** 2)); rp = rms(xp) * rms(yp)
    for i, d in enumerate(range(-ml, ml + 1)):
        want = oracle_norm(oracle_lag(xp, yp, d), N, d, norm, rp)
        scale = abs(oracle_norm(ex * ey, N, d, norm, rp))
        if not abs(r[i] - want) <= 1e-9 * max(scale, 1e-300):
            bad.append(('xcorr_def/' + site + ('/neg_lags' if d < 0 else '/nonneg_lags'),
                        'value at lag %d = %r, definition gives %r (N=%d)' % (d, complex(r[i]), complex(want), N)))
            break
    # consistency on the implementation itself
    c2, rc = outcome(CORRELATION, x, yarg, maxlags=ml, norm=norm)
    if c2 == 0:
        rc = np.asarray(rc)
        for k in range(ml + 1):
            if norm == 'coeff' and k == 0 and lk != 'auto':
                continue
            scale = abs(oracle_norm(ex * ey, N, k, norm, rp))
            if not abs(r[ml + k] - rc[k]) <= 1e-9 * max(scale, 1e-300):
                bad.append(('xcorr_nonneg_lags/' + site, 'xcorr at lag %d = %r but CORRELATION gives %r' % (k, complex(r[ml + k]), complex(rc[k]))))
                break
    c3, res2 = outcome(xcorr, yy, x, maxlags=maxlags, norm=norm)
    if c3 == 0:
        r2 = np.asarray(res2[0])
        for k in range(ml + 1):
            scale = abs(oracle_norm(ex * ey, N, k, norm, rp))
            if not abs(r[ml - k] - np.conj(r2[ml + k])) <= 1e-9 * max(scale, 1e-300):
                bad.append(('xcorr_neg_lags/' + site, 'value at lag -%d = %r is not conj(r_yx[%d]) = %r' % (k, complex(r[ml - k]), k, complex(np.conj(r2[ml + k])))))
                break
    return bad


def toeplitz_of(r):
    p = len(r); T = np.empty((p, p), dtype=complex)
    for i in range(p):
        for j in range(p):
            T[i, j] = r[i - j] if i >= j else np.conj(r[j - i])
    return T


def oracle_corrmtx(x, m, method):
    """explicit data matrices, written from the definition (x[t] = 0 outside 0..N-1)"""
    x = np.asarray(x).astype(complex); N = len(x)
    xz = lambda t: x[t] if 0 <= t < N else 0j
    row = lambda n: [xz(n - j) for j in range(m + 1)]
    if method == 'autocorrelation':
        R = [row(n) for n in range(N + m)]
    elif method == 'prewindowed':
        R = [row(n) for n in range(N)]
    elif method == 'postwindowed':
        R = [row(n) for n in range(m, N + m)]
    elif method == 'covariance':
        R = [row(n) for n in range(m, N)]
    else:
        R = [row(n) for n in range(m, N)] + [[np.conj(xz(i + j)) for j in range(m + 1)] for i in range(N - m)]
    return np.array(R, dtype=complex).reshape(len(R), m + 1)


def check_acorr_consistency(x, m):
    """biased autocorrelation: r0 = mean|x|^2 >= |r[k]|, Hermitian PSD Toeplitz, Gram = N*T; data matrices of all methods."""
    from spectrum import CORRELATION, corrmtx
    bad = []
    x = np.asarray(x); N = len(x); tag = 'complex' if np.iscomplexobj(x) else 'real'
    code, r = outcome(CORRELATION, x, maxlags=m, norm='biased')
    if code != 0:
        return [('acorr_bound/CORRELATION/' + tag, 'biased autocorrelation raised (code %d), N=%d maxlags=%d' % (code, N, m))]
    r = np.asarray(r); mp = float(np.mean(np.abs(x) ** 2))
    if not abs(r[0] - mp) <= 1e-9 * mp:
        bad.append(('acorr_r0/CORRELATION/' + tag, 'r[0] = %r, mean |x|^2 = %r' % (complex(r[0]), mp)))
    if np.any(np.abs(r) > mp * (1 + 1e-9)):
        k = int(np.argmax(np.abs(r)))
        bad.append(('acorr_bound/CORRELATION/' + tag, '|r[%d]| = %r > r[0] = %r' % (k, abs(r[k]), mp)))
    T = toeplitz_of(r)
    ev = np.linalg.eigvalsh(T)
    if ev[0] < -1e-9 * mp * (m + 1):
        bad.append(('toeplitz_psd/CORRELATION/' + tag, 'Toeplitz matrix of order %d has eigenvalue %r (r0 = %r)' % (m, float(ev[0]), mp)))
    for method in METHODS:
        code, X = outcome(corrmtx, x, m, method)
        want = oracle_corrmtx(x, m, method)
        if code != 0:
            bad.append(('corrmtx_shape/corrmtx/' + method, 'raised (code %d) for N=%d m=%d' % (code, N, m))); continue
        X = np.asarray(X)
        if X.shape != want.shape:
            bad.append(('corrmtx_shape/corrmtx/' + method, 'shape %r, expected %r (N=%d, m=%d)' % (X.shape, want.shape, N, m))); continue
        if X.size and np.max(np.abs(X - want)) > 0:
            i, j = np.unravel_index(int(np.argmax(np.abs(X - want))), X.shape)
            bad.append(('corrmtx_entry/corrmtx/' + method, 'entry (%d,%d) = %r, expected %r (N=%d, m=%d)' % (i, j, complex(X[i, j]), complex(want[i, j]), N, m)))
        if method == 'autocorrelation' and X.shape == want.shape:
            G = np.conj(X.T) @ X
            if np.max(np.abs(G - N * T)) > 1e-9 * N * mp * (m + 1):
                bad.append(('corrmtx_gram/corrmtx/' + tag, 'X^H X != N * Toeplitz(r): max deviation %r (N=%d, m=%d)' % (float(np.max(np.abs(G - N * T))), N, m)))
    return bad


def check_invalid_norm(x):
    from spectrum import CORRELATION
    code, _ = outcome(CORRELATION, x, norm='foo')
    return [] if code == 1 else [('correlation_raises/CORRELATION/invalid_norm', "norm='foo' did not raise AssertionError (code %d)" % code)]


def replay(rep):
    if rep['replay'].get('protocol') == 'values_only':
        from props import _purity
        return _purity.replay_protocol(rep['replay'])
    r = rep['replay']; fn = r.get('function')
    def vec(name):
        v = r.get(name)
        if v is None:
            return None
        a = vlib.unhexv(v)
        return as_input(a, r.get(name + '_form', 'array'))
    norm = r.get('norm')
    if fn == 'CORRELATION':
        return not check_correlation(vec('x'), vec('y'), r.get('maxlags'), norm, same=r.get('same', False))
    if fn == 'xcorr':
        return not check_xcorr(vec('x'), vec('y'), r.get('maxlags'), norm, sameobj=r.get('sameobj', False))
    if fn == 'acorr_consistency':
        return not check_acorr_consistency(vec('x'), r['m'])
    if fn == 'invalid_norm':
        return not check_invalid_norm(vec('x'))
    return True


def rep_of(fn, x, y=None, xform='array', yform='array', **kw):
    d = {'function': fn, 'x': vlib.hexv(x), 'x_form': xform}
    if y is not None:
        d['y'] = vlib.hexv(y); d['y_form'] = yform
    d.update(kw)
    return d


# ----------------------------------------------------------------------------- generators
def draw_pair(rng, kind, lx, ly, bits=3, den=1):
    """kind = (x complex?, y complex?)"""
    x = lowbit(rng, lx, kind[0], bits, den)
    y = lowbit(rng, ly, kind[1], bits, den)
    return x, y


def search_data(rng, N, cplx, style):
    if style == 'noise':
        x = rng.standard_normal(N) + (1j * rng.standard_normal(N) if cplx else 0)
    elif style == 'tone':
        t = np.arange(N); f = rng.uniform(0.02, 0.48)
        x = (np.exp(2j * np.pi * f * t + 1j * rng.uniform(0, 6)) if cplx else np.cos(2 * np.pi * f * t + rng.uniform(0, 6))) \
            + 0.2 * (rng.standard_normal(N) + (1j * rng.standard_normal(N) if cplx else 0))
    elif style == 'int':
        x = lowbit(rng, N, cplx, bits=5)
    else:
        x = (rng.standard_normal(N) + (1j * rng.standard_normal(N) if cplx else 0)) * 10.0 ** int(rng.integers(-6, 7))
        if rng.integers(0, 3) == 0:
            # extreme but representable amplitudes: every second-order quantity (1e-240 .. 1e240) is still a normal double
            x = x / np.max(np.abs(x)) * 10.0 ** int(rng.choice([-120, -90, 90, 120]))
    if not np.any(x):
        x[0] = 1.0
    return x


def run(ctx):
    from spectrum import CORRELATION, xcorr, corrmtx
    rng = ctx.rng
    ctx.check_theorems('Properties/C09.v')
    loopir_tie(ctx, ['CORRELATION'])      # IR programs regenerated from the source vs the model: exact, zero tolerance

    # ================= correspondence: CORRELATION =================
    cases = []; meta = []

    def add_corr(x, y, ykind, maxlags, norm, xform='array', yform='array'):
        """ykind: 'none' (autocorrelation call), 'same' (y holds the same data), 'cross'"""
        xin = as_input(x, xform); yin = None if ykind == 'none' else as_input(x.copy() if ykind == 'same' else y, yform)
        code, out = outcome(CORRELATION, xin, yin, maxlags=maxlags, norm=norm)
        out = [] if out is None else np.asarray(out)
        oy = None if ykind == 'none' else (x if ykind == 'same' else y)
        tol = 0.0 if norm is None else TOL      # raw lag sums of low-bit dyadic data are exact in binary64: compared exactly
        if ykind == 'cross':
            N, xp, yp = padded(x, y)
            rp = rms(xp) * rms(yp) if norm == 'coeff' else 1.0
            cases.append('corr_case %s %s %s %s %s %d%%nat %d%%nat %s' % (tolq(tol), cz(rp), czl(x), opt_list(oy), opt_nat(maxlags), NORM_ID[norm], code, czl(out)))
        else:
            N = len(x)
            cases.append('acorr_case %s %s %s %s %d%%nat %d%%nat %s' % (tolq(tol), czl(x), opt_list(oy), opt_nat(maxlags), NORM_ID[norm], code, czl(out)))
        lk = ykind if ykind != 'cross' else ('equal' if len(x) == len(y) else ('x_shorter' if len(x) < len(y) else 'y_shorter'))
        meta.append(rep_of('CORRELATION', x, None if ykind == 'none' else (x if ykind == 'same' else y), xform, yform,
                           maxlags=maxlags, norm=norm, same=(ykind == 'same'), impl_outcome=code))
        ctx.count('CORRELATION/%s/%s/%s' % (norm, lk, ['returned', 'AssertionError', 'IndexError', 'other'][code]))
        ctx.count('CORRELATION/dtype/%s-%s' % ('c' if np.iscomplexobj(x) else 'r', '-' if ykind == 'none' else ('c' if np.iscomplexobj(oy) else 'r')))
        ctx.case(('CORRELATION', x.tobytes(), None if oy is None else oy.tobytes(), ykind, maxlags, norm, xform, yform),
                 nontrivial=(N >= 3), sample={'function': 'CORRELATION', 'x': [str(t) for t in x], 'y': None if oy is None else [str(t) for t in oy],
                                              'maxlags': maxlags, 'norm': norm, 'impl_outcome': code})

    # exhaustive over shapes: len(x), len(y) <= LMAX, every norm, every maxlags in {None, 0..N+1}, one real and one complex data set each
    LMAX = ctx.q(3, 5)
    for lx in range(1, LMAX + 1):
        for ly in range(1, LMAX + 1):
            N = max(lx, ly)
            for kind in ((False, False), (True, True)):
                x, y = draw_pair(rng, kind, lx, ly)
                for norm in NORMS:
                    for ml in [None] + list(range(0, N + 2)):
                        add_corr(x, y, 'cross', ml, norm)
    for lx in range(1, LMAX + 2):
        for cplx in (False, True):
            x = lowbit(rng, lx, cplx)
            for norm in NORMS:
                for ml in [None] + list(range(0, lx + 2)):
                    add_corr(x, None, 'none', ml, norm)
    ctx.extra.setdefault('exhaustive_subspaces', []).append(
        'CORRELATION: every (len x, len y) <= %d x norm x maxlags in {None, 0..N+1} (one real and one complex data set per shape)' % LMAX)
    # random, larger
    for _ in range(ctx.q(220, 4000)):
        kind = (bool(rng.integers(0, 2)), bool(rng.integers(0, 2)))
        ykind = str(rng.choice(['none', 'same', 'cross', 'cross', 'cross']))
        lx = int(rng.integers(1, 13)); ly = lx if (ykind != 'cross' or rng.integers(0, 3) == 0) else int(rng.integers(1, 13))
        den = int(rng.choice([1, 1, 4, 16]))
        x, y = draw_pair(rng, kind, lx, ly, bits=int(rng.integers(1, 5)), den=den)
        N = max(lx, ly) if ykind == 'cross' else lx
        mlc = int(rng.integers(0, 8))
        ml = [None, 0, N - 1, int(rng.integers(0, N)), int(rng.integers(0, N)), N, N + int(rng.integers(1, 4)), int(rng.integers(0, N))][mlc]
        norm = NORMS[int(rng.integers(0, 4))]
        xform = str(rng.choice(['array', 'array', 'list', 'int'])); yform = str(rng.choice(['array', 'array', 'list', 'int']))
        add_corr(x, y, ykind, ml, norm, xform, yform)
    for i in ctx.coq_cases('c09_correlation', PRE, cases, descr='CORRELATION vs Model.CorrC09.correlation_c at QcC (values, defaults, exceptions)'):
        ctx.corr_disagreement('CORRELATION', i, meta[i])

    # ================= correspondence: xcorr =================
    cases = []; meta = []

    xc_nonfinite = []

    def add_xcorr(x, y, ykind, maxlags, norm, xform='array'):
        """ykind: 'none', 'sameobj' (xcorr(x, x)), 'same' (equal data, other object), 'cross'"""
        xin = as_input(x, xform)
        yin = None if ykind == 'none' else (xin if ykind == 'sameobj' else (as_input(x.copy(), 'array') if ykind == 'same' else as_input(y, 'array')))
        code, res = outcome(xcorr, xin, yin, maxlags=maxlags, norm=norm)
        out, lags = ([], []) if res is None else (np.asarray(res[0]), np.asarray(res[1]))
        oy = None if ykind == 'none' else (y if ykind == 'cross' else x)
        if res is not None and not (np.all(np.isfinite(np.asarray(out, dtype=complex))) and np.all(np.isfinite(np.asarray(lags, dtype=float)))):
            # a non-finite value cannot enter the exact comparison: evaluated by the search oracle instead (definition clause, with a replay)
            xc_nonfinite.append((x, None if ykind in ('none', 'sameobj') else oy, maxlags, norm, ykind == 'sameobj'))
            return
        if ykind == 'cross':
            rp = rms(x) * rms(y) if norm == 'coeff' else 1.0
            cases.append('xcorr_case %s %s %s %s %s %d%%nat %d%%nat %s %s' % (tolq(TOL), cz(rp), czl(x), opt_list(oy), opt_nat(maxlags), NORM_ID[norm], code, czl(out), zl(lags)))
        else:
            cases.append('xacorr_case %s %s %s %s %d%%nat %d%%nat %s %s' % (tolq(TOL), czl(x), opt_list(oy), opt_nat(maxlags), NORM_ID[norm], code, czl(out), zl(lags)))
        meta.append(rep_of('xcorr', x, None if ykind in ('none', 'sameobj') else oy, xform, 'array', maxlags=maxlags, norm=norm,
                           sameobj=(ykind == 'sameobj'), impl_outcome=code))
        ctx.count('xcorr/%s/%s/%s' % (norm, ykind, ['returned', 'AssertionError', 'IndexError', 'other'][code]))
        ctx.case(('xcorr', x.tobytes(), None if oy is None else oy.tobytes(), ykind, maxlags, norm, xform), nontrivial=(len(x) >= 3),
                 sample={'function': 'xcorr', 'x': [str(t) for t in x], 'y': ykind, 'maxlags': maxlags, 'norm': norm, 'impl_outcome': code})

    NX = ctx.q(5, 7)
    for N in range(1, NX + 1):
        for cplx in (False, True):
            x = lowbit(rng, N, cplx); y = lowbit(rng, N, True)
            for norm in NORMS:
                for ml in [None] + list(range(0, N + 2)):
                    add_xcorr(x, None, 'none', ml, norm)
                    add_xcorr(x, y, 'cross', ml, norm)
                add_xcorr(x, None, 'sameobj', None, norm)
                add_xcorr(x, lowbit(rng, N + 1, cplx), 'cross', None, norm)      # unequal lengths: AssertionError
    ctx.extra['exhaustive_subspaces'].append('xcorr: every N <= %d x norm x maxlags in {None, 0..N+1}, autocorrelation and cross' % NX)
    for _ in range(ctx.q(150, 3000)):
        N = int(rng.integers(1, 13)); cplx = bool(rng.integers(0, 2))
        ykind = str(rng.choice(['none', 'sameobj', 'same', 'cross', 'cross']))
        x = lowbit(rng, N, cplx, bits=int(rng.integers(1, 5)), den=int(rng.choice([1, 4, 16])))
        ly = N if rng.integers(0, 8) else int(rng.integers(1, 13))
        y = lowbit(rng, ly, bool(rng.integers(0, 2)), bits=3)
        ml = [None, 0, N - 1, int(rng.integers(0, N)), int(rng.integers(0, N)), N, N + int(rng.integers(1, 3)), int(rng.integers(0, N))][int(rng.integers(0, 8))]
        add_xcorr(x, y, ykind, ml, NORMS[int(rng.integers(0, 4))], str(rng.choice(['array', 'list', 'int'])))
    for i in ctx.coq_cases('c09_xcorr', PRE, cases, descr='xcorr vs Model.CorrC09.xcorr_c at QcC (values, lags vector, exceptions)'):
        ctx.corr_disagreement('xcorr', i, meta[i])

    # ================= correspondence: corrmtx =================
    cases = []; meta = []

    cm_raised = []

    def add_cm(x, m, method, xform='array'):
        try:
            X = np.asarray(corrmtx(as_input(x, xform), m, method))
        except Exception:
            cm_raised.append((x, m))             # m < N is admissible: reported below through the search oracle, with a replay
            return
        rows, cols = (X.shape if X.ndim == 2 else (X.shape[0], 0))
        cases.append('cm_case %s %d%%nat %d%%nat %d%%nat %d%%nat %s' % (czl(x), m, METHODS.index(method), rows, cols, czl(X.ravel())))
        meta.append({'function': 'acorr_consistency', 'x': vlib.hexv(x), 'x_form': xform, 'm': m, 'method': method})
        ctx.count('corrmtx/%s/%s' % (method, 'complex' if np.iscomplexobj(x) else 'real'))
        ctx.case(('corrmtx', x.tobytes(), m, method, xform), nontrivial=(len(x) >= 3 and m >= 1))

    NC = ctx.q(6, 8)
    for N in range(1, NC + 1):
        for cplx in (False, True):
            x = lowbit(rng, N, cplx)
            for m in range(0, N):
                for method in METHODS:
                    add_cm(x, m, method)
    ctx.extra['exhaustive_subspaces'].append('corrmtx: every N <= %d x m < N x five methods, real and complex' % NC)
    for _ in range(ctx.q(80, 1500)):
        N = int(rng.integers(2, 15)); m = int(rng.integers(0, N)); cplx = bool(rng.integers(0, 2))
        add_cm(lowbit(rng, N, cplx, bits=4, den=int(rng.choice([1, 8]))), m, METHODS[int(rng.integers(0, 5))], str(rng.choice(['array', 'list', 'int'])))
    for i in ctx.coq_cases('c09_corrmtx', PRE, cases, descr='corrmtx (five methods) vs Model.Corr.corrmtx at QcC: shape, every entry, entry formula'):
        ctx.corr_disagreement('corrmtx', i, meta[i])

    # ================= property-directed search on the implementation =================
    def report(bad, rep):
        for key, what in bad:
            ctx.violation(key, what, rep)

    for x, m in cm_raised[:20]:
        report(check_acorr_consistency(x, m), rep_of('acorr_consistency', x, m=m))
    for x, y2, ml, norm, so in xc_nonfinite[:20]:
        report(check_xcorr(x, y2, ml, norm, sameobj=so), rep_of('xcorr', x, y2, 'array', 'array', maxlags=ml, norm=norm, sameobj=so))
    nmax = ctx.q(40, 128)
    for it in range(ctx.q(260, 8000)):
        style = str(rng.choice(['noise', 'tone', 'int', 'big']))
        cx = bool(rng.integers(0, 2)); cy = bool(rng.integers(0, 2))
        lx = int(rng.integers(1, nmax)); mode = int(rng.integers(0, 6))
        if it % 8 == 7:
            lx = int(rng.integers(97, 321))          # long records: vectorised / blocked summation paths
        very_long = (it % 64 == 15)
        if very_long:
            lx = int(rng.integers(1025, 1400)); cx = True          # beyond any plausible size threshold of a "fast path"
        # ---- CORRELATION
        if mode == 0:
            y = None; ly = lx
        elif mode in (1, 2):
            ly = lx; y = search_data(rng, ly, cy, style)
        else:
            ly = int(rng.integers(1, nmax)); y = search_data(rng, ly, cy, style)
        x = search_data(rng, lx, cx, style)
        N = max(lx, ly)
        ml = [None, 0, N - 1, int(rng.integers(0, N)), int(rng.integers(0, N)), N + int(rng.integers(0, 3))][int(rng.integers(0, 6))]
        if very_long:
            ml = int(rng.integers(0, 6))          # the implementation's lag sums are O(N * maxlags) Python loops
        if it % 8 == 3 and y is None:
            # transform-size boundaries: N + maxlags - 1, N + maxlags or 2N - 1 an exact power of two (where a zero-padded transform of the
            # "next power of two" length is exactly too short / just long enough), N just above a power of two
            T = int(rng.choice([64, 128, 256, 512, 1024])); kind = int(rng.integers(0, 4))
            lx = int(rng.integers(T // 2 + 2, T + 1)); ml = [T + 1 - lx, T - lx, T + 1 - lx, 0][kind]
            if kind == 3:
                lx = T + 1
            ml = max(0, min(ml, lx - 1))
            x = search_data(rng, lx, cx, style); N = lx; ly = lx
        norm = NORMS[int(rng.integers(0, 4))]
        xform = str(rng.choice(['array', 'array', 'list'])); yform = str(rng.choice(['array', 'array', 'list']))
        xin = as_input(x, xform); yin = as_input(y, yform)
        ctx.count('search/CORRELATION/%s/%s' % (norm, 'auto' if y is None else ('equal' if lx == ly else ('x_shorter' if lx < ly else 'y_shorter'))))
        ctx.case(('s-corr', x.tobytes(), None if y is None else y.tobytes(), ml, norm, xform, yform), nontrivial=(N >= 3),
                 sample={'function': 'CORRELATION (search)', 'len_x': lx, 'len_y': ly, 'maxlags': ml, 'norm': norm, 'style': style})
        report(check_correlation(xin, yin, ml, norm), rep_of('CORRELATION', x, y, xform, yform, maxlags=ml, norm=norm))
        # ---- xcorr (equal lengths; occasionally unequal for the assertion)
        Nx = lx
        yk = str(rng.choice(['none', 'sameobj', 'cross', 'cross']))
        y2 = search_data(rng, Nx if rng.integers(0, 10) else Nx + 1, cy, style) if yk == 'cross' else None
        ml = [None, 0, Nx - 1, int(rng.integers(0, Nx)), int(rng.integers(0, Nx)), Nx + int(rng.integers(0, 3))][int(rng.integers(0, 6))]
        ctx.count('search/xcorr/%s/%s/%s' % (norm, yk, 'complex' if cx else 'real'))
        ctx.case(('s-xcorr', x.tobytes(), None if y2 is None else y2.tobytes(), yk, ml, norm), nontrivial=(Nx >= 3))
        report(check_xcorr(x, y2, ml, norm, sameobj=(yk == 'sameobj')),
               rep_of('xcorr', x, y2, 'array', 'array', maxlags=ml, norm=norm, sameobj=(yk == 'sameobj')))
        # ---- biased autocorrelation: bound, PSD Toeplitz, Gram matrix, data matrices
        if it % 2 == 0:
            m = int(rng.integers(0, min(lx, 24)))
            ctx.count('search/acorr_consistency/%s/%s' % ('complex' if cx else 'real', style))
            ctx.case(('s-acorr', x.tobytes(), m), nontrivial=(lx >= 3 and m >= 1))
            report(check_acorr_consistency(x, m), rep_of('acorr_consistency', x, m=m))
        if it % 50 == 0:
            report(check_invalid_norm(x), rep_of('invalid_norm', x))

    # ---------------- results depend on the VALUES given only: call protocol (repeat, aliasing, buffer reuse, memory layout, integer / single-precision dtypes)
    from props import _purity
    _purity.run_protocol(ctx, ['CORRELATION', 'CORRELATION_xy', 'xcorr', 'corrmtx_covariance', 'corrmtx_modified', 'corrmtx_autocorrelation'])
