"""C15 — MA and ARMA estimators return valid, invertible models."""
import ast, os, time, warnings
import numpy as np
import vlib
from vlib import cz, czl, tolq
from props._loopir import loopir_tie, TRUSTED_LINE

LEVEL_TEXT = ("Coq theorems (abstract field with conjugation, ordered where an order clause is stated; every N, P, Q, lag, NFFT) about the "
              "model of ma / arma_estimate / arma2psd and the six AR/MA/ARMA class pipelines: exactly P and Q coefficients; the exact "
              "argument set on which arma_estimate returns; for P = Q the sequence handed to the covariance method is [r_1..r_lag] "
              "(unbiased lags) and its normal equations are those of the modified Yule-Walker system over lags Q+1..lag; the residual "
              "handed to ma is x*[1,a] on n = P..N-1; ma = Yule-Walker of the long-AR polynomial with rho > 0; INVERTIBILITY: every root "
              "of the MA polynomial of ma / arma_estimate (in the field, in any ordered extension, and - for rational or complex data - every "
              "complex root) lies strictly inside the unit circle (C12's positive-definiteness root-location argument applied to the "
              "non-zero vector [1,a]); stored psd = c*(rho/sampling)*|B|^2/|A|^2 of the stored ar/ma/rho; B(w^k) <> 0 on every DFT grid, "
              "hence the PSDs of pma, pyule, pburg are strictly positive with non-zero denominators, parma's under the hypothesis that its "
              "covariance-method AR part does not vanish on the grid. Tie: the same Gallina term run inside Coq on dyadic inputs at QcC "
              "(exact; every error branch), BigQ Gaussian rationals (exact) and binary64 (deep chained cases), class PSDs exactly on the "
              "grids NFFT in {1,2,4}, a fail-closed AST extraction of the six __call__ bodies, and a property-directed search on the "
              "implementation with independent oracles.")
TRUSTED = ["Coq 8.16.1 kernel + vm_compute",
           "hand-written model coq/Model/ArmaEst.v (tie = correspondence run + AST extraction of the class pipelines); ma (Model/MaEst.v) is in addition under "
           "the loop-IR tie: its IR program - the two aryule fits with CORRELATION and LEVINSON embedded - is regenerated from arma.py / yulewalker.py / "
           "correlation.py / levinson.py on every run and evaluated exactly (QcC, zero tolerance) against Model.MaEst.ma_est on sampled inputs, every error branch included; "
           "T10: arma_estimate is under the loop-IR tie too: its IR program (CORRELATION, the Y loop, Marple's recursion arcovar_marple for P <= 4, the residual filter, ma "
           "embedded; the scipy-lstsq solver arcovar for P > 4 an ORACLE call = two hidden parameters) is regenerated from arma.py / covar.py / ... on every run and compared "
           "exactly (QcC, zero tolerance: outcome class, every coefficient, rho, dtype tags) with Model.ArmaEst.arma_estimate instantiated with lsm := the hand model of "
           "arcovar_marple (Model/CovarMarple.v) and lsq := the value in the oracle slot (arbitrary low-bit arrays: the claim is for all oracle values), on sampled inputs "
           "inside the documented domain (Q<=lag, lag+2P-Q<=N, 2Q<N-P, 2P<=lag<N; real with both dtype tags and complex) and on every error branch; no theorem `run = model` for it",
           TRUSTED_LINE,
           "arcovar_marple / arcovar (scipy lstsq) enter the model as oracles that satisfy the normal equations of the covariance "
           "method; the correspondence run instantiates them with exact elimination on the normal equations and checks, inside Coq "
           "and with zero tolerance, that this instance meets the hypothesis on every exact case",
           "Bignums BigQ (Instances/BigQC_C15.v) and PrimFloat binary64 are used only to execute the model term in the correspondence "
           "run; the theorems are applied to QcC (Laws + OrdLaws proved)",
           "the three '..._complex' / '..._C' theorems (all complex roots) are instances at Coquelicot's C and use the standard-library "
           "axioms of the real numbers (ClassicalDedekindReals.sig_not_dec, sig_forall_dec, functional_extensionality_dep); the other 21 "
           "theorems are closed under the global context",
           "numpy.fft enters as a twiddle character (Theory/Dft.v); 2*pi enters as a symbol",
           "Python harness (snapshot, generators, float->dyadic conversion, numpy.roots / numpy.linalg in the search oracles)"]
UNPROVED = ["strict positivity / finiteness of the PSDs of parma, pcovar, pmodcovar: their AR part comes from the covariance / modified "
            "covariance method, for which no stability theorem exists (a pole may lie on the unit circle), so A(w^k) <> 0 stays a hypothesis "
            "(class_psd_pos, parma_psd_pos) and is checked by search only; rho > 0 of pcovar/pmodcovar is C14's",
            "rho > 0 and invertibility of arma_estimate's MA part are proved under the hypothesis that the filtered residual is not "
            "identically zero (for a zero residual the code returns nan)",
            "that Marple's fast recursion (arcovar_marple) and scipy lstsq return a solution of the normal equations: oracle hypothesis, "
            "checked by correspondence and by the normal-equation residual in the search",
            "on part of the stated domain the code does not return a model (lag < P, lag = P > 4, lag >= N raise; P <= lag < 2P <= 8 can "
            "give NaN): arma_returns_iff gives the exact set; known findings D26 (six keys)",
            "rounding of the binary64 code is outside the theorems (numpy.roots of the returned MA polynomial and PSD positivity are "
            "re-checked numerically by the search)"]
ASSUMPTIONS = ["exact arithmetic in the theorems", "non-degenerate data as in the property statement (full-rank covariance system for the "
               "value comparison; the normal-equation clause is checked also when it is under-determined)"]
RULE = ("in Coq: real/complex integer data; ma N<=20, Q<=3, M<=7 (QcC); arma_estimate all error branches P<=7 and small returned cases (QcC), "
        "N<=20, P<=3, Q<=2 (Q=3 real) exactly (BigQ), N<=24, P<=3 and P=5, Q<=3 (binary64); class pipelines N<=20, orders<=3, NFFT in {1,2,4}; "
        "search: noise-like, ARMA-generated, integer and rescaled real/complex data N=16..256, (P,Q,lag) in the stated domain (lag>=2P stream "
        "and the lag<2P / lag>=N streams), NFFT even/odd/default, sampling in {1,0.5,2,100,44100}; non-trivial = P+Q>=2 and returned normally")

PRE = """Require Import Spectrum.Theory.Ops Spectrum.Theory.Vec Spectrum.Theory.Dft Spectrum.Model.Levinson Spectrum.Model.Corr
               Spectrum.Model.ArmaEst Spectrum.Instances.QcC Spectrum.Instances.QcCTw.
From Coq Require Import QArith Qcanon.
Local Open Scope Z_scope.
Definition err_code (e : aerr) : nat := match e with EValue => 1%nat | EAssert => 2%nat | EIndex => 3%nat end.
Definition close tol (a b : list QcC) := qcc_close_rel tol (dy 1 0) a b.
Definition all_zero (l : list QcC) : bool := forallb (fun a => qcc_close 0%Qc a (0%Qc, 0%Qc)) l.
Definition ma_case tol (x : list QcC) (Q M code : nat) (ib : list QcC) (irho : QcC) : bool :=
  match @ma _ qcc_ops x Q M with
  | inl e => Nat.eqb (err_code e) code
  | inr (b, rho) => Nat.eqb code 0 && close tol b ib && close tol [rho] [irho]
  end.
Definition cls (n : nat) : pclass :=
  match n with 0%nat => Cparma | 1%nat => Cpma | 2%nat => Cpyule | 3%nat => Cpburg | 4%nat => Cpcovar | _ => Cpmodcovar end.
Definition tw_of (n : nat) : Z -> QcC := match n with 1%nat => tw1 | 2%nat => tw2 | _ => tw4 end.
Definition oclose tol (a b : option (list QcC)) : bool :=
  match a, b with None, None => true | Some a, Some b => close tol a b | _, _ => false end.
Definition psd_case tol (c : nat) (ar ma : list QcC) (v : QcC) (N order : nat) (twopi sampling : QcC) (NFFT : nat) (real sbf : bool)
           (code : nat) (iar ima : option (list QcC)) (irho : option (list QcC)) (ipsd : list QcC) : bool :=
  match @class_call _ qcc_ops (tw_of NFFT) (cls c) ar ma v N order twopi sampling NFFT real sbf with
  | inl e => Nat.eqb (err_code e) code
  | inr ex => Nat.eqb code 0 && oclose 0%Qc (x_ar ex) iar && oclose 0%Qc (x_ma ex) ima
              && oclose tol (match x_rho ex with Some r => Some [r] | None => None end) irho && close tol (x_psd ex) ipsd
  end.
"""


def arma_pre(inst):
    """case-file preamble for arma_estimate at one executable instance of Ops"""
    if inst == 'qcc':
        head = ("Require Import Spectrum.Instances.QcC.\nFrom Coq Require Import QArith Qcanon.\nLocal Open Scope Z_scope.\n"
                "Notation T := QcC. Notation ops := qcc_ops. Notation tolT := Qc.\n"
                "Definition close (tol : tolT) (a b : list T) := qcc_close_rel tol (dy 1 0) a b.\n"
                "Definition all_zero (l : list T) : bool := forallb (fun a => qcc_close 0%Qc a (0%Qc, 0%Qc)) l.\n")
    elif inst == 'bigq':
        head = ("Require Import Spectrum.Instances.BigQC_C15.\nFrom Bignums Require Import BigQ.\nFrom Coq Require Import ZArith.\nLocal Open Scope Z_scope.\n"
                "Notation T := BQC. Notation ops := bqc_ops. Notation tolT := bigQ.\n"
                "Definition close (tol : tolT) (a b : list T) := bqc_close_rel tol (bdy 1 0) a b.\n"
                "Definition all_zero (l : list T) : bool := forallb (fun a => bqc_close BigQ.zero a (BigQ.zero, BigQ.zero)) l.\n")
    else:
        head = ("Require Import Spectrum.Instances.FloatC.\nFrom Coq Require Import PrimFloat ZArith.\n"
                "Notation T := FloatC. Notation ops := fc_ops. Notation tolT := float.\n"
                "Definition close (tol : tolT) (a b : list T) := fc_close_rel tol 1%float a b.\n"
                "Definition all_zero (l : list T) : bool := true.\n")
    return ("Require Import Spectrum.Theory.Ops Spectrum.Theory.Vec Spectrum.Model.Levinson Spectrum.Model.Corr Spectrum.Model.ArmaEst.\n"
            "From Coq Require Import List. Import ListNotations.\n" + head + """
Definition err_code (e : aerr) : nat := match e with EValue => 1%nat | EAssert => 2%nat | EIndex => 3%nat end.
(* the executable oracle meets the hypothesis of the theorems (exactly, on the exact instances), then model vs implementation *)
Definition oracle_ok (x : list T) (P Q lag : nat) (a : list T) : bool :=
  match @acorr _ ops x lag Unbiased with
  | Some r => all_zero (@cov_normal_resid _ ops (@arma_y _ ops r P Q lag) a P)
  | None => false
  end.
Definition arma_case (tol : tolT) (x : list T) (P Q lag code : nat) (ia ib : list T) (irho : T) : bool :=
  match @arma_estimate _ ops (@lsm_exact _ ops) (@ls_exact _ ops) x P Q lag with
  | inl e => Nat.eqb (err_code e) code
  | inr (a, b, rho) => Nat.eqb code 0%nat && oracle_ok x P Q lag a && close tol a ia && close tol b ib && close tol [rho] [irho]
  end.
""" + ("" if inst == 'qcc' else "Definition bad_indices (cases : list bool) : list nat :=\n"
                                  "  map fst (filter (fun p => negb (snd p)) (combine (seq 0 (length cases)) cases)).\n")
           + ("Local Open Scope float_scope.\n" if inst == 'float' else ""))


def bdyl(t):
    n, e = vlib.dyadic(t)
    return '(bdy (%d) (%d))' % (n, e)


def bcz(z):
    z = complex(z); a = vlib.dyadic(z.real); b = vlib.dyadic(z.imag)
    return '(bcz (%d,%d) (%d,%d))' % (a[0], a[1], b[0], b[1])


LIT = {'qcc': (cz, tolq), 'bigq': (bcz, bdyl), 'float': (vlib.fc, vlib.fl)}


ERR = {ValueError: 1, AssertionError: 2, IndexError: 3}
CLASSES = ['parma', 'pma', 'pyule', 'pburg', 'pcovar', 'pmodcovar']
SAMPLINGS = [1.0, 0.5, 2.0, 100.0, 44100.0]


# ----------------------------------------------------------------------------- generators
def lowbit(rng, n, cplx, bits=2):
    s = 1 << bits
    while True:
        x = rng.integers(-s, s + 1, size=n).astype(float)
        if cplx:
            x = x + 1j * rng.integers(-s, s + 1, size=n)
        if np.count_nonzero(x) >= max(2, n // 2):
            return x


def gen_data(rng, N, cplx, style):
    def noise(n):
        return rng.standard_normal(n) + (1j * rng.standard_normal(n) if cplx else 0)
    if style == 'noise':
        return noise(N)
    if style == 'scaled':
        return noise(N) * 10.0 ** int(rng.integers(-3, 4))
    if style == 'extreme':                      # very small / very large amplitudes: every clause is scale free
        return noise(N) * 10.0 ** int(rng.choice([-12, -10, -8, -7, -6, 6, 8, 10]))
    if style == 'int':
        return lowbit(rng, N, cplx, bits=5)
    # ARMA-generated: stable poles, zeros inside the unit circle
    from scipy.signal import lfilter
    def poly(n):
        rts = []
        while len(rts) < n:
            rad = rng.uniform(0.2, 0.9); ang = rng.uniform(0, np.pi)
            z = rad * np.exp(1j * ang)
            if cplx or n - len(rts) == 1:
                rts.append(z if cplx else rad * (1 if rng.integers(0, 2) else -1))
            else:
                rts += [z, np.conj(z)]
        p = np.poly(rts)
        return p if cplx else p.real
    a = poly(int(rng.integers(1, 5))); b = poly(int(rng.integers(0, 4)))
    e = noise(N + 64)
    return lfilter(b, a, e)[64:]


def in_domain(N, P, Q, lag):
    return 0 < Q <= lag and lag + 2 * P - Q <= N and 2 * Q < N - P and lag < N


# ----------------------------------------------------------------------------- independent oracles
def corr_ref(x, maxlag, unbiased):
    x = np.asarray(x, dtype=complex); N = len(x)
    return np.array([np.vdot(x[:N - k], x[k:]) / ((N - k) if unbiased else N) for k in range(maxlag + 1)])


def yw_ref(x, p):
    """biased Yule-Walker by an explicit Hermitian Toeplitz solve; returns a, rho, cond"""
    from scipy.linalg import toeplitz
    r = corr_ref(x, p, False)
    if p == 0:
        return np.zeros(0, complex), r[0].real, 1.0
    R = toeplitz(r[:p])
    a = np.linalg.solve(R, -r[1:p + 1])
    rho = (r[0] + np.dot(a, np.conj(r[1:p + 1]))).real
    return a, rho, np.linalg.cond(R)


def ma_ref(x, Q, M):
    a, rho, c1 = yw_ref(x, M)
    b, _, c2 = yw_ref(np.concatenate(([1], a)), Q)
    return b, rho, c1 * c2


def rr(R, d):
    return R[d] if d >= 0 else np.conj(R[-d])


def arma_y_ref(R, P, Q, lag):
    y = np.zeros(lag, dtype=complex)
    for k in range(min(lag, lag - Q + P)):
        y[k] = rr(R, k + Q + 1 - P)
    return y


def cov_system(y, p):
    L = len(y)
    Xc = np.array([[y[n - 1 - j] for j in range(p)] for n in range(p, L)], dtype=complex).reshape(max(L - p, 0), p)
    X1 = np.array([y[n] for n in range(p, L)], dtype=complex)
    return Xc, X1


def myw_system(R, P, Q, lag):
    """modified Yule-Walker equations r(n) + sum_j a_j r(n-j) = 0, n = Q+1..lag (Hermitian extension of r)"""
    A = np.array([[rr(R, n - j) for j in range(1, P + 1)] for n in range(Q + 1, lag + 1)], dtype=complex).reshape(max(lag - Q, 0), P)
    b = np.array([-rr(R, n) for n in range(Q + 1, lag + 1)], dtype=complex)
    return A, b


def polyval_grid(c, NFFT):
    """1 + sum_j c_j exp(-2 pi i (j+1) k / NFFT), explicit O(p*NFFT) evaluation"""
    k = np.arange(NFFT)
    out = np.ones(NFFT, dtype=complex)
    for j, cj in enumerate(np.asarray(c, dtype=complex)):
        out = out + cj * np.exp(-2j * np.pi * ((j + 1) * k % NFFT) / NFFT)
    return out


# ----------------------------------------------------------------------------- clause checks on the implementation
def check_ma(x, Q, M, tag):
    from spectrum import ma
    bad = []
    b, rho = ma(x, Q, M)
    if len(b) != Q:
        return [('ma_lengths/ma/' + tag, 'ma returned %d coefficients for Q=%d' % (len(b), Q))]
    if not (np.isfinite(rho) and np.all(np.isfinite(b))):
        return [('ma_finite/ma/' + tag, 'non-finite MA coefficients or variance')]
    if not (np.isreal(rho) and rho > 0):
        bad.append(('ma_rho_pos/ma/' + tag, 'variance %r is not positive' % (rho,)))
    z = np.roots(np.concatenate(([1], b)))
    if len(z) and np.max(np.abs(z)) >= 1:
        bad.append(('ma_invertible/ma/' + tag, 'MA zero of modulus %.6g' % np.max(np.abs(z))))
    br, rhor, kap = ma_ref(x, Q, M)
    if kap < 1e6:
        if np.max(np.abs(br - b)) > 1e-8 * kap * max(1, np.max(np.abs(br))):
            bad.append(('model/ma_is_yw_of_yw/ma/' + tag, 'MA part is not the Yule-Walker solution of the long-AR polynomial (dev %.3g)' % np.max(np.abs(br - b))))
        if abs(rhor - rho) > 1e-8 * kap * abs(rhor):
            bad.append(('model/ma_rho/ma/' + tag, 'variance is not the order-M Yule-Walker error power'))
    return bad


def check_arma(x, P, Q, lag, tag):
    from spectrum import arma_estimate
    x = np.asarray(x); N = len(x)
    bad = []
    a, b, rho = arma_estimate(x, P, Q, lag)
    if len(a) != P or len(b) != Q:
        return [('arma_lengths/arma_estimate/' + tag, 'returned %d AR and %d MA coefficients for P=%d, Q=%d' % (len(a), len(b), P, Q))]
    if not (np.all(np.isfinite(a)) and np.all(np.isfinite(b)) and np.isfinite(rho)):
        return [('arma_finite/arma_estimate/' + tag, 'non-finite coefficients or variance')]
    if not (np.isreal(rho) and rho > 0):
        bad.append(('arma_rho_pos/arma_estimate/' + tag, 'variance %r is not positive' % (rho,)))
    z = np.roots(np.concatenate(([1], b)))
    if len(z) and np.max(np.abs(z)) >= 1:
        bad.append(('arma_invertible/arma_estimate/' + tag, 'MA zero of modulus %.6g' % np.max(np.abs(z))))
    R = corr_ref(x, lag, True)
    # AR part: least squares of the covariance method on the sequence the code builds
    y = arma_y_ref(R, P, Q, lag)
    Xc, X1 = cov_system(y, P)
    if P > 0:
        sc = max(np.linalg.norm(Xc, 2), 1e-300)
        res = Xc.conj().T @ (X1 + Xc @ a) if len(X1) else np.zeros(P)
        if np.max(np.abs(res)) > 1e-7 * sc * max(np.linalg.norm(X1), sc * max(np.linalg.norm(a), 1.0)):
            bad.append((('arma_ar_is_myw_ls' if P == Q else 'model/arma_ar_normal_eq') + '/arma_estimate/' + tag, 'AR part does not satisfy the normal equations of the covariance method (residual %.3g)' % np.max(np.abs(res))))
        if P == Q:
            A, bb = myw_system(R, P, Q, lag)
            res2 = A.conj().T @ (A @ a - bb) if len(bb) else np.zeros(P)
            if np.max(np.abs(res2)) > 1e-7 * sc * max(np.linalg.norm(bb), sc * max(np.linalg.norm(a), 1.0)):
                bad.append(('arma_ar_is_myw_ls/arma_estimate/' + tag, 'AR part does not satisfy the normal equations of the modified Yule-Walker system over lags Q+1..lag (residual %.3g)' % np.max(np.abs(res2))))
            if lag - Q >= P:
                kap = np.linalg.cond(A)
                if kap < 1e5:
                    sol = np.linalg.lstsq(A, bb, rcond=None)[0]
                    if np.max(np.abs(sol - a)) > 1e-8 * kap ** 2 * max(1, np.max(np.abs(sol))):
                        bad.append(('arma_ar_is_myw_ls/arma_estimate/' + tag, 'AR part differs from the least-squares solution of the modified Yule-Walker equations by %.3g' % np.max(np.abs(sol - a))))
    # residual filter + MA step
    xc = np.asarray(x, dtype=complex)
    e = np.array([xc[k] + sum(a[j] * xc[k - j - 1] for j in range(P)) for k in range(P, N)])
    br, rhor, kap = ma_ref(e, Q, 2 * Q)
    if kap < 1e6:
        if np.max(np.abs(br - b)) > 1e-8 * kap * max(1, np.max(np.abs(br))) or abs(rhor - rho) > 1e-8 * kap * abs(rhor):
            bad.append(('model/arma_residual_ma/arma_estimate/' + tag, 'MA part / variance are not ma(x*[1,a] on n=P..N-1, Q, 2Q)'))
    return bad


def make_obj(name, x, prm, NFFT, sampling, sbf):
    import spectrum
    kw = dict(NFFT=NFFT, sampling=sampling, scale_by_freq=sbf)
    if name == 'parma':
        return spectrum.parma(x, prm['P'], prm['Q'], prm['lag'], **kw)
    if name == 'pma':
        return spectrum.pma(x, prm['Q'], prm['M'], **kw)
    if name == 'pyule':
        return spectrum.pyule(x, prm['P'], **kw)
    if name == 'pburg':
        return spectrum.pburg(x, prm['P'], **kw)
    if name == 'pcovar':
        return spectrum.pcovar(x, prm['P'], **kw)
    return spectrum.pmodcovar(x, prm['P'], **kw)


def estimator_out(name, x, prm):
    """(ar, ma, v, order) of the function the class calls"""
    import spectrum
    if name == 'parma':
        a, b, rho = spectrum.arma_estimate(x, prm['P'], prm['Q'], prm['lag']); return a, b, rho, prm['P']
    if name == 'pma':
        b, rho = spectrum.ma(x, prm['Q'], prm['M']); return [], b, rho, prm['M']
    if name == 'pyule':
        a, rho, _ = spectrum.aryule(x, prm['P'], norm='biased'); return a, [], rho, prm['P']
    if name == 'pburg':
        a, rho, _ = spectrum.arburg(x, prm['P']); return a, [], rho, prm['P']
    if name == 'pcovar':
        a, e = spectrum.arcovar(x, prm['P']); return a, [], e, prm['P']
    a, e = spectrum.modcovar(x, prm['P']); return a, [], e, prm['P']


def check_class(name, x, prm, NFFT, sampling, sbf, tag, route='fresh'):
    from props import _estimators as E
    bad = []
    x = np.asarray(x); real = bool(np.isrealobj(x))
    # the object is freshly constructed or (route) one that already computed an estimate for other data / sampling / NFFT / scaling
    p = E.via(lambda d, n, s_, b: make_obj(name, d, prm, n, s_, b), x, NFFT, sampling, sbf, route)
    if route in (None, 'fresh'):
        p()                                     # explicit computation; on the other routes the read below has to bring the estimate up to date
    psd = np.asarray(p.psd)
    nfft = p.NFFT
    nb = (nfft // 2 + 1 if nfft % 2 == 0 else (nfft + 1) // 2) if real else nfft
    site = '%s/%s' % (name, tag)
    if len(psd) != nb:
        return [('class_psd_length/' + site, 'psd has %d bins, expected %d' % (len(psd), nb))]
    if np.iscomplexobj(psd) or not np.all(np.isfinite(psd)) or not np.all(psd > 0):
        bad.append(('class_psd_positive/' + site, 'PSD is not strictly positive and finite'))
        return bad
    ar = p.ar; ma_ = p.ma; rho = p.rho
    want_ar = name != 'pma'; want_ma = name in ('parma', 'pma'); want_rho = name != 'pyule'
    if (ar is None) == want_ar or (ma_ is None) == want_ma:
        return bad + [('class_exposed/' + site, 'exposed ar/ma attributes do not match the model class (ar %s, ma %s)' % (ar is not None, ma_ is not None))]
    A = polyval_grid(ar, nfft) if ar is not None else np.ones(nfft)
    B = polyval_grid(ma_, nfft) if ma_ is not None else np.ones(nfft)
    shape = (np.abs(B) ** 2 / np.abs(A) ** 2)[:nb]
    c = (2.0 if real else 1.0) * (2 * np.pi * nfft / sampling if sbf else 1.0)
    if rho is not None:
        if not (np.isfinite(rho) and rho > 0):
            bad.append(('class_rho_pos/' + site, 'exposed rho %r is not positive and finite' % (rho,)))
        want = c * rho / sampling * shape
        if np.max(np.abs(psd - want) / want) > 1e-8:
            bad.append(('class_psd_from_exposed/' + site, 'psd != c*rho/sampling*|B|^2/|A|^2 of the exposed coefficients (max rel dev %.3g)' % np.max(np.abs(psd - want) / want)))
    else:
        if want_rho:
            bad.append(('class_exposed/' + site, 'rho is not exposed'))
        ratio = psd / shape
        if np.max(ratio) - np.min(ratio) > 1e-8 * np.max(ratio):
            bad.append(('class_psd_from_exposed/' + site, 'psd is not proportional to |B|^2/|A|^2 of the exposed coefficients'))
    return bad


def replay(rep):
    if rep.get('replay', {}).get('form') == 'routes':
        from props import _estimators as E_
        return E_.replay_routes(rep['replay'])
    if rep['replay'].get('protocol') == 'values_only':
        from props import _purity
        return _purity.replay_protocol(rep['replay'])
    r = rep['replay']; f = r['function']
    warnings.simplefilter('ignore')
    with np.errstate(all='ignore'):
        try:
            x = vlib.unhexv(r['x'])
            if f == 'ma':
                bad = check_ma(x, r['Q'], r['M'], 'replay')
            elif f == 'arma_estimate':
                bad = check_arma(x, r['P'], r['Q'], r['lag'], 'replay')
            else:
                bad = check_class(f, x, r['prm'], r['NFFT'], r['sampling'], r['sbf'], 'replay', r.get('route', 'fresh'))
            return not [b for b in bad if not b[0].startswith('model/')]
        except Exception:
            return False


# ----------------------------------------------------------------------------- the class pipelines, extracted fail-closed
REAL_SLICE = ("if self.datatype == 'real':\n    if self.NFFT % 2 == 0:\n        newpsd = psd[0:int(self.NFFT / 2 + 1)] * 2\n    else:\n"
              "        newpsd = psd[0:int((self.NFFT + 1) / 2)] * 2\n    self.psd = newpsd\nelse:\n    self.psd = psd")
SCALE_FORMS = ('if self.scale_by_freq is True:\n    self.scale()', 'self.scale()')
SCALE_BODY = 'if self.scale_by_freq is True:\n    self.psd *= 2 * numpy.pi / self.df'
# what Model/ArmaEst.v says (class_A / class_B / class_rho / class_rho_exposed), as source-level expressions
EXPECTED = {
    'parma': dict(est='arma_estimate(self.data, self.ar_order, self.ma_order, self.lag)', out=['ar_params', 'ma_params', 'rho'],
                  A='ar_params', B='ma_params', rho='rho', T='self.sampling', NFFT='self.NFFT', stored={'ar': 'ar_params', 'ma': 'ma_params', 'rho': 'rho'}),
    'pma': dict(est='ma(self.data, self.ma_order, self.ar_order)', out=['ma_params', 'rho'],
                A='None', B='ma_params', rho='rho', T='self.sampling', NFFT='self.NFFT', stored={'ma': 'ma_params', 'rho': 'rho'}),
    'pyule': dict(est='aryule(self.data, self.ar_order, norm=self._norm_aryule)', out=['ar', 'rho', 'k'],
                  A='ar', B=None, rho='rho', T='self.sampling', NFFT='self.NFFT', stored={'ar': 'ar', 'reflection': 'k'}),
    'pburg': dict(est='arburg(self.data, self.ar_order, self.criteria)', out=['ar', 'rho', 'ref'],
                  A='ar', B='self.ma', rho='rho', T='self.sampling', NFFT='self.NFFT', stored={'ar': 'ar', 'rho': 'rho', 'reflection': 'ref'}),
    'pcovar': dict(est='arcovar(self.data, self.ar_order)', out=['ar', 'e'],
                   A='ar', B=None, rho='e / float(self.N - self.ar_order)', T='self.sampling', NFFT='self.NFFT',
                   stored={'ar': 'ar', 'rho': 'e / float(self.N - self.ar_order)'}),
    'pmodcovar': dict(est='modcovar(self.data, self.ar_order)', out=['ar', 'e'],
                      A='ar', B=None, rho='e / (2.0 * (self.N - self.ar_order))', T='self.sampling', NFFT='self.NFFT',
                      stored={'ar': 'ar', 'rho': 'e / (2.0 * (self.N - self.ar_order))'}),
}
MODULE_OF = {'parma': 'arma', 'pma': 'arma', 'pyule': 'yulewalker', 'pburg': 'burg', 'pcovar': 'covar', 'pmodcovar': 'modcovar'}


class PipeError(Exception):
    pass


def extract_pipeline(srcdir, name):
    """fail-closed reading of <class>.__call__: every statement must have one of the recognised shapes"""
    tree = ast.parse(open(os.path.join(srcdir, MODULE_OF[name] + '.py')).read())
    cdef = [n for n in tree.body if isinstance(n, ast.ClassDef) and n.name == name]
    if len(cdef) != 1:
        raise PipeError('class %s not found' % name)
    call = [n for n in cdef[0].body if isinstance(n, ast.FunctionDef) and n.name == '__call__']
    if len(call) != 1 or ast.unparse(call[0].args) != 'self':
        raise PipeError('%s.__call__ not found or has arguments' % name)
    env = {}                  # local name -> expression it stands for (estimator outputs stand for themselves)
    got = dict(est=None, out=None, A=None, B=None, rho=None, T=None, NFFT=None, stored={}, slice=False, scale=False)

    def subst(e):
        s = ast.unparse(e)
        if isinstance(e, ast.Attribute) and isinstance(e.value, ast.Name) and e.value.id == 'self' and e.attr in got['stored']:
            return got['stored'][e.attr]       # self.ar read back after self.ar = ar
        return env.get(s, s)
    for st in call[0].body:
        s = ast.unparse(st)
        if isinstance(st, (ast.ImportFrom, ast.Import)):
            continue
        if isinstance(st, ast.Expr) and isinstance(st.value, ast.Constant):
            continue
        if isinstance(st, ast.Assign) and len(st.targets) == 1:
            tg = st.targets[0]
            if isinstance(tg, ast.Tuple) and isinstance(st.value, ast.Call) and got['est'] is None:
                got['est'] = ast.unparse(st.value); got['out'] = [ast.unparse(t) for t in tg.elts]
                if not all(isinstance(t, ast.Name) for t in tg.elts):
                    raise PipeError('estimator outputs are not plain names: ' + s)
                continue
            if isinstance(tg, ast.Attribute) and ast.unparse(tg.value) == 'self' and tg.attr in ('ar', 'ma', 'rho', 'reflection'):
                got['stored'][tg.attr] = subst(st.value); continue
            if isinstance(tg, ast.Attribute) and ast.unparse(tg) == 'self.modified' and ast.unparse(st.value) == 'False':
                continue
            if isinstance(tg, ast.Name) and tg.id == 'psd' and isinstance(st.value, ast.Call) and ast.unparse(st.value.func) in ('arma2psd', 'arma.arma2psd'):
                c = st.value
                names = ['A', 'B', 'rho', 'T', 'NFFT']
                if len(c.args) > 1:
                    raise PipeError('unexpected positional arguments: ' + s)
                if c.args:
                    got['A'] = subst(c.args[0])
                for kw in c.keywords:
                    if kw.arg not in names:
                        raise PipeError('unexpected argument of arma2psd: ' + s)
                    got[kw.arg] = subst(kw.value)
                continue
            raise PipeError('unrecognised assignment: ' + s)
        if isinstance(st, ast.If) and s == REAL_SLICE and not got['slice'] and got['NFFT'] is not None:
            got['slice'] = True; continue
        if s in SCALE_FORMS and got['slice'] and not got['scale']:
            got['scale'] = True; continue
        if isinstance(st, ast.Return) and s == 'return self':
            continue
        raise PipeError('unrecognised statement: ' + s)
    if not (got['slice'] and got['scale']):
        raise PipeError('real-data slice or scale() missing')
    return got


def check_pipelines(ctx):
    import spectrum
    srcdir = os.path.dirname(os.path.abspath(spectrum.__file__))
    for name in CLASSES:
        try:
            got = extract_pipeline(srcdir, name)
            exp = EXPECTED[name]
            diff = [k for k in ('est', 'out', 'A', 'B', 'rho', 'T', 'NFFT', 'stored') if got[k] != exp[k]]
            if diff:
                raise PipeError('pipeline differs from Model/ArmaEst.v in %s: %r' % (diff, {k: got[k] for k in diff}))
            ctx.count('pipeline_extracted/' + name)
        except PipeError as e:
            ctx.broken.append({'theorem': 'pipeline:%s.__call__ (class_call no longer describes the code)' % name, 'where': name, 'log': str(e)})
    # Spectrum.scale()
    tree = ast.parse(open(os.path.join(srcdir, 'psd.py')).read())
    body = None
    for c in tree.body:
        if isinstance(c, ast.ClassDef) and c.name == 'Spectrum':
            for f in c.body:
                if isinstance(f, ast.FunctionDef) and f.name == 'scale':
                    body = '\n'.join(ast.unparse(s) for s in f.body if not (isinstance(s, ast.Expr) and isinstance(s.value, ast.Constant)))
    if body != SCALE_BODY:
        ctx.broken.append({'theorem': 'pipeline:Spectrum.scale (class_finish no longer describes the code)', 'where': 'psd.py', 'log': repr(body)})


# ----------------------------------------------------------------------------- run
def call_code(f, *args):
    """(code, result): 0 = returned, 1/2/3 = ValueError/AssertionError/IndexError, -1 = something else"""
    try:
        with np.errstate(all='ignore'):
            return 0, f(*args)
    except (ValueError, AssertionError, IndexError) as e:
        return ERR[[t for t in ERR if isinstance(e, t)][0]], None
    except Exception as e:
        return -1, e


def kappa_lev(x, p):
    """condition indicator r0/P of a biased Yule-Walker run (1/prod(1-|k|^2))"""
    a, rho, c = yw_ref(x, p)
    r0 = np.mean(np.abs(x) ** 2)
    return max(1.0, r0 / max(rho, 1e-300))


def run(ctx):
    import spectrum
    from spectrum import ma, arma_estimate
    warnings.simplefilter('ignore')
    rng = ctx.rng
    timing = ctx.extra.setdefault('timing_s', {}); t0 = [time.time()]

    def lap(name):
        timing[name] = round(time.time() - t0[0], 1); t0[0] = time.time()
    ctx.check_theorems('Properties/C15.v')
    # the estimate an object holds does not depend on the history that gave it its data and settings (every route of _estimators.via)
    from props import _estimators as E_
    E_.class_route_stream(ctx, ['parma', 'pma', 'pyule', 'pburg', 'pcovar', 'pmodcovar'], 'routes')
    # the IR program of ma, regenerated from arma.py with aryule / CORRELATION / LEVINSON embedded, vs Model.MaEst.ma_est: exact, zero tolerance
    # T10: arma_estimate as well - CORRELATION, the Y loop, arcovar_marple (P <= 4), the residual filter and ma embedded; arcovar (scipy lstsq, P > 4) is an
    # ORACLE call (hidden parameter) - vs Model.ArmaEst.arma_estimate with lsm := the hand model of arcovar_marple, lsq := the oracle value: exact
    loopir_tie(ctx, ['ma', 'arma_estimate'])
    check_pipelines(ctx)
    lap('theorems+pipelines')

    # ---------------- correspondence: ma
    cases = []; meta = []
    n = ctx.q(50, 500)
    while len(cases) < n:
        cplx = bool(rng.integers(0, 2)); N = int(rng.integers(3, 21))
        mode = rng.choice(['ok', 'ok', 'ok', 'err'])
        if mode == 'ok':
            Q = int(rng.integers(1, 4)); M = int(rng.integers(Q + 1, min(2 * Q + 2, 7) + 1))
            if M >= N:
                continue
        else:
            Q = int(rng.integers(0, 5)); M = int(rng.choice([0, 1, Q, Q + 1, N - 1, N, N + 2]))
        x = lowbit(rng, N, cplx)
        code, res = call_code(ma, x, Q, M)
        if code < 0:
            ctx.broken.append({'theorem': 'correspondence:ma (unexpected exception)', 'where': 'ma', 'log': repr(res)}); break
        if code == 0:
            b, rho = res
            if not (np.all(np.isfinite(b)) and np.isfinite(rho)):
                ctx.count('regenerated_degenerate'); continue
            kap = kappa_lev(x, M) * kappa_lev(np.concatenate(([1], yw_ref(x, M)[0])), Q)
            if kap > 1e4:
                ctx.count('regenerated_illconditioned'); continue
        else:
            b, rho, kap = [], 0, 1.0
        cases.append('ma_case %s %s %d%%nat %d%%nat %d%%nat %s %s' % (tolq(1e-9 * kap), czl(x), Q, M, code, czl(b), cz(rho)))
        meta.append({'function': 'ma', 'x': vlib.hexv(x), 'Q': Q, 'M': M, 'impl_code': code})
        ctx.count('corr/ma/%s/%s' % ('complex' if cplx else 'real', 'returned' if code == 0 else 'error%d' % code))
        ctx.case(('ma', x.tobytes(), Q, M), nontrivial=(code == 0 and Q >= 2), sample={'function': 'ma', 'x': [str(t) for t in x], 'Q': Q, 'M': M})
    for i in ctx.coq_cases('c15_ma', PRE, cases, shard=25, descr='ma (returned and error branches) vs Model.ArmaEst.ma at QcC'):
        ctx.corr_disagreement('ma', i, meta[i])

    lap('corr_ma')
    # ---------------- correspondence: arma_estimate
    # three executable instances of the same Gallina term: QcC (the instance the theorems apply to: all error
    # branches and small returned cases), BigQ (exact, medium cases) and binary64 (the chained pipeline with Q = 3,
    # N up to 24, P = 5: its exact intermediate values reach 10^4..10^5 bits)
    for tgt in ('Instances/BigQC_C15.vo', 'Instances/FloatC.vo'):
        rc, log = vlib.make_cone(tgt)
        if rc != 0:
            ctx.broken.append({'theorem': 'build:' + tgt, 'where': tgt, 'log': log[-1500:]})
    streams = {'qcc': ([], []), 'bigq': ([], []), 'float': ([], [])}
    want = {'qcc': ctx.q(36, 250), 'bigq': ctx.q(24, 250), 'float': ctx.q(40, 600)}
    guard = 0
    while any(len(streams[k][0]) < want[k] for k in want) and guard < 20000:
        guard += 1
        cplx = bool(rng.integers(0, 2))
        inst = str(rng.choice([k for k in want if len(streams[k][0]) < want[k]]))
        mode = 'ok'
        if inst == 'qcc':
            mode = str(rng.choice(['err', 'err', 'ok']))
        if mode == 'err':
            N = int(rng.integers(4, 15)); P = int(rng.integers(0, 8)); Q = int(rng.integers(0, 5)); lag = int(rng.integers(0, N + 2))
            if P > 4 and lag < 2:
                continue
            if in_domain(N, P, Q, lag) and lag >= 2 * P:
                continue
        else:
            if inst == 'qcc':
                N = int(rng.integers(8, 13)); P = int(rng.integers(0, 3)); Q = 1
            elif inst == 'bigq':
                N = int(rng.integers(10, 17 if cplx else 21)); P = int(rng.integers(0, 4)); Q = int(rng.integers(1, 3))
                if not cplx and N <= 14 and rng.integers(0, 3) == 0:
                    Q = 3
                elif rng.integers(0, 8) == 0:
                    N = int(rng.integers(16, 21)); P = 5; Q = 1          # the lstsq branch, exactly
            else:
                N = int(rng.integers(10, 25)); P = 5 if rng.integers(0, 6) == 0 else int(rng.integers(0, 4)); Q = int(rng.integers(1, 4))
            lo = max(2 * P, Q, 1); hi = min(N - 2 * P + Q, N - 1, lo + 8)
            if hi < lo or not 2 * Q < N - P:
                continue
            lag = int(rng.integers(lo, hi + 1))
        x = lowbit(rng, N, cplx)
        code, res = call_code(arma_estimate, x, P, Q, lag)
        if code < 0:
            ctx.broken.append({'theorem': 'correspondence:arma_estimate (unexpected exception)', 'where': 'arma_estimate', 'log': repr(res)}); break
        if code == 0:
            a, b, rho = res
            if mode == 'err':
                ctx.count('corr/arma/underdetermined_returned_skipped'); continue     # oracle not determined there: search only
            if not (np.all(np.isfinite(a)) and np.all(np.isfinite(b)) and np.isfinite(rho)) or len(a) < P:
                ctx.count('regenerated_degenerate'); continue
            R = corr_ref(x, lag, True); y = arma_y_ref(R, P, Q, lag); Xc, X1 = cov_system(y, P)
            kls = np.linalg.cond(Xc.conj().T @ Xc) if P else 1.0
            e = np.array([x[k] + sum(a[j] * x[k - j - 1] for j in range(P)) for k in range(P, N)])
            kap = kls * kappa_lev(e, 2 * Q) * kappa_lev(np.concatenate(([1], yw_ref(e, 2 * Q)[0])), Q)
            if not np.isfinite(kap) or kap > 1e4:
                ctx.count('regenerated_illconditioned'); continue
        else:
            a, b, rho, kap = [], [], 0, 1.0
        lit, tl = LIT[inst]
        ll = lambda v: '[' + '; '.join(lit(z) for z in v) + ']'
        streams[inst][0].append('arma_case %s %s %d%%nat %d%%nat %d%%nat %d%%nat %s %s %s' % (tl(1e-9 * kap), ll(x), P, Q, lag, code, ll(a), ll(b), lit(rho)))
        streams[inst][1].append({'function': 'arma_estimate', 'instance': inst, 'x': vlib.hexv(x), 'P': P, 'Q': Q, 'lag': lag, 'impl_code': code, 'impl_lengths': [len(a), len(b)]})
        ctx.count('corr/arma/%s/%s/%s' % (inst, 'complex' if cplx else 'real', 'returned' if code == 0 else 'error%d' % code))
        ctx.case(('arma', inst, x.tobytes(), P, Q, lag), nontrivial=(code == 0 and P + Q >= 2),
                 sample={'function': 'arma_estimate', 'x': [str(t) for t in x], 'P': P, 'Q': Q, 'lag': lag})
    descr = {'qcc': 'arma_estimate, every error branch (P<=7) and small returned cases, vs Model.ArmaEst.arma_estimate at QcC; oracle = exact normal equations, checked exactly',
             'bigq': 'arma_estimate, returned, P<=3, Q<=2 (Q=3 real) exactly at BigQ Gaussian rationals; oracle = exact normal equations, checked exactly',
             'float': 'arma_estimate, returned, N<=24, P<=3 and P=5, Q<=3: the same Gallina term run at binary64'}
    for inst, shard in (('qcc', 6), ('bigq', 2), ('float', 20)):
        cs, meta = streams[inst]
        for i in ctx.coq_cases('c15_arma_' + inst, arma_pre(inst), cs, shard=shard, descr=descr[inst]):
            ctx.corr_disagreement('arma_estimate', i, meta[i])

    lap('corr_arma')
    # ---------------- correspondence: class pipelines on the exact grids
    cases = []; meta = []
    n = ctx.q(60, 500)
    twopi = 2 * np.pi
    while len(cases) < n:
        ci = int(rng.integers(0, 6)); name = CLASSES[ci]
        cplx = bool(rng.integers(0, 2)); N = int(rng.integers(12, 21)); NFFT = int(rng.choice([1, 2, 4, 4, 4]))
        sampling = float(rng.choice(SAMPLINGS)); sbf = bool(rng.integers(0, 2))
        P = int(rng.integers(1, 4)); Q = int(rng.integers(1, 4))
        prm = {'P': P, 'Q': Q, 'lag': 2 * P + int(rng.integers(1, 4)), 'M': Q + 1 + int(rng.integers(0, 3))}
        x = lowbit(rng, N, cplx)
        try:
            with np.errstate(all='ignore'):
                ar, ma_, v, order = estimator_out(name, x, prm)
        except Exception:
            ctx.count('regenerated_degenerate'); continue
        if not (np.all(np.isfinite(ar)) and np.all(np.isfinite(ma_)) and np.isfinite(v)):
            ctx.count('regenerated_degenerate'); continue

        def go():
            p = make_obj(name, x, prm, NFFT, sampling, sbf); p(); return p
        code, p = call_code(go)
        if code < 0:
            ctx.broken.append({'theorem': 'correspondence:%s (unexpected exception)' % name, 'where': name, 'log': repr(p)}); break
        opt = lambda v_: 'None' if v_ is None else '(Some %s)' % czl(np.atleast_1d(v_))
        if code == 0:
            psd = np.asarray(p.psd)
            if not np.all(np.isfinite(psd)):
                ctx.count('regenerated_degenerate'); continue
            tail = '%s %s %s %s' % (opt(p.ar), opt(p.ma), opt(p.rho), czl(psd))
        else:
            tail = 'None None None []'
        cases.append('psd_case %s %d%%nat %s %s %s %d%%nat %d%%nat %s %s %d%%nat %s %s %d%%nat %s' % (
            tolq(1e-9), ci, czl(ar), czl(ma_), cz(v), N, order, cz(twopi), cz(sampling), NFFT,
            'false' if cplx else 'true', 'true' if sbf else 'false', code, tail))
        meta.append({'function': name, 'x': vlib.hexv(x), 'prm': prm, 'NFFT': NFFT, 'sampling': sampling, 'sbf': sbf, 'impl_code': code})
        ctx.count('corr/class/%s/%s/NFFT%d/%s' % (name, 'complex' if cplx else 'real', NFFT, 'returned' if code == 0 else 'error%d' % code))
        ctx.case(('class', name, x.tobytes(), repr(prm), NFFT, sampling, sbf), nontrivial=(code == 0 and NFFT > 1),
                 sample={'function': name + '.__call__', 'N': N, 'prm': prm, 'NFFT': NFFT, 'sampling': sampling, 'scale_by_freq': sbf})
    for i in ctx.coq_cases('c15_class_psd', PRE, cases, shard=30, descr='parma/pma/pyule/pburg/pcovar/pmodcovar __call__ (stored ar, ma, rho, psd) vs Model.ArmaEst.class_call at QcC, NFFT in {1,2,4}'):
        ctx.corr_disagreement(meta[i]['function'], i, meta[i])

    lap('corr_class')
    # ---------------- search on the implementation
    nmis = [0]

    def viol(bad, rep):
        """clauses of the property -> violation with replay; 'model/...' = the implementation left the model on a search input"""
        for key, what in bad:
            if key.startswith('model/'):
                nmis[0] += 1
                ctx.corr_disagreement('search:' + key[6:], nmis[0], dict([('what', what)] + [(k, v) for k, v in rep.items() if k != 'x'] + [('x', rep['x'])]))
            else:
                ctx.violation(key, what, rep)

    styles = ['noise', 'arma', 'arma', 'int', 'scaled', 'extreme']
    for it in range(ctx.q(700, 12000)):
        cplx = bool(rng.integers(0, 2)); tag = 'complex' if cplx else 'real'
        N = int(rng.integers(16, ctx.q(129, 257))); style = str(rng.choice(styles))
        x = gen_data(rng, N, cplx, style)
        # well-posed part of the domain: lag >= 2P (as many modified Yule-Walker equations as unknowns)
        for _ in range(50):
            P = int(rng.integers(0, min(12, N // 4) + 1)); Q = int(rng.integers(1, min(10, N // 4) + 1))
            if rng.integers(0, 3) == 0:
                Q = max(P, 1)
            lo = max(2 * P, Q, 1); hi = min(N - 2 * P + Q, N - 1)
            if hi >= lo and 2 * Q < N - P:
                lag = int(rng.integers(lo, min(hi, lo + 40) + 1)); break
        else:
            continue
        assert in_domain(N, P, Q, lag)
        rep = {'function': 'arma_estimate', 'x': vlib.hexv(x), 'P': P, 'Q': Q, 'lag': lag}
        side = 'P<=4' if P <= 4 else 'P>4'
        ctx.count('search/arma/%s/%s/%s' % (tag, style, side))
        ctx.case(('search-arma', x.tobytes(), P, Q, lag), nontrivial=(P + Q >= 2), sample={'function': 'arma_estimate (search)', 'N': N, 'P': P, 'Q': Q, 'lag': lag, 'kind': tag + '/' + style})
        try:
            with np.errstate(all='ignore'):
                viol(check_arma(x, P, Q, lag, '%s/%s' % (tag, side)), rep)
        except Exception as e:
            ctx.violation('arma_returns/arma_estimate/%s/%s' % (tag, side), 'raised %r for arguments in the domain' % (e,), rep)
        if it % 2 == 0:
            Qm = int(rng.integers(1, min(12, N // 3))); M = int(rng.integers(Qm + 1, min(3 * Qm + 2, N - 1) + 1))
            rep = {'function': 'ma', 'x': vlib.hexv(x), 'Q': Qm, 'M': M}
            ctx.count('search/ma/%s/%s' % (tag, style))
            ctx.case(('search-ma', x.tobytes(), Qm, M), nontrivial=(Qm >= 2))
            try:
                with np.errstate(all='ignore'):
                    viol(check_ma(x, Qm, M, tag), rep)
            except Exception as e:
                ctx.violation('ma_returns/ma/' + tag, 'raised %r for 0 < Q < M < N' % (e,), rep)
        if it % 2 == 1:
            name = CLASSES[int(rng.integers(0, 6))]
            Pc = int(rng.integers(1, min(10, N // 4) + 1)); Qc = int(rng.integers(1, min(8, N // 4) + 1))
            prm = {'P': Pc, 'Q': Qc, 'lag': min(2 * Pc + Qc + int(rng.integers(0, 10)), N - 2 * Pc + Qc, N - 1), 'M': min(2 * Qc + int(rng.integers(0, 4)), N - 1)}
            if name == 'parma' and not (in_domain(N, Pc, Qc, prm['lag']) and prm['lag'] >= 2 * Pc):
                continue
            if name == 'pma' and not Qc < prm['M']:
                continue
            NFFT = None if rng.integers(0, 6) == 0 else int(rng.integers(max(Pc, Qc, prm['M'] if name == 'pma' else 0) + 1, 600))
            sampling = float(rng.choice(SAMPLINGS)); sbf = bool(rng.integers(0, 2))
            from props import _estimators as E
            route = E.pick_route(rng); ctx.count('search/class/route/%s' % route)
            rep = {'function': name, 'x': vlib.hexv(x), 'prm': prm, 'NFFT': NFFT, 'sampling': sampling, 'sbf': sbf, 'route': route}
            par = 'default' if NFFT is None else ('even' if NFFT % 2 == 0 else 'odd')
            ctx.count('search/class/%s/%s/NFFT-%s' % (name, tag, par))
            ctx.case(('search-class', name, x.tobytes(), repr(prm), NFFT, sampling, sbf), nontrivial=True,
                     sample={'function': name + ' (search)', 'N': N, 'prm': prm, 'NFFT': NFFT, 'sampling': sampling, 'scale_by_freq': sbf})
            try:
                with np.errstate(all='ignore'):
                    viol(check_class(name, x, prm, NFFT, sampling, sbf, tag, route), rep)
            except Exception as e:
                if name in ('pcovar', 'pmodcovar', 'pburg') and isinstance(e, (AssertionError, ValueError)):
                    ctx.count('search/class/degenerate-raised'); continue
                ctx.violation('class_returns/%s/%s' % (name, tag), 'raised %r' % (e,), rep)

    lap('search')
    # ---------------- the rest of the stated domain: fewer modified Yule-Walker equations than unknowns (lag < 2P)
    for it in range(ctx.q(150, 2000)):
        cplx = bool(rng.integers(0, 2)); tag = 'complex' if cplx else 'real'
        N = int(rng.integers(16, 65)); P = int(rng.integers(1, 9)); Q = int(rng.integers(1, 6))
        if it % 10 == 9:
            # the statement does not ask for lag < N either
            Q = int(rng.integers(2, max(3, (N - P - 1) // 2 + 1))); lag = N + int(rng.integers(0, 3))
            if not (0 < Q <= lag and lag + 2 * P - Q <= N and 2 * Q < N - P):
                continue
            x = gen_data(rng, N, cplx, 'noise')
            rep = {'function': 'arma_estimate', 'x': vlib.hexv(x), 'P': P, 'Q': Q, 'lag': lag}
            ctx.count('search/arma-lag_ge_N'); ctx.case(('search-arma-lagN', x.tobytes(), P, Q, lag), nontrivial=True)
            try:
                with np.errstate(all='ignore'):
                    viol(check_arma(x, P, Q, lag, 'lag_ge_N'), rep)
            except Exception as e:
                ctx.violation('arma_returns/arma_estimate/lag_ge_N', 'arguments in the stated domain (Q<=lag, lag+2P-Q<=N, 2Q<N-P) with lag >= N: arma_estimate raised %r' % (e,), rep)
            continue
        lag = int(rng.integers(Q, max(2 * P, Q + 1)))
        if not (in_domain(N, P, Q, lag) and lag < 2 * P):
            continue
        x = gen_data(rng, N, cplx, 'noise')
        cls_ = ('lag_lt_P' if lag < P else 'lag_eq_P' if lag == P else 'lag_lt_2P') + ('/marple' if P <= 4 else '/lstsq')
        rep = {'function': 'arma_estimate', 'x': vlib.hexv(x), 'P': P, 'Q': Q, 'lag': lag}
        ctx.count('search/arma-underdetermined/' + cls_)
        ctx.case(('search-arma-ud', x.tobytes(), P, Q, lag), nontrivial=True)
        try:
            with np.errstate(all='ignore'):
                bad = check_arma(x, P, Q, lag, cls_)
        except Exception as e:
            ctx.violation('arma_returns/arma_estimate/' + cls_, 'arguments in the stated domain (Q<=lag, lag+2P-Q<=N, 2Q<N-P) but %s raised: %r' % ('arma_estimate', e), rep)
            continue
        viol(bad, rep)
    lap('search_underdetermined')

    # ---------------- results depend on the VALUES given only: call protocol (repeat, aliasing, buffer reuse, memory layout, integer / single-precision dtypes)
    from props import _purity
    _purity.run_protocol(ctx, ['ma', 'arma_estimate', 'arma_estimate_P5'])
