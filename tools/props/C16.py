"""C16 — the minimum-variance spectrum equals sampling / (e^H R^-1 e)."""
import cmath
import numpy as np
import vlib
from props._loopir import loopir_tie, TRUSTED_LINE
from vlib import cz, czl, tolq, fc, fcl, fl

LEVEL_TEXT = ("Coq theorems (abstract field with conjugation + twiddle character of exact period NFFT; order clauses in the ordered "
              "*-field; any data, any order m, any NFFT >= 2m-1, any sampling) about the Gallina model of minvar: what the psi loop "
              "stores, psi[NFFT-K]=conj psi[K] so fft(psi) is real, Musicus' closed form (fft(psi)_f = sum_k |A_k(f)|^2/P_k, induction over "
              "the step-up recursion), the LDL^H reading of the Levinson invariant (U R U^H = diag P_k), e^H R^-1 e = sum_k |A_k(f)|^2/P_k "
              "for every solution of R y = e, LEVINSON on the inverse-Levinson lags of the Burg model reproduces it, hence "
              "PSD_f = sampling/(e^H R^-1 e) with R the Toeplitz matrix implied by the order m-1 Burg model, real and > 0; the returned "
              "A=[1,a], k are arburg's.  Tie: exact in-Coq correspondence at Gaussian rationals (NFFT 1,2,4 incl. aliased grids and "
              "raises), binary64 in-Coq runs for NFFT<=64 (model fed the implementation's Burg output, and the model with its own "
              "Burg), search on the implementation against an independent lattice + linear-solve oracle.")
TRUSTED = ["Coq 8.16.1 kernel + vm_compute", "hand-written models coq/Model/Minvar.v and Model/Burg.v (tie = correspondence runs)",
           "binary64 runs use a harness-supplied twiddle table exp(-2 pi i j/n) and a tolerance; numpy.fft is modelled as the DFT sum",
           "Python harness; numpy.linalg.solve in the search oracle"]
TRUSTED = TRUSTED + [TRUSTED_LINE]
LEVEL_TEXT = LEVEL_TEXT + (" Additionally the hand-written model is tied to the source text: a deep-embedded loop-IR program is regenerated from the Python source of the psi loop of minvar on every run (fail-closed ast translator) and evaluated by the Coq interpreter at the exact instance against the model with zero tolerance (same outcome, every entry equal).  The WHOLE function minvar (argument checks of errors.py, the embedded arburg, the psi loop, numpy.fft.fft = the DFT specification over a hidden twiddle parameter, sampling / real(.)) is regenerated too and its run compared with Model.Minvar.minvar exactly at QcC (tw1/tw2/tw4: PSD, A, k, the exception classes) and at binary64 against the model and the implementation.")
UNPROVED = ["every clause of the statement is proved for NFFT >= 2m-1 in exact arithmetic (R^-1 e is quantified as 'every y with R y = e')",
            "aliased grids NFFT < 2m-1 (outside the property; the pinned test lives there): modelled exactly, correspondence only",
            "binary64 rounding of the implementation: tolerance runs only",
            "pminvar's side conversion / scaling pipeline: search only (interior bins), not part of C16's theorems"]
ASSUMPTIONS = ["exact arithmetic in the theorems", "NFFT >= 2*order-1 (no aliasing of the psi lags)",
               "data length N with N.1 <> 0 in the field (always true in the ordered *-field)"]
RULE = ("QcC: low-bit dyadic real/complex data N=4..10, m=0..4, NFFT in {1,2,4} (aliased and raising configurations included); "
        "binary64 in Coq: N=8..48, m=2..8, NFFT=m..64 even/odd; search: noise / tones / AR / integer / scaled data N=8..128, "
        "m=2..min(N/2,16), NFFT>=2m even/odd up to 4096, six sampling values; non-trivial = m>=3 (search, binary64) or m>=2 (QcC)")

PRE_Q = """Require Import Spectrum.Theory.Ops Spectrum.Theory.Vec Spectrum.Theory.Dft Spectrum.Model.Levinson Spectrum.Model.Burg
  Spectrum.Model.Minvar Spectrum.Instances.QcC Spectrum.Instances.QcCTw.
From Coq Require Import QArith Qcanon.
Local Open Scope Z_scope.
Definition tws (n : nat) : Z -> QcC := match n with 1%nat => tw1 | 2%nat => tw2 | _ => tw4 end.
Definition mv_case (tol floor : Qc) (x : list QcC) (m : nat) (s : QcC) (nfft : nat) (raised : bool) (ipsd ia ik : list QcC) : bool :=
  match @minvar _ qcc_ops (tws nfft) x m s nfft with
  | None => raised
  | Some (psd, a, k) => negb raised && qcc_close_rel tol floor psd ipsd && qcc_close_rel tol (dy 1 0) a ia && qcc_close_rel tol (dy 1 0) k ik
  end.
"""

PRE_F = """Require Import Spectrum.Theory.Ops Spectrum.Theory.Vec Spectrum.Theory.Dft Spectrum.Model.Levinson Spectrum.Model.Burg
  Spectrum.Model.Minvar Spectrum.Instances.FloatC Spectrum.Instances.FloatTw Spectrum.Instances.QcC.
From Coq Require Import PrimFloat.
Definition finv (l : list FloatC) : list FloatC := map (fun z => @Ops.div _ fc_ops (1%float, 0%float) z) l.
Definition psd_close (tol tolinv : float) (psd ipsd : list FloatC) : bool :=
  fc_close_rel tol 0x1p-1000%float psd ipsd && fc_close_rel tolinv 0x1p-1000%float (finv psd) (finv ipsd).
Definition mvf_from (tol tolinv : float) (tbl a : list FloatC) (P : FloatC) (m : nat) (s : FloatC) (nfft : nat) (ipsd : list FloatC) : bool :=
  psd_close tol tolinv (@minvar_from _ fc_ops (tw_table tbl) a P m s nfft) ipsd.
Definition mvf_full (tol tolinv tola : float) (tbl x : list FloatC) (m : nat) (s : FloatC) (nfft : nat) (ipsd ia ik : list FloatC) : bool :=
  match @minvar _ fc_ops (tw_table tbl) x m s nfft with
  | None => false
  | Some (psd, a, k) => psd_close tol tolinv psd ipsd && fc_close_rel tola 1%float a ia && fc_close_rel tola 1%float k ik
  end.
Local Open Scope float_scope.
"""

SAMPLINGS = [1.0, 0.5, 2.0, 1000.0, 0.001, 44100.0]


def lowbit(rng, n, cplx, bits=2):
    s = 1 << bits
    x = rng.integers(-s, s + 1, size=n).astype(float)
    if cplx:
        x = x + 1j * rng.integers(-s, s + 1, size=n)
    if np.count_nonzero(x) < 2:
        x[0] = 1; x[-1] = -2
    return x


def gen_data(rng, N, cplx, style):
    def noise(n):
        return rng.standard_normal(n) + (1j * rng.standard_normal(n) if cplx else 0)
    t = np.arange(N)
    if style == 'noise':
        return noise(N)
    if style == 'tone':
        f1 = rng.uniform(0.05, 0.45); f2 = rng.uniform(0.05, 0.45)
        s = (np.exp(2j * np.pi * f1 * t) + 0.5 * np.exp(2j * np.pi * f2 * t + 1j)) if cplx else (np.cos(2 * np.pi * f1 * t) + 0.5 * np.sin(2 * np.pi * f2 * t))
        return s + 0.3 * noise(N)
    if style == 'ar':
        e = noise(N + 50); y = np.zeros(N + 50, dtype=complex if cplx else float)
        p1 = 0.9 * (cmath.exp(2j * np.pi * rng.uniform(0.05, 0.45)) if cplx else 1.0) * rng.choice([1, -1])
        for n in range(1, N + 50):
            y[n] = p1 * y[n - 1] + e[n]
        return y[50:]
    if style == 'int':
        return lowbit(rng, N, cplx, bits=5)
    return noise(N) * 10.0 ** int(rng.integers(-4, 5))


def stepup(ks):
    a = np.zeros(0, dtype=complex)
    for k in ks:
        a = np.concatenate((a + k * np.conj(a[::-1]), [k]))
    return a


def acf_of_refl(r0, ks):
    """lags r[0..p] implied by (r0, reflection coefficients): inverse Levinson (no call into the library)"""
    r = [complex(r0)]; a = np.zeros(0, dtype=complex); P = float(r0)
    for k in ks:
        m = len(a)
        r.append(-k * P - sum(a[j] * r[m - j] for j in range(m)))
        a = np.concatenate((a + k * np.conj(a[::-1]), [k])); P = P * (1 - abs(k) ** 2)
    return np.array(r), a, P


def burg_lattice(x, p):
    """independent Burg (full sums each stage)"""
    x = np.asarray(x, dtype=complex); N = len(x)
    f = x[1:].copy(); b = x[:-1].copy(); ks = []
    for m in range(p):
        k = -2 * np.sum(f * np.conj(b)) / np.sum(np.abs(f) ** 2 + np.abs(b) ** 2)
        ks.append(k)
        f, b = (f + k * b)[1:], (b + np.conj(k) * f)[:-1]
    return np.array(ks)


def oracle(x, m, nfft, sampling):
    """sampling / (e^H R^-1 e) on the NFFT grid, R from an independent Burg lattice; returns (values, cond, a, ks)"""
    x = np.asarray(x); N = len(x)
    ks = burg_lattice(x, m - 1)
    r0 = np.sum(np.abs(x) ** 2) / N
    r, a, P = acf_of_refl(r0, ks)
    R = np.array([[r[i - j] if i >= j else np.conj(r[j - i]) for j in range(m)] for i in range(m)])
    cond = np.linalg.cond(R)
    n = np.arange(m)
    E = np.exp(2j * np.pi * np.outer(n, np.arange(nfft)) / nfft)        # columns e(f_k)
    Y = np.linalg.solve(R, E)
    q = np.sum(np.conj(E) * Y, axis=0)
    return sampling / q.real, cond, a, ks, np.max(np.abs(q.imag) / np.abs(q.real))


def check_minvar(x, m, nfft, sampling, tag, with_class=True):
    """property clauses on the implementation; returns (list of (key, what), info)"""
    from spectrum import minvar, arburg
    bad = []
    psd, A, k = minvar(x, m, sampling, nfft)
    psd = np.asarray(psd)
    ref, cond, a_or, k_or, _ = oracle(x, m, nfft, sampling)
    tol = 1e-10 * max(1.0, cond)
    if len(psd) != nfft:
        bad.append(('minvar_length/minvar/' + tag, 'PSD has %d values for NFFT=%d' % (len(psd), nfft)))
        return bad, cond
    if np.iscomplexobj(psd) or not np.all(np.isfinite(psd)):
        bad.append(('minvar_real/minvar/' + tag, 'PSD is complex or non-finite'))
        return bad, cond
    if not np.all(psd > 0):
        bad.append(('minvar_positive/minvar/' + tag, 'PSD has %d non-positive values (min %.6g)' % (int(np.sum(psd <= 0)), float(psd.min()))))
    err = np.max(np.abs(psd - ref) / np.abs(ref))
    if err > tol:
        bad.append(('minvar_quadform/minvar/' + tag, 'PSD differs from sampling/(e^H R^-1 e): max rel. dev. %.3g at bin %d (cond R = %.3g)'
                    % (err, int(np.argmax(np.abs(psd - ref) / np.abs(ref))), cond)))
    a2, rho2, k2 = arburg(x, m - 1)
    A = np.asarray(A); k = np.asarray(k)
    if len(A) != m or A[0] != 1 or len(k) != m - 1 or not np.array_equal(A[1:], a2) or not np.array_equal(k, k2):
        bad.append(('minvar_returns_burg/minvar/' + tag, 'returned AR vector / reflection coefficients are not [1, arburg(x, m-1)]'))
    elif np.max(np.abs(k - k_or)) > tol or np.max(np.abs(A[1:] - a_or)) > tol * max(1.0, np.max(np.abs(a_or))):
        bad.append(('minvar_returns_burg/minvar/' + tag, 'returned coefficients are not the Burg model of order m-1'))
    if with_class:
        from spectrum import pminvar
        p = pminvar(x, m, NFFT=nfft, sampling=sampling, scale_by_freq=False)
        cp = np.asarray(p.psd)
        if np.iscomplexobj(np.asarray(x)):
            ok = len(cp) == nfft and np.max(np.abs(cp - ref) / np.abs(ref)) <= tol
        else:
            hi = (nfft + 1) // 2
            ok = len(cp) >= hi and np.max(np.abs(cp[1:hi] - 2 * ref[1:hi]) / np.abs(ref[1:hi])) <= tol
        if ok:
            ok = np.array_equal(np.asarray(p.ar), A) and np.array_equal(np.asarray(p.reflection), k)
        if not ok:
            bad.append(('pminvar_psd/pminvar/' + tag, 'pminvar.psd / ar / reflection do not agree with sampling/(e^H R^-1 e) and the Burg model'))
    return bad, cond


def replay(rep):
    if rep.get('replay', {}).get('form') == 'routes':
        from props import _estimators as E_
        return E_.replay_routes(rep['replay'])
    if rep['replay'].get('protocol') == 'values_only':
        from props import _purity
        return _purity.replay_protocol(rep['replay'])
    r = rep['replay']
    x = vlib.unhexv(r['x'])
    try:
        bad, _ = check_minvar(x, r['m'], r['nfft'], r['sampling'], 'replay')
    except Exception:
        return False
    return not bad


def twtable(n):
    return [cmath.exp(-2j * cmath.pi * j / n) for j in range(n)]


def run(ctx):
    from spectrum import minvar, arburg
    rng = ctx.rng
    ctx.check_theorems('Properties/C16.v')
    # the estimate an object holds does not depend on the history that gave it its data and settings (every route of _estimators.via)
    from props import _estimators as E_
    E_.class_route_stream(ctx, ['pminvar'], 'routes')
    # IR programs regenerated from the source vs the model: exact, zero tolerance; `minvar` is the WHOLE function (checks + embedded arburg + psi loop +
    # fft + division) against Model.Minvar.minvar, at QcC with tw1 / tw2 / tw4 and at binary64 against the model and the implementation
    loopir_tie(ctx, ['minvar_psi', 'arburg', 'minvar'])

    # ------------------------------------------------------------------ exact correspondence at Gaussian rationals
    cases = []; meta = []
    n = ctx.q(150, 900)
    tries = 0
    while len(cases) < n and tries < 50 * n:
        tries += 1
        cplx = bool(rng.integers(0, 2))
        m = int(rng.choice([0, 1, 2, 2, 2, 2, 3, 3, 3, 4]))
        nfft = int(rng.choice([1, 2, 2, 4, 4, 4, 4, 4]))
        N = int(rng.integers(max(4, m + 1), 11))
        x = lowbit(rng, N, cplx)
        s = float(rng.choice([1.0, 0.5, 2.0, 1024.0, 0.375]))
        raised = False
        with np.errstate(all='ignore'):
            try:
                psd, A, k = minvar(x, m, s, nfft)
            except (ValueError, IndexError):
                raised = True; psd = []; A = []; k = []
        if not raised:
            psd = np.asarray(psd, dtype=float)
            a2, rho, k2 = arburg(x, m - 1)
            r0 = np.sum(np.abs(x) ** 2) / N
            if not np.all(np.isfinite(psd)) or rho <= 0 or r0 / rho > 1e4:
                ctx.count('regenerated_degenerate'); continue
            den = s / psd
            kap = max(1.0, float(np.max(np.abs(den)) / np.min(np.abs(den))) * r0 / rho)
            if kap > 1e5:
                ctx.count('regenerated_illconditioned'); continue
            floor = tolq(float(np.max(np.abs(psd))) * 2.0 ** -40)
        else:
            kap = 1.0; floor = tolq(1.0)
            # a raise for degenerate data (rho <= 0 in floats) is not an index/order raise: skip those
            if m >= 2 and nfft >= m:
                ctx.count('regenerated_degenerate'); continue
        cases.append('mv_case %s %s %s %d%%nat %s %d%%nat %s %s %s %s' % (
            tolq(1e-9 * kap), floor, czl(x), m, cz(s), nfft, 'true' if raised else 'false', czl(psd), czl(A), czl(k)))
        meta.append({'function': 'minvar', 'x': vlib.hexv(x), 'm': m, 'nfft': nfft, 'sampling': s, 'impl_raised': raised})
        kind = 'raised' if raised else ('aliased' if nfft < 2 * m - 1 else 'plain')
        ctx.count('corrQ/%s/%s/nfft%d' % (kind, 'complex' if cplx else 'real', nfft))
        ctx.case(('q', x.tobytes(), m, nfft, s), nontrivial=(m >= 2 and not raised),
                 sample={'function': 'minvar (QcC)', 'x': [str(t) for t in x], 'm': m, 'nfft': nfft, 'sampling': s})
    for i in ctx.coq_cases('c16_minvar_qcc', PRE_Q, cases, shard=30,
                           descr='minvar (PSD, A, k; raises; aliased grids) vs Model.Minvar at QcC with exact twiddles tw1/tw2/tw4'):
        ctx.corr_disagreement('minvar', i, meta[i])

    # ------------------------------------------------------------------ binary64 correspondence inside Coq, NFFT <= 64
    cases = []; meta = []
    n = ctx.q(100, 600)
    tries = 0
    while len(cases) < 2 * n and tries < 50 * n:
        tries += 1
        cplx = bool(rng.integers(0, 2))
        m = int(rng.integers(2, 9)); N = int(rng.integers(max(8, 2 * m), 49))
        nfft = int(rng.integers(2 * m - 1, 65))
        if rng.integers(0, 5) == 0:
            nfft = int(rng.integers(m, 2 * m - 1)) if m > 2 else nfft        # aliased grid
        style = str(rng.choice(['noise', 'tone', 'ar', 'int']))
        x = gen_data(rng, N, cplx, style)
        s = float(rng.choice(SAMPLINGS))
        with np.errstate(all='ignore'):
            try:
                psd, A, k = minvar(x, m, s, nfft)
                a2, rho, k2 = arburg(x, m - 1)
            except (ValueError, IndexError):
                ctx.count('regenerated_degenerate'); continue
        psd = np.asarray(psd, dtype=float)
        r0 = np.sum(np.abs(x) ** 2) / N
        if not np.all(np.isfinite(psd)) or np.any(psd == 0):
            ctx.count('regenerated_degenerate'); continue
        den = s / psd
        dyn = float(np.max(np.abs(den)) / np.min(np.abs(den)))
        kb = max(1.0, r0 / rho)
        if dyn * kb > 1e6:
            ctx.count('regenerated_illconditioned'); continue
        tbl = fcl(twtable(nfft))
        cases.append('mvf_from %s %s %s %s %s %d%%nat %s %d%%nat %s' % (
            fl(1e-10 * dyn), fl(1e-10), tbl, fcl(a2), fc(rho), m, fc(s), nfft, fcl(psd)))
        meta.append({'function': 'minvar', 'mode': 'model fed the implementation Burg output', 'x': vlib.hexv(x), 'm': m, 'nfft': nfft, 'sampling': s})
        cases.append('mvf_full %s %s %s %s %s %d%%nat %s %d%%nat %s %s %s' % (
            fl(1e-9 * dyn * kb), fl(1e-9 * kb), fl(1e-9 * kb), tbl, fcl(x), m, fc(s), nfft, fcl(psd), fcl(A), fcl(k)))
        meta.append({'function': 'minvar', 'mode': 'model with its own Burg', 'x': vlib.hexv(x), 'm': m, 'nfft': nfft, 'sampling': s})
        kind = 'aliased' if nfft < 2 * m - 1 else ('odd' if nfft % 2 else 'even')
        ctx.count('corrF/%s/%s/%s' % (kind, 'complex' if cplx else 'real', style))
        ctx.case(('f', x.tobytes(), m, nfft, s), nontrivial=(m >= 3),
                 sample={'function': 'minvar (binary64 in Coq)', 'N': N, 'm': m, 'nfft': nfft, 'sampling': s, 'kind': style})
    for i in ctx.coq_cases('c16_minvar_float', PRE_F, cases, shard=24,
                           descr='minvar vs Model.Minvar at binary64 (twiddle table from the harness), NFFT<=64; model fed the '
                                 'implementation Burg output, and the model with its own Burg'):
        ctx.corr_disagreement('minvar', i, meta[i])

    # ------------------------------------------------------------------ search on the implementation
    for it in range(ctx.q(1500, 12000)):
        cplx = bool(rng.integers(0, 2)); N = int(rng.integers(8, 129))
        m = int(rng.integers(2, min(N // 2, 16) + 1))
        mode = it % 4
        if mode == 0:
            nfft = 2 * m + int(rng.integers(0, 2))                    # the two smallest admissible grids
        elif mode == 1:
            nfft = int(rng.integers(2 * m, 6 * m + 8))
        elif mode == 2:
            nfft = int(rng.choice([64, 65, 127, 128, 255, 256, 1024, 4096])); nfft = max(nfft, 2 * m)
        else:
            nfft = 2 * int(rng.integers(m, 3 * m + 4)) + 1               # odd
        style = str(rng.choice(['noise', 'tone', 'ar', 'int', 'scaled']))
        x = gen_data(rng, N, cplx, style)
        s = float(rng.choice(SAMPLINGS))
        tag = '%s/%s' % ('complex' if cplx else 'real', 'odd' if nfft % 2 else 'even')
        try:
            _, cond, _, _, _ = oracle(x, m, nfft if nfft <= 256 else 2 * m, s)
        except Exception:
            ctx.count('search/regenerated_degenerate'); continue
        if not np.isfinite(cond) or cond > 1e6:
            ctx.count('search/regenerated_illconditioned'); continue
        ctx.count('search/%s/%s' % (tag, style))
        ctx.case(('search', x.tobytes(), m, nfft, s), nontrivial=(m >= 3),
                 sample={'function': 'minvar (search)', 'N': N, 'm': m, 'nfft': nfft, 'sampling': s, 'kind': tag + '/' + style})
        try:
            bad, _ = check_minvar(x, m, nfft, s, tag, with_class=(it % 3 == 0))
        except Exception as e:
            bad = [('minvar_raises/minvar/' + tag, 'raised %r on admissible input' % (e,))]
        for key, what in bad:
            ctx.violation(key, what, {'function': 'minvar', 'x': vlib.hexv(x), 'm': m, 'nfft': nfft, 'sampling': s})

    # ---------------- results depend on the VALUES given only: call protocol (repeat, aliasing, buffer reuse, memory layout, integer / single-precision dtypes)
    from props import _purity
    _purity.run_protocol(ctx, ['minvar'])
