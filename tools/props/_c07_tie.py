"""C07 tie: the same histories on real objects (snapshot) and on the generated machine (vm_compute in Coq);
what an observer sees after every operation is packed into one integer on both sides and compared."""
import itertools, os, re
from fractions import Fraction
from concurrent.futures import ThreadPoolExecutor
import numpy as np
try:
    from props import _c07_replay as R
except ImportError:                      # stand-alone use
    import _c07_replay as R

ERR_NAMES = ["AssertionError", "ValueError", "SpectrumChoiceError", "SpectrumARError", "SpectrumMAError", "SpectrumARMAError",
             "UnboundLocalError", "RecursionError", "TypeError", "AttributeError"]
SIDES = ['onesided', 'twosided', 'centerdc']
SAMPLINGS = [1.0, 2.0, 0.5, 4.0]
DATA_CODE = {'r0': 0, 'r1': 1, 'c0': 2, 'c1': 3, 'r0p': 4, 'c0p': 5, 'r0t': 6, 'r0u': 7, 'c0t': 8, 'c0u': 9}


def idx(x, l):
    return l.index(x) if x in l else 999


# ----------------------------------------------------------------------------- Python side
def ret_code(out, val, is_call=False):
    if out != 'ok':
        return 1
    if val is None:
        return 2
    if is_call:
        return 0
    return len(val) + 3


def int_code(v):
    return int(v) if isinstance(v, (int, np.integer)) and not isinstance(v, bool) and 0 <= v < 900 else (998 if isinstance(v, (int, np.integer)) else 999)


def num_code(v):
    return idx(float(v), SAMPLINGS) if isinstance(v, float) else 998


def pack(codes):
    z = 0
    for c in reversed(codes):
        assert 0 <= c < 1000, codes
        z = z * 1000 + c
    return z


def unpack(z, n=13):
    out = []
    for _ in range(n):
        out.append(z % 1000); z //= 1000
    return out


FIELDS = ['outcome', 'returned', 'modified', 'sides', 'NFFT', 'cached_len', 'len_frequencies', 'N', 'datatype', 'sampling',
          'range.sampling', 'range.N', 'df==range.sampling/range.N']


def py_observe(p, out, val, is_call=False):
    try:
        f = p.frequencies()
        fc = 2 if f is None else len(f) + 3
    except Exception:
        fc = 1
    c = p._Spectrum__psd
    rs = p._range.sampling; rn = p._range.N
    try:
        dfok = 1 if p.df == rs / float(rn) else 0
    except Exception:
        dfok = 0
    codes = [0 if out == 'ok' else 1 + idx(out, ERR_NAMES), ret_code(out, val, is_call),
             (1 if p.modified is True else 0 if p.modified is False else 2), idx(p.sides, SIDES), int_code(p.NFFT),
             2 if c is None else len(c) + 3, fc, int_code(p.N), idx(p.datatype, ['real', 'complex']),
             num_code(p.sampling), num_code(rs), int_code(rn), dfok]
    return pack(codes)


def init_object(name, did):
    attrs = {'data': R.DATA[did], 'sampling': 1.0}
    return R.construct(name, attrs)


# apply_op drops the return value of a call; recover "returns self / None" here
def apply_with_ret(p, op):
    if op[0] == 'call':
        try:
            r = p()
            return 'ok', r
        except Exception as e:
            return type(e).__name__, None
    return R.apply_op(p, op)


def py_final(name, did, ops):
    """observation after the last operation only"""
    p = init_object(name, did)
    out, val = 'ok', None
    for op in ops:
        out, val = apply_with_ret(p, op)
    return py_observe(p, out, val, is_call=bool(ops) and ops[-1][0] == 'call')


def py_trace(name, did, ops):
    p = init_object(name, did)
    tr = [py_observe(p, 'ok', None)]
    for op in ops:
        out, val = apply_with_ret(p, op)
        tr.append(py_observe(p, out, val, is_call=(op[0] == 'call')))
    return tr


# ----------------------------------------------------------------------------- Coq side
def coq_val(v):
    if v is None:
        return 'VNone'
    if isinstance(v, (bool, np.bool_)):
        return '(VBool %s)' % ('true' if v else 'false')
    if isinstance(v, str):
        return '(VStr "%s")' % v
    if isinstance(v, (int, np.integer)):
        return '(VInt (%d))' % int(v)
    if isinstance(v, float):
        f = Fraction(v)
        return '(VNum (Q2Qc ((%d) # %d)))' % (f.numerator, f.denominator)
    raise ValueError('no Coq literal for %r' % (v,))


def coq_qc(v):
    f = Fraction(float(v))
    return '(Q2Qc ((%d) # %d))' % (f.numerator, f.denominator)


def coq_data(did):
    x = R.DATA[did]
    return '(mkD %d %d%%positive %s false)' % (DATA_CODE[did], len(x), 'true' if np.isrealobj(x) else 'false')


def coq_opt(v, kind):
    if v is None:
        return 'None'
    return '(Some "%s"%%string)' % v if kind == 'str' else '(Some (%d)%%Z)' % v


ATTR_CODE = {'data': 'AData', 'NFFT': 'ANFFT', 'sampling': 'ASampling', 'detrend': 'ADetrend', 'scale_by_freq': 'AScale',
             'sides': 'ASides', 'window': 'AWindow', 'lag': 'ALag', 'ar_order': 'AAr', 'ma_order': 'AMa'}


def coq_op(op):
    k = op[0]
    if k == 'set':
        a, v = op[1], op[2]
        if a == 'data':
            return '(OSetData %s)' % coq_data(v)
        if a == 'NFFT':
            return '(OSetNFFT %s)' % coq_val(v)
        if a == 'sampling':
            return '(OSetSampling %s)' % coq_qc(v)
        if a == 'detrend':
            return '(OSetDetrend %s)' % coq_opt(v, 'str')
        if a == 'scale_by_freq':
            return '(OSetScale %s)' % ('true' if v else 'false')
        if a == 'sides':
            return '(OSetSides "%s")' % v
        if a == 'window':
            return '(OSetWindow "%s")' % v
        if a == 'lag':
            return '(OSetLag (%d))' % v
        if a == 'ar_order':
            return '(OSetAr %s)' % coq_opt(v, 'int')
        if a == 'ma_order':
            return '(OSetMa %s)' % coq_opt(v, 'int')
    if k == 'reassign':
        return '(OReassign %s)' % ATTR_CODE[op[1]]
    if k == 'call':
        return 'OCall'
    if k == 'read':
        return 'ORead'
    if k == 'conv':
        return '(OConv "%s")' % op[1]
    if k == 'freq':
        return '(OFreq %s)' % coq_opt(op[1], 'str')
    raise ValueError(op)


def coq_init(name, did, info):
    kw, rest = R.ctor_kwargs(name, {'sampling': 1.0})
    assert not rest
    args = []
    for p in info['classes'][name]['params']:
        if p == 'data':
            args.append('(VData %s)' % coq_data(did))
        else:
            args.append(coq_val(kw[p]))
    return '(init_%s %s)' % (name, ' '.join(args))


PRE = """From Coq Require Import List ZArith Bool String QArith Qcanon.
Require Import Spectrum.Model.PsdMachineLib Spectrum.Model.PsdMachineRun Gen.C07Machine.
Import ListNotations.
Local Open Scope string_scope.
Definition T : list Qc := [%s].
""" % '; '.join(coq_qc(v) for v in SAMPLINGS)


def coq_file_config(name, did, A, blocks, traces, info):
    """blocks: list of (prefix ops, depth, expected packed observations in itertools.product order);
    traces: list of (ops, expected packed observation after init and after every op)"""
    t = PRE
    t += 'Definition I : Res := %s.\n' % coq_init(name, did, info)
    t += 'Definition A : list op := [%s].\n' % '; '.join(coq_op(o) for o in A)
    t += 'Definition RUN := run_%s.\nDefinition FREQ := Spectrum_frequencies call_%s VNone.\n' % (name, name)
    t += 'Local Open Scope Z_scope.\n'
    for pre, d, exp in blocks:
        t += 'Eval vm_compute in (report (sweep_from RUN FREQ T I [%s] A %d) [%s]).\n' % (
            '; '.join(coq_op(o) for o in pre), d, '; '.join(str(z) for z in exp))
    for ops, exp in traces:
        t += 'Eval vm_compute in (report (trace RUN FREQ T I [%s]) [%s]).\n' % (
            '; '.join(coq_op(o) for o in ops), '; '.join(str(z) for z in exp))
    return t


def parse_reports(out):
    """every `= (n, [(i, z); ...]) : Z * list (Z * Z)` of a coqc output -> list of (n, [(i, z)])"""
    flat = ' '.join(out.split())
    res = []
    for m in re.finditer(r'=\s*\((-?\d+),\s*\[([^\]]*)\]\)\s*:\s*Z \* list \(Z \* Z\)', flat):
        pairs = [(int(a), int(b)) for a, b in re.findall(r'\((-?\d+),\s*(-?\d+)\)', m.group(2))]
        res.append((int(m.group(1)), pairs))
    return res


def run_coq_files(work, files, run_coqc):
    """files: list of (tag, text). returns {tag: (rc, reports, log)}"""
    paths = []
    for i, (tag, text) in enumerate(files):
        path = os.path.join(work, 'c07_tie_%d.v' % i)
        open(path, 'w').write(text)
        paths.append((tag, path))

    def one(tp):
        tag, path = tp
        rc, out, err = run_coqc(path, extra_R=[(work, 'Gen')])
        return tag, rc, out, err
    res = {}
    with ThreadPoolExecutor(max_workers=12) as ex:
        for tag, rc, out, err in ex.map(one, paths):
            res[tag] = (rc, parse_reports(out) if rc == 0 else [], (out + err)[-1500:])
    return res


# ----------------------------------------------------------------------------- exhaustive exploration (worker)
def dfs_job(args):
    """one (class, data, first operations) subtree: packed observation of every node by depth (itertools.product
    order), and the C07 clauses evaluated at every node by the fresh-object oracle"""
    import copy
    name, did, A, prefix, maxdepth = args
    p = init_object(name, did)
    out, val = 'ok', None
    bad = []
    for op in prefix:
        out, val = apply_with_ret(p, op)
    obs = {d: [] for d in range(maxdepth + 1)}
    nodes = [0]

    def visit(p, ops, out, val, depth):
        nodes[0] += 1
        obs[depth].append(py_observe(p, out, val, is_call=bool(ops) and ops[-1][0] == 'call'))
        if out == 'ok' and ops and ops[-1][0] == 'conv':
            for c, w in R.conv_check(name, p, ops[-1][1], val):
                bad.append((list(ops), c, w))
        q = copy.deepcopy(p)
        for c, w in R.final_checks(name, q, reassign=(depth < maxdepth or maxdepth == 0)):
            bad.append((list(ops), c, w))
        if depth == maxdepth:
            return
        for op in A:
            q = copy.deepcopy(p)
            o2, v2 = apply_with_ret(q, op)
            visit(q, ops + [op], o2, v2, depth + 1)
    visit(p, list(prefix), out, val, 0)
    # keep the shortest witness per clause
    best = {}
    for ops, c, w in bad:
        if c not in best or len(ops) < len(best[c][0]):
            best[c] = (ops, w)
    return {'name': name, 'did': did, 'prefix': list(prefix), 'obs': obs, 'nodes': nodes[0], 'nbad': len(bad),
            'bad': [(ops, c, w) for c, (ops, w) in best.items()]}


def describe(z):
    return dict(zip(FIELDS, unpack(z)))


def diff(zi, zm):
    a = unpack(zi); b = unpack(zm)
    return {FIELDS[i]: {'implementation': a[i], 'machine': b[i]} for i in range(len(FIELDS)) if a[i] != b[i]}
