"""C04 — Frequency-shift covariance and conjugate symmetry of two-sided spectra."""
import json, cmath, os
import numpy as np
import vlib
from vlib import cz, czl, tolq, fcl
from props import _estimators as E
from props import _pipelines as PL

LEVEL_TEXT = ("Coq theorems (abstract *-field + DFT character; every N, NFFT >= 1, shift m in Z, bin): modulating sample j by exp(2 pi i m j/NFFT) "
              "rolls by m bins, conjugation mirrors, conj(x[::-1]) leaves unchanged -- proved for numpy.fft.fft's model, speriodogram (any window; "
              "real / real symmetric window for mirror / reversal), CORRELOGRAMPSD (both back ends, every norm, lag, overlapping layouts, error "
              "branches), CORRELATION, LEVINSON, aryule, arburg (reflection coefficient j times phi(j+1), rho unchanged, same stop / raise decisions; "
              "ef/eb swap under reversal), arma2psd (coefficient j times tw(-m(j+1)) => rolled; conjugated => mirrored), minvar (aliased grids included), "
              "MultiTapering.__call__ with unity / eigen / adapt weights (adaptive iteration in lock step), arcovar / modcovar (corrmtx + Gaussian elimination on the "
              "normal equations with its exact zero tests + the 'wierd behaviour' assertion: equivariant under the diagonal unitary congruence of the Gram matrix; "
              "modcovar is reversal invariant because forward and backward Gram blocks swap), arma.ma (aryule twice), arma.arma_estimate (C15's model: AR / MA "
              "coefficient j times phi(j+1), same variance and exception, for covariance-method oracles equivariant on the system they are handed -- proved for "
              "the executable solver of Model/Ls.v, every phase offset, and for the elimination oracles of C15's correspondence run when no pivot vanishes, so "
              "the instance tied to the code needs no oracle hypothesis; conjugation in the ordered *-field), and the composed class spectra of pyule, pburg, "
              "pcovar, pmodcovar, pma, pminvar and the parma / pma objects of C15's class model (stored PSD rolled / mirrored).  MUSIC / EV (eigen, music, ev, pmusic, pev; numpy.linalg.svd "
              "is an oracle constrained by C17's SVD specification): FB(x . phi) = D_rows FB(x) D_cols with explicit diagonal unitary factors (100-row cap included), FB(conj x) = conj FB(x); "
              "(S, Vh) meets the specification for FB(x) => (S, Vh . conj phi) resp. (S, conj Vh) meets it for the transformed matrix; the code path from (S, Vh) to the output is equivariant "
              "for every (S, Vh), NSIG rule, method, NFFT (eigen(): centred vector rolled by m / mirrored about the centre bin; pmusic / pev: stored PSD rolled by m / mirrored; same singular "
              "values and exception); two pairs meeting the specification for one matrix have equal singular values and, when S_(NSIG-1) > S_NSIG (or NSIG = 0 or >= P), equal MUSIC and EV "
              "denominators at every bin -- so the clause holds for ANY specification-meeting svd result on the data matrix and ANY on the transformed matrix.  "
              "Class level over the pipeline table GENERATED from the source on this run: every class except pmusic/pev stores a scalar multiple "
              "of the estimator's array, so roll / mirror commute with the store and scale() calls; pmusic / pev store centerdc_2_twosided of eigen()'s centred vector times the scale() factor "
              "(commutes with the roll, turns the centred mirror into the two-sided mirror); the AR/MA/ARMA, minvar and multitaper classes store for "
              "real data 2 x the first onesided_len(NFFT) bins of the complex store (NFFT even and odd, any reachable state); pcorrelogram stores for real data twosided_2_onesided of the "
              "complex store (bins 0 and NFFT/2 kept, the others doubled).  Real data: CORRELATION, LEVINSON, "
              "aryule, arburg commute with any *-homomorphism R -> F (real path = complex path) and return real parameters.  The DFT specification is tied to "
              "numpy.fft by a binary64 correspondence, CORRELATION / LEVINSON by exact runs at modulated inputs; every class is also covered by a search "
              "comparing rotated / mirrored / folded / time-reversed estimates.")
TRUSTED = ["Coq 8.16.1 kernel + vm_compute", "numpy.fft.fft is modelled by the DFT specification Theory/Dft.v (validated by the binary64 correspondence of this run)",
           "hand-written models Corr/Levinson (tie = exact correspondence at modulated inputs here), MaEst (arma.ma = aryule twice; exact correspondence here), "
           "ArmaEst + ArmaCall (arma_estimate, parma / pma __call__: tie = C15's correspondence runs, and here arma_estimate at modulated inputs), "
           "Periodogram/Arma2psd/Yule/Burg/Minvar/Mtm/Ls (tie = the correspondence checks of C01/C08/C09/C12/C13/C16/C19)", "fail-closed AST translator tools/props/_pipelines.py + interpreter coq/Model/PipelineLib.v "
           "(validated against real objects by C08)", "dpss tapers are an oracle (real, symmetric/antisymmetric: hypotheses of the multitaper mirror / reversal theorems)",
           "numpy.linalg.svd is an oracle: the MUSIC / EV theorems quantify over every (S, Vh) meeting EigenTheory.svd_spec (C17's correspondence checks numpy's output against the model "
           "run on it); Model/Eigen.v is tied to eigenfre.py by C17's correspondence; the AIC/MDL index enters as one natural number on both sides (justified by the proved equality of the singular values)",
           "the data matrix eigen() hands to svd is observed through spectrum.eigenfre.svd (C17's tap); at modulated / conjugated low-bit records it is compared exactly with the "
           "right-hand sides of eigen_fb_modulation / eigen_fb_conj, and numpy's factorisation of it with the SVD specification", "Python harness"]
UNPROVED = ["that arcovar_marple / scipy lstsq inside arma_estimate are equivariant under modulation / conjugation of their input: oracle hypothesis of the "
            "arma_estimate / parma theorems (proved for the executable solver of Model/Ls.v) -- the implementation side is covered by the search",
            "pmusic / pev: that numpy's floating-point svd meets the SVD specification, and the degenerate case S_(NSIG-1) = S_NSIG (the noise subspace is then a choice of the SVD routine; "
            "the theorems for an arbitrary svd result assume the gap) -- the implementation side is covered by the class search and the search on eigenfre.eigen",
            "pdaniell (decimating smoother: its output grid has no rotation by m bins; theorems daniell_*_presmoothing state that the smoother sees the rolled / mirrored periodogram, "
            "Example daniell_not_a_rotation that the output is not a rotation; not searched), arma2psd norm=True: outside the theorems; the real-data correlogram is NOT 'twice the first half' "
            "(theorem correlogram_fold over the generated table: twosided_2_onesided keeps bins 0 and NFFT/2) and is not a class of the one-sided clause",
            "scipy.linalg.lstsq in arcovar / modcovar is represented by the executable solver ls_solve (agrees with every normal-equation solver on full-rank data, C09)",
            "conjugation / real-path theorems assume the divisors of the executed stages are nonzero (N, N-k, mean power, error powers, Burg denominators)"]
ASSUMPTIONS = ["exact arithmetic in the theorems", "detrend off for the periodogram shift clause (subtracting the mean is not modulation covariant; the class default is None)"]
RULE = ("complex data x shift m (any integer incl. negative and > NFFT) x every class x NFFT even/odd; conjugation; real data declared complex; "
        "conj-time-reversal for the invariant estimators; non-trivial = non-constant data, m not a multiple of NFFT; plus shift / mirror on "
        "complex-typed data with zero imaginary part; plus eigenfre.eigen (music / ev) directly: singular values, centred roll / mirror, records beyond the 100-row cap")
GEN_NAMES = ['table_complete_c04', 'class_rotation', 'class_mirror', 'onesided_is_twice_half', 'onesided_length', 'routing_yule', 'routing_burg',
             'routing_minvar_mtm_fourier', 'routing_covar_ma', 'class_rotation_subspace', 'class_mirror_subspace', 'routing_subspace', 'correlogram_fold']

PRE_DFT = """From Coq Require Import PrimFloat.
Require Import Spectrum.Theory.Ops Spectrum.Theory.Vec Spectrum.Theory.Dft Spectrum.Instances.FloatC Spectrum.Instances.FloatTw Spectrum.Instances.QcC.
Definition dft_case (tol : float) (tbl x impl : list FloatC) : bool :=
  fc_close_rel tol 0x1p-40%float (@dft _ fc_ops (tw_table tbl) (length tbl) x) impl.
Local Open Scope float_scope.
"""
PRE_MOD = """Require Import Spectrum.Theory.Ops Spectrum.Theory.Vec Spectrum.Theory.Dft Spectrum.Model.Levinson Spectrum.Model.Corr
               Spectrum.Proofs.ShiftTheory Spectrum.Properties.C04 Spectrum.Instances.QcC Spectrum.Instances.QcCTw.
From Coq Require Import QArith Qcanon.
Local Open Scope Z_scope.
(* model at the modulated input (exact: the character of period 4) against the implementation at the modulated input *)
Definition acorr_mod_case tol (m : Z) (x : list QcC) (ml : nat) (nm : cnorm) (ir : list QcC) :=
  match @acorr _ qcc_ops (@vmod _ qcc_ops (shift_phase tw4 m) 0 x) ml nm with None => false | Some r => qcc_close_rel tol (dy 1 0) r ir end.
Definition lev_mod_case tol (m : Z) (r : list QcC) (order : nat) raised ia ip ik :=
  match @levinson _ qcc_ops (@vmod _ qcc_ops (shift_phase tw4 m) 0 r) order false with
  | None => raised
  | Some (a, p, k) => negb raised && qcc_close_rel tol (dy 1 0) a ia && qcc_close_rel tol (dy 1 0) [p] [ip] && qcc_close_rel tol (dy 1 0) k ik
  end.
"""

PRE_MA = """Require Import Spectrum.Theory.Ops Spectrum.Theory.Vec Spectrum.Model.Levinson Spectrum.Model.Corr Spectrum.Model.Yule Spectrum.Model.MaEst
               Spectrum.Instances.QcC.
From Coq Require Import QArith Qcanon.
Local Open Scope Z_scope.
(* arma.ma against Model/MaEst.v at QcC: outcome 0 = returned, 1 = ValueError (orders), 2 = AssertionError (M >= N), 3 = singular *)
Definition ma_case tol (x : list QcC) (Q M : nat) (outcome : nat) (ib : list QcC) (irho : QcC) : bool :=
  match @ma_est _ qcc_ops x Q M with
  | inl MaValue => Nat.eqb outcome 1
  | inl MaAssert => Nat.eqb outcome 2
  | inl MaSingular => Nat.eqb outcome 3
  | inr (b, rho) => Nat.eqb outcome 0 && qcc_close_rel tol (dy 1 0) b ib && qcc_close_rel tol (dy 1 0) [rho] [irho]
  end.
"""

PRE_FBM = """Require Import Spectrum.Theory.Ops Spectrum.Theory.Vec Spectrum.Theory.Dft Spectrum.Model.Eigen Spectrum.Proofs.ShiftTheory
               Spectrum.Proofs.ShiftDft_C04 Spectrum.Proofs.ShiftEigen_C04 Spectrum.Instances.QcC Spectrum.Instances.QcCTw.
From Coq Require Import QArith Qcanon.
Local Open Scope Z_scope.
(* the data matrix eigen() hands to svd for the modulated record against D_rows FB(x) D_cols of theorem eigen_fb_modulation, and for the
   conjugated record against conj FB(x) of theorem eigen_fb_conj -- FB(x) is the model's matrix of the UNtransformed record; zero tolerance *)
Definition fbmod_case (m : Z) (x : list QcC) (P : nat) (ifb : list (list QcC)) : bool :=
  let fb := @fb_matrix _ qcc_ops x P in
  let phi := @sphase _ tw4 m in
  Nat.eqb (length fb) (length ifb) &&
  forallb (fun r => qcc_close_list (dy 0 0)
                      (@mk _ P (fun k => @mul _ qcc_ops (@mul _ qcc_ops (@fb_rowphase _ phi x P r) (@mat _ qcc_ops fb r k)) (phi (- Z.of_nat k))))
                      (nth r ifb [])) (seq 0 (length fb)).
Definition fbconj_case (x : list QcC) (P : nat) (ifb : list (list QcC)) : bool :=
  let fb := @fb_matrix _ qcc_ops x P in
  Nat.eqb (length fb) (length ifb) && forallb (fun p => qcc_close_list (dy 0 0) (@vconj _ qcc_ops (fst p)) (snd p)) (combine fb ifb).
"""

TIME_REVERSAL_INVARIANT = ['Periodogram', 'pcorrelogram', 'pyule', 'pburg', 'pmodcovar', 'MultiTapering', 'pminvar']
ONESIDED_IS_TWICE_HALF = ['pburg', 'pyule', 'pcovar', 'pmodcovar', 'parma', 'pma', 'pminvar', 'MultiTapering']


SBF = [False]          # scale_by_freq of the objects of the current case (both sides of every relation carry the same 2*pi/df)


def psd_of(cls, x, cfg, NFFT, sampling=1.0, route='fresh', prev=None):
    p = E.build(cls, x, cfg, NFFT=NFFT, sampling=sampling, scale_by_freq=SBF[0], route=route, prev=prev)
    return np.array(p.psd)


def rel_err(a, b):
    a = np.asarray(a); b = np.asarray(b)
    if a.shape != b.shape:
        return np.inf
    if not (np.all(np.isfinite(a)) and np.all(np.isfinite(b))):
        return np.inf
    s = max(np.max(np.abs(b)), 1e-300)
    return float(np.max(np.abs(a - b)) / s)


def check_case(kind, cls, x, cfg, NFFT, m, rtol=1e-6, route='fresh'):
    """returns None if the clause holds, else a description"""
    n = np.arange(len(x))
    if kind == 'shift':
        p0 = psd_of(cls, x, cfg, NFFT); p1 = psd_of(cls, x * np.exp(2j * np.pi * m * n / NFFT), cfg, NFFT, route=route, prev=x)
        if len(p0) != NFFT:
            return 'two-sided estimate has %d values for NFFT=%d' % (len(p0), NFFT)
        e = rel_err(p1, np.roll(p0, m))
        return None if e <= rtol else 'estimate of the modulated data is not the estimate rotated by m=%d bins (relative error %.3g)' % (m, e)
    if kind == 'mirror':
        p0 = psd_of(cls, x, cfg, NFFT); p1 = psd_of(cls, np.conj(x), cfg, NFFT, route=route, prev=x)
        want = p0[(-np.arange(NFFT)) % NFFT]
        e = rel_err(p1, want)
        return None if e <= rtol else 'estimate of the conjugated data is not the mirrored estimate (relative error %.3g)' % e
    if kind == 'fold':
        pr = psd_of(cls, np.real(x), cfg, NFFT); pc = psd_of(cls, np.real(x).astype(complex), cfg, NFFT, route=route, prev=x)
        e = rel_err(pr, 2 * pc[:len(pr)])
        if len(pr) != (NFFT // 2 + 1 if NFFT % 2 == 0 else (NFFT + 1) // 2):
            return 'one-sided estimate has %d values for NFFT=%d' % (len(pr), NFFT)
        return None if e <= rtol else 'one-sided estimate is not twice the first half of the two-sided one (relative error %.3g)' % e
    if kind == 'reversal':
        p0 = psd_of(cls, x, cfg, NFFT); p1 = psd_of(cls, np.conj(x[::-1]), cfg, NFFT, route=route, prev=x)
        e = rel_err(p1, p0)
        return None if e <= rtol else 'estimate of the conjugated, time-reversed data differs (relative error %.3g)' % e
    raise KeyError(kind)


def eigen_case(kind, method, x, P, NSIG, NFFT, m):
    """eigenfre.eigen() itself (centred layout; Properties/C04.v: singular_values_shift / _conj, eigen_shift_any_svd, eigen_mirror_any_svd).
    Returns None if the clause holds, 'ILL' when the noise subspace is not well determined (gap hypothesis of the theorems), else a description.
    Compared: the singular values, and the denominators 1/PSD (bounded by P) with tolerance 1e-9 * S_0 / (S_(NSIG-1) - S_NSIG)."""
    from spectrum.eigenfre import eigen
    n = np.arange(len(x))
    p0, s0 = eigen(x, P, NSIG=NSIG, method=method, NFFT=NFFT)
    p0 = np.asarray(p0, float); s0 = np.asarray(s0, float)
    if len(p0) != NFFT:
        return 'eigen() returned %d values for NFFT=%d' % (len(p0), NFFT)
    gap = s0[NSIG - 1] - s0[NSIG] if 0 < NSIG < P else s0[0]
    kap = max(1.0, s0[0] / max(gap, 1e-300)) * (max(1.0, s0[0] / max(s0[-1], 1e-300)) if method == 'ev' else 1.0)
    if kap > 1e4:
        return 'ILL'
    if kind == 'eigen-shift':
        x1 = x * np.exp(2j * np.pi * m * n / NFFT); want = np.roll(p0, m)
    else:
        x1 = np.conj(x); want = np.roll(p0[(-np.arange(NFFT)) % NFFT], 2 * (NFFT // 2))
    p1, s1 = eigen(x1, P, NSIG=NSIG, method=method, NFFT=NFFT)
    p1 = np.asarray(p1, float); s1 = np.asarray(s1, float)
    es = float(np.max(np.abs(s1 - s0)) / max(s0[0], 1e-300)) if s1.shape == s0.shape else np.inf
    if not es <= 1e-9:
        return 'the singular values of the data matrix changed (relative to S_0: %.3g)' % es
    with np.errstate(divide='ignore', invalid='ignore'):
        e = rel_err(1.0 / p1, 1.0 / want)
    if e <= 1e-9 * kap:
        return None
    return ('pseudo-spectrum of the modulated data is not the one of the data rolled by m=%d bins' % m if kind == 'eigen-shift' else
            'pseudo-spectrum of the conjugated data is not the centred mirror (entry j <-> centred bin -(j - NFFT//2))') + \
           ' (1/PSD relative error %.3g, allowed %.3g)' % (e, 1e-9 * kap)


def replay(rep):
    if rep.get('replay', {}).get('form') == 'routes':
        from props import _estimators as E_
        return E_.replay_routes(rep['replay'])
    r = rep['replay']; x = vlib.unhexv(r['x'])
    if r['datatype'] == 'real':
        x = np.real(x)
    if r['clause'] in ('eigen-shift', 'eigen-mirror'):
        try:
            return eigen_case(r['clause'], r['cfg']['method'], x, r['cfg']['P'], r['cfg']['NSIG'], r['NFFT'], r.get('m', 0)) in (None, 'ILL')
        except Exception:
            return False
    try:
        SBF[0] = bool(r.get('scale_by_freq', False))
        return check_case(r['clause'], r['estimator'], x, r['cfg'], r['NFFT'], r.get('m', 0), route=r.get('route', 'fresh')) is None
    except Exception:
        return False


def jcfg(cfg):
    return {k: (v.item() if isinstance(v, (np.integer, np.floating)) else v) for k, v in cfg.items()}


def run(ctx):
    from spectrum import CORRELATION, LEVINSON
    rng = ctx.rng
    ctx.check_theorems('Properties/C04.v')
    # the estimate an object holds does not depend on the history that gave it its data and settings (every route of _estimators.via)
    from props import _estimators as E_
    E_.class_route_stream(ctx, E_.CLASSES, 'routes')

    # ---------------- class-level theorems over the pipeline table generated from the snapshot source
    src = os.path.join(vlib.SNAP, 'src', 'spectrum')
    try:
        table_v = PL.gallina(PL.extract(src))
    except PL.Fail as e:
        table_v = None
        for nm_ in GEN_NAMES:
            ctx.obligations.append((nm_, False, []))
        ctx.broken.append({'theorem': 'translator:pipelines (source outside the recognised shapes)', 'where': src, 'log': str(e)})
    if table_v is not None:
        thm = open(os.path.join(os.path.dirname(os.path.abspath(__file__)), '_c04_theorems.v.in')).read()
        ctx.check_generated('C04_pipelines', table_v + thm, GEN_NAMES)

    # ---------------- the DFT specification against numpy.fft.fft (binary64, inside Coq)
    cases = []; meta = []
    for _ in range(ctx.q(40, 300)):
        n = int(rng.integers(1, ctx.q(24, 48))); N = int(rng.integers(1, n + 3))      # N > n: numpy crops
        x = (rng.integers(-64, 65, size=N) + 1j * rng.integers(-64, 65, size=N)) / 8.0
        impl = np.fft.fft(x, n)
        tbl = [cmath.exp(-2j * cmath.pi * j / n) for j in range(n)]
        cases.append('dft_case 0x1p-36 %s %s %s' % (fcl(tbl), fcl(x), fcl(impl)))
        meta.append({'function': 'numpy.fft.fft', 'n': n, 'N': N})
        ctx.count('corr/dft/%s' % ('crop' if N > n else 'pad' if N < n else 'exact'))
        ctx.case(('dft', x.tobytes(), n), nontrivial=(n >= 3), sample={'function': 'numpy.fft.fft vs Theory.Dft.dft', 'n': n, 'N': N})
    for i in ctx.coq_cases('c04_dft', PRE_DFT, cases, shard=40, descr='numpy.fft.fft vs the DFT specification at binary64 (twiddle table from cmath)'):
        ctx.corr_disagreement('numpy.fft.fft', i, meta[i])

    # ---------------- correlation / Levinson models at modulated inputs (exact, character of period 4)
    cases = []; meta = []
    for _ in range(ctx.q(40, 300)):
        p = int(rng.integers(1, 4)); N = p + 3 + int(rng.integers(0, 5)); m = int(rng.integers(-5, 6))
        x = rng.integers(-4, 5, size=N) + 1j * rng.integers(-4, 5, size=N)
        if not np.any(x):
            x[0] = 1
        ph = np.array([(-1j) ** ((-m * j) % 4) for j in range(N)])          # tw4(-(m j)) = (-i)^(-m j)
        xm = x * ph
        if rng.integers(0, 2):
            ml = int(rng.integers(0, N)); nm = str(rng.choice(['biased', 'unbiased', 'coeff', 'none']))
            r = CORRELATION(xm, maxlags=ml, norm=None if nm == 'none' else nm)
            cases.append('acorr_mod_case %s (%d) %s %d%%nat %s %s' % (tolq(1e-10), m, czl(x), ml,
                         {'biased': 'Biased', 'unbiased': 'Unbiased', 'coeff': 'Coeff', 'none': 'NoNorm'}[nm], czl(r)))
            meta.append({'function': 'CORRELATION', 'm': m, 'x': vlib.hexv(x)})
        else:
            r = np.array([np.sum(x[k:] * np.conj(x[:N - k])) for k in range(p + 1)])
            rm = r * np.array([(-1j) ** ((-m * k) % 4) for k in range(p + 1)])
            raised = False
            try:
                a, P, k = LEVINSON(rm, p)
            except ValueError:
                raised = True; a = []; P = 0; k = []
            kap = 1.0 if raised else max(1.0, abs(r[0]) / max(abs(P), 1e-300))
            if kap > 1e4:
                ctx.count('regenerated_illconditioned'); continue
            cases.append('lev_mod_case %s (%d) %s %d%%nat %s %s %s %s' % (tolq(1e-9 * kap), m, czl(r), p, 'true' if raised else 'false', czl(a), cz(P), czl(k)))
            meta.append({'function': 'LEVINSON', 'm': m, 'r': vlib.hexv(r)})
        ctx.count('corr/modulated/' + meta[-1]['function'])
        ctx.case(('mod', meta[-1]['function'], x.tobytes(), m, p), nontrivial=(m % 4 != 0), sample={'function': meta[-1]['function'] + ' at modulated input', 'm': m, 'N': N})
    for i in ctx.coq_cases('c04_modulated', PRE_MOD, cases, shard=40, descr='CORRELATION / LEVINSON at inputs modulated by the period-4 character vs the models at QcC'):
        ctx.corr_disagreement(meta[i]['function'], i, meta[i])

    # ---------------- arma.ma against Model/MaEst.v (exact; the model is aryule twice)
    from spectrum.arma import ma as ma_impl
    from spectrum import aryule as aryule_impl
    cases = []; meta = []
    tries = 0
    while len(cases) < ctx.q(30, 200) and tries < 2000:
        tries += 1
        N = int(rng.integers(5, 10)); M = int(rng.integers(2, 5)); Q = int(rng.integers(1, M))
        ood = int(rng.integers(0, 8))
        if ood == 0:
            Q = int(rng.choice([0, M, M + 1]))
        elif ood == 1:
            M = N + int(rng.integers(0, 2)); Q = int(rng.integers(1, 3))
        cplx = bool(rng.integers(0, 2))
        x = rng.integers(-4, 5, size=N) + (1j * rng.integers(-4, 5, size=N) if cplx else 0)
        x = np.asarray(x, dtype=complex if cplx else float)
        if not np.any(x):
            x[0] = 1
        outcome = 0; b = []; rho = 0.0
        try:
            b, rho = ma_impl(x, Q, M)
        except ValueError:
            outcome = 1
        except AssertionError:
            outcome = 2
        except Exception:
            outcome = 4                      # any other exception: no outcome of the model matches -> reported as a disagreement
        kap = 1.0
        if outcome == 0:
            if not (np.all(np.isfinite(b)) and np.isfinite(rho)):
                ctx.count('ma_skipped_nonfinite'); continue
            try:
                a1, p1, _ = aryule_impl(x, M, 'biased')
                r0 = np.sum(np.abs(x) ** 2) / N
                aa = np.insert(a1, 0, 1); _, p2, _ = aryule_impl(aa, Q, 'biased'); r02 = np.sum(np.abs(aa) ** 2) / len(aa)
                kap = max(1.0, abs(r0) / max(abs(p1), 1e-300)) * max(1.0, abs(r02) / max(abs(p2), 1e-300))
            except Exception:
                kap = 1.0
            if kap > 1e4:
                ctx.count('ma_regenerated_illconditioned'); continue
        cases.append('ma_case %s %s %d%%nat %d%%nat %d%%nat %s %s' % (tolq(1e-9 * kap), czl(x), Q, M, outcome, czl(b), cz(rho)))
        meta.append({'function': 'arma.ma', 'x': vlib.hexv(x), 'Q': Q, 'M': M, 'outcome': outcome})
        ctx.count('corr/ma/%s/%s' % ('complex' if cplx else 'real', ['returned', 'ValueError', 'AssertionError', '-', 'other exception'][outcome]))
        ctx.case(('ma', x.tobytes(), Q, M), nontrivial=(outcome == 0 and Q >= 1), sample={'function': 'arma.ma vs Model.MaEst.ma_est', 'N': N, 'Q': Q, 'M': M, 'outcome': outcome})
    for i in ctx.coq_cases('c04_ma', PRE_MA, cases, shard=40, descr='arma.ma vs Model/MaEst.v at QcC (outcome, MA parameters, rho)'):
        ctx.corr_disagreement('arma.ma', i, meta[i])

    # ---------------- search over every class
    plan = []
    for cls in E.CLASSES:
        plan += [('shift', cls), ('mirror', cls)]
    plan += [('fold', cls) for cls in ONESIDED_IS_TWICE_HALF] + [('reversal', cls) for cls in TIME_REVERSAL_INVARIANT]
    for it in range(ctx.q(8, 40) * len(plan)):
        clause, cls = plan[it % len(plan)]
        N = int(rng.integers(16, 49))
        if (it // len(plan)) % 4 == 1:
            N = int(rng.integers(110, 200))       # long records (internal caps and blocked paths, e.g. the 100-row cap of the FB matrix)
        NFFT = int(rng.choice([N, N + 1, N + 2, N + 5, 2 * N, 2 * N + 1, 64, 67])); NFFT = max(NFFT, N)
        # the first pass over the plan: real samples declared complex (zero imaginary part), for every clause and class
        x, kind = E.gen_data(rng, N, True, 'realc' if it < len(plan) else None)
        SBF[0] = bool(rng.integers(0, 3) == 0)   # every relation also holds with the 2*pi/df scaling switched on
        route = E.pick_route(rng)               # how the object holding the transformed data got them (fresh / re-assigned)
        ctx.count('search/route/%s' % route)
        cfg = E.default_cfg(cls, N, rng, True)
        if cls == 'MultiTapering':
            cfg['method'] = ['adapt', 'unity', 'eigen'][(it // len(plan)) % 3]      # every weighting, deterministically
        if cls == 'pcorrelogram':
            NFFT = max(NFFT, 2 * cfg['lag'] + 2)
        if cls == 'pminvar':
            NFFT = max(NFFT, 2 * cfg['order'] + 1)
        if cls == 'MultiTapering' and (it // len(plan)) % 3 == 2 and clause in ('shift', 'mirror'):
            NFFT = max(8, N // 2 - (it % 2)); route = 'fresh'      # a grid SHORTER than the record (the estimator accepts it: the tapered record is cut to NFFT samples)
        m = int(rng.choice([1, 2, 3, 5, -1, -4, NFFT - 1, NFFT + 3, int(rng.integers(-2 * NFFT, 2 * NFFT))]))
        tag = 'real' if clause == 'fold' else 'complex'
        ctx.count('search/%s/%s/%s' % (clause, cls, 'NFFT-even' if NFFT % 2 == 0 else 'NFFT-odd'))
        ctx.case((clause, cls, json.dumps(jcfg(cfg), sort_keys=True), NFFT, m, x.tobytes()), nontrivial=(clause != 'shift' or m % NFFT != 0),
                 sample={'clause': clause, 'estimator': cls, 'cfg': jcfg(cfg), 'N': N, 'NFFT': NFFT, 'm': m, 'kind': kind})
        rep = {'clause': clause, 'estimator': cls, 'cfg': jcfg(cfg), 'NFFT': NFFT, 'm': m, 'x': vlib.hexv(x), 'datatype': tag, 'route': route, 'scale_by_freq': SBF[0]}
        try:
            what = check_case(clause, cls, x, cfg, NFFT, m, route=route)
        except Exception as e:
            what = 'raised %s: %s' % (type(e).__name__, str(e)[:100])
        if what is not None:
            ctx.violation('%s/%s/%s' % (clause, cls, 'NFFT-even' if NFFT % 2 == 0 else 'NFFT-odd'), '%s (%s, NFFT=%d): %s' % (cls, clause, NFFT, what), rep)

    # ---------------- every NAMED taper / lag window once per clause (a change may concern one name only; the theorems need a real window,
    # symmetric for mirror / reversal - which every named window of the library is, C20)
    for wi, wname in enumerate(E.ALL_WINDOWS):
        for cls in ('Periodogram', 'pcorrelogram'):
            for clause in ('shift', 'mirror', 'fold', 'reversal'):
                if (clause == 'fold' and cls not in ONESIDED_IS_TWICE_HALF) or (clause == 'reversal' and cls not in TIME_REVERSAL_INVARIANT):
                    continue
                N = 24 + (wi % 7); NFFT = [N, N + 3, 2 * N][wi % 3]
                x, kind = E.gen_data(rng, N, True)
                cfg = {'window': wname} if cls == 'Periodogram' else {'lag': 5 + wi % 4, 'window': wname}
                if cls == 'pcorrelogram':
                    NFFT = max(NFFT, 2 * cfg['lag'] + 2)
                SBF[0] = False; m = 3
                ctx.count('windows/%s/%s' % (clause, cls))
                ctx.case(('window', clause, cls, wname, NFFT, x.tobytes()), nontrivial=True,
                         sample={'clause': clause, 'estimator': cls, 'window': wname, 'N': N, 'NFFT': NFFT} if wi == 9 else None)
                rep = {'clause': clause, 'estimator': cls, 'cfg': jcfg(cfg), 'NFFT': NFFT, 'm': m, 'x': vlib.hexv(x), 'datatype': 'real' if clause == 'fold' else 'complex',
                       'route': 'fresh', 'scale_by_freq': False}
                try:
                    what = check_case(clause, cls, x, cfg, NFFT, m)
                except Exception as e:
                    what = 'raised %s: %s' % (type(e).__name__, str(e)[:100])
                if what is not None:
                    ctx.violation('%s/%s/window_%s' % (clause, cls, wname), '%s with window %r (%s, NFFT=%d): %s' % (cls, wname, clause, NFFT, what), rep)

    # ---------------- arma_estimate (the model of C15, which the arma_estimate / parma theorems are about) at modulated inputs:
    # x_n * tw4(-(m n)) is built inside Coq from the low-bit data, the implementation gets the same Gaussian-integer array
    from props import _c03_arma_corr as AC

    def modulated(rng_, x, cplx):
        m = int(rng_.integers(-5, 6))
        ph = np.array([(-1j) ** ((-m * j) % 4) for j in range(len(x))])
        return np.asarray(x, dtype=complex) * ph, '(@vmod _ ops (@sphase _ tw4 (%d)) 0 %s)' % (m, czl(x)), {'m': m}
    extra = 'Require Import Spectrum.Theory.Dft Spectrum.Proofs.ShiftTheory Spectrum.Proofs.ShiftDft_C04 Spectrum.Instances.QcCTw.\n'
    cases, meta = AC.gen(ctx, ctx.q(8, 80), modulated, 'modulated')
    for i in ctx.coq_cases('c04_arma_modulated', AC.pre(extra), cases, shard=4,
                           descr='arma_estimate at inputs modulated by the period-4 character (every outcome code, AR / MA / rho, oracle residual exactly zero) vs Model.ArmaEst.arma_estimate at QcC'):
        ctx.corr_disagreement('arma_estimate', i, meta[i])

    # ---------------- complex-typed data whose imaginary part is identically zero (a real record declared complex): the two-sided clauses
    # (shift, mirror) apply to them like to any complex data -- the layout must not depend on the VALUES of the imaginary parts
    ZI = ['Periodogram', 'pcorrelogram', 'pburg', 'pyule', 'pma', 'pminvar']
    for it in range(ctx.q(2, 8) * len(ZI)):
        cls = ZI[it % len(ZI)]; clause = 'shift' if (it // len(ZI)) % 2 == 0 else 'mirror'
        N = int(rng.integers(16, 49))
        NFFT = int(rng.choice([N, N + 1, N + 2, N + 5, 2 * N, 2 * N + 1, 64, 67])); NFFT = max(NFFT, N)
        xr, kind = E.gen_data(rng, N, False)
        x = np.asarray(xr, dtype=complex)
        cfg = E.default_cfg(cls, N, rng, True)
        if cls == 'MultiTapering':
            cfg['method'] = ['adapt', 'unity', 'eigen'][(it // len(plan)) % 3]      # every weighting, deterministically
        if cls == 'pcorrelogram':
            NFFT = max(NFFT, 2 * cfg['lag'] + 2)
        if cls == 'pminvar':
            NFFT = max(NFFT, 2 * cfg['order'] + 1)
        m = int(rng.choice([1, 2, 3, 5, -1, -4, NFFT - 1]))
        ctx.count('search/zero-imag/%s/%s' % (clause, cls))
        ctx.case(('zi', clause, cls, json.dumps(jcfg(cfg), sort_keys=True), NFFT, m, x.tobytes()), nontrivial=True,
                 sample={'clause': clause, 'estimator': cls, 'cfg': jcfg(cfg), 'N': N, 'NFFT': NFFT, 'm': m, 'kind': kind + ' (complex dtype, zero imaginary part)'})
        rep = {'clause': clause, 'estimator': cls, 'cfg': jcfg(cfg), 'NFFT': NFFT, 'm': m, 'x': vlib.hexv(x), 'datatype': 'complex'}
        try:
            what = check_case(clause, cls, x, cfg, NFFT, m)
        except Exception as e:
            what = 'raised %s: %s' % (type(e).__name__, str(e)[:100])
        if what is not None:
            ctx.violation('%s/%s/%s' % (clause, cls, 'NFFT-even' if NFFT % 2 == 0 else 'NFFT-odd'),
                          '%s (%s, NFFT=%d, complex dtype with zero imaginary part): %s' % (cls, clause, NFFT, what), rep)

    # ---------------- the data matrix eigen() hands to numpy's svd at the modulated / conjugated record (observed through spectrum.eigenfre.svd)
    # against the right-hand sides of theorems eigen_fb_modulation / eigen_fb_conj evaluated on the model's matrix of the ORIGINAL record
    # (exact, period-4 character); numpy's factorisation of the transformed matrix is checked against the SVD specification the
    # *_any_svd theorems assume, and its singular values against those of the original matrix (singular_values_shift / _conj)
    from props import C17 as K17
    from spectrum.eigenfre import eigen as eigen_impl
    cases = []; meta = []
    shapes = [(5, 2), (7, 3), (9, 3), (10, 4), (14, 5), (13, 6)] + [(104, 3), (109, 2)][:ctx.q(1, 2)]
    for (N, P) in shapes:
        for kind in ('mod', 'conj'):
            x = K17.lowbit(rng, N, True)
            m = int(rng.choice([1, 2, 3, -1, -3, 5, -6]))
            xt = x * np.array([(-1j) ** ((-m * j) % 4) for j in range(N)]) if kind == 'mod' else np.conj(x)
            with K17.Tap() as tap0:
                eigen_impl(x, P, NSIG=0, NFFT=max(P, 4))
            with K17.Tap() as tap:
                eigen_impl(xt, P, NSIG=0, NFFT=max(P, 4))
            if tap.fb is None or tap0.fb is None:
                if not any('cannot be observed' in b.get('theorem', '') for b in ctx.broken):
                    ctx.broken.append({'theorem': 'correspondence: FB matrix at the transformed record (eigen() no longer hands a data matrix to spectrum.eigenfre.svd: it cannot be observed)',
                                       'where': 'eigenfre.eigen', 'log': ''})
                continue
            rows = '[%s]' % '; '.join(czl(row) for row in tap.fb)
            cases.append('fbmod_case (%d) %s %d%%nat %s' % (m, czl(x), P, rows) if kind == 'mod' else 'fbconj_case %s %d%%nat %s' % (czl(x), P, rows))
            meta.append({'function': 'eigen (FB passed to svd) at the %s record' % ('modulated' if kind == 'mod' else 'conjugated'), 'x': vlib.hexv(x), 'P': P, 'N': N, 'm': m})
            ctx.count('corr/fb-transformed/%s/%s' % (kind, 'row-cap' if N - P > 100 else 'full'))
            ctx.case(('fbt', kind, x.tobytes(), P, m), nontrivial=(P >= 2 and (kind == 'conj' or m % 4 != 0)),
                     sample={'function': 'FB matrix at the transformed record', 'kind': kind, 'N': N, 'P': P, 'm': m})
            if not K17.svd_spec_ok(tap.fb, tap.S, tap.Vh):
                ctx.broken.append({'theorem': 'svd-specification at the transformed record (numpy result does not meet S sorted / V unitary / FB^H FB V = V S^2)',
                                   'where': 'N=%d P=%d %s' % (N, P, kind), 'log': ''})
            if tap.S.shape != tap0.S.shape or not np.allclose(tap.S, tap0.S, rtol=0, atol=1e-9 * max(float(tap0.S[0]), 1e-300)):
                ctx.violation('singular-values/eigen/%s' % kind, 'eigenfre.eigen: the singular values of the data matrix of the %s record differ from those of the record (N=%d, P=%d)'
                              % ('modulated' if kind == 'mod' else 'conjugated', N, P),
                              {'clause': 'eigen-shift' if kind == 'mod' else 'eigen-mirror', 'estimator': 'eigenfre.eigen', 'cfg': {'method': 'music', 'P': P, 'NSIG': 1},
                               'NFFT': 4 * max(P, 1), 'm': m * max(P, 1), 'x': vlib.hexv(x), 'datatype': 'complex'})   # exp(2 pi i (m P) n / (4 P)) = the period-4 character
    for i in ctx.coq_cases('c04_fb_transformed', PRE_FBM, cases, shard=6,
                           descr='FB matrix handed to svd at the modulated / conjugated record vs D_rows FB(x) D_cols / conj FB(x) over Model.Eigen.fb_matrix at QcC, zero tolerance'):
        ctx.corr_disagreement('fb_matrix (transformed record)', i, meta[i])

    # ---------------- eigenfre.eigen() itself (music / ev, centred layout): the singular values are invariant and the returned vector is
    # rolled by m bins / mirrored about the centre bin -- for whatever factorisation numpy's svd returns on the transformed matrix
    # (theorems singular_values_shift / _conj, eigen_shift_any_svd, eigen_mirror_any_svd; hypothesis: S_(NSIG-1) > S_NSIG)
    for it in range(ctx.q(16, 80)):
        clause = 'eigen-shift' if it % 2 == 0 else 'eigen-mirror'
        method = 'music' if (it // 2) % 2 == 0 else 'ev'
        N = int(rng.integers(16, 49)) if it % 4 != 3 else int(rng.integers(112, 180))      # long records: the 100-row cap of FB
        P = int(rng.integers(3, 9)); NSIG = int(rng.integers(1, P))
        NFFT = int(rng.choice([N, N + 1, 64, 67, 128, 131])); NFFT = max(NFFT, P + 1)
        x, kind = E.gen_data(rng, N, True)
        m = int(rng.choice([1, 2, 3, 5, -1, -4, NFFT - 1, NFFT + 3, int(rng.integers(-2 * NFFT, 2 * NFFT))]))
        cfg = {'method': method, 'P': P, 'NSIG': NSIG}
        try:
            what = eigen_case(clause, method, x, P, NSIG, NFFT, m)
        except Exception as e:
            what = 'raised %s: %s' % (type(e).__name__, str(e)[:100])
        if what == 'ILL':
            ctx.count('search/eigen-functional/regenerated_illconditioned'); continue
        par = 'NFFT-even' if NFFT % 2 == 0 else 'NFFT-odd'
        ctx.count('search/%s/eigen:%s/%s%s' % (clause, method, par, '/row-cap' if N - P > 100 else ''))
        ctx.case((clause, method, P, NSIG, NFFT, m, x.tobytes()), nontrivial=(clause != 'eigen-shift' or m % NFFT != 0),
                 sample={'clause': clause, 'estimator': 'eigenfre.eigen', 'cfg': cfg, 'N': N, 'NFFT': NFFT, 'm': m, 'kind': kind})
        if what is not None:
            ctx.violation('%s/eigen:%s/%s' % (clause, method, par), 'eigenfre.eigen (%s, method=%s, P=%d, NSIG=%d, NFFT=%d): %s' % (clause, method, P, NSIG, NFFT, what),
                          {'clause': clause, 'estimator': 'eigenfre.eigen', 'cfg': cfg, 'NFFT': NFFT, 'm': m, 'x': vlib.hexv(x), 'datatype': 'complex'})
