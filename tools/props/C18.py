"""C18 — Slepian tapers are orthonormal, ordered and maximally concentrated (partial)."""
from fractions import Fraction
import numpy as np
import vlib
from props import _c18_util as U
from props._c18_util import dyq, dyql

LEVEL_TEXT = (
    "PARTIAL.  THEOREMS (Coq, abstract field / ordered *-field, every N, k and input) cover the Python half of dpss() and a "
    "certificate checker: default k = min(round-half-even(2NW), N) >= 1; columns of squared norm N become orthonormal after /sqrt(N); "
    "the sign loop multiplies columns by +-1, so Gram matrix, quadratic forms and eigen-equations are preserved, even columns end with "
    "sum >= 0 and odd columns with first sample >= 0 (as coded); the autocovariance eigenvalue formula acvs.r equals v^T K v for the "
    "symmetric Toeplitz sinc kernel, hence IS the eigenvalue for a unit eigenvector; Slepian's tridiagonal matrix T is centrosymmetric "
    "with simple eigenvalues, so each of its eigenvectors is symmetric or antisymmetric; T commutes with the sinc kernel K for every N "
    "(given the sine addition theorem for the sequences d*sinc(2Wd) and cos(2 pi W) as a hypothesis), hence every exact eigenvector of T is an "
    "eigenvector of K and the number dpss() returns for a unit one is its K-eigenvalue; the certificate checker (exact rational "
    "arithmetic, executed by vm_compute on the actual C output for small N) is sound: true => |V^T V - I| <= eps and "
    "|T(c) v_j - theta_j v_j| <= eps entrywise for every c in the rational enclosure of cos(2 pi W) - also over any ordered field reached from Q "
    "by an order-preserving homomorphism, i.e. for the real cos(2 pi W) -, and, GIVEN the spectral "
    "decomposition of T(c) as a hypothesis (cited mathematics), theta_j is within sqrt(N) eps / sqrt(1-eps) of an eigenvalue of T(c).  "
    "SEARCH ONLY (not theorems): everything about what the iterative C eigen-solver returns for N up to 4096 - orthonormal columns, "
    "ratios in (0,1] and non-increasing, ratio = energy fraction in the band (sinc quadratic form and an independent Gauss-Legendre "
    "integral of the periodogram), agreement with scipy's tridiagonal eigen-solver and scipy.signal.windows.dpss up to sign, leading "
    "eigenvalues of the dense sinc kernel, parity by index, positive sum / positive first lobe.  The Python half is tied to the "
    "model by exact in-Coq correspondence on the real C output and on prescribed low-bit C outputs (library stub).")
TRUSTED = ["Coq 8.16.1 kernel + vm_compute (no native_compute)",
           "hand-written model coq/Model/Dpss.v of the Python half of mtm.dpss, tied by the correspondence runs only; np.sqrt, np.sinc and "
           "the FFT convolution inside _autocov are inputs / modelled by the lag sums they compute",
           "rational enclosure of cos(2 pi W) computed by the harness (exact Fraction Taylor bounds, 50-digit pi), not re-verified in Coq",
           "the certificate is evaluated over Q; the real number cos(2 pi W) lies in the image of the enclosure - the transfer to any ordered field B "
           "along an order-preserving ring homomorphism Q -> B is PROVED (cert_sound_transfer); that R is such a field is standard and not constructed here",
           "cited mathematics, NOT proved: spectral theorem for real symmetric matrices (hypothesis of cert_eigenvalue); sine addition theorem for "
           "(np.sinc, cos) (hypothesis of slepian_commutes, monitored numerically); approximate eigenvector => near an exact one; "
           "v^T K v = band-limited energy; Courant-Fischer (maximal concentration)",
           "scipy.linalg.eigh_tridiagonal, scipy.signal.windows.dpss, numpy.linalg.eigvalsh as independent oracles of the search",
           "Python harness (snapshot, rebuild of mydpss.c with gcc, generators, float->dyadic conversion)"]
UNPROVED = ["the C solver (bisection + inverse iteration) returns orthogonal columns of squared norm N that are eigenvectors of T: search + certificate on small N only",
            "ratios in (0,1], non-increasing, leading eigenvalues, maximal concentration: search only",
            "ratio = energy fraction inside |f| <= NW/N (an integral): search only (two independent oracles)",
            "even index <-> symmetric, odd index <-> antisymmetric: only 'symmetric or antisymmetric' is proved for exact eigenvectors of T; index parity by search",
            "'odd tapers start with a positive lobe': the code enforces first sample >= 0 (proved); that this is the sign of the first lobe is search only",
            "spectral theorem: hypothesis; T K = K T is proved from the sine addition recurrence (hypothesis on the library sequences)",
            "FFT-based _autocov equals the lag sums: correspondence only"]
ASSUMPTIONS = ["exact arithmetic in the theorems; rounding error of the binary64 code is not bounded by any theorem",
               "certificate: NW representable in binary32 (the C routine receives NW as a float), N <= 32 quick / <= 64 thorough",
               "search tolerances: orthonormality 1e-9; eigenvector agreement and parity 1e-10*||T||/gap + 1e-11; ratios 1e-10/1e-9; order and range 1e-12"]
RULE = ("N in 8..512 quick / 8..4096 thorough (all N up to 40, random even/odd above, plus fixed large-N sentinels), NW in {1,1.5,..,8} and "
        "non-half-integer values (binary32-representable and not), k in {1, default, floor(2NW), random}; NW < N/2, k <= N; a case is "
        "non-trivial when k >= 2; distinct = distinct (N, NW, k); certificate cases N in 8..32 (64 thorough); Python-half correspondence on "
        "the real C output (N <= 12) and on prescribed low-bit C outputs with every combination of sign flips")

PRE = """Require Import Spectrum.Theory.Ops Spectrum.Theory.Vec Spectrum.Model.Dpss Spectrum.Instances.QcC.
From Coq Require Import QArith Qcanon.
Local Open Scope Z_scope.
Definition qclose (tol a b : Qc) : bool := Qcleb (Qcabs (a - b)%Qc) tol.
Definition qclose_list (tol : Qc) (l1 l2 : list Qc) : bool :=
  Nat.eqb (length l1) (length l2) && forallb (fun p => qclose tol (fst p) (snd p)) (combine l1 l2).
Definition post_case (tol sN W : Qc) (sncl : list Qc) (N k : nat) (raw tapsum itap ieig : list Qc) : bool :=
  let '(cols, ev) := @dpss_post _ qc_ops sN W sncl N k raw tapsum in
  qclose_list tol (concat cols) itap && qclose_list tol ev ieig.
Definition cert_case (N k : nat) (clo chi : Qc) (Vl : list (list Qc)) (th : list Qc) (eo er : Qc) : bool :=
  @cert_check _ qc_ops N k clo chi Vl th eo er.
Definition defk_case (N : nat) (a b : Z) (k : nat) : bool := Nat.eqb (default_k N a b) k.
"""

HALF = [1, 1.5, 2, 2.5, 3, 3.5, 4, 4.5, 5, 5.5, 6, 6.5, 7, 7.5, 8]
EPS_ORTH = 1e-9


# ----------------------------------------------------------------------------- the property on one call
def check_dpss(N, NW, k, dense=True):
    """list of (key, what) of the clauses of C18 that fail for dpss(N, NW, k) (k may be None: default)"""
    from spectrum import dpss
    bad = []
    tag = 'N=%d NW=%r k=%r' % (N, NW, k)
    out = dpss(N, NW, k)
    v = np.asarray(out[0]); lam = np.asarray(out[1])
    if k is None:
        k = int(max(min(round(2 * NW), N), 1))
        if len(lam) != k:
            bad.append(('default_k/dpss', 'default k is %d, expected min(round(2NW),N)=%d (%s)' % (len(lam), k, tag)))
            k = len(lam)
    if v.shape != (N, k) or lam.shape != (k,):
        return bad + [('shape/dpss', 'shapes %r %r for %s' % (v.shape, lam.shape, tag))]
    if not (np.all(np.isfinite(v)) and np.all(np.isfinite(lam))):
        return bad + [('finite/dpss', 'non-finite output for %s' % tag)]
    W = float(NW) / N
    # orthonormal columns
    G = v.T @ v
    eo = float(np.abs(G - np.eye(k)).max())
    if eo > EPS_ORTH:
        j, l = np.unravel_index(np.argmax(np.abs(G - np.eye(k))), G.shape)
        bad.append(('orthonormal/dpss/' + ('norm' if j == l else 'orthogonal'), '|V^T V - I| = %.3g at (%d,%d) (%s)' % (eo, j, l, tag)))
    # ratios in (0,1], non-increasing
    if lam.min() <= 0 or lam.max() > 1 + 1e-12:
        bad.append(('ratios_range/dpss', 'concentration ratios outside (0,1]: min %.6g max %.17g (%s)' % (lam.min(), lam.max(), tag)))
    # sporadic loss of accuracy of the C solver at large N and NW (finding F3): classified separately so that it does not hide anything else
    big = (N >= 1024 and NW >= 6.5 and eo <= EPS_ORTH)
    F3 = '/large-N-NW-solver-accuracy'
    if k > 1 and np.diff(lam).max() > 1e-12:
        bad.append(('ratios_order/dpss' + (F3 if big and np.diff(lam).max() < 1e-8 else ''), 'ratios increase by %.3g at index %d (%s)' % (np.diff(lam).max(), int(np.argmax(np.diff(lam))), tag)))
    # ratio = fraction of the energy in the band: independent Gauss-Legendre integral of the periodogram
    for j in sorted(set([0, k // 2, k - 1])):
        fr = U.band_energy_fraction(v[:, j], W)
        if abs(fr - lam[j]) > 1e-9:
            bad.append(('ratio_is_energy_fraction/dpss/integral', 'ratio[%d] = %.12g but the band holds %.12g of the energy (%s)' % (j, lam[j], fr, tag)))
    # ... and the quadratic form of the sinc kernel; the ratios are the leading eigenvalues of the kernel
    if dense and N <= 1024:
        K = U.sinc_kernel(N, W)
        q = ((K @ v) * v).sum(axis=0) / (v * v).sum(axis=0)
        if np.abs(q - lam).max() > 1e-10:
            j = int(np.argmax(np.abs(q - lam)))
            bad.append(('ratio_is_energy_fraction/dpss/sinc-form', 'ratio[%d] = %.12g but v^T K v / v^T v = %.12g (%s)' % (j, lam[j], q[j], tag)))
        if N <= 256:
            top = np.linalg.eigvalsh(K)[::-1][:k]
            if np.abs(top - lam).max() > 1e-9:
                j = int(np.argmax(np.abs(top - lam)))
                bad.append(('leading/dpss', 'ratio[%d] = %.12g but eigenvalue %d of the sinc kernel is %.12g (%s)' % (j, lam[j], j, top[j], tag)))
    # eigenvectors of Slepian's tridiagonal matrix (independent solver), up to sign
    w, u, nrm, gap = U.tridiag_top(N, W, k)
    tolv = 1e-10 * nrm / gap + 1e-11
    s = np.sign(np.sum(u * v, axis=0)); s[s == 0] = 1
    dv = np.abs(u * s - v).max(axis=0)
    if np.any(dv > tolv):
        j = int(np.argmax(dv / tolv))
        W32 = float(np.float32(NW)) / N
        key = 'eigenvectors/dpss' + (F3 if big and dv.max() < 1e-3 else '')
        note = ''
        if W32 != W:
            _, u32, nrm32, gap32 = U.tridiag_top(N, W32, k)
            s32 = np.sign(np.sum(u32 * v, axis=0)); s32[s32 == 0] = 1
            if np.all(np.abs(u32 * s32 - v).max(axis=0) <= 1e-10 * nrm32 / gap32 + 1e-11):
                key = 'eigenvectors/dpss/NW-rounded-to-float32'
                note = '; the columns ARE the eigenvectors for NW = float32(NW) = %r: dpss passes NW through c_float' % float(np.float32(NW))
        bad.append((key, 'taper %d differs from the eigenvector of the tridiagonal Slepian matrix by %.3g (allowed %.3g)%s (%s)' % (j, dv[j], tolv[j], note, tag)))
    if N <= 512:
        from scipy.signal.windows import dpss as sdpss
        try:
            sw, sr = sdpss(N, NW, k, return_ratios=True)
            sw = np.atleast_2d(sw).T; sr = np.atleast_1d(sr)
            ss = np.sign(np.sum(sw * v, axis=0)); ss[ss == 0] = 1
            if np.any(np.abs(sw * ss - v).max(axis=0) > 10 * tolv) and not any(b[0].startswith('eigenvectors') for b in bad):
                bad.append(('eigenvectors/dpss/scipy-windows', 'differs from scipy.signal.windows.dpss by %.3g (%s)' % (np.abs(sw * ss - v).max(), tag)))
            if np.abs(sr - lam).max() > 1e-9:
                bad.append(('ratio_is_energy_fraction/dpss/scipy-ratios', 'ratios differ from scipy by %.3g (%s)' % (np.abs(sr - lam).max(), tag)))
        except Exception:  # scipy refuses some (N, NW, k); not our concern
            pass
    # parity and sign convention
    for j in range(k):
        col = v[:, j]
        par = 1 if j % 2 == 0 else -1
        dev = float(np.abs(col - par * col[::-1]).max())
        if dev > 2 * tolv[j]:
            bad.append(('symmetry/dpss/' + ('even' if par == 1 else 'odd') + (F3 if big and dev < 1e-3 else ''),
                        'taper %d is not %s: max |v[n] %s v[N-1-n]| = %.3g (allowed %.3g) (%s)' % (j, 'symmetric' if par == 1 else 'antisymmetric', '-' if par == 1 else '+', dev, 2 * tolv[j], tag)))
            continue
        if par == 1:
            if not col.sum() > 0:
                bad.append(('sign/dpss/even-sum', 'even taper %d has sum %.6g <= 0 (%s)' % (j, col.sum(), tag)))
        else:
            sg, idx = U.first_lobe_sign(col)
            if sg < 0:
                if col[0] >= 0 and abs(col[0]) < 1e-7:
                    bad.append(('sign/dpss/odd-lobe/first-sample-below-solver-noise',
                                'odd taper %d starts with a NEGATIVE lobe (v[%d] = %.3g) although v[0] = %.3g >= 0: the sign test of dpss reads v[0], '
                                'which is below the accuracy of the solver here (%s)' % (j, idx, col[idx], col[0], tag)))
                else:
                    bad.append(('sign/dpss/odd-lobe', 'odd taper %d starts with a negative lobe: v[0] = %.3g, v[%d] = %.3g (%s)' % (j, col[0], idx, col[idx], tag)))
    return bad


def check_c_contract(N, NW, k):
    """what the theorems assume of the C routine: squared norm N per row, tapsum = row sum"""
    raw, ts = U.c_multitap(N, NW, k)
    R = raw.reshape(k, N)
    bad = []
    sq = np.einsum('ij,ij->i', R, R)
    if np.abs(sq / N - 1).max() > 1e-9:
        bad.append(('c_contract/multitap/squared-norm-N', 'row %d of the C output has squared norm %.12g, not N = %d' % (int(np.argmax(np.abs(sq / N - 1))), sq[int(np.argmax(np.abs(sq / N - 1)))], N)))
    d = np.abs(R.sum(axis=1) - ts)
    if d.max() > 1e-9 * np.sqrt(N) * max(1.0, np.abs(ts).max()):
        bad.append(('c_contract/multitap/tapsum-is-row-sum', 'tapsum[%d] = %.12g but the row sums to %.12g' % (int(np.argmax(d)), ts[int(np.argmax(d))], R.sum(axis=1)[int(np.argmax(d))])))
    return bad


def replay(rep):
    if rep['replay'].get('protocol') == 'values_only':
        from props import _purity
        return _purity.replay_protocol(rep['replay'])
    r = rep['replay']
    if r.get('function') == 'dpss':
        NW = float.fromhex(r['NW']) if isinstance(r['NW'], str) else r['NW']
        bad = check_dpss(r['N'], NW, r['k'])
        if r.get('key'):
            return not any(b[0] == r['key'] for b in bad)
        return not bad
    if r.get('function') == 'dpss-guard':
        from spectrum import dpss
        try:
            dpss(r['N'], r['NW'])
        except AssertionError:
            return True
        return False
    if r.get('function') == 'multitap':
        return not check_c_contract(r['N'], float.fromhex(r['NW']), r['k'])
    return True


def rep_of(N, NW, k, key=None):
    d = {'function': 'dpss', 'N': int(N), 'NW': float(NW).hex(), 'NW_decimal': repr(float(NW)), 'k': (None if k is None else int(k))}
    if key:
        d['key'] = key
    return d


# ----------------------------------------------------------------------------- generators
def gen_nw(rng, N, kind):
    if kind == 'half':
        c = [t for t in HALF if t < N / 2.0]
        return float(c[int(rng.integers(0, len(c)))])
    hi = min(8.0, N / 2.0 - 0.01)
    x = float(rng.uniform(1.0, hi))
    if kind == 'f32':
        x = float(np.float32(x))
        if x >= N / 2.0:
            x = 1.0
    return x


def gen_k(rng, N, NW, kind):
    kmax = max(1, min(int(np.floor(2 * NW)), N))
    if kind == 'default':
        return None
    if kind == 'one':
        return 1
    if kind == 'max':
        return kmax
    return int(rng.integers(1, kmax + 1))


def run(ctx):
    from spectrum import dpss
    rng = ctx.rng
    ctx.check_theorems('Properties/C18.v')

    # ---------------- results depend on the VALUES given only (call protocol), first in a process that has not called dpss yet ...
    from props import _purity
    _purity.run_protocol(ctx, ['dpss'], prefix='values_only_first')

    # ---------------- correspondence 1: default k
    cases = []; meta = []
    for _ in range(ctx.q(60, 300)):
        N = int(rng.integers(3, 65))
        style = rng.choice(['half', 'quarter', 'free', 'small'])
        if style == 'half':
            NW = float(rng.integers(2, 17)) / 2
        elif style == 'quarter':
            NW = float(rng.integers(4, 33)) / 4 + float(rng.choice([0.0, 0.25]))
        elif style == 'small':
            NW = float(rng.choice([0.1, 0.24, 0.25, 0.26, 0.5, 0.74, 0.75, 0.76]))
        else:
            NW = float(rng.uniform(0.6, 8))
        if NW >= N / 2.0:
            NW = max(0.1, N / 2.0 - 0.75)
        try:
            kimpl = len(dpss(N, NW)[1])
        except Exception as e:  # pragma: no cover
            ctx.violation('default_k/dpss/raises', 'dpss(%d, %r) raised %r' % (N, NW, e), rep_of(N, NW, None)); continue
        a, b = Fraction(2 * NW).as_integer_ratio()
        cases.append('defk_case %d%%nat (%d) (%d) %d%%nat' % (N, a, b, kimpl))
        meta.append({'function': 'dpss default k', 'N': N, 'NW': NW, 'impl_k': kimpl})
        ctx.count('default_k/' + style)
        ctx.case(('defk', N, NW), nontrivial=True, sample={'function': 'dpss (default k)', 'N': N, 'NW': NW, 'k': kimpl})
    for i in ctx.coq_cases('c18_default_k', PRE, cases, descr='len(dpss(N,NW)[1]) vs Model.Dpss.default_k (round-half-even) in Coq'):
        ctx.corr_disagreement('dpss default k', i, meta[i])

    # ---------------- correspondence 2: Python half on prescribed C output (stub) and on the real C output
    cases = []; meta = []
    for it in range(ctx.q(160, 800)):
        N = int(rng.choice([4, 4, 5, 6, 7, 8, 9, 9, 10, 12, 16]))
        k = int(rng.integers(1, 5))
        raw = rng.integers(-16, 17, size=k * N) / 8.0
        mode = rng.choice(['sum', 'free', 'zero'])
        R = raw.reshape(k, N)
        if mode == 'sum':
            ts = R.sum(axis=1)
        elif mode == 'free':
            ts = rng.integers(-8, 9, size=k) / 4.0
        else:
            ts = R.sum(axis=1); j = int(rng.integers(0, k)); R[j, 0] = 0.0; ts[j] = 0.0
        NW = float(rng.choice([1.0, 1.5, 1.25]))
        if NW >= N / 2.0:
            NW = 1.0
        tap, ev = U.dpss_with_stub(N, NW, k, R.ravel(), ts)
        tap = np.asarray(tap); ev = np.asarray(ev)
        W = float(NW) / N
        snc = np.sinc(2 * W * np.arange(N))
        scale = max(1.0, float(np.abs(tap).max()) ** 2 * N)
        cases.append('post_case %s %s %s %s %d%%nat %d%%nat %s %s %s %s' % (
            vlib.tolq(1e-11 * scale), dyq(np.sqrt(N)), dyq(W), dyql(snc), N, k, dyql(R.ravel()), dyql(ts), dyql(tap.T.ravel()), dyql(ev)))
        meta.append({'function': 'dpss (stubbed C)', 'N': N, 'NW': NW, 'k': k, 'raw': vlib.hexv(R.ravel()), 'tapsum': vlib.hexv(ts)})
        flips = ''.join('-' if (R[j] @ tap[:, j]) < 0 else '+' for j in range(k))
        ctx.count('python_half/stub/' + mode); ctx.count('python_half/stub/flips/' + flips)
        ctx.case(('stub', N, k, R.tobytes(), ts.tobytes()), nontrivial=(k >= 2), sample={'function': 'dpss with prescribed C output', 'N': N, 'k': k, 'flips': flips})
    for it in range(ctx.q(40, 200)):
        N = int(rng.integers(8, 13)); NW = float(rng.choice([1.0, 1.5, 2.0, 2.5, float(np.float32(1.7))])); k = int(rng.integers(1, min(int(2 * NW), 4) + 1))
        raw, ts = U.c_multitap(N, NW, k)
        tap, ev = dpss(N, NW, k)
        tap = np.asarray(tap); ev = np.asarray(ev)
        W = float(NW) / N
        snc = np.sinc(2 * W * np.arange(N))
        cases.append('post_case %s %s %s %s %d%%nat %d%%nat %s %s %s %s' % (
            vlib.tolq(1e-11), dyq(np.sqrt(N)), dyq(W), dyql(snc), N, k, dyql(raw), dyql(ts), dyql(tap.T.ravel()), dyql(ev)))
        meta.append({'function': 'dpss (real C output)', 'N': N, 'NW': NW, 'k': k})
        ctx.count('python_half/real-C')
        ctx.case(('realC', N, NW, k), nontrivial=(k >= 2))
    for i in ctx.coq_cases('c18_python_half', PRE, cases, shard=16, descr='dpss() post-processing (scale, sign loop, autocovariance eigenvalues) vs Model.Dpss.dpss_post at Qc'):
        ctx.corr_disagreement(meta[i]['function'], i, meta[i])

    # ---------------- certificate: the actual C output checked in exact rational arithmetic inside Coq
    cases = []; meta = []
    nmax = ctx.q(32, 64)
    cfgs = []
    for N in sorted(set([8, 9, 12, 16, 17, 24, 31, 32] + ([48, 63, 64] if nmax >= 64 else []))):
        for NW in ([1.0, 2.5, 4.0] if ctx.tier == 'quick' else [1.0, 1.5, 2.5, 4.0, 6.5, 8.0]):
            if NW < N / 2.0:
                cfgs.append((N, NW))
    for _ in range(ctx.q(12, 60)):
        N = int(rng.integers(8, nmax + 1)); NW = gen_nw(rng, N, str(rng.choice(['half', 'f32'])))
        cfgs.append((N, NW))
    for (N, NW) in cfgs:
        k = max(1, min(int(np.floor(2 * NW)), N - 1))
        tap, ev = dpss(N, NW, k)
        tap = np.asarray(tap)
        d, e = U.slepian_tridiag(N, float(NW) / N)
        Tv = d[:, None] * tap; Tv[1:] += e[:, None] * tap[:-1]; Tv[:-1] += e[:, None] * tap[1:]
        theta = np.einsum('ij,ij->j', tap, Tv) / np.einsum('ij,ij->j', tap, tap)
        nrm = max(float(np.abs(d).max() + 2 * np.abs(e).max()), 1.0)
        er = 1e-10 * nrm
        clo, chi = U.cos_enclosure(NW, N)
        args = '%d%%nat %d%%nat (dy (%d) (%d)) (dy (%d) (%d))' % (N, k, clo[0], clo[1], chi[0], chi[1])
        Vl = '[' + '; '.join(dyql(tap[:, j]) for j in range(k)) + ']'
        cases.append('cert_case %s %s %s %s %s' % (args, Vl, dyql(theta), vlib.tolq(EPS_ORTH), vlib.tolq(er)))
        meta.append({'function': 'dpss', 'N': N, 'NW': NW, 'k': k, 'kind': 'certificate'})
        ctx.count('certificate/accept-expected')
        ctx.case(('cert', N, NW, k), nontrivial=(k >= 2), sample={'function': 'certificate for dpss', 'N': N, 'NW': NW, 'k': k, 'eps_res': er})
        if len(cases) % 7 == 1:
            # negative controls: the checker must reject a perturbed column and a wrong theta
            t2 = tap.copy(); t2[N // 2, 0] += 1e-6
            Vl2 = '[' + '; '.join(dyql(t2[:, j]) for j in range(k)) + ']'
            cases.append('negb (cert_case %s %s %s %s %s)' % (args, Vl2, dyql(theta), vlib.tolq(EPS_ORTH), vlib.tolq(er)))
            meta.append({'function': 'dpss', 'N': N, 'NW': NW, 'k': k, 'kind': 'negative control (perturbed column)'})
            th2 = theta.copy(); th2[-1] += 1e-6 * nrm
            cases.append('negb (cert_case %s %s %s %s %s)' % (args, Vl, dyql(th2), vlib.tolq(EPS_ORTH), vlib.tolq(er)))
            meta.append({'function': 'dpss', 'N': N, 'NW': NW, 'k': k, 'kind': 'negative control (wrong theta)'})
            ctx.count('certificate/reject-expected', 2)
    for i in ctx.coq_cases('c18_certificate', PRE, cases, shard=6, descr='Model.Dpss.cert_check (exact rationals, cos enclosure) on the C output of the snapshot'):
        m = meta[i]
        if m['kind'] == 'certificate':
            fb = [b for b in check_dpss(m['N'], m['NW'], m['k']) if b[0].startswith(('orthonormal', 'eigenvectors'))]
            if fb:
                ctx.violation('certificate/' + fb[0][0], 'exact certificate rejected: ' + fb[0][1], rep_of(m['N'], m['NW'], m['k']))
            else:
                ctx.corr_disagreement('certificate', i, m)
        else:
            ctx.corr_disagreement('certificate ' + m['kind'], i, m)

    # ---------------- property-directed search on the implementation
    nhi = ctx.q(512, 4096)
    todo = []
    for N in range(8, 41):
        for _ in range(ctx.q(8, 20)):
            todo.append((N, str(rng.choice(['half', 'half', 'f32', 'free'])), str(rng.choice(['default', 'one', 'max', 'max', 'rand']))))
    for _ in range(ctx.q(1000, 9000)):
        lo = 41
        N = int(np.exp(rng.uniform(np.log(lo), np.log(nhi + 1))))
        N = min(max(N, lo), nhi)
        if rng.integers(0, 2):
            N ^= 1                                     # both parities
            N = min(max(N, lo), nhi)
        todo.append((N, str(rng.choice(['half', 'half', 'half', 'f32', 'free'])), str(rng.choice(['default', 'one', 'max', 'max', 'rand']))))
    fixed = [(64, 2.5, 4), (2048, 2.5, 4), (512, 8.0, 16), (511, 7.5, 15), (1024, 4.0, 8), (2769, 8.0, 16), (2401, 8.0, 16), (2580, 7.0, None), (4035, 8.0, 16), (4096, 8.0, 16), (4093, 7.5, 15),
             (8, 2.3, 4), (16, 3.7, 7), (9, 1.1, 2)]
    seen = set()
    for item in fixed + todo:
        if len(item) == 3 and not isinstance(item[1], str):
            N, NW, k = item
        else:
            N, nwk, kk = item
            NW = gen_nw(rng, N, nwk); k = gen_k(rng, N, NW, kk)
        if (N, NW, k) in seen:
            continue
        seen.add((N, NW, k))
        kd = int(max(min(round(2 * NW), N), 1)) if k is None else k
        ctx.count('search/N-%s/%s' % ('le64' if N <= 64 else 'le512' if N <= 512 else 'le4096', 'even' if N % 2 == 0 else 'odd'))
        ctx.count('search/NW-%s' % ('half-integer' if 2 * NW == int(2 * NW) else 'float32' if float(np.float32(NW)) == NW else 'double'))
        ctx.count('search/k-%s' % ('default' if k is None else 'one' if k == 1 else 'floor2NW' if k == int(2 * NW) else 'other'))
        ctx.case(('dpss', N, NW, k), nontrivial=(kd >= 2), sample={'function': 'dpss (search)', 'N': N, 'NW': NW, 'k': k})
        try:
            bad = check_dpss(N, NW, k)
        except Exception as e:
            bad = [('raises/dpss', 'dpss(%d, %r, %r) raised %r' % (N, NW, k, e))]
        for key, what in bad:
            ctx.violation(key, what, rep_of(N, NW, k, key))
        # hypothesis of slepian_commutes on the two library sequences (np.sinc, np.cos), monitored numerically
        Wd = float(NW) / N; dd = np.arange(min(N, 64) + 2)
        g = dd * np.sinc(2 * Wd * dd)
        if np.abs(g[2:] + g[:-2] - 2 * np.cos(2 * np.pi * Wd) * g[1:-1]).max() > 1e-9 * max(1.0, np.abs(g).max()):
            ctx.broken.append({'theorem': 'hypothesis cheb of slepian_commutes (np.sinc / np.cos inconsistent)', 'where': 'N=%d NW=%r' % (N, NW), 'log': ''})
        ctx.count('oracle/sine-addition-recurrence-checked')
        if N <= 256 or rng.integers(0, 8) == 0:
            try:
                for key, what in check_c_contract(N, NW, kd):
                    ctx.violation(key, what, {'function': 'multitap', 'N': N, 'NW': float(NW).hex(), 'k': kd})
            except Exception as e:
                ctx.violation('raises/multitap', 'multitap(%d, %r, %d) raised %r' % (N, NW, kd, e), {'function': 'multitap', 'N': N, 'NW': float(NW).hex(), 'k': kd})

    # ---------------- the guard of dpss: NW >= N/2 is refused
    for N, NW in [(8, 4.0), (8, 4.5), (9, 4.5), (16, 8.0), (64, 40.0)]:
        ctx.case(('guard', N, NW), nontrivial=False); ctx.count('guard/NW-ge-N/2')
        try:
            dpss(N, NW)
            ctx.violation('guard/dpss/NW-ge-half-N', 'dpss(%d, %r) returned although NW >= N/2' % (N, NW), {'function': 'dpss-guard', 'N': N, 'NW': NW})
        except AssertionError:
            pass

    # ---------------- results depend on the VALUES given only: call protocol (repeat, aliasing, buffer reuse, memory layout, integer / single-precision dtypes)
    # ... and again after everything above has run in this process
    _purity.run_protocol(ctx, ['dpss'])
