"""C17 — MUSIC / EV resolve exact sinusoids and expose the data-matrix spectrum."""
import cmath, math
import numpy as np
import vlib
from vlib import cz, czl, fc, fcl, fl

LEVEL_TEXT = ("Coq theorems (abstract ordered field with conjugation; every P, N, NFFT, K) about the model of eigen()/pmusic/pev: "
              "entries and shape of the forward-backward data matrix (with the NP>100 truncation), its rank factorisation for a "
              "noiseless sum of K exponentials and 'at most K non-zero singular values' for any SVD meeting its specification, "
              "'FB v = 0 => the noise polynomial vanishes at every true pole' (Vandermonde "
              "elimination, forward block alone or backward block alone) and the converse, hence zero MUSIC/EV denominators at the true "
              "bins; positivity of the pseudo-spectrum; the complete decision logic of NSIG/threshold/criteria with its error enum; and "
              "the axis theorems (entry j of eigen / pmusic / pev is the pseudo-spectrum at the bin frequencies() reports for j, both "
              "parities, real and complex).  The SVD is a Section variable constrained by its specification.  Tie: FB matrix exactly at "
              "Gaussian rationals, decision logic on the enumerated argument space incl. every rejection, pseudo-spectrum in binary64 "
              "given numpy's (S, Vh) (and with exactly-zero / denormal / at-the-floor singular values substituted after the SVD), all evaluated inside Coq; property-directed search on the implementation.")
TRUSTED = ["Coq 8.16.1 kernel + vm_compute", "hand-written model coq/Model/Eigen.v (tie = correspondence run)",
           "numpy.linalg.svd modelled by its specification (S non-increasing, V unitary, FB^H FB V = V diag(S^2)), not verified; the harness "
           "re-checks the three facts numerically on every captured (S, Vh)",
           "numpy.fft.fft = dft with a twiddle character (table of binary64 values in the float runs)",
           "AIC/MDL (logarithms) enter the model as the argmin index; the harness recomputes it from its own formulas",
           "observation of FB / (S, Vh) / the chosen NSIG by wrapping spectrum.eigenfre.svd and ._get_signal_space in the snapshot module",
           "Python harness"]
UNPROVED = ["'the K largest local maxima lie within one bin of the true frequencies': the theorem gives zero denominators at the true bins "
            "(infinite peaks in exact arithmetic); that the binary64 values there dominate is search only",
            "'exactly K singular values are non-negligible': 'S_I = 0 for I >= K' is proved (for any SVD meeting its specification); that the "
            "first K are non-zero and that numpy's trailing values are negligible is search only",
            "everything downstream of the SVD is conditional on the SVD specification",
            "AIC/MDL values themselves (logarithms): only 'NSIG = argmin + 1' is modelled",
            "EV positivity is proved for the floored weights 1/max(S_I, eps*S_0) from eps > 0, S_0 > 0, S_I >= 0 (D22 repaired); that the binary64 "
            "peaks survive exactly-zero singular values is search only (deterministic rank-deficient witnesses, key ev_zero_singular_value/*)"]
ASSUMPTIONS = ["exact arithmetic in the theorems", "SVD specification (Section variables)",
               "local-maxima clause is checked literally only for true bins pairwise >= 2 bins apart (two adjacent on-grid bins cannot both be "
               "local maxima); for every set the stronger dominance clause is checked: each true bin exceeds every bin farther than one bin from all true bins"]
RULE = ("FB: low-bit dyadic real/complex data, P=1..6, N up to 2P+9 and N-P>100; decisions: product of methods x 14 NSIG values x 9 thresholds x 3 "
        "criteria x 7 (N,P,NFFT) shapes; pseudo-spectrum: noise and tones in noise, P=2..8, NFFT 8..40 even/odd, real/complex, eigen and both classes; "
        "search: K=1..8 on-grid exponentials / K/2 real sinusoids, P=K+1..16, N=2P..128, NFFT even/odd up to 300, music/ev; non-trivial = K>=2 or P>=3")

ERRS = ['EMethod', 'EExclusive', 'EThreshold', 'ENsigNeg', 'ENsigBig', 'EAssert', 'ECritUnknown', 'ECritEmpty', 'ENsigType', 'ENfft']

PRE_Q = """Require Import Spectrum.Theory.Ops Spectrum.Theory.Vec Spectrum.Model.Eigen Spectrum.Instances.QcC.
From Coq Require Import QArith Qcanon.
Local Open Scope Z_scope.
Definition fb_case (x : list QcC) (P : nat) (ifb : list (list QcC)) : bool :=
  let m := @fb_matrix _ qcc_ops x P in
  Nat.eqb (length m) (length ifb) && forallb (fun p => qcc_close_list (dy 0 0) (fst p) (snd p)) (combine m ifb).
Definition dec_case meth nsig (thr : option QcC) crit (amin N P NFFT : nat) (S : list QcC) (exp_err : option eig_err) (exp_ns : nat) : bool :=
  match @eigen_nsig _ qcc_ops meth nsig thr crit amin N P NFFT S, exp_err with
  | inl e, Some e' => eig_err_eqb e e'
  | inr n, None => Nat.eqb n exp_ns
  | _, _ => false
  end.
"""

PRE_F = """Require Import Spectrum.Theory.Ops Spectrum.Theory.Vec Spectrum.Theory.Dft Spectrum.Model.Eigen Spectrum.Instances.QcC Spectrum.Instances.FloatC Spectrum.Instances.FloatTw.
From Coq Require Import PrimFloat ZArith List.
Local Open Scope float_scope.
Definition rel_each (tol : float) (l1 l2 : list FloatC) : bool :=
  Nat.eqb (length l1) (length l2) &&
  forallb (fun p => PrimFloat.leb (fabs (fst (fst p) - fst (snd p))) (tol * fabs (fst (snd p)))
                    && PrimFloat.leb (fabs (snd (fst p))) (tol * fabs (fst (snd p)))) (combine l1 l2).
Definition same_list (l1 l2 : list FloatC) : bool := rel_each 0 l1 l2.
Definition psd_case tol meth (eps : FloatC) isreal scale nsig thr crit (amin : nat) (tbl : list FloatC) (NFFT N P : nat) (S : list FloatC) (Vh : list (list FloatC))
                    (ipsd iclass : list FloatC) : bool :=
  let x := List.repeat (0, 0) N in
  match eigen (OF:=fc_ops) meth eps nsig thr crit amin (tw_table tbl) NFFT x P S Vh,
        pclass (OF:=fc_ops) meth eps isreal scale nsig thr crit amin (tw_table tbl) NFFT x P S Vh with
  | inr (psd, ev), inr (cpsd, cev) => rel_each tol psd ipsd && rel_each tol cpsd iclass && same_list ev S && same_list cev S
  | _, _ => false
  end.
"""


# ----------------------------------------------------------------------------- observation taps
class Tap:
    """wraps spectrum.eigenfre.svd and ._get_signal_space of the snapshot module to observe FB, (S, Vh) and the chosen NSIG"""

    def __init__(self, s_override=None):
        # s_override: function S -> S' ; the snapshot's eigen() then continues with (U, S', Vh): used to drive the code after the SVD
        # with exactly-zero / denormal singular values (the SVD is an oracle of the model, so any (S, Vh) is a legitimate input)
        self.s_override = s_override

    def __enter__(self):
        import spectrum.eigenfre as ef
        self.ef = ef; self.svd0 = ef.svd; self.gss0 = ef._get_signal_space
        self.fb = None; self.S = None; self.Vh = None; self.nsig = None; self.gss_called = False

        def svd(a, *args, **kw):
            self.fb = np.array(a, copy=True)
            r = self.svd0(a, *args, **kw)
            if self.s_override is not None:
                r = (r[0], self.s_override(np.array(r[1], copy=True)), r[2])
            self.S = np.array(r[1], copy=True); self.Vh = np.array(r[2], copy=True)
            return r

        def gss(S, NP, **kw):
            self.gss_called = True
            r = self.gss0(S, NP, **kw)
            self.nsig = r
            return r
        ef.svd = svd; ef._get_signal_space = gss
        return self

    def __exit__(self, *a):
        self.ef.svd = self.svd0; self.ef._get_signal_space = self.gss0
        return False


def classify(e):
    s = str(e)
    if isinstance(e, AssertionError):
        return 'EAssert'
    if isinstance(e, UnboundLocalError):
        return 'ECritUnknown'
    if isinstance(e, TypeError):
        return 'ENsigType'
    if isinstance(e, ValueError):
        if 'method must be' in s:
            return 'EMethod'
        if 'cannot be provided together' in s:
            return 'EExclusive'
        if 'threshold must be' in s:
            return 'EThreshold'
        if 'NSIG must be positive' in s:
            return 'ENsigNeg'
        if 'stricly less' in s:
            return 'ENsigBig'
        if 'argmin of an empty' in s:
            return 'ECritEmpty'
        if 'broadcast' in s:
            return 'ENfft'
    return None


# ----------------------------------------------------------------------------- independent oracles
EPS = float(np.finfo(float).eps)


def build_fb(x, P):
    """forward-backward data matrix of order P built from slices (independent of the double loop of the code)"""
    x = np.asarray(x, dtype=complex); N = len(x); NP = min(N - P, 100)
    fwd = np.array([x[i:i + P][::-1] for i in range(NP)]).reshape(NP, P)
    bwd = np.array([np.conj(x[i + 1:i + P + 1]) for i in range(NP)]).reshape(NP, P)
    return np.vstack([fwd, bwd])


def crit_argmin(S, NP, name):
    """argmin of the AIC / MDL vector as eigen() evaluates it (N = 4*NP: _get_signal_space doubles the 2*NP it receives);
    returns (index, margin) or (None, 0) when the vector is not finite"""
    s = np.asarray(S, dtype=float); n = len(s); N = 4.0 * NP
    vals = []
    with np.errstate(all='ignore'):
        for k in range(n - 1):
            t = s[k + 1:]
            ak = t.sum() / (n - k)
            gk = math.exp(np.sum(np.log(t)) / (n - k)) if np.all(t > 0) else float('nan')
            l = math.log(gk / ak) if gk > 0 and ak > 0 else float('nan')
            if name == 'aic':
                vals.append(-2. * (n - k) * N * l + 2. * k * (2. * n - k))
            else:
                vals.append(-(n - k) * N * l + 0.5 * k * (2. * n - k) * math.log(N))
    if not vals or not np.all(np.isfinite(vals)):
        return None, 0.0
    o = np.argsort(vals)
    margin = (vals[o[1]] - vals[o[0]]) / max(1.0, abs(vals[o[0]])) if len(vals) > 1 else 1.0
    return int(o[0]), margin


def pseudo_reference(x, P, ns, NFFT, method):
    """pseudo-spectrum by definition on the centred grid: 1/sum_I w_I |e(f)^H v_I|^2, f = (j - NFFT//2)/NFFT, from an SVD of the
    independently built FB; returns (values, S, gap) where gap = relative gap between signal and noise singular values"""
    FB = build_fb(x, P)
    _, S, Vh = np.linalg.svd(FB)
    V = Vh.conj().T
    m = np.arange(P)
    out = np.empty(NFFT)
    for j in range(NFFT):
        e = np.exp(2j * np.pi * (j - NFFT // 2) * m / NFFT)
        d = 0.0
        for I in range(ns, P):
            t = abs(np.vdot(e, V[:, I])) ** 2
            d += t / max(S[I], EPS * S[0]) if method == 'ev' else t
        out[j] = 1.0 / d if d != 0 else np.inf
    gap = (S[ns - 1] - S[ns]) / S[0] if 0 < ns < P else 1.0
    return out, S, gap


def circ(a, b, n):
    d = (int(a) - int(b)) % n
    return min(d, n - d)


def local_maxima(p, circular):
    n = len(p); out = []
    for j in range(n):
        if circular:
            l = p[(j - 1) % n]; r = p[(j + 1) % n]
        else:
            l = p[j - 1] if j > 0 else -np.inf; r = p[j + 1] if j < n - 1 else -np.inf
        if p[j] > l and p[j] >= r:
            out.append(j)
    return out


def make_signal(rng, K, N, NFFT, real):
    """noiseless sum of K on-grid complex exponentials (or K/2 real sinusoids); returns (x, bins as signed integers)"""
    n = np.arange(N)
    if real:
        pos = rng.choice(np.arange(1, (NFFT - 1) // 2 + 1), size=K // 2, replace=False)
        x = np.zeros(N)
        for b in pos:
            x = x + rng.uniform(0.5, 2) * np.cos(2 * np.pi * b * n / NFFT + rng.uniform(0, 2 * np.pi))
        bins = np.concatenate([pos, -pos])
    else:
        bins = rng.choice(np.arange(NFFT), size=K, replace=False)
        x = np.zeros(N, dtype=complex)
        for b in bins:
            x = x + rng.uniform(0.5, 2) * np.exp(2j * np.pi * rng.uniform()) * np.exp(2j * np.pi * b * n / NFFT)
    return x, [int(b) for b in bins]


def check_peaks_vector(psd, bins, NFFT, offset, tag, where):
    """psd on a grid whose entry j is bin j - offset (mod NFFT); circular"""
    bad = []
    K = len(bins)
    if len(psd) != NFFT:
        return [('axis_length/%s/%s' % (where, tag), 'length %d instead of NFFT = %d' % (len(psd), NFFT))]
    if np.isnan(psd).any() or not np.all(psd > 0):
        bad.append(('positive/%s/%s' % (where, tag), 'pseudo-spectrum has a NaN or a non-positive value'))
        return bad
    dist = np.array([min(circ(j - offset, b, NFFT) for b in bins) for j in range(NFFT)])
    if not np.all(np.isfinite(psd[dist > 0])):
        bad.append(('finite/%s/%s' % (where, tag), 'infinite value away from the true frequencies'))
    far = dist > 1
    if far.any() and not psd[dist == 0].min() > psd[far].max():
        bad.append(('peaks/%s/%s' % (where, tag), 'a bin farther than one bin from every true frequency exceeds the value at a true frequency'))
    sep = min([circ(a, b, NFFT) for i, a in enumerate(bins) for b in bins[:i]] or [NFFT])
    if sep >= 2:
        lm = sorted(local_maxima(psd, True), key=lambda j: -psd[j])[:K]
        ok = len(lm) == K and all(dist[j] <= 1 for j in lm) and all(min(circ(j - offset, b, NFFT) for j in lm) <= 1 for b in bins)
        if not ok:
            bad.append(('peaks/%s/%s' % (where, tag), 'the K largest local maxima are at bins %r, true bins %r' % (sorted(int(j - offset) for j in lm), sorted(bins))))
    return bad


def check_noiseless(x, P, K, NFFT, bins, method, sampling=1.0):
    """all clauses of the property on one noiseless input; returns [(key, what)]"""
    from spectrum.eigenfre import eigen, pmusic, pev
    real = bool(np.isrealobj(x))
    tag = '%s/%s/%s' % (method, 'real' if real else 'complex', 'even' if NFFT % 2 == 0 else 'odd')
    bad = []
    psd, S = eigen(x, P, NSIG=K, NFFT=NFFT, method=method)
    psd = np.asarray(psd)
    if method == 'ev' and np.any(np.asarray(S)[K:] == 0):
        # D22 (repaired in b2427b9: EV floors the singular values at eps*S[0]): on exactly rank-deficient data LAPACK returns singular values
        # that are exactly 0.0; dividing by them gave abs(Z)**2/0 = inf (pseudo-spectrum 0) or 0/0 = nan.  If that comes back, every other EV
        # clause fails for the same reason, so exactly this one key is reported for such an input; otherwise the ordinary clauses follow.
        ok = not np.isnan(psd).any() and np.all(psd > 0)
        p = pev(x, P, NSIG=K, NFFT=NFFT, sampling=sampling); p()
        cp = np.asarray(p.psd, dtype=float)
        okc = not np.isnan(cp).any() and np.all(cp > 0)
        what = 'EV divides by a singular value that is exactly 0 (S = %r): pseudo-spectrum has %d NaN and %d non-positive entries'
        if not ok:
            bad.append(('ev_zero_singular_value/eigen', what % (np.asarray(S).tolist(), int(np.isnan(psd).sum()), int(np.sum(psd <= 0)))))
        if not okc:
            bad.append(('ev_zero_singular_value/pev', what % (np.asarray(S).tolist(), int(np.isnan(cp).sum()), int(np.sum(cp <= 0)))))
        if bad:
            return bad
    bad += check_peaks_vector(psd, bins, NFFT, NFFT // 2, tag, 'eigen')
    # singular values
    S0 = np.linalg.svd(build_fb(x, P), compute_uv=False)
    S = np.asarray(S, dtype=float)
    if len(S) != P or np.any(np.diff(S) > 0):
        bad.append(('svals_sorted/eigen/' + tag, 'singular values are not P values in non-increasing order'))
    elif not np.allclose(S, S0, rtol=1e-9, atol=1e-9 * S0[0]):
        bad.append(('svals_fb/eigen/' + tag, 'returned singular values are not those of the forward-backward data matrix of order P'))
    elif not (np.all(S[K:] <= 1e-9 * S[0]) and S[K - 1] > 1e-8 * S[0]):
        bad.append(('svals_rank/eigen/' + tag, 'not exactly K non-negligible singular values: %r' % (S / S[0]).tolist()))
    # class level, on the axis frequencies() reports
    cls = pmusic if method == 'music' else pev
    # the object is fresh or reached through a history (other data first, a non-default representation, staleness, scale_by_freq toggled):
    # derived from the case itself; the scaling only multiplies the pseudo-spectrum by a positive constant
    from props import _estimators as E
    route, sbf = E.route_for(x, P, K, NFFT, method)
    try:
        p = E.via(lambda d, n, s_, b: cls(d, P, NSIG=K, NFFT=n, sampling=s_, scale_by_freq=b), x, NFFT, sampling, sbf, route)
    except Exception:
        p = cls(x, P, NSIG=K, NFFT=NFFT, sampling=sampling, scale_by_freq=sbf); route = 'fresh'      # the OTHER record of the route is outside the estimator's domain
    if route == 'fresh':
        p()
    cp = np.asarray(p.psd, dtype=float); f = np.asarray(p.frequencies(), dtype=float)
    where = cls.__name__
    if len(cp) != len(f):
        bad.append(('axis_length/%s/%s' % (where, tag), 'len(psd) = %d but len(frequencies()) = %d' % (len(cp), len(f))))
        return bad
    fb = f * NFFT / sampling
    if np.max(np.abs(fb - np.round(fb))) > 1e-6:
        bad.append(('axis_grid/%s/%s' % (where, tag), 'frequencies() are not on the NFFT grid')); return bad
    fb = np.round(fb).astype(int)
    if not np.allclose(np.asarray(p.eigenvalues, dtype=float), S, rtol=1e-12, atol=0):
        bad.append(('svals_fb/%s/%s' % (where, tag), '.eigenvalues differ from eigen()'))
    if np.isnan(cp).any() or not np.all(cp > 0):
        bad.append(('positive/%s/%s' % (where, tag), 'psd has a NaN or a non-positive value')); return bad
    if not real:
        if len(cp) != NFFT:
            bad.append(('axis_length/%s/%s' % (where, tag), 'length %d instead of %d' % (len(cp), NFFT))); return bad
        # reorder by the reported bins and reuse the circular check
        order = np.argsort(fb % NFFT)
        if sorted((fb % NFFT).tolist()) != list(range(NFFT)):
            bad.append(('axis_grid/%s/%s' % (where, tag), 'frequencies() do not enumerate every bin once')); return bad
        bad += check_peaks_vector(cp[order], bins, NFFT, 0, tag, where)
    else:
        posb = sorted(b for b in bins if b > 0)
        dist = np.array([min(abs(int(b) - t) for t in posb) for b in fb])
        if not np.all(np.isfinite(cp[dist > 0])):
            bad.append(('finite/%s/%s' % (where, tag), 'infinite value away from the true frequencies'))
        hit = [np.where(fb == t)[0] for t in posb]
        if any(len(h) != 1 for h in hit):
            bad.append(('axis_grid/%s/%s' % (where, tag), 'a true positive frequency is not on the reported axis')); return bad
        far = dist > 1
        if far.any() and not min(cp[h[0]] for h in hit) > cp[far].max():
            bad.append(('peaks/%s/%s' % (where, tag), 'a one-sided bin far from every true frequency exceeds the value at a true frequency'))
        sep = min([abs(a - b) for i, a in enumerate(posb) for b in posb[:i]] or [NFFT])
        if sep >= 2:
            lm = sorted(local_maxima(cp, False), key=lambda j: -cp[j])[:len(posb)]
            if not (len(lm) == len(posb) and all(dist[j] <= 1 for j in lm) and all(min(abs(int(fb[j]) - t) for j in lm) <= 1 for t in posb)):
                bad.append(('peaks/%s/%s' % (where, tag), 'the K/2 largest one-sided local maxima are at bins %r, true %r' % (sorted(int(fb[j]) for j in lm), posb)))
    return bad


def check_pseudo_def(x, P, NFFT, method, kw, kwtag):
    """the pseudo-spectrum equals its definition (MUSIC unweighted, EV weighted by 1/S over the noise subspace chosen by the rule)"""
    from spectrum.eigenfre import eigen
    real = bool(np.isrealobj(x))
    with Tap() as tap:
        psd, S = eigen(x, P, NFFT=NFFT, method=method, **kw)
    if tap.nsig is None:
        if 'NSIG' not in kw or kw['NSIG'] is None:
            return None                       # the chosen dimension cannot be observed on this tree (reported as a broken correspondence)
        ns = int(kw['NSIG'])
    else:
        ns = int(tap.nsig)
    ref, S0, gap = pseudo_reference(x, P, ns, NFFT, method)
    ref_music = ref if method == 'music' else pseudo_reference(x, P, ns, NFFT, 'music')[0]
    if gap < 1e-3:
        return None
    tag = '%s/%s/%s' % (method, kwtag, 'real' if real else 'complex')
    psd = np.asarray(psd)
    if len(psd) != NFFT:
        return [('axis_length/eigen/' + tag, 'length %d instead of %d' % (len(psd), NFFT))]
    # the reference and the implementation run the same LAPACK routine on (what should be) the same matrix; the error is that of the sums
    kap = max(1.0, P * float(np.max(ref_music)) * ((P - ns) * max(S0[ns], EPS * S0[0]) / max(S0[-1], EPS * S0[0]) if method == 'ev' else 1.0))
    if kap > 1e5:
        return None
    if not np.allclose(psd, ref, rtol=1e-9 * kap, atol=0):
        return [('pseudo_def/eigen/' + tag, 'pseudo-spectrum differs from its definition (max relative deviation %.3g)' % float(np.max(np.abs(psd / ref - 1))))]
    return []


REJECTS = [
    ('nsig_negative', lambda P: dict(NSIG=-1)),
    ('nsig_eq_P', lambda P: dict(NSIG=P)),
    ('nsig_gt_P', lambda P: dict(NSIG=P + 3)),
    ('nsig_noninteger', lambda P: dict(NSIG=P - 1.5 if P >= 2 else 0.5)),
    ('nsig_and_threshold', lambda P: dict(NSIG=1 if P >= 2 else 0, threshold=2.0)),
    ('nsig_zero_and_threshold', lambda P: dict(NSIG=0, threshold=2.0)),          # the legal boundary value 0 is still an explicit dimension
    ('nsig_and_threshold_1', lambda P: dict(NSIG=max(P - 1, 0), threshold=1.0)),
    ('threshold_lt_1', lambda P: dict(threshold=0.5)),
    ('threshold_zero', lambda P: dict(threshold=0.0)),
    ('threshold_negative', lambda P: dict(threshold=-3.0)),
    ('threshold_just_below_1', lambda P: dict(threshold=0.999)),
    ('unknown_criterion', lambda P: dict(criteria='bic')),
]


def check_reject(x, P, NFFT, name, method, via):
    """out-of-range / mutually exclusive arguments must be rejected (any exception)"""
    from spectrum.eigenfre import eigen, pmusic, pev
    kw = dict(REJECTS)[name](P)
    try:
        if via == 'eigen':
            psd, S = eigen(x, P, NFFT=NFFT, method=method, **kw)
        else:
            p = (pmusic if method == 'music' else pev)(x, P, NFFT=NFFT, **kw); p(); psd = p.psd
    except Exception:
        return []
    psd = np.asarray(psd, dtype=float)
    return [('reject/%s/%s' % (name, via), '%s(%s) with %r is accepted (result finite: %s)' % (via, method, kw, bool(np.all(np.isfinite(psd)))))]


def check_exclusive(x, P, NFFT, method, kw):
    """when NSIG or a threshold is given the AIC/MDL rule plays no role"""
    from spectrum.eigenfre import eigen
    a, _ = eigen(x, P, NFFT=NFFT, method=method, criteria='aic', **kw)
    b, _ = eigen(x, P, NFFT=NFFT, method=method, criteria='mdl', **kw)
    if not np.array_equal(np.asarray(a), np.asarray(b)):
        return [('exclusive/criteria_used/%s' % ('nsig' if 'NSIG' in kw else 'threshold'), 'result depends on the criterion although %r was given' % kw)]
    return []


def check_wrappers(x, P, NFFT, kw):
    """music() / ev() are eigen() with the method fixed and every other argument passed through"""
    from spectrum.eigenfre import eigen, music, ev
    bad = []
    for name, f in (('music', music), ('ev', ev)):
        a, sa = f(x, P, NFFT=NFFT, **kw); b, sb = eigen(x, P, NFFT=NFFT, method=name, **kw)
        if not (np.array_equal(np.asarray(a), np.asarray(b), equal_nan=True) and np.array_equal(np.asarray(sa), np.asarray(sb))):
            bad.append(('wrapper/%s' % name, '%s(x, P, %r) differs from eigen(method=%r)' % (name, kw, name)))
    return bad


def replay(rep):
    if rep.get('replay', {}).get('form') == 'routes':
        from props import _estimators as E_
        return E_.replay_routes(rep['replay'])
    if rep['replay'].get('protocol') == 'values_only':
        from props import _purity
        return _purity.replay_protocol(rep['replay'])
    r = rep['replay']; kind = r['kind']
    x = vlib.unhexv(r['x'])
    if not r.get('complex', True):
        x = np.real(x)
    if kind == 'noiseless':
        return not check_noiseless(x, r['P'], r['K'], r['NFFT'], r['bins'], r['method'], r.get('sampling', 1.0))
    if kind == 'reject':
        return not check_reject(x, r['P'], r['NFFT'], r['name'], r['method'], r['via'])
    if kind == 'pseudo_def':
        return not check_pseudo_def(x, r['P'], r['NFFT'], r['method'], r['kw'], r['kwtag'])
    if kind == 'exclusive':
        return not check_exclusive(x, r['P'], r['NFFT'], r['method'], r['kw'])
    if kind == 'wrapper':
        return not check_wrappers(x, r['P'], r['NFFT'], r['kw'])
    raise ValueError('unknown replay kind %r' % kind)


# ----------------------------------------------------------------------------- literals
def lowbit(rng, n, cplx, bits=3):
    s = 1 << bits
    x = rng.integers(-s, s + 1, size=n).astype(float)
    if cplx:
        x = x + 1j * rng.integers(-s, s + 1, size=n)
    if not np.any(x):
        x[0] = 1
    return x


def nsig_lit(v):
    if v is None:
        return 'None'
    if isinstance(v, (int, np.integer)) and not isinstance(v, bool):
        return '(Some (NInt (%d)%%Z))' % int(v)
    z = math.floor(v)
    return '(Some (NFlt (%d)%%Z %s))' % (z, 'true' if v != z else 'false')


def opt_q(v):
    return 'None' if v is None else '(Some %s)' % cz(v)


def opt_f(v):
    return 'None' if v is None else '(Some %s)' % fc(v)


METH = {'music': 'MMusic', 'ev': 'MEv'}
FLOOR_MODES = ['zero', 'denormal', 'below', 'above', 'equal']
CRIT = {'aic': 'CAic', 'mdl': 'CMdl'}


def svd_spec_ok(FB, S, Vh):
    P = FB.shape[1]
    if len(S) != P or np.any(np.diff(S) > 0) or np.any(S < 0):
        return False
    s0 = max(S[0], 1e-300)
    if not np.allclose(Vh @ Vh.conj().T, np.eye(P), atol=1e-10):
        return False
    V = Vh.conj().T
    return bool(np.allclose(FB.conj().T @ FB @ V, V * (S ** 2), atol=1e-9 * s0 * s0))


# ----------------------------------------------------------------------------- the check
def run(ctx):
    from spectrum.eigenfre import eigen, pmusic, pev
    rng = ctx.rng
    ctx.check_theorems('Properties/C17.v')
    # the estimate an object holds does not depend on the history that gave it its data and settings (every route of _estimators.via)
    from props import _estimators as E_
    E_.class_route_stream(ctx, ['pmusic', 'pev'], 'routes')

    # ---------------- (1) forward-backward data matrix, exactly
    cases = []; meta = []
    shapes = []
    for P in range(1, 7):
        for N in sorted(set([(3 * P + 1) // 2, (3 * P + 1) // 2 + 1, 2 * P, 2 * P + 3, 2 * P + 9])):
            if 2 * (N - P) > P - 1:
                shapes.append((N, P))
    shapes += [(103, 2), (104, 3), (109, 2)][:ctx.q(2, 3)]
    for (N, P) in shapes:
        for cplx in (False, True):
            if N > 50 and not cplx:
                continue
            x = lowbit(rng, N, cplx)
            with Tap() as tap:
                eigen(x, P, NSIG=0, NFFT=max(P, 4))
            if tap.fb is None:
                # the tie through the observed data matrix is broken; the search below rebuilds FB itself and goes on
                if not any('cannot be observed' in b.get('theorem', '') for b in ctx.broken):
                    ctx.broken.append({'theorem': 'correspondence: FB matrix (eigen() no longer hands a data matrix to spectrum.eigenfre.svd: it cannot be observed)',
                                       'where': 'eigenfre.eigen', 'log': ''})
                continue
            fb = tap.fb
            cases.append('fb_case %s %d%%nat [%s]' % (czl(x), P, '; '.join(czl(row) for row in fb)))
            meta.append({'function': 'eigen (FB passed to svd)', 'x': vlib.hexv(x), 'P': P, 'N': N})
            ctx.count('fb/%s/%s' % ('complex' if cplx else 'real', 'truncated' if N - P > 100 else 'full'))
            ctx.case(('fb', x.tobytes(), P), nontrivial=(P >= 2), sample={'function': 'FB matrix', 'N': N, 'P': P, 'complex': cplx})
            if not svd_spec_ok(fb, tap.S, tap.Vh):
                ctx.broken.append({'theorem': 'svd-specification (numpy result does not meet S sorted / V unitary / FB^H FB V = V S^2)', 'where': 'N=%d P=%d' % (N, P), 'log': ''})
    for i in ctx.coq_cases('c17_fb', PRE_Q, cases, shard=12, descr='FB matrix handed to svd vs Model.Eigen.fb_matrix at QcC, zero tolerance'):
        ctx.corr_disagreement('fb_matrix', i, meta[i])

    # ---------------- (2) decision logic on the enumerated argument space
    cases = []; meta = []
    methods = ['music', 'ev', 'foo']
    crits = ['aic', 'mdl', 'foo']
    thrs = [None, -1.0, 0.0, 0.5, 1.0, 1.5, 2.0, 16.0, 1e6]
    sizes = [(20, 5, 16), (7, 5, 16), (8, 5, 16), (4, 5, 16), (20, 5, 4), (12, 1, 8), (130, 4, 8)]
    for si, (N, P, NFFT) in enumerate(sizes):
        nsigs = [None, -1, 0, 1, P - 1, P, P + 1, 2.0, 1.5, -0.5, P - 0.5, P + 0.5, float(P), -2.0]
        combos = [(m, ns, t, c) for m in methods for ns in nsigs for t in thrs for c in crits]
        if si > 0 and ctx.tier == 'quick':
            idx = rng.choice(len(combos), size=150, replace=False); combos = [combos[i] for i in sorted(idx)]
        cplx = bool(si % 2)
        x = rng.standard_normal(N) + (1j * rng.standard_normal(N) if cplx else 0)
        for (m, ns, t, c) in combos:
            kw = dict(method=m, NSIG=ns, threshold=t, criteria=c, NFFT=NFFT)
            err = None; got = 0
            with Tap() as tap:
                try:
                    eigen(x, P, **kw)
                except Exception as e:
                    err = classify(e)
                    if err is None:
                        err = 'unclassified: %r' % e
            S = tap.S if tap.S is not None else np.zeros(0)
            amin = 0
            reaches_crit = (ns is None and t is None and c in CRIT and tap.S is not None)
            if reaches_crit and len(S) > 1:
                amin, margin = crit_argmin(S, min(N - P, 100), c)
                if amin is None or margin < 1e-9:
                    ctx.count('dec/regenerated_criterion_tie'); continue
            if t is not None and ns is None and tap.S is not None and len(S):
                mth = t * S.min()
                if np.any((np.abs(S - mth) <= 1e-12 * max(abs(mth), 1e-300)) & (S != mth)):
                    ctx.count('dec/regenerated_threshold_tie'); continue
            if err is None:
                if not tap.gss_called:
                    if not any('_get_signal_space' in b.get('theorem', '') for b in ctx.broken):
                        ctx.broken.append({'theorem': 'correspondence: decisions (eigen() no longer calls _get_signal_space: the chosen NSIG cannot be observed)',
                                           'where': 'eigenfre.eigen', 'log': ''})
                    continue
                got = int(tap.nsig)
                exp = 'None'
            elif err in ERRS:
                exp = '(Some %s)' % err
            else:
                exp = None
            ctx.count('dec/%s' % (err if err in ERRS else ('ok' if err is None else 'unclassified')))
            info = {'function': 'eigen (decisions)', 'x': vlib.hexv(x), 'P': P, 'N': N, 'kw': {k: (v if not isinstance(v, float) else float(v)) for k, v in kw.items()}, 'impl': err or ('NSIG=%d' % got)}
            ctx.case(('dec', si, m, repr(ns), t, c), nontrivial=True, sample=None)
            if exp is None:
                cases.append('false'); meta.append(info); continue
            cases.append('dec_case %s %s %s %s %d%%nat %d%%nat %d%%nat %d%%nat %s %s %d%%nat' % (
                METH.get(m, 'MOther'), nsig_lit(ns), opt_q(t), CRIT.get(c, 'COther'), amin, N, P, NFFT, czl(S), exp, got))
            meta.append(info)
    for i in ctx.coq_cases('c17_decide', PRE_Q, cases, shard=250, descr='method/NSIG/threshold/criteria/N/P/NFFT decisions and every rejection (error enum) vs Model.Eigen.eigen_nsig at QcC'):
        ctx.corr_disagreement('eigen_nsig', i, meta[i])

    # ---------------- (3) pseudo-spectrum and class pipelines in binary64, given numpy's (S, Vh)
    cases = []; meta = []
    want = ctx.q(80, 400)
    tries = 0; nfloor = 0
    while len(cases) < want and tries < 20 * want:
        tries += 1
        cplx = bool(rng.integers(0, 2)); P = int(rng.integers(2, 9)); N = int(rng.integers(2 * P, 2 * P + 20))
        NFFT = int(rng.integers(max(P, 8), 41)); m = str(rng.choice(['music', 'ev']))
        n = np.arange(N)
        x = rng.standard_normal(N) + (1j * rng.standard_normal(N) if cplx else 0)
        if rng.integers(0, 2):
            f = rng.uniform(0.05, 0.45)
            x = x * 0.3 + (np.exp(2j * np.pi * f * n) if cplx else np.cos(2 * np.pi * f * n))
        mode = str(rng.choice(['nsig', 'nsig', 'threshold', 'criteria']))
        if mode == 'nsig':
            kw = dict(NSIG=int(rng.integers(0, P)))
        elif mode == 'threshold':
            kw = dict(threshold=float(rng.choice([1.0, 2.0, 4.0])))
        else:
            kw = dict(criteria=str(rng.choice(['aic', 'mdl'])))
        sampling = float(rng.choice([1.0, 2.0, 1024.0])); sbf = bool(rng.integers(0, 2))
        # D22: a third of the explicit-NSIG cases continue after the SVD with exactly-zero / denormal / at-the-floor singular values
        floor_mode = None
        if mode == 'nsig' and len(cases) % 2 == 0:
            floor_mode = FLOOR_MODES[nfloor % len(FLOOR_MODES)]; m = 'music' if nfloor % 11 == 10 else 'ev'
        ntail = int(rng.integers(1, P)); dn = float(rng.choice([5e-324, 1e-310, 2.5e-308]))

        def override(Sv, floor_mode=floor_mode, ntail=ntail, dn=dn):
            Sv = np.array(Sv, dtype=float); fl0 = EPS * Sv[0]
            val = {'zero': 0.0, 'denormal': dn, 'below': fl0 * (1 - 2.0 ** -10), 'above': fl0 * (1 + 2.0 ** -10), 'equal': fl0}[floor_mode]
            Sv[len(Sv) - ntail:] = val
            return Sv
        with Tap(override if floor_mode else None) as tap:
            psd, S = eigen(x, P, NFFT=NFFT, method=m, **kw)
            if tap.nsig is None:
                if not any('_get_signal_space' in b.get('theorem', '') for b in ctx.broken):
                    ctx.broken.append({'theorem': 'correspondence: decisions (eigen() no longer calls _get_signal_space: the chosen NSIG cannot be observed)',
                                       'where': 'eigenfre.eigen', 'log': ''})
                continue
            ns = int(tap.nsig); S1 = tap.S; Vh1 = tap.Vh; fb1 = tap.fb
            p = (pmusic if m == 'music' else pev)(x, P, NFFT=NFFT, sampling=sampling, scale_by_freq=sbf, **kw); p()
            S2 = tap.S; Vh2 = tap.Vh
        if S1 is None or Vh1 is None or fb1 is None:
            continue                              # svd not observable on this tree (reported above as a broken correspondence)
        if not (np.array_equal(S1, S2) and np.array_equal(Vh1, Vh2)):
            ctx.count('psd/regenerated_svd_not_reproducible'); continue
        if floor_mode is None and not svd_spec_ok(fb1, S1, Vh1):
            ctx.broken.append({'theorem': 'svd-specification (numpy result does not meet S sorted / V unitary / FB^H FB V = V S^2)', 'where': 'N=%d P=%d' % (N, P), 'log': ''})
        amin = 0
        if mode == 'criteria':
            amin, margin = crit_argmin(S1, min(N - P, 100), kw['criteria'])
            if amin is None or margin < 1e-9:
                ctx.count('psd/regenerated_criterion_tie'); continue
        if mode == 'threshold':
            mth = kw['threshold'] * S1.min()
            if np.any((np.abs(S1 - mth) <= 1e-12 * abs(mth)) & (S1 != mth)):
                ctx.count('psd/regenerated_threshold_tie'); continue
        # each term w_I |Z_I|^2 carries an absolute error ~ ulp * P * w_I: condition = P * sum(w) / min_k D_k
        Dw = np.zeros(NFFT); wsum = 0.0
        with np.errstate(all='ignore'):
            for I in range(ns, P):
                w = 1.0 / max(S1[I], EPS * S1[0]) if m == 'ev' else 1.0
                Dw += w * np.abs(np.fft.fft(-Vh1[I], NFFT)) ** 2; wsum += w
            kap = P * wsum / max(Dw.min(), 1e-300) if wsum > 0 else 1.0
        if not np.isfinite(kap) or kap > 1e4 or not np.all(np.isfinite(psd)) or not np.all(np.isfinite(p.psd)):
            ctx.count('psd/regenerated_illconditioned'); continue
        tol = 1e-9 * max(1.0, kap)
        tbl = [cmath.exp(-2j * cmath.pi * j / NFFT) for j in range(NFFT)]
        isreal = (p.datatype == 'real')
        scale = opt_f(2 * np.pi / p.df) if sbf else 'None'
        cases.append('psd_case %s %s %s %s %s %s %s %s %d%%nat %s %d%%nat %d%%nat %d%%nat %s [%s] %s %s' % (
            fl(tol), METH[m], fc(EPS), 'true' if isreal else 'false', scale, nsig_lit(kw.get('NSIG')), opt_f(kw.get('threshold')),
            CRIT[kw.get('criteria', 'aic')], amin, fcl(tbl), NFFT, N, P, fcl(S1), '; '.join(fcl(r) for r in Vh1),
            fcl(psd), fcl(p.psd)))
        meta.append({'function': 'eigen + ' + type(p).__name__, 'x': vlib.hexv(x), 'P': P, 'NFFT': NFFT, 'method': m, 'kw': kw, 'sampling': sampling, 'scale_by_freq': sbf,
                     'singular_values_after_svd': floor_mode or 'numpy', 'S': vlib.hexv(S1)})
        ctx.count('psd/%s/%s/%s/%s' % (m, 'complex' if cplx else 'real', 'even' if NFFT % 2 == 0 else 'odd', mode))
        if floor_mode:
            ctx.count('psd/floor/%s/%s' % (floor_mode, m)); nfloor += 1
        ctx.case(('psd', x.tobytes(), P, NFFT, m, repr(kw)), nontrivial=(P >= 3), sample={'function': 'eigen/' + type(p).__name__, 'N': N, 'P': P, 'NFFT': NFFT, 'method': m, 'kw': repr(kw)})
    for i in ctx.coq_cases('c17_pseudo', PRE_F, cases, shard=10, descr='eigen() and pmusic/pev .psd vs Model.Eigen.eigen / pclass in binary64 given numpy (S, Vh)'):
        ctx.corr_disagreement('eigen/pclass', i, meta[i])

    # ---------------- (4) search on the implementation
    def rep(kind, x, **kw):
        d = {'kind': kind, 'x': vlib.hexv(np.asarray(x, dtype=complex)), 'complex': bool(np.iscomplexobj(x))}
        d.update(kw); return d

    nsearch = ctx.q(350, 5000)
    done = 0
    while done < nsearch:
        K = int(rng.integers(1, 9)); P = int(rng.integers(K + 1, 17)); N = int(rng.integers(2 * P, 129))
        real = bool(rng.integers(0, 2)) and K % 2 == 0
        NFFT = int(rng.integers(max(P, 2 * K + 2), ctx.q(160, 300)))
        if done % 7 == 0:
            NFFT = max(P, 2 * K + 2) + int(rng.integers(0, 3))          # small grids: NFFT close to P
        if done % 11 == 0:
            N = int(rng.integers(max(2 * P, 101 + P), 129)) if 101 + P <= 128 else N   # NP > 100 truncation
        x, bins = make_signal(rng, K, N, NFFT, real)
        if done % 5 == 4:
            x = x * float(10.0 ** int(rng.choice([-30, -18, -12, -6, 6, 12, 18])))     # every clause is invariant under the unit of the data
        S0 = np.linalg.svd(build_fb(x, P), compute_uv=False)
        if S0[0] / max(S0[K - 1], 1e-300) > 1e7:
            ctx.count('search/regenerated_illconditioned'); continue
        done += 1
        sampling = float(rng.choice([1.0, 1.0, 8.0, 1000.0]))
        for m in ('music', 'ev'):
            ctx.count('search/noiseless/%s/%s/%s' % (m, 'real' if real else 'complex', 'even' if NFFT % 2 == 0 else 'odd'))
            ctx.case(('noiseless', x.tobytes(), P, K, NFFT, m), nontrivial=(K >= 2 or P >= 3),
                     sample={'function': 'eigen/pmusic/pev (search)', 'K': K, 'P': P, 'N': N, 'NFFT': NFFT, 'bins': bins, 'real': real, 'method': m})
            try:
                bad = check_noiseless(x, P, K, NFFT, bins, m, sampling)
            except Exception as e:
                bad = [('raises/%s/%s' % (m, 'real' if real else 'complex'), 'raised %r on a valid noiseless input' % e)]
            for key, what in bad:
                ctx.violation(key, what, rep('noiseless', x, P=P, K=K, NFFT=NFFT, bins=bins, method=m, sampling=sampling))

    # exactly representable noiseless data (exactly rank-deficient FB): constant, alternating, quarter-rate tones
    n16 = np.arange(24)
    for name, x, bins, K in (('constant', np.ones(24, dtype=complex), [0], 1), ('constant_c', np.full(24, 2.5 + 1j), [0], 1),
                             ('alternating', ((-1.0) ** n16).astype(complex), [8], 1), ('quarter_c', 1j ** n16, [4], 1),
                             ('quarter_real', np.cos(2 * np.pi * n16 / 4), [4, -4], 2), ('dc_plus_quarter', 1j ** n16 + 1, [4, 0], 2)):
        for P in range(K + 1, 10):
            for m in ('music', 'ev'):
                ctx.count('search/exact_data/%s/%s' % (name, m)); ctx.case(('exact', name, P, m), nontrivial=True)
                try:
                    bad = check_noiseless(x, P, K, 16, bins, m, 1.0)
                except Exception as e:
                    bad = [('raises/%s/exact_data' % m, 'raised %r on a valid noiseless input' % e)]
                for key, what in bad:
                    ctx.violation(key, what, rep('noiseless', x, P=P, K=K, NFFT=16, bins=bins, method=m, sampling=1.0))

    for it in range(ctx.q(40, 300)):
        cplx = bool(rng.integers(0, 2)); P = int(rng.integers(2, 13)); N = int(rng.integers(2 * P, 100)); NFFT = int(rng.integers(P, 80))
        x = rng.standard_normal(N) + (1j * rng.standard_normal(N) if cplx else 0)
        if it % 2:
            x = x * 0.2 + (np.exp(2j * np.pi * 0.21 * np.arange(N)) if cplx else np.cos(2 * np.pi * 0.21 * np.arange(N)))
        m = ('music', 'ev')[it % 2]
        for name, _ in REJECTS:
            via = ('eigen', 'class')[(it + len(name)) % 2]
            ctx.count('search/reject/' + name); ctx.case(('reject', x.tobytes(), P, name, m, via), nontrivial=True)
            for key, what in check_reject(x, P, NFFT, name, m, via):
                ctx.violation(key, what, rep('reject', x, P=P, NFFT=NFFT, name=name, method=m, via=via))
        for kwtag, kw in (('nsig', dict(NSIG=int(rng.integers(0, P)))), ('threshold', dict(threshold=float(rng.choice([1.0, 1.5, 3.0])))),
                          ('criteria', dict(criteria=str(rng.choice(['aic', 'mdl']))))):
            for mm in ('music', 'ev'):
                ctx.count('search/pseudo_def/%s/%s' % (mm, kwtag)); ctx.case(('pdef', x.tobytes(), P, NFFT, mm, repr(kw)), nontrivial=(P >= 3))
                bad = check_pseudo_def(x, P, NFFT, mm, kw, kwtag)
                if bad is None:
                    ctx.count('search/pseudo_def/skipped_illconditioned'); continue
                for key, what in bad:
                    ctx.violation(key, what, rep('pseudo_def', x, P=P, NFFT=NFFT, method=mm, kw=kw, kwtag=kwtag))
            if kwtag != 'criteria':
                for key, what in check_exclusive(x, P, NFFT, m, kw):
                    ctx.violation(key, what, rep('exclusive', x, P=P, NFFT=NFFT, method=m, kw=kw))
            ctx.count('search/wrapper/' + kwtag); ctx.case(('wrapper', x.tobytes(), P, NFFT, repr(kw)), nontrivial=(P >= 3))
            for key, what in check_wrappers(x, P, NFFT, kw):
                ctx.violation(key, what, rep('wrapper', x, P=P, NFFT=NFFT, kw=kw))

    # ---------------- results depend on the VALUES given only: call protocol (repeat, aliasing, buffer reuse, memory layout, integer / single-precision dtypes)
    from props import _purity
    _purity.run_protocol(ctx, ['eigen_music', 'eigen_ev'])
