"""Fail-closed `ast` translator of the PSD classes' pipelines (DESIGN.md 2.3(b), Appendix A).

For every PSD class (Periodogram, pcorrelogram, pburg, pyule, pcovar, pmodcovar, parma, pma, pminvar,
pmusic, pev, MultiTapering, pdaniell) it reads `__call__` / `__init__` and extracts

  * the parameter estimator (arburg, aryule, ...) and the functional estimator producing the PSD array
    (speriodogram, CORRELOGRAMPSD, arma2psd, minvar, eigen, pmtm, DaniellPeriodogram), with the attribute every parameter is fed from,
  * what reaches the functional estimator's `scale_by_freq` and `sampling`/`T` parameters, and -- read off the
    functional estimator's own source -- whether it applies 2*pi/df itself and how its value depends on the sampling,
  * the attributes stored besides `psd`, the real-data slice and doubling, flips, the complex-data store,
  * every call of `self.scale()`: unguarded / under `if self.scale_by_freq is True`, per datatype, in order,
  * `self.modified = False`, the return value, the default of `scale_by_freq`, what `__init__` hands to the base class;

from psd.py: `Spectrum.scale`, `df`, the sampling / NFFT / psd setters, `Range` and its three generators.

Any statement outside the recognised shapes raises `Fail` (the caller reports the tie as broken).
`extract(src)` returns plain dicts; `gallina(tab)` renders them as the table read by coq/Model/PipelineLib.v.
Reusable: C02/C03/C04/C05/C15 import `extract`, `gallina`, `describe`, `CLASSES`, `COQ_CLS` (object factory: _c08_objects.py).
"""
import ast
import os


class Fail(Exception):
    pass


CLASSES = [('Periodogram', 'periodogram.py'), ('pcorrelogram', 'correlog.py'), ('pburg', 'burg.py'),
           ('pyule', 'yulewalker.py'), ('pcovar', 'covar.py'), ('pmodcovar', 'modcovar.py'),
           ('parma', 'arma.py'), ('pma', 'arma.py'), ('pminvar', 'minvar.py'), ('pmusic', 'eigenfre.py'),
           ('pev', 'eigenfre.py'), ('MultiTapering', 'mtm.py'), ('pdaniell', 'periodogram.py')]
COQ_CLS = {'Periodogram': 'Periodogram', 'pcorrelogram': 'Pcorrelogram', 'pburg': 'Pburg', 'pyule': 'Pyule',
           'pcovar': 'Pcovar', 'pmodcovar': 'Pmodcovar', 'parma': 'Parma', 'pma': 'Pma', 'pminvar': 'Pminvar',
           'pmusic': 'Pmusic', 'pev': 'Pev', 'MultiTapering': 'MultiTapering', 'pdaniell': 'Pdaniell'}
# functional estimators (produce the PSD array) and where they are defined
FESTIM = {'speriodogram': ('periodogram.py', 'FSperiodogram'), 'CORRELOGRAMPSD': ('correlog.py', 'FCorrelogrampsd'),
          'arma2psd': ('arma.py', 'FArma2psd'), 'minvar': ('minvar.py', 'FMinvar'),
          'eigen': ('eigenfre.py', 'FEigen'), 'pmtm': ('mtm.py', 'FPmtm'), 'DaniellPeriodogram': ('periodogram.py', 'FDaniell')}
# which element of the functional estimator's return value is the PSD-like array
FESTIM_RESULT = {'speriodogram': None, 'CORRELOGRAMPSD': None, 'arma2psd': None, 'minvar': 0, 'eigen': 0, 'pmtm': 0,
                 'DaniellPeriodogram': 0}
PARAM_EST = {'arburg': 'burg.py', 'aryule': 'yulewalker.py', 'arcovar': 'covar.py', 'modcovar': 'modcovar.py',
             'arma_estimate': 'arma.py', 'ma': 'arma.py'}
BASES = {'FourierSpectrum': 'BFourier', 'ParametricSpectrum': 'BParametric', 'Spectrum': 'BSpectrum'}
FORBIDDEN_ATTRS = ('sampling', 'scale_by_freq', 'df', 'scale', '_range', 'range')


def U(n):
    return ast.unparse(n).replace('\n', ' ')


def nospace(n):
    return U(n).replace(' ', '')


def _parse(src, fn):
    with open(os.path.join(src, fn)) as f:
        return ast.parse(f.read())


def _find(tree, kind, name):
    hits = [n for n in tree.body if isinstance(n, kind) and n.name == name]
    if len(hits) != 1:
        raise Fail('%s %s: found %d definitions' % (kind.__name__, name, len(hits)))
    return hits[0]


def _method(cls, name):
    hits = [n for n in cls.body if isinstance(n, ast.FunctionDef) and n.name == name]
    if len(hits) != 1:
        raise Fail('%s.%s: found %d definitions' % (cls.name, name, len(hits)))
    return hits[0]


def _strip_doc(body):
    return [s for s in body if not (isinstance(s, ast.Expr) and isinstance(s.value, ast.Constant) and isinstance(s.value.value, str))]


def is_self_attr(n, attr=None):
    return isinstance(n, ast.Attribute) and isinstance(n.value, ast.Name) and n.value.id == 'self' and (attr is None or n.attr == attr)


def bind_call(call, fdef, what):
    """map the call's arguments onto the parameters of fdef: {param: ('expr', node) | ('default', node)}"""
    a = fdef.args
    if a.vararg or a.kwarg or a.kwonlyargs or a.posonlyargs:
        raise Fail('%s: unsupported signature' % what)
    names = [x.arg for x in a.args]
    defaults = dict(zip(names[len(names) - len(a.defaults):], a.defaults))
    out = {}
    if len(call.args) > len(names):
        raise Fail('%s: too many positional arguments' % what)
    for nm, v in zip(names, call.args):
        if isinstance(v, ast.Starred):
            raise Fail('%s: starred argument' % what)
        out[nm] = ('expr', v)
    for kw in call.keywords:
        if kw.arg is None or kw.arg not in names or kw.arg in out:
            raise Fail('%s: bad keyword %r' % (what, kw.arg))
        out[kw.arg] = ('expr', kw.value)
    for nm in names:
        if nm not in out:
            if nm not in defaults:
                raise Fail('%s: parameter %s not supplied' % (what, nm))
            out[nm] = ('default', defaults[nm])
    return names, out


def arg_strings(names, bound):
    return [(nm, (U(bound[nm][1]) if bound[nm][0] == 'expr' else 'default:' + U(bound[nm][1]))) for nm in names]


# ------------------------------------------------------------------ functional estimators
def _names_used(node, ids):
    return [n for n in ast.walk(node) if isinstance(n, ast.Name) and n.id in ids]


def analyse_festim(src, fname):
    """how the functional estimator uses its sampling / scale_by_freq parameters.
    returns dict(fscale, fsamp (or per-branch dict for arma2psd), samp_param, flag_param, def)"""
    fn, _ = FESTIM[fname]
    fdef = _find(_parse(src, fn), ast.FunctionDef, fname)
    params = [a.arg for a in fdef.args.args]
    info = {'def': fdef, 'flag_param': None, 'samp_param': None, 'fscale': 'FsNone', 'fsamp': 'UseNone', 'branches': None}
    body = _strip_doc(fdef.body)
    if fname == 'speriodogram':
        if 'sampling' not in params or 'scale_by_freq' not in params:
            raise Fail('speriodogram: parameters sampling / scale_by_freq expected')
        info['flag_param'] = 'scale_by_freq'; info['samp_param'] = 'sampling'
        blocks = [s for s in body if isinstance(s, ast.If) and _names_used(s.test, ('scale_by_freq',))]
        if len(blocks) > 1:
            raise Fail('speriodogram: more than one block testing scale_by_freq')
        allowed = set()
        if blocks:
            b = blocks[0]
            if nospace(b.test) not in ('scale_by_freqisTrue', 'scale_by_freq==True') or b.orelse:
                raise Fail('speriodogram: unrecognised test ' + U(b.test))
            if [nospace(s) for s in b.body] != ['df=sampling/float(NFFT)', 'res*=2*np.pi/df']:
                raise Fail('speriodogram: unrecognised scaling block: ' + '; '.join(U(s) for s in b.body))
            info['fscale'] = 'FsIfFlag'
            allowed = set(id(n) for n in ast.walk(b))
            # the scaled array must be what is returned
            rets = [s for s in ast.walk(fdef) if isinstance(s, ast.Return)]
            if not rets or any(nospace(r.value) not in ('res.transpose()', 'res') for r in rets):
                raise Fail('speriodogram: return value is not res')
            if body.index(b) > min(body.index(s) for s in body if any(isinstance(r, ast.Return) for r in ast.walk(s))):
                raise Fail('speriodogram: scaling after return')
        stray = [n for n in _names_used(fdef, ('sampling', 'scale_by_freq', 'df')) if id(n) not in allowed]
        if stray:
            raise Fail('speriodogram: sampling/scale_by_freq/df used outside the scaling block (line %d)' % stray[0].lineno)
        if any(isinstance(n, ast.Attribute) and n.attr == 'pi' and id(n) not in allowed for n in ast.walk(fdef)):
            raise Fail('speriodogram: pi used outside the scaling block')
    elif fname == 'arma2psd':
        if 'T' not in params or 'rho' not in params:
            raise Fail('arma2psd: parameters rho, T expected')
        info['samp_param'] = 'T'
        chain = [s for s in body if isinstance(s, ast.If) and nospace(s.test) == 'AisnotNoneandBisnotNone']
        if len(chain) != 1:
            raise Fail('arma2psd: the if/elif chain on A, B was not found')
        c = chain[0]
        br = {}
        try:
            e1 = c.orelse[0]; e2 = e1.orelse[0]
            if nospace(e1.test) != 'AisnotNone' or nospace(e2.test) != 'BisnotNone' or e2.orelse or len(c.orelse) != 1 or len(e1.orelse) != 1:
                raise Fail('arma2psd: unrecognised elif chain')
            for key, blk in (('ARMA', c.body), ('AR', e1.body), ('MA', e2.body)):
                if len(blk) != 1 or not isinstance(blk[0], ast.Assign) or nospace(blk[0].targets[0]) != 'psd':
                    raise Fail('arma2psd: branch %s is not a single assignment to psd' % key)
                br[key] = blk[0].value
        except IndexError:
            raise Fail('arma2psd: unrecognised elif chain')
        shapes = {'ARMA': {'rho/T*abs(numf)**2.0/abs(denf)**2.0': 'UseDiv', 'rho*T*abs(numf)**2.0/abs(denf)**2.0': 'UseMul', 'rho*abs(numf)**2.0/abs(denf)**2.0': 'UseNone'},
                  'AR': {'rho/T/abs(denf)**2.0': 'UseDiv', 'rho*T/abs(denf)**2.0': 'UseMul', 'rho/abs(denf)**2.0': 'UseNone'},
                  'MA': {'rho/T*abs(numf)**2.0': 'UseDiv', 'rho*T*abs(numf)**2.0': 'UseMul', 'rho*abs(numf)**2.0': 'UseNone'}}
        info['branches'] = {}
        allowed = set()
        for key, v in br.items():
            sh = nospace(v)
            if sh not in shapes[key]:
                raise Fail('arma2psd: unrecognised %s expression %s' % (key, U(v)))
            info['branches'][key] = shapes[key][sh]
            allowed |= set(id(n) for n in ast.walk(v))
        stray = [n for n in _names_used(fdef, ('T',)) if id(n) not in allowed]
        if stray:
            raise Fail('arma2psd: T used outside the three spectrum expressions (line %d)' % stray[0].lineno)
        # after the chain only real(), the sides conversion and the normalisation may touch psd
        after = body[body.index(c) + 1:]
        ok_after = ['psd=np.real(psd)', "ifsides!='default':from.importtoolsassertsidesin['centerdc']ifsides=='centerdc':psd=tools.twosided_2_centerdc(psd)",
                    'ifnorm==True:psd/=max(psd)', 'returnpsd']
        if [nospace(s) for s in after] != ok_after:
            raise Fail('arma2psd: unrecognised statements after the spectrum expressions: ' + ' | '.join(U(s)[:60] for s in after))
        if any(isinstance(n, ast.Attribute) and n.attr == 'pi' for n in ast.walk(fdef)):
            raise Fail('arma2psd: pi is used')
    elif fname == 'minvar':
        if 'sampling' not in params:
            raise Fail('minvar: parameter sampling expected')
        info['samp_param'] = 'sampling'
        uses = _names_used(fdef, ('sampling',))
        stm = [s for s in body if isinstance(s, ast.Assign) and _names_used(s, ('sampling',))]
        if len(uses) == 0:
            info['fsamp'] = 'UseNone'
        elif len(uses) == 1 and len(stm) == 1 and nospace(stm[0]) == 'PSD=sampling/np.real(psi)':
            info['fsamp'] = 'UseMul'
        elif len(uses) == 1 and len(stm) == 1 and nospace(stm[0]) in ('PSD=1.0/sampling/np.real(psi)', 'PSD=1.0/(sampling*np.real(psi))', 'PSD=1/sampling/np.real(psi)'):
            info['fsamp'] = 'UseDiv'
        else:
            raise Fail('minvar: unrecognised use of sampling')
        if not (isinstance(body[-1], ast.Return) and nospace(body[-1].value).lstrip('(').startswith('PSD,')):
            raise Fail('minvar: return value is not (PSD, ...)')
        if any(isinstance(n, ast.Attribute) and n.attr == 'pi' for n in ast.walk(fdef)) or _names_used(fdef, ('scale_by_freq', 'df')):
            raise Fail('minvar: pi / scale_by_freq / df is used')
    elif fname == 'DaniellPeriodogram':
        # a linear smoothing of speriodogram(...): sampling / scale_by_freq are handed through unchanged and are
        # otherwise used only for the second return value (the frequency vector)
        if 'sampling' not in params or 'scale_by_freq' not in params:
            raise Fail('DaniellPeriodogram: parameters sampling / scale_by_freq expected')
        info['flag_param'] = 'scale_by_freq'; info['samp_param'] = 'sampling'
        first = body[0]
        if not (isinstance(first, ast.Assign) and nospace(first.targets[0]) == 'psd' and isinstance(first.value, ast.Call) and nospace(first.value.func) == 'speriodogram'):
            raise Fail('DaniellPeriodogram: does not start with psd = speriodogram(...)')
        kws = dict((k.arg, nospace(k.value)) for k in first.value.keywords)
        if [nospace(a) for a in first.value.args] != ['data'] or any(kws.get(k) != k for k in ('NFFT', 'sampling', 'scale_by_freq')):
            raise Fail('DaniellPeriodogram: NFFT / sampling / scale_by_freq are not handed through to speriodogram')
        allowed = set(id(n) for n in ast.walk(first))
        for st in ast.walk(fdef):
            if isinstance(st, ast.Assign) and len(st.targets) == 1 and nospace(st.targets[0]) in ('freq', 'df') and st is not first:
                allowed |= set(id(n) for n in ast.walk(st))
        stray = [n for n in _names_used(fdef, ('sampling', 'scale_by_freq', 'df')) if id(n) not in allowed]
        if stray:
            raise Fail('DaniellPeriodogram: sampling/scale_by_freq/df used in an unrecognised position (line %d)' % stray[0].lineno)
        if any(isinstance(n, ast.Attribute) and n.attr == 'pi' for n in ast.walk(fdef)):
            raise Fail('DaniellPeriodogram: pi is used')
        if not (isinstance(body[-1], ast.Return) and nospace(body[-1].value).lstrip('(').startswith('newpsd,')):
            raise Fail('DaniellPeriodogram: return value is not (newpsd, ...)')
        ret_ids = set(id(n) for n in ast.walk(body[-1]))
        if any(isinstance(n.ctx, ast.Load) and id(n) not in ret_ids for n in _names_used(fdef, ('freq', 'df'))):
            raise Fail('DaniellPeriodogram: freq / df feed back into the spectrum')
        inner = analyse_festim(src, 'speriodogram')
        info['fscale'] = inner['fscale']; info['fsamp'] = inner['fsamp']
    else:
        for bad in ('sampling', 'scale_by_freq', 'T', 'df'):
            if bad in params and not (fname == 'pmtm' and bad == 'T'):
                raise Fail('%s: unexpected parameter %s' % (fname, bad))
        if _names_used(fdef, ('sampling', 'scale_by_freq', 'df')):
            raise Fail('%s: sampling / scale_by_freq / df is used' % fname)
    return info


# ------------------------------------------------------------------ __call__
def _slice_pat(node, what):
    """X[0:int(self.NFFT/2+1)] * k  /  X[0:int((self.NFFT+1)/2)] * k  ->  (hiexpr, k, source-of-X)"""
    if isinstance(node, ast.BinOp) and isinstance(node.op, ast.Mult) and isinstance(node.right, ast.Constant) \
            and isinstance(node.right.value, int) and not isinstance(node.right.value, bool) and node.right.value >= 0:
        sub = node.left
        if isinstance(sub, ast.Subscript) and isinstance(sub.slice, ast.Slice) and sub.slice.step is None:
            lo = nospace(sub.slice.lower) if sub.slice.lower is not None else '0'
            hi = nospace(sub.slice.upper) if sub.slice.upper is not None else ''
            if lo == '0' and hi == 'int(self.NFFT/2+1)':
                return ('HalfPlus1', node.right.value, sub.value)
            if lo == '0' and hi == 'int((self.NFFT+1)/2)':
                return ('HalfUp', node.right.value, sub.value)
    raise Fail('%s: unrecognised real-data slice %s' % (what, U(node)))


class _CallWalker:
    def __init__(self, src, cname, festims):
        self.src = src; self.c = cname; self.festims = festims
        self.raw = set()          # source strings (local names / self.attr) holding the functional result
        self.half = {}            # local name -> (he, ho, factor)
        self.info = {'param_est': '', 'param_args': [], 'est': None, 'est_args': [], 'flag': 'FlagNoParam', 'samp': 'SampNoParam',
                     'fscale': 'FsNone', 'fsamp': 'UseNone', 'post': [], 'stores': [], 'real': None, 'cplx': None,
                     'scale_real': [], 'scale_cplx': [], 'modified_false': False, 'returns_self': False, 'imports': []}
        self.done = False
        self.result_holder = None  # name holding a tuple-like functional result (res = minvar(...))

    def fail(self, msg):
        raise Fail('%s.__call__: %s' % (self.c, msg))

    # -- helpers
    def check_clean(self, node, allow=()):
        """no reference to sampling / scale_by_freq / df / scale() / pi outside the recognised positions"""
        for n in ast.walk(node):
            if id(n) in allow:
                continue
            if is_self_attr(n) and n.attr in FORBIDDEN_ATTRS:
                self.fail('self.%s used in an unrecognised position: %s' % (n.attr, U(node)[:80]))
            if isinstance(n, ast.Attribute) and n.attr == 'pi':
                self.fail('pi used: ' + U(node)[:80])

    def fcall(self, call):
        """a call of a known function -> (kind, name) or None"""
        f = call.func
        nm = f.id if isinstance(f, ast.Name) else (f.attr if isinstance(f, ast.Attribute) and isinstance(f.value, ast.Name) else None)
        if nm in FESTIM:
            return ('festim', nm)
        if nm in PARAM_EST:
            return ('param', nm)
        return None

    def do_festim(self, nm, call, targets):
        if self.info['est'] is not None:
            self.fail('second functional estimator call')
        fi = self.festims[nm]
        names, bound = bind_call(call, fi['def'], '%s.__call__ -> %s' % (self.c, nm))
        self.info['est'] = FESTIM[nm][1]; self.info['est_name'] = nm
        self.info['est_args'] = arg_strings(names, bound)
        allow = set()
        # flag
        if fi['flag_param']:
            k, v = bound[fi['flag_param']]
            if k == 'expr' and is_self_attr(v, 'scale_by_freq'):
                self.info['flag'] = 'FlagSelf'; allow |= set(id(x) for x in ast.walk(v))
            elif isinstance(v, ast.Constant) and isinstance(v.value, bool):
                self.info['flag'] = 'FlagConst %s' % ('true' if v.value else 'false')
            else:
                self.fail('unrecognised scale_by_freq argument ' + U(v))
        if fi['samp_param']:
            k, v = bound[fi['samp_param']]
            if k == 'expr' and is_self_attr(v, 'sampling'):
                self.info['samp'] = 'SampSelf'; allow |= set(id(x) for x in ast.walk(v))
            elif isinstance(v, ast.Constant) and not isinstance(v.value, bool) and isinstance(v.value, (int, float)) and v.value == 1:
                self.info['samp'] = 'SampConst1'
            else:
                self.fail('unrecognised sampling argument ' + U(v))
        self.check_clean(call, allow)
        self.info['fscale'] = fi['fscale']
        if fi['branches'] is not None:       # arma2psd: which of its three expressions can be reached
            a = bound['A']; b = bound['B']
            a_none = isinstance(a[1], ast.Constant) and a[1].value is None
            b_none = isinstance(b[1], ast.Constant) and b[1].value is None
            if a_none and b_none:
                self.fail('arma2psd called without A and B')
            keys = ['MA'] if a_none else (['AR'] if b_none else (['AR', 'ARMA'] if nospace(b[1]) == 'self.ma' and not any(s[0] == 'ma' for s in self.info['stores']) else ['ARMA']))
            uses = set(fi['branches'][k] for k in keys)
            if len(uses) != 1:
                self.fail('arma2psd branches %s use T differently' % keys)
            self.info['fsamp'] = uses.pop(); self.info['arma_branches'] = keys
        else:
            self.info['fsamp'] = fi['fsamp']
        # where the PSD-like array lands
        idx = FESTIM_RESULT[nm]
        if len(targets) != 1:
            self.fail('multiple assignment targets')
        t = targets[0]
        if idx is None:
            if not isinstance(t, ast.Name):
                self.fail('functional result must be bound to a local name')
            self.raw.add(t.id)
        elif isinstance(t, ast.Tuple):
            if not all(isinstance(e, ast.Name) for e in t.elts):
                self.fail('unrecognised tuple target')
            self.raw.add(t.elts[idx].id)
        elif isinstance(t, ast.Name):
            self.result_holder = (t.id, idx)
        else:
            self.fail('unrecognised target of the functional estimator call')

    def is_raw(self, node):
        return (isinstance(node, ast.Name) and node.id in self.raw) or (is_self_attr(node) and ('self.' + node.attr) in self.raw)

    def store_kind(self, v):
        if self.is_raw(v):
            return 'SAsIs'
        if self.result_holder and isinstance(v, ast.Subscript) and isinstance(v.value, ast.Name) and v.value.id == self.result_holder[0] \
                and isinstance(v.slice, ast.Constant) and v.slice.value == self.result_holder[1]:
            return 'SAsIs'        # self.psd = res[0]
        if isinstance(v, ast.Name) and v.id in self.half:
            he, ho, k = self.half[v.id]
            return 'SHalf %s %s %d false' % (he, ho, k)
        if isinstance(v, ast.Subscript) and isinstance(v.value, ast.Name) and v.value.id in self.half and nospace(v.slice) == '::-1':
            he, ho, k = self.half[v.value.id]
            return 'SHalf %s %s %d true' % (he, ho, k)
        if isinstance(v, ast.Call) and len(v.args) == 1 and not v.keywords and self.is_raw(v.args[0]):
            f = nospace(v.func)
            if f in ('tools.twosided_2_onesided', 'twosided_2_onesided'):
                return 'STwo2One'
            if f in ('tools.centerdc_2_twosided', 'centerdc_2_twosided'):
                return 'SCenter2Two'
        self.fail('unrecognised value stored in psd: ' + U(v))

    # -- statements
    def walk(self, stmts, ctx, top=False):
        for st in stmts:
            if self.done:
                self.fail('statement after return: ' + U(st)[:60])
            if isinstance(st, (ast.Import, ast.ImportFrom)):
                self.info['imports'].append(U(st)); continue
            if isinstance(st, ast.Expr) and isinstance(st.value, ast.Constant):
                continue
            if isinstance(st, ast.Assign):
                self.assign(st, ctx); continue
            if isinstance(st, ast.If):
                self.cond(st, ctx); continue
            if isinstance(st, ast.Expr) and nospace(st) == 'self.scale()':
                self.scale_call('GAlways', ctx); continue
            if isinstance(st, ast.Return) and top:
                if st.value is None or (isinstance(st.value, ast.Constant) and st.value.value is None):
                    self.info['returns_self'] = False
                elif isinstance(st.value, ast.Name) and st.value.id == 'self':
                    self.info['returns_self'] = True
                else:
                    self.fail('unrecognised return value ' + U(st.value))
                self.done = True; continue
            self.fail('unrecognised statement: ' + U(st)[:80])

    def scale_call(self, g, ctx):
        for dt, key, st in (('real', 'scale_real', 'real'), ('complex', 'scale_cplx', 'cplx')):
            if ctx in ('both', dt):
                if self.info[st] is None:
                    self.fail('scale() before the PSD is stored (%s data)' % dt)
                self.info[key].append(g)

    def assign(self, st, ctx):
        if len(st.targets) != 1:
            self.fail('chained assignment')
        t = st.targets[0]; v = st.value
        if isinstance(v, ast.Call):
            fc = self.fcall(v)
            if fc and fc[0] == 'festim':
                if ctx != 'both':
                    self.fail('functional estimator called under a datatype test')
                self.do_festim(fc[1], v, st.targets); return
            if fc and fc[0] == 'param':
                if self.info['param_est'] or self.info['est'] is not None or ctx != 'both':
                    self.fail('unexpected parameter estimator call')
                fdef = _find(_parse(self.src, PARAM_EST[fc[1]]), ast.FunctionDef, fc[1])
                names, bound = bind_call(v, fdef, '%s.__call__ -> %s' % (self.c, fc[1]))
                self.check_clean(v)
                self.info['param_est'] = fc[1]; self.info['param_args'] = arg_strings(names, bound)
                if not (isinstance(t, ast.Tuple) and all(isinstance(e, ast.Name) for e in t.elts)):
                    self.fail('parameter estimator result must be unpacked into local names')
                return
        if is_self_attr(t):
            if t.attr == 'psd':
                kind = self.store_kind(v)
                for dt, key in (('real', 'real'), ('complex', 'cplx')):
                    if ctx in ('both', dt):
                        if self.info[key] is not None:
                            self.fail('psd stored twice for %s data' % dt)
                        self.info[key] = kind
                return
            if t.attr == 'modified':
                if ctx == 'both' and isinstance(v, ast.Constant) and v.value is False:
                    self.info['modified_false'] = True; return
                self.fail('unrecognised assignment to modified')
            if t.attr in FORBIDDEN_ATTRS or t.attr in ('NFFT', 'data', 'sides', 'N'):
                self.fail('assignment to self.' + t.attr)
            if ctx != 'both':
                self.fail('attribute stored under a datatype test')
            self.check_clean(v)
            self.info['stores'].append((t.attr, U(v)))
            if self.is_raw(v):
                self.raw.add('self.' + t.attr)
            return
        if isinstance(t, ast.Name):
            # psd = res[0]
            if self.result_holder and isinstance(v, ast.Subscript) and isinstance(v.value, ast.Name) and v.value.id == self.result_holder[0] \
                    and isinstance(v.slice, ast.Constant) and v.slice.value == self.result_holder[1]:
                self.raw.add(t.id); self.info['post'].append(U(st)); return
            # multitaper post-processing of the eigenspectra
            sh = nospace(st)
            ok = False
            if isinstance(v, ast.BinOp) and isinstance(v.op, ast.Pow) and nospace(v.right) == '2' and isinstance(v.left, ast.Call) \
                    and nospace(v.left.func) == 'abs' and len(v.left.args) == 1 and self.is_raw(v.left.args[0]):
                ok = True      # Sk = abs(Sk_complex) ** 2
            elif self.is_raw(t) and sh == '%s=%s.transpose()' % (t.id, t.id):
                ok = True
            elif self.is_raw(t) and sh in ('%s=np.mean(%s*weights,axis=1)' % (t.id, t.id), '%s=np.mean(%s*weights,axis=0)' % (t.id, t.id)):
                ok = True
            if ok:
                if ctx != 'both':
                    self.fail('post-processing under a datatype test')
                self.raw.add(t.id); self.info['post'].append(U(st)); return
        self.fail('unrecognised assignment: ' + U(st)[:80])

    def cond(self, st, ctx):
        test = nospace(st.test)
        if test in ("self.datatype=='real'",):
            if ctx != 'both':
                self.fail('nested datatype test')
            self.walk(st.body, 'real'); self.walk(st.orelse, 'complex'); return
        if test == 'self.NFFT%2==0':
            if len(st.body) != 1 or len(st.orelse) != 1 or not isinstance(st.body[0], ast.Assign) or not isinstance(st.orelse[0], ast.Assign):
                self.fail('unrecognised even/odd NFFT block')
            a, b = st.body[0], st.orelse[0]
            if len(a.targets) != 1 or len(b.targets) != 1 or not isinstance(a.targets[0], ast.Name) or nospace(a.targets[0]) != nospace(b.targets[0]):
                self.fail('even/odd NFFT block assigns different names')
            he, ka, xa = _slice_pat(a.value, self.c + '.__call__'); ho, kb, xb = _slice_pat(b.value, self.c + '.__call__')
            if ka != kb or nospace(xa) != nospace(xb) or not self.is_raw(xa):
                self.fail('even/odd NFFT slices differ in factor or source')
            self.half[a.targets[0].id] = (he, ho, ka); return
        if test in ('self.scale_by_freqisTrue', 'self.scale_by_freq==True', 'self.scale_by_freq'):
            if st.orelse or not st.body or any(nospace(s) != 'self.scale()' for s in st.body):
                self.fail('unrecognised block under the scale_by_freq test')
            for _ in st.body:
                self.scale_call('GIfFlag', ctx)
            return
        if test in ("self.method=='adapt'",):
            if ctx != 'both':
                self.fail('method test under a datatype test')
            self.info['post'].append('if ' + U(st.test) + ':')
            self.walk(st.body, ctx); self.info['post'].append('else:'); self.walk(st.orelse, ctx); return
        self.fail('unrecognised condition: ' + U(st.test))


def analyse_class(src, cname, fn, festims):
    cls = _find(_parse(src, fn), ast.ClassDef, cname)
    if len(cls.bases) != 1 or U(cls.bases[0]) not in BASES:
        raise Fail('%s: unrecognised base class' % cname)
    w = _CallWalker(src, cname, festims)
    call = _method(cls, '__call__')
    if [a.arg for a in call.args.args] != ['self'] or call.args.vararg or call.args.kwarg:
        raise Fail('%s.__call__: unexpected signature' % cname)
    w.walk(_strip_doc(call.body), 'both', top=True)
    i = w.info
    if i['est'] is None or i['real'] is None or i['cplx'] is None:
        raise Fail('%s.__call__: no functional estimator call or no PSD store for some datatype' % cname)
    i['base'] = BASES[U(cls.bases[0])]
    # __init__: default of scale_by_freq, what is handed to the base class
    init = _method(cls, '__init__')
    names = [a.arg for a in init.args.args]
    defaults = dict(zip(names[len(names) - len(init.args.defaults):], init.args.defaults))
    if 'scale_by_freq' not in defaults or not isinstance(defaults['scale_by_freq'], ast.Constant) or not isinstance(defaults['scale_by_freq'].value, bool):
        raise Fail('%s.__init__: scale_by_freq has no boolean default' % cname)
    i['default_sbf'] = defaults['scale_by_freq'].value
    if 'sampling' not in names or 'NFFT' not in names:
        raise Fail('%s.__init__: sampling / NFFT parameters expected' % cname)
    sup = [n for n in ast.walk(init) if isinstance(n, ast.Call) and nospace(n.func) == 'super(%s,self).__init__' % cname]
    if len(sup) != 1:
        raise Fail('%s.__init__: base-class constructor call not found' % cname)
    kws = dict((k.arg, nospace(k.value)) for k in sup[0].keywords)
    i['init_passes'] = all(kws.get(k) == k for k in ('sampling', 'NFFT', 'scale_by_freq'))
    # nothing else in __init__ may touch the normalisation attributes except re-assigning the constructor argument
    for n in ast.walk(init):
        if isinstance(n, ast.Assign) and any(is_self_attr(t) and t.attr in ('scale_by_freq', 'NFFT', 'psd', 'df') for t in n.targets):
            raise Fail('%s.__init__: assigns %s' % (cname, U(n)))
        if isinstance(n, ast.Assign) and any(is_self_attr(t, 'sampling') for t in n.targets) and nospace(n.value) != 'sampling':
            raise Fail('%s.__init__: assigns %s' % (cname, U(n)))
    return i


# ------------------------------------------------------------------ psd.py
def _iexpr(n, var):
    if isinstance(n, ast.Name) and n.id == var:
        return 'IVar'
    if is_self_attr(n, 'N'):
        return 'IN'
    if isinstance(n, ast.Constant) and isinstance(n.value, int) and not isinstance(n.value, bool):
        return '(IConst %d)' % n.value
    if isinstance(n, ast.BinOp):
        ops = {ast.Add: 'IAdd', ast.Sub: 'ISub', ast.FloorDiv: 'IFloorDiv', ast.Mod: 'IMod'}
        if type(n.op) in ops:
            return '(%s %s %s)' % (ops[type(n.op)], _iexpr(n.left, var), _iexpr(n.right, var))
    raise Fail('Range generator: unrecognised integer expression ' + U(n))


def _rgen(stmts):
    stmts = _strip_doc(stmts)
    if len(stmts) != 1:
        raise Fail('Range generator: expected a single statement')
    s = stmts[0]
    if isinstance(s, ast.For):
        if s.orelse or not isinstance(s.target, ast.Name) or not (isinstance(s.iter, ast.Call) and nospace(s.iter.func) == 'range' and len(s.iter.args) == 2
                                                                    and nospace(s.iter.args[0]) == '0'):
            raise Fail('Range generator: unrecognised loop ' + U(s)[:60])
        var = s.target.id
        if len(s.body) != 1 or not (isinstance(s.body[0], ast.Expr) and isinstance(s.body[0].value, ast.Yield)):
            raise Fail('Range generator: loop body is not a single yield')
        y = s.body[0].value.value
        if not (isinstance(y, ast.BinOp) and isinstance(y.op, ast.Mult) and is_self_attr(y.right, 'df')):
            raise Fail('Range generator: yield is not <int expr> * self.df: ' + U(y))
        return '(GFor %s %s)' % (_iexpr(s.iter.args[1], None), _iexpr(y.left, var))
    if isinstance(s, ast.If) and nospace(s.test) == 'self.N%2==0':
        return '(GIfEvenN %s %s)' % (_rgen(s.body), _rgen(s.orelse))
    raise Fail('Range generator: unrecognised statement ' + U(s)[:60])


def analyse_psd(src):
    t = _parse(src, 'psd.py')
    R = _find(t, ast.ClassDef, 'Range'); S = _find(t, ast.ClassDef, 'Spectrum')
    m = {}
    # Spectrum.scale
    body = _strip_doc(_method(S, 'scale').body)
    mul = 'self.psd*=2*numpy.pi/self.df'
    if len(body) == 1 and isinstance(body[0], ast.If) and nospace(body[0].test) in ('self.scale_by_freqisTrue', 'self.scale_by_freq==True') \
            and not body[0].orelse and [nospace(s) for s in body[0].body] == [mul]:
        m['scale_guarded'] = True
    elif [nospace(s) for s in body] == [mul]:
        m['scale_guarded'] = False
    else:
        raise Fail('Spectrum.scale: unrecognised body: ' + ' | '.join(U(s) for s in body))
    # df
    rdf = 'self.__df=self.__sampling/float(self.__N)'
    ok = [nospace(s) for s in _strip_doc(_method(S, '_getdf').body)] == ['returnself._range.df'] \
        and [nospace(s) for s in _strip_doc(_method(R, '_getdf').body)] == ['returnself.__df'] \
        and [nospace(s) for s in _strip_doc(_method(R, '_setN').body)] == ['self.__N=N', rdf] \
        and [nospace(s) for s in _strip_doc(_method(R, '_setsampling').body)] == ['self.__sampling=sampling', rdf] \
        and [nospace(s) for s in _strip_doc(_method(R, '_getN').body)] == ['returnself.__N']
    props = {}
    for cl in (R, S):
        for s in cl.body:
            if isinstance(s, ast.Assign) and isinstance(s.value, ast.Call) and nospace(s.value.func) == 'property':
                props[(cl.name, nospace(s.targets[0]))] = dict((k.arg, nospace(k.value)) for k in s.value.keywords)
    ok = ok and props.get(('Range', 'df'), {}).get('fget') == '_getdf' and 'fset' not in props.get(('Range', 'df'), {}) \
        and props.get(('Range', 'N'), {}).get('fset') == '_setN' and props.get(('Range', 'sampling'), {}).get('fset') == '_setsampling' \
        and props.get(('Spectrum', 'df'), {}).get('fget') == '_getdf' and props.get(('Spectrum', 'sampling'), {}).get('fset') == '_setSampling' \
        and props.get(('Spectrum', 'sampling'), {}).get('fget') == '_getSampling' \
        and props.get(('Spectrum', 'NFFT'), {}).get('fset') == '_setNFFT' and props.get(('Spectrum', 'psd'), {}).get('fset') == '_setPSD' \
        and props.get(('Spectrum', 'scale_by_freq'), {}).get('fget') == '_getScale'
    if not ok:
        raise Fail('psd.py: df / Range setters / property wiring not in the recognised shape')
    m['df_from_range'] = True
    init = [nospace(s) for s in _strip_doc(_method(R, '__init__').body)]
    if init != ['self.__N=N', 'self.__sampling=sampling', 'self.__df=None', 'self._setN(N)', 'self._setsampling(sampling)']:
        raise Fail('Range.__init__: unrecognised body')
    # Spectrum.__init__
    sinit = [nospace(s) for s in _strip_doc(_method(S, '__init__').body)]
    m['init_range_sampling'] = 'self._range=Range(self.__data.size,sampling)' in sinit
    if not any(s.startswith('self._range=Range(') for s in sinit):
        raise Fail('Spectrum.__init__: no Range is created')
    for need in ('self.sampling=sampling', 'self.scale_by_freq=scale_by_freq', 'self.NFFT=NFFT'):
        if need not in sinit or sinit.index(need, sinit.index([s for s in sinit if s.startswith('self._range=Range(')][0])) < 0:
            raise Fail('Spectrum.__init__: %s missing after the Range is created' % need)
    # sampling setter
    body = _strip_doc(_method(S, '_setSampling').body)
    upd = False
    for s in body:
        sh = nospace(s)
        if sh in ('ifsampling==self.__sampling:return', 'self.__sampling=sampling', 'self.__df=self.__sampling/float(self.__N)', 'self.modified=True'):
            continue
        if sh in ("ifhasattr(self,'_range'):self._range.sampling=sampling", 'self._range.sampling=sampling'):
            upd = True; continue
        raise Fail('Spectrum._setSampling: unrecognised statement ' + U(s))
    if 'self.__sampling=sampling' not in [nospace(s) for s in body]:
        raise Fail('Spectrum._setSampling: does not store the value')
    m['setsampling_updates_range'] = upd
    if [nospace(s) for s in _strip_doc(_method(S, '_getSampling').body)] != ['returnself.__sampling']:
        raise Fail('Spectrum._getSampling: unrecognised body')
    # NFFT setter: self._range.N = self.__NFFT wherever self.__NFFT is assigned new_nfft
    nf = _method(S, '_setNFFT')
    blocks = [n for n in ast.walk(nf) if isinstance(n, ast.If) and any(nospace(s) == 'self.__NFFT=new_nfft' for s in n.body)]
    if len(blocks) != 1:
        raise Fail('Spectrum._setNFFT: the assignment block was not found')
    m['setnfft_updates_range'] = 'self._range.N=self.__NFFT' in [nospace(s) for s in blocks[0].body]
    # psd setter
    ps = _strip_doc(_method(S, '_setPSD').body)
    dt = [s for s in ps if isinstance(s, ast.If) and nospace(s.test) == "self.datatype=='real'"]
    if len(dt) != 1:
        raise Fail('Spectrum._setPSD: datatype test not found')
    real = [nospace(s) for s in _strip_doc(dt[0].body)]; cplx = [nospace(s) for s in _strip_doc(dt[0].orelse)]
    if sorted(real) != sorted(["self.__sides='onesided'", 'self.__psd=numpy.array(psd)']):
        raise Fail('Spectrum._setPSD: unrecognised real branch')
    if sorted(cplx) == sorted(["self.__sides='twosided'", 'self.__NFFT=len(psd)', 'self.__psd=numpy.array(psd)', 'self._range.N=self.__NFFT']):
        m['psdset_cplx_nfft_len'] = True
    elif sorted(cplx) == sorted(["self.__sides='twosided'", 'self.__psd=numpy.array(psd)']):
        m['psdset_cplx_nfft_len'] = False
    else:
        raise Fail('Spectrum._setPSD: unrecognised complex branch')
    gp = [nospace(s) for s in _strip_doc(_method(S, '_getPSD').body)]
    if gp != ['ifself.__psdisNoneorself.modifiedisTrue:logging.debug(\'ComputingPSD.\')self()self.modified=False', 'returnself.__psd']:
        raise Fail('Spectrum._getPSD: unrecognised body')
    # frequencies() and the Range generators
    fr = [nospace(s) for s in _strip_doc(_method(S, 'frequencies').body)]
    for need in ("ifsides=='onesided':returnself._range.onesided()", "ifsides=='twosided':returnself._range.twosided()",
                 "ifsides=='centerdc':returnself._range.centerdc()"):
        if need not in fr:
            raise Fail('Spectrum.frequencies: %s missing' % need)
    rng = {}
    for sd in ('onesided', 'twosided', 'centerdc'):
        if [nospace(s) for s in _strip_doc(_method(R, sd).body)] != ['returnlist(self.%s_gen())' % sd]:
            raise Fail('Range.%s: unrecognised body' % sd)
        rng[sd] = _rgen(_method(R, sd + '_gen').body)
    return m, rng


# ------------------------------------------------------------------ entry points
def extract(src):
    """src = directory holding the spectrum package sources.  returns dict(classes=..., psd=..., range=..., festims=...)"""
    festims = dict((nm, analyse_festim(src, nm)) for nm in FESTIM)
    classes = {}
    for cname, fn in CLASSES:
        classes[cname] = analyse_class(src, cname, fn, festims)
    m, rng = analyse_psd(src)
    fe = dict((nm, dict((k, v) for k, v in fi.items() if k != 'def')) for nm, fi in festims.items())
    return {'classes': classes, 'psd': m, 'range': rng, 'festims': fe}


def _cs(s):
    return '"' + s.replace('"', '""') + '"'


def _pairs(l):
    return '[' + '; '.join('(%s, %s)' % (_cs(a), _cs(b)) for a, b in l) + ']'


def _b(x):
    return 'true' if x else 'false'


def gallina(tab, name_prefix=''):
    """the generated table: `pipelines`, `psd_model`, `range_model` (Gallina source, needs Model.PipelineLib)"""
    out = ['(* GENERATED by tools/props/_pipelines.py from the snapshot of src/spectrum -- do not edit *)',
           'From Coq Require Import String List ZArith.', 'Require Import Spectrum.Theory.Ops Spectrum.Model.PipelineLib.',
           'Import ListNotations.', 'Local Open Scope string_scope.', '']
    rows = []
    for cname, _ in CLASSES:
        i = tab['classes'][cname]
        rows.append('  (%s, {| p_base := %s; p_default_sbf := %s; p_init_passes := %s;\n'
                    '      p_param_est := %s; p_param_args := %s;\n'
                    '      p_est := %s; p_est_args := %s;\n'
                    '      p_flag := %s; p_samp := %s; p_fscale := %s; p_fsamp := %s;\n'
                    '      p_post := %s; p_stores := %s;\n'
                    '      p_real := %s; p_cplx := %s; p_scale_real := %s; p_scale_cplx := %s;\n'
                    '      p_modified_false := %s; p_returns_self := %s |})' % (
                        COQ_CLS[cname], i['base'], _b(i['default_sbf']), _b(i['init_passes']),
                        _cs(i['param_est']), _pairs(i['param_args']), i['est'], _pairs(i['est_args']),
                        i['flag'], i['samp'], i['fscale'], i['fsamp'],
                        '[' + '; '.join(_cs(s) for s in i['post']) + ']', _pairs(i['stores']),
                        i['real'], i['cplx'], '[' + '; '.join(i['scale_real']) + ']', '[' + '; '.join(i['scale_cplx']) + ']',
                        _b(i['modified_false']), _b(i['returns_self'])))
    out.append('Definition %spipelines : list (cls * pipeline) := [\n%s\n].' % (name_prefix, ';\n'.join(rows)))
    m = tab['psd']
    out.append('Definition %spsd_model : psdmodel := {| m_scale_guarded := %s; m_df_from_range := %s; m_init_range_sampling := %s;\n'
               '  m_setsampling_updates_range := %s; m_setnfft_updates_range := %s; m_psdset_cplx_nfft_len := %s |}.' % (
                   name_prefix, _b(m['scale_guarded']), _b(m['df_from_range']), _b(m['init_range_sampling']),
                   _b(m['setsampling_updates_range']), _b(m['setnfft_updates_range']), _b(m['psdset_cplx_nfft_len'])))
    r = tab['range']
    out.append('Definition %srange_model : rangemodel := {| r_onesided := %s;\n  r_twosided := %s;\n  r_centerdc := %s |}.' % (
        name_prefix, r['onesided'], r['twosided'], r['centerdc']))
    out.append('Local Close Scope string_scope.')
    return '\n'.join(out) + '\n'


def describe(tab):
    """Appendix-A style text table (for notes / evidence)"""
    lines = []
    for cname, _ in CLASSES:
        i = tab['classes'][cname]
        est = (i['param_est'] + ' -> ' if i['param_est'] else '') + i['est_name']
        lines.append('%-14s %-26s flag=%-16s samp=%-10s fscale=%-8s fsamp=%-7s real=%-32s cplx=%-12s scale(real)=%s scale(cplx)=%s stores=%s default_sbf=%s returns=%s%s' % (
            cname, est, i['flag'], i['samp'], i['fscale'], i['fsamp'], i['real'], i['cplx'], i['scale_real'], i['scale_cplx'],
            [a for a, _ in i['stores']], i['default_sbf'], 'self' if i['returns_self'] else 'None', ' modified=False' if i['modified_false'] else ''))
    lines.append('psd.py: %s' % tab['psd'])
    lines.append('Range:  %s' % tab['range'])
    return '\n'.join(lines)


if __name__ == '__main__':
    import sys
    tab = extract(sys.argv[1] if len(sys.argv) > 1 else '/repo/src/spectrum')
    print(describe(tab))
    if '--coq' in sys.argv:
        print(gallina(tab))
