"""C07: text of the proofs over the generated machine (re-checked by coqc on every run).

The automation is a generic symbolic execution: the goal is always `holds P (method args state)`;
the method at head position is unfolded (callee methods stay folded until they reach the head),
the head conditional is decided by case analysis on the atomic comparison it contains, calls of the
class' `__call__` are rewritten with its specification, and the leaves (a concrete final record)
are closed by `constructor` + equational reasoning.  Nothing refers to the statement order of psd.py."""

FIELDS = ['data', 'data_y', 'sampling', 'detrend', 'sbf', 'sides', 'N', 'NFFT', 'df_priv', 'datatype', 'cache', 'method',
          'modified', 'has_range', 'rangeN', 'rangeS', 'range_df', 'window', 'lag', 'ar_order', 'ma_order']
PROJ = ' '.join('f_' + f for f in FIELDS)
UPDS = ' '.join('upd_' + f for f in FIELDS)
VALS = ("vlen vsize varray vadd vsub vmul vfloordiv vmod vnextpow2 vpow2 vest conv conv_two2one conv_one2two conv_two2cen "
        "conv_cen2two vmirror_half vscale_dc vimul_twopi_over vraw vslice_half_even vslice_half_odd vest_auto vaxis visreal "
        "vis_listtype")
CBN = ("veqb vin existsb vltb vis_int negb andb orb String.eqb Ascii.eqb Bool.eqb dval_eqb Nat.eqb Pos.eqb d_id d_len d_real "
       "d_list fst snd " + VALS)
CBV = (UPDS + ' ' + PROJ + " bind ret retv err blank vcopy vfloat vint vquot vflip after_call default_sides_of target msnap flen "
       "scaled_of nfft_of ostr oint S_one S_two S_cen S_halved S_bad TwoPi")

TACTICS = r"""
Arguments vlen !a. Arguments vsize !a. Arguments varray !a. Arguments vadd !a !b. Arguments vsub !a !b. Arguments vmul !a !b.
Arguments vfloordiv !a !b. Arguments vmod !a !b. Arguments vnextpow2 !a. Arguments vpow2 !a. Arguments vest sn layout !len.
Arguments conv from to f !p. Arguments vmirror_half !a !b. Arguments vimul_twopi_over !p df. Arguments vslice_half_even !p !nfft.
Arguments vslice_half_odd !p !nfft. Arguments vest_auto sn data !nfft. Arguments vaxis name !len. Arguments visreal !a.
Arguments vis_listtype !a. Arguments vscale_dc !p. Arguments vraw sn !nfft. Arguments conv_two2one !p. Arguments conv_one2two !p.
Arguments conv_two2cen !p. Arguments conv_cen2two !p. Arguments veqb !a !b. Arguments vltb !a !b. Arguments vis_int !a.

Ltac projs := cbn [@PROJ@] in *.
Ltac rd := cbv beta iota zeta delta [@CBV@]; cbn [@CBN@].
Ltac rd_in H := cbv beta iota zeta delta [target msnap scaled_of nfft_of S_one S_two S_cen @PROJ@] in H; cbn [@CBN@] in H.

(* the typing facts of the invariant are substituted; case distinctions are made only where the code tests them *)
Ltac typ_start Ht s :=
  let d := fresh "d" in let n := fresh "n" in let b := fresh "b" in
  destruct Ht as [ [d [Hd [HN [Hdt Hdl]]]] [n [Hn Hnpos]] [b Hb] Hsd Hhr Hdf];
  destruct s as [xdata xdatay xsamp xdet xsbf xsides xN xNFFT xdfp xdt xcache xmeth xmod xhr xrN xrS xrdf xwin xlag xar xma];
  projs; subst; unfold S_one, S_two, S_cen in Hsd.
Ltac inv_start H s :=
  let Ht := fresh "Ht" in
  destruct H as [Ht HrN HrS Hc]; typ_start Ht s; rd_in Hc.

Ltac zar :=
  unfold len_one in *;
  repeat match goal with
         | |- context[Z.eqb ?a ?b] => destruct (Z.eqb_spec a b)
         | H : context[Z.eqb ?a ?b] |- _ => destruct (Z.eqb_spec a b)
         end;
  try discriminate; Z.div_mod_to_equations; lia.
Ltac use_real := repeat match goal with H : d_real _ = _ |- _ => rewrite H end.
Ltac sides_of_vin :=
  match goal with H : vin ?x _ = true |- _ => apply vin_sound in H; cbn [In] in H; decompose [or] H; subst; try contradiction; try discriminate end.
Ltac real_split := repeat (match goal with |- context[String.eqb (if d_real ?a then _ else _) _] => let E := fresh "isreal" in destruct (d_real a) eqn:E end; rd).
Ltac sides_absurd :=
  exfalso; match goal with Hsd : _ = VStr _ \/ _ |- _ => destruct Hsd as [Hsd|[Hsd|Hsd]]; subst; cbn [@CBN@] in *; discriminate end.
Ltac typ :=
  constructor; cbn [@PROJ@];
  [ eexists; split; [reflexivity | split; [reflexivity | split; [cbn [d_real d_len d_list]; use_real; reflexivity
                                                             | cbn [d_list]; first [assumption | reflexivity]]]]
  | eexists; split; [reflexivity | first [assumption | apply pow2_pos | lia]]
  | eexists; reflexivity
  | unfold S_one, S_two, S_cen; real_split; first [ assumption | solve [auto 4] | sides_of_vin; solve [auto 4] ]
  | reflexivity
  | reflexivity ].
Ltac use_bools := repeat (match goal with H : veqb ?a ?b = _ |- context[veqb ?a ?b] => rewrite H end; rd).
Ltac cache_eq := f_equal; first [reflexivity | assumption | symmetry; assumption | apply two2one_len | symmetry; apply two2one_len | zar].
Ltac hyp_cache :=
  match goal with Hc : _ \/ _ \/ _ |- _ \/ _ \/ _ =>
    destruct Hc as [Hc|[Hc|Hc]]; [left; exact Hc | right; left; exact Hc | right; right; rd; rewrite Hc; rd; use_bools; reflexivity] end.
Ltac inv_leaf :=
  constructor; [ typ | reflexivity | reflexivity
               | cbn [@PROJ@]; first [ left; reflexivity | right; left; reflexivity | rd; assumption | hyp_cache
                                     | right; right; rd; real_split; use_bools; cache_eq ] ].

Ltac use_cache Hc E :=
  destruct Hc as [Hc|[Hc|Hc]];
  [ rewrite Hc in E; discriminate E
  | injection Hc as Hc; subst
  | subst ].
Ltac atom_in c :=
  lazymatch c with
  | context[d_real ?a] => let E := fresh "isreal" in destruct (d_real a) eqn:E
  | context[Bool.eqb ?a ?b] => is_var a; destruct a
  | context[veqb ?a ?b] =>
      let E := fresh "E" in destruct (veqb a b) eqn:E;
      [apply veqb_sound in E; try (subst) ; try discriminate E; try (injection E as E; try subst) | idtac]
  | context[Z.eqb ?a ?b] => destruct (Z.eqb_spec a b)
  | context[Qc_eq_bool ?a ?b] => let E := fresh "E" in destruct (Qc_eq_bool a b) eqn:E; [apply Qc_eq_bool_correct in E; try subst|]
  | context[Z.ltb ?a ?b] => destruct (Z.ltb_spec a b)
  | context[vis_int ?a] => let E := fresh "E" in destruct (vis_int a) eqn:E; [apply vis_int_true in E; destruct E as [? E]; subst|]
  | context[vltb ?a ?b] => let E := fresh "E" in destruct (vltb a b) eqn:E; cbn [vltb] in E;
      [try (apply Z.ltb_lt in E) | try (apply Z.ltb_ge in E)]
  | context[vin ?a ?l] => let E := fresh "E" in destruct (vin a l) eqn:E
  | context[d_list ?a] => let E := fresh "E" in destruct (d_list a) eqn:E
  end.
Ltac cond_step c :=
  match goal with
  | H : veqb ?a ?b = _ |- _ => lazymatch c with context[veqb a b] => rewrite H end
  | H : vin ?a ?l = _ |- _ => lazymatch c with context[vin a l] => rewrite H end
  | H : d_list ?a = _ |- _ => lazymatch c with context[d_list a] => rewrite H end
  | H : d_real ?a = _ |- _ => lazymatch c with context[d_real a] => rewrite H end
  | Hc : ?x = VNone \/ _ |- _ =>
      lazymatch c with context[veqb x VNone] =>
        let E := fresh "E" in destruct (veqb x VNone) eqn:E; [apply veqb_sound in E; subst; clear Hc | use_cache Hc E] end
  | _ => atom_in c
  end.
@IS_METHOD@
Ltac head_sym t := lazymatch t with ?g _ => head_sym g | _ => t end.
Ltac unfold_head c :=
  let h := head_sym c in
  is_method h;
  let c' := eval cbv beta delta [h] in c in
  change c with c'; rd.
Ltac find_head t :=
  lazymatch t with
  | (if ?c then _ else _) => constr:(c)
  | (match ?x with pair _ _ => _ end) => find_head x
  | (match ?x with Ok _ => _ | Err _ => _ end) => find_head x
  | ?f ?x => constr:(t)
  end.
Ltac head_step :=
  lazymatch goal with
  | |- holds ?P (if ?c then ?A else ?B) =>
      let c' := eval cbn [@CBN@] in c in
      lazymatch c' with
      | true => change (holds P A)
      | false => change (holds P B)
      | _ => change (holds P (if c' then A else B)); cond_step c'
      end
  | |- holds ?P ?t =>
      let c := find_head t in
      first
      [ unfold_head c
      | lazymatch c with ?f ?x =>
          lazymatch goal with Hcall : CallSpec _ f |- _ =>
            let r := fresh "r" in let Hr := fresh "Hr" in
            destruct (Hcall x) as [r Hr]; [typ | reflexivity | reflexivity | rewrite Hr; clear Hr; rd] end end
      | let c' := eval cbn [@CBN@] in c in
        lazymatch c' with
        | true => change c with true; rd
        | false => change c with false; rd
        | _ => change c with c'; cond_step c'
        end ]
  end.
Ltac absurd_ne := match goal with H : ?x <> ?x |- _ => exfalso; apply H; reflexivity end.
Ltac exec := rd; repeat (first [absurd_ne | head_step]); unfold holds; cbn [fst snd].
(* Inv-preservation of one method *)
Ltac inv_method H s := inv_start H s; match goal with |- Inv ?m (fst ?t) => change (holds (fun r => Inv m (fst r)) t) end; exec; inv_leaf.
"""


def tactics(methods):
    ism = "Ltac is_method f :=\n  lazymatch f with\n" + ''.join("  | %s => idtac\n" % n for n in methods) + "  end.\n"
    return (TACTICS.replace('@IS_METHOD@', ism).replace('@PROJ@', PROJ).replace('@CBV@', CBV).replace('@CBN@', CBN))


HEADER = """(* GENERATED on this run: proofs over the machine translated from the snapshot. *)
From Coq Require Import List ZArith Bool String Lia QArith Qcanon.
Require Import Spectrum.Model.PsdMachineLib Spectrum.Proofs.PsdMachineTheory Gen.C07Machine.
Import ListNotations.
Local Open Scope Z_scope.
"""

ATTR_FIELD = {'data': 'data', 'NFFT': 'NFFT', 'sampling': 'sampling', 'detrend': 'detrend', 'scale_by_freq': 'sbf',
              'sides': 'sides', 'window': 'window', 'lag': 'lag', 'ar_order': 'ar_order', 'ma_order': 'ma_order'}
MASKF = {'window': 'm_window', 'lag': 'm_lag', 'ar_order': 'm_ar_order', 'ma_order': 'm_ma_order', 'data': 'm_data',
         'NFFT': 'm_NFFT', 'sampling': 'm_sampling', 'detrend': 'm_detrend', 'sbf': 'm_sbf'}


def setter_methods(info):
    """distinct generated setter methods used by some class, with the attribute they set"""
    out = {}
    for cn, ci in info['classes'].items():
        for attr, st in ci['setters'].items():
            if st != 'plain':
                out[st.split(' ')[0]] = attr
    return out


HEAVY = {'Spectrum__setSides'}


def tactics_file(info):
    return HEADER + tactics(info['methods'])


def generic_file(info):
    """lemmas about the methods of psd.py, for any class (mask m, computation call_ satisfying CallSpec)"""
    t = HEADER.replace('Gen.C07Machine.', 'Gen.C07Machine Gen.C07Tactics.')
    t += "Section Generic.\nVariables (m : mask) (call_ : St -> Res).\nHypothesis Hcall : CallSpec m call_.\n\n"
    names = []
    for meth, attr in sorted(setter_methods(info).items()):
        if meth in HEAVY:
            continue
        if attr == 'data':
            t += ("Lemma L_%s d s : Inv m s -> Inv m (fst (%s call_ (VData d) s)).\nProof. intros H. inv_method H s. Qed.\n\n" % (meth, meth))
        else:
            t += ("Lemma L_%s v s : Inv m s -> Inv m (fst (%s call_ v s)).\nProof. intros H. inv_method H s. Qed.\n\n" % (meth, meth))
        names.append('L_' + meth)
    t += "Lemma L_Spectrum__getPSD s : Inv m s -> Inv m (fst (Spectrum__getPSD call_ s)).\nProof. intros H. inv_method H s. Qed.\n\n"
    t += "Lemma L_Spectrum_frequencies v s : Inv m s -> Inv m (fst (Spectrum_frequencies call_ v s)).\nProof. intros H. inv_method H s. Qed.\n\n"
    names += ['L_Spectrum__getPSD', 'L_Spectrum_frequencies']
    plains = sorted(set(a for ci in info['classes'].values() for a in ci['plain']))
    for a in plains:
        f = ATTR_FIELD[a]
        t += ("Lemma L_plain_%s v s : %s m = false -> Inv m s -> Inv m (upd_%s v s).\n"
              "Proof. intros Hm H. inv_start H s. destruct m; cbn in Hm; subst. rd. inv_leaf. Qed.\n\n" % (f, MASKF[f], f))
        names.append('L_plain_' + f)
    t += "Lemma L_call s : Inv m s -> Inv m (after_call m s).\nProof. intros H. inv_start H s. rd. inv_leaf. Qed.\n\n"
    names.append('L_call')
    # consequences
    t += """Theorem read_is_fresh s : Inv m s ->
  exists s', Spectrum__getPSD call_ s = (s', Ok (target m s')) /\\ Inv m s' /\\ f_modified s' = VBool false /\\ msnap m s' = msnap m s
             /\\ scaled_of s' = scaled_of s.
Proof.
  intros H. inv_start H s.
  match goal with |- exists s', ?t = _ /\\ _ /\\ _ /\\ msnap m s' = ?sn /\\ scaled_of s' = ?sc => change (holds (fun r => exists s', r = (s', Ok (target m s')) /\\ Inv m s' /\\ f_modified s' = VBool false /\\ msnap m s' = sn /\\ scaled_of s' = sc) t) end.
  exec; (lazymatch goal with |- exists s', (?S, _) = _ /\\ _ => exists S end;
         split; [ rd; real_split; use_bools; first [reflexivity | do 2 f_equal; cache_eq]
                | split; [ inv_leaf | split; [ reflexivity | split; rd; real_split; use_bools; reflexivity ] ] ]).
Qed.

"""
    names.append('read_is_fresh')
    t += CONSEQ
    names += ['df_consistent', 'freq_len_psd']
    t += "End Generic.\n"
    return t, names


CONSEQ = r"""
Theorem df_consistent s : Inv m s -> get_df s = VQuot (get_sampling s) (get_NFFT s).
Proof. intros H. inv_start H s. unfold get_df, get_sampling, get_NFFT. rd. reflexivity. Qed.

Theorem freq_len_psd s : Inv m s -> forall s' p, Spectrum__getPSD call_ s = (s', Ok p) ->
  exists a, Spectrum_frequencies call_ VNone s' = (s', Ok a) /\ vlen a = vlen p.
Proof.
  intros H s' p E. destruct (read_is_fresh s H) as [s2 [E2 [H2 _]]]. rewrite E2 in E. injection E as <- <-. clear E2 H.
  inv_start H2 s2.
  match goal with |- exists a, ?t = (?S, Ok a) /\ vlen a = ?q => change (holds (fun r => exists a, r = (S, Ok a) /\ vlen a = q) t) end.
  exec; first [ (eexists; split; [ reflexivity | rd; try reflexivity; f_equal; zar ]) | sides_absurd ].
Qed.
"""


def reassign_files(info, meth, attr, idx):
    """re-assigning the current value of an attribute changes no attribute value the estimate depends on (first file, needs
    only the tactics), and the estimate read afterwards is the same estimate (second file, uses read_is_fresh)"""
    fld = ATTR_FIELD[attr]
    sec = "Section Generic.\nVariables (m : mask) (call_ : St -> Res).\nHypothesis Hcall : CallSpec m call_.\n\n"
    t1 = HEADER.replace('Gen.C07Machine.', 'Gen.C07Machine Gen.C07Tactics.') + sec
    t1 += r"""Lemma unchanged_%(M)s s : Inv m s ->
  let s1 := fst (%(M)s call_ (f_%(F)s s) s) in Inv m s1 /\ msnap m s1 = msnap m s /\ scaled_of s1 = scaled_of s.
Proof.
  intros H. inv_start H s. cbv zeta.
  match goal with |- Inv m (fst ?t) /\ msnap m (fst ?t) = ?sn /\ scaled_of (fst ?t) = ?sc =>
    change (holds (fun r => Inv m (fst r) /\ msnap m (fst r) = sn /\ scaled_of (fst r) = sc) t) end.
  exec; (split; [ inv_leaf | split; rd; real_split; use_bools; reflexivity ]).
Qed.
End Generic.
""" % {'M': meth, 'F': fld}
    t2 = HEADER.replace('Gen.C07Machine.', 'Gen.C07Machine Gen.C07Tactics Gen.C07Generic Gen.C07Un%d.' % idx) + sec
    t2 += r"""Theorem reassign_idempotent_%(M)s s : Inv m s ->
  let s1 := fst (%(M)s call_ (f_%(F)s s) s) in
  exists sa pa sb pb, Spectrum__getPSD call_ s = (sa, Ok pa) /\ Spectrum__getPSD call_ s1 = (sb, Ok pb) /\ same_estimate pa pb.
Proof.
  intros H s1. first [ destruct (unchanged_%(M)s m call_ Hcall s H) as [H1 [Hs Hc]] | destruct (unchanged_%(M)s m call_ s H) as [H1 [Hs Hc]] ]. fold s1 in H1, Hs, Hc.
  destruct (read_is_fresh m call_ Hcall s H) as [sa [Ea [_ [_ [Sa Ca]]]]].
  destruct (read_is_fresh m call_ Hcall s1 H1) as [sb [Eb [_ [_ [Sb Cb]]]]].
  exists sa, (target m sa), sb, (target m sb). split; [exact Ea | split; [exact Eb |]].
  unfold same_estimate, target. split; congruence.
Qed.
End Generic.
""" % {'M': meth, 'F': fld}
    return ('C07Un%d' % idx, t1, ['unchanged_' + meth]), ('C07Re%d' % idx, t2, ['reassign_idempotent_' + meth])


def split_files(info, stem, method, choices):
    """Inv-preservation of a method taking a `sides` argument, proved separately (in parallel files) for each literal
    the code compares the argument with and for every other value, then combined"""
    GEN = HEADER.replace('Gen.C07Machine.', 'Gen.C07Machine Gen.C07Tactics.')
    sec = "Section Generic.\nVariables (m : mask) (call_ : St -> Res).\nHypothesis Hcall : CallSpec m call_.\n\n"
    files = []
    for i, c in enumerate(choices):
        t = GEN + sec
        t += ("Lemma L_%s_c%d s : Inv m s -> Inv m (fst (%s call_ (VStr \"%s\") s)).\nProof. intros H. inv_method H s. Qed.\nEnd Generic.\n"
              % (method, i, method, c))
        files.append(('%s_c%d' % (stem, i), t))
    t = GEN + sec
    hyps = ' -> '.join('veqb v (VStr "%s") = false' % c for c in choices)
    t += ("Lemma L_%s_other v s : %s -> Inv m s -> Inv m (fst (%s call_ v s)).\nProof. intros %s H. inv_method H s. Qed.\nEnd Generic.\n"
          % (method, hyps, method, ' '.join('Hv%d' % i for i in range(len(choices)))))
    files.append(('%s_other' % stem, t))
    # combination
    t = HEADER.replace('Gen.C07Machine.', 'Gen.C07Machine Gen.C07Tactics ' + ' '.join('Gen.C07%s' % n for n, _ in files) + '.')
    t += sec
    t += "Lemma L_%s v s : Inv m s -> Inv m (fst (%s call_ v s)).\nProof.\n  intros H.\n" % (method, method)
    for i, c in enumerate(choices):
        t += ("  destruct (veqb v (VStr \"%s\")) eqn:E%d; [apply veqb_sound in E%d; subst v; apply L_%s_c%d; assumption|].\n"
              % (c, i, i, method, i))
    t += "  apply L_%s_other; assumption.\nQed.\nEnd Generic.\n" % method
    return files, (stem, t), 'L_' + method


INIT_TAC = r"""
Ltac init_leaf :=
  let Heq := fresh "Heq" in
  intros ? ? Heq; first [ discriminate Heq | injection Heq as <- _; split; [ inv_leaf | reflexivity ] ].
Ltac init_goal :=
  match goal with |- forall s r, ?t = (s, Ok r) -> InvN ?m s => change (holds (fun res => forall s r, res = (s, Ok r) -> InvN m s) t) end.
(* a callee constructor at head position is replaced by its specification *)
Ltac use_init_spec L c :=
  let s1 := fresh "s" in let o1 := fresh "o" in let E0 := fresh "E0" in let E1 := fresh "E1" in
  lazymatch goal with |- holds (fun res => forall s r, _ -> InvN ?m s) _ =>
  destruct c as [s1 [o1|o1]] eqn:E0;
  [ first [apply (L m) in E0 | apply L in E0]; destruct E0 as [E0 E1]; inv_start E0 s1; rd | rd ] end.
"""


def init_files(info):
    """constructors of the three base classes establish the invariant with an empty cache (from the blank object)"""
    t = HEADER.replace('Gen.C07Machine.', 'Gen.C07Machine Gen.C07Tactics.')
    t += "Definition InvN (m : mask) (s : St) : Prop := Inv m s /\\ f_cache s = VNone.\n"
    t += INIT_TAC
    t += "Section Init.\nVariables (m : mask) (call_ : St -> Res).\n\n"
    t += ("Lemma L_init_Spectrum d dy sa de sb nf : forall s r, Spectrum___init__ call_ (VData d) dy (VNum sa) de (VBool sb) nf blank = (s, Ok r) -> InvN m s.\n"
          "Proof. init_goal. exec; init_leaf. Qed.\n\nEnd Init.\n")
    t += "Ltac spec_head c := let h := head_sym c in lazymatch h with Spectrum___init__ => use_init_spec L_init_Spectrum c end.\n"
    t += "Ltac exec2 := rd; repeat (first [ lazymatch goal with |- holds _ ?t => let c := find_head t in spec_head c end | head_step ]); unfold holds; cbn [fst snd].\n\n"
    f1 = ('C07InitS', t)
    t = HEADER.replace('Gen.C07Machine.', 'Gen.C07Machine Gen.C07Tactics Gen.C07InitS.')
    t += "Section Init.\nVariables (m : mask) (call_ : St -> Res).\n\n"
    t += ("Lemma L_init_Fourier d sa wi nf de sb la : forall s r, FourierSpectrum___init__ call_ (VData d) (VNum sa) wi nf de (VBool sb) la blank = (s, Ok r) -> InvN m s.\n"
          "Proof. init_goal. exec2; init_leaf. Qed.\n\n")
    t += ("Lemma L_init_Parametric d sa ar ma la nf de sb : forall s r, ParametricSpectrum___init__ call_ (VData d) (VNum sa) ar ma la nf de (VBool sb) blank = (s, Ok r) -> InvN m s.\n"
          "Proof. init_goal. exec2; init_leaf. Qed.\n\n")
    t += "End Init.\n"
    t += ("Ltac spec_head3 c := let h := head_sym c in lazymatch h with\n  | Spectrum___init__ => use_init_spec L_init_Spectrum c\n"
          "  | FourierSpectrum___init__ => use_init_spec L_init_Fourier c\n  | ParametricSpectrum___init__ => use_init_spec L_init_Parametric c end.\n")
    t += "Ltac exec3 := rd; repeat (first [ lazymatch goal with |- holds _ ?t => let c := find_head t in spec_head3 c end | head_step ]); unfold holds; cbn [fst snd].\n"
    return f1, ('C07Init', t), ['L_init_Spectrum', 'L_init_Fourier', 'L_init_Parametric']


def class_file(info, cn, lemma_names):
    ci = info['classes'][cn]
    t = HEADER.replace('Gen.C07Machine.', 'Gen.C07Machine Gen.C07Tactics Gen.C07Generic Gen.C07Conv Gen.C07Sides Gen.C07InitS Gen.C07Init.')
    m = 'mask_' + cn
    t += """
Lemma call_spec_%(cn)s : CallSpec %(m)s call_%(cn)s.
Proof.
  intros s Ht HrN0 HrS0. typ_start Ht s.
  match goal with |- exists r, ?t = (?S, Ok r) => change (holds (fun res => exists r, res = (S, Ok r)) t) end.
  exec; (eexists; rd; real_split; use_bools; first [ reflexivity | repeat f_equal; first [reflexivity | apply two2one_len | symmetry; apply two2one_len | zar] ]).
Qed.

""" % {'cn': cn, 'm': m}
    alts = []
    for L in lemma_names:
        alts.append("solve [eapply %s; first [exact HC | exact H | reflexivity]]" % L)
    params = ci['params']
    t += "Ltac step_case HC H := cbn [fst ret]; first\n  [ " + "\n  | ".join(alts) + " ].\n"
    t += """
Theorem inv_step_%(cn)s s o : Inv %(m)s s -> Inv %(m)s (step_%(cn)s s o).
Proof.
  intros H. pose proof call_spec_%(cn)s as HC. unfold step_%(cn)s, run_%(cn)s.
  destruct (t_data _ (i_typ _ _ H)) as [d0 [Hd0 _]].
  destruct o as [d|v|q|v|b|v|v|z|v|v|a| | |v|v]; try (destruct a); rewrite ?Hd0; try (step_case HC H).
  (* explicit computation *)
  all: destruct (HC s (i_typ _ _ H) (i_rangeN _ _ H) (i_rangeS _ _ H)) as [r Hr]; rewrite Hr; cbn [fst]; apply L_call; exact H.
Qed.

Theorem inv_init_%(cn)s d %(args)s : forall s r, init_%(cn)s %(argsv)s = (s, Ok r) -> Inv %(m)s s.
Proof.
  intros s r E. cut (InvN %(m)s s); [intros [X _]; exact X|]. revert s r E. unfold init_%(cn)s.
  init_goal. exec3; init_leaf.
Qed.

Theorem inv_reachable_%(cn)s d %(args)s : forall s r ops, init_%(cn)s %(argsv)s = (s, Ok r) ->
  Inv %(m)s (fold_left step_%(cn)s ops s).
Proof. intros s r ops E. apply reach; [intros; apply inv_step_%(cn)s; assumption | eapply inv_init_%(cn)s; exact E]. Qed.

""" % {'cn': cn, 'm': m, 'args': ' '.join('a_' + p for p in params if p != 'data'),
       'argsv': ' '.join({'data': '(VData d)', 'sampling': '(VNum a_sampling)', 'scale_by_freq': '(VBool a_scale_by_freq)'}.get(p, 'a_' + p)
                          for p in params)}
    thms = ['call_spec_' + cn, 'inv_step_' + cn, 'inv_init_' + cn, 'inv_reachable_' + cn]
    return t, thms


def convfresh_files(info, choices):
    """get_converted_psd preserves the invariant and, when a PSD is stored (fresh or stale), returns the estimate of the
    current attribute values in the requested layout (or raises); proved per literal of _sides_choices + other, then combined"""
    GEN = HEADER.replace('Gen.C07Machine.', 'Gen.C07Machine Gen.C07Tactics.')
    sec = "Section Generic.\nVariables (m : mask) (call_ : St -> Res).\nHypothesis Hcall : CallSpec m call_.\n\n"
    stmt = ("Inv m s ->\n  let r := Spectrum_get_converted_psd call_ %s s in\n"
            "  Inv m (fst r) /\\ (f_cache s <> VNone -> forall p, snd r = Ok p -> p = target m (upd_sides %s (fst r)))")
    prf = ("Proof.\n  intros H. inv_start H s. cbv zeta.\n"
           "  match goal with |- Inv m (fst ?t) /\\ (?c <> VNone -> forall p, snd ?t = Ok p -> p = target m (upd_sides ?v (fst ?t))) =>\n"
           "    change (holds (fun r => Inv m (fst r) /\\ (c <> VNone -> forall p, snd r = Ok p -> p = target m (upd_sides v (fst r)))) t) end.\n"
           "  exec; (split; [ inv_leaf | let Hp := fresh \"Hp\" in let Hne := fresh \"Hne\" in intros Hne p Hp; first [ discriminate Hp\n"
           "     | exfalso; apply Hne; reflexivity\n"
           "     | injection Hp as <-; rd; real_split; use_bools; first [reflexivity | cache_eq] ] ]).\nQed.\n")
    files = []
    for i, c in enumerate(choices):
        v = '(VStr "%s")' % c
        t = GEN + sec + "Lemma F_conv_c%d s : %s.\n" % (i, stmt % (v, v)) + prf + "End Generic.\n"
        files.append(('Conv_c%d' % i, t))
    hyps = ' -> '.join('veqb v (VStr "%s") = false' % c for c in choices)
    t = GEN + sec + "Lemma F_conv_other v s : %s -> %s.\n" % (hyps, stmt % ('v', 'v'))
    t += prf.replace("intros H.", "intros %s H." % ' '.join('Hv%d' % i for i in range(len(choices)))) + "End Generic.\n"
    files.append(('Conv_other', t))
    t = HEADER.replace('Gen.C07Machine.', 'Gen.C07Machine Gen.C07Tactics ' + ' '.join('Gen.C07%s' % n for n, _ in files) + '.')
    t += sec + "Lemma F_conv v s : %s.\nProof.\n  intros H.\n" % (stmt % ('v', 'v'))
    for i, c in enumerate(choices):
        t += ("  destruct (veqb v (VStr \"%s\")) eqn:E%d; [apply veqb_sound in E%d; subst v; apply F_conv_c%d; assumption|].\n" % (c, i, i, i))
    t += "  apply F_conv_other; assumption.\nQed.\n\n"
    t += ("Lemma L_Spectrum_get_converted_psd v s : Inv m s -> Inv m (fst (Spectrum_get_converted_psd call_ v s)).\n"
          "Proof. intros H. exact (proj1 (F_conv v s H)). Qed.\n\n")
    t += ("Theorem converted_is_fresh v s : Inv m s -> f_cache s <> VNone -> forall p,\n"
          "  snd (Spectrum_get_converted_psd call_ v s) = Ok p ->\n"
          "  p = target m (upd_sides v (fst (Spectrum_get_converted_psd call_ v s))).\n"
          "Proof. intros H Hne. exact (proj2 (F_conv v s H) Hne). Qed.\nEnd Generic.\n")
    return files, ('Conv', t), ['L_Spectrum_get_converted_psd', 'converted_is_fresh']


def build_plan(info):
    """stages of files compiled in parallel: [(module name, text, theorem names)]"""
    extra = []
    for cn in info['classes']:
        extra += ['body_' + cn, 'call_' + cn, 'ctor_' + cn, 'init_' + cn]
    info = dict(info); info['methods'] = list(info['methods']) + extra
    stage0 = [('C07Tactics', tactics_file(info), [])]
    g, gnames = generic_file(info)
    sfiles, scomb, sname = split_files(info, 'Sides', 'Spectrum__setSides', info['sides_choices'])
    i1, i2, inames = init_files(info)
    ffiles, fcomb, fnames = convfresh_files(info, info['sides_choices'])
    cname = fnames[0]
    stage1 = [('C07Generic', g, gnames)] + [('C07' + n, t, []) for n, t in sfiles + ffiles] + [(i1[0], i1[1], inames[:1])]
    stage2 = [('C07' + fcomb[0], fcomb[1], fnames), ('C07' + scomb[0], scomb[1], [sname]), (i2[0], i2[1], inames[1:])]
    lem = [n for n in gnames if n.startswith('L_') and n != 'L_call'] + [cname, sname]
    k = 0
    for meth, attr in sorted(setter_methods(info).items()):
        f1, f2 = reassign_files(info, meth, attr, k); k += 1
        stage1.append(f1)
        stage2.append(f2)
    stage3 = []
    for cn in info['classes']:
        t, thms = class_file(info, cn, lem)
        stage3.append(('C07_' + cn, t, thms))
    return [stage0, stage1, stage2, stage3]
