"""C12 — Yule-Walker models are stable and match the data autocorrelation."""
import numpy as np
from props._loopir import loopir_tie, TRUSTED_LINE
import vlib
from vlib import cz, czl, tolq

LEVEL_TEXT = ("Coq theorems in an abstract ordered *-field (Gaussian rationals, complex numbers; any length, any order p<N, real or "
              "complex data): the biased autocorrelation of non-zero data has a positive-definite Toeplitz form; under positive "
              "definiteness the model of LEVINSON never raises, every stage error is > 0 and every |k|^2 < 1 (LDL^H reading); hence "
              "the model of aryule = LEVINSON(CORRELATION(biased)) returns a > 0 variance, |k| < 1, solves the Yule-Walker equations of "
              "the biased lags, these lags are the only ones consistent with the returned (a, P), every root of the polynomial lying in "
              "the field - and, for data in the Gaussian rationals or in C, every complex root (instance at Coquelicot's C) - has modulus < 1, the least-squares normal equations on corrmtx('autocorrelation') are the same equations with a "
              "unique solution attaining the minimum N*P, and lpc (real data) returns the same a with error P*N/(N-1). "
              "Tie: exact in-Coq correspondence of aryule / pyule.ar / lpc with the Gallina model on dyadic inputs (all norms the code "
              "accepts and rejects, both allow_singularity values, order >= N), and a property-directed search on the implementation. "
              "Loop-IR tie (T6): the IR programs of aryule (yulewalker.py) and ma (arma.py) are regenerated from the source on every run WITH "
              "their callees CORRELATION, LEVINSON, aryule (other modules, imports resolved syntactically) embedded, and compared exactly (zero "
              "tolerance, QcC) with Model.Yule.aryule / Model.MaEst.ma_est; for aryule `run program = Model.Yule.aryule` is moreover a theorem "
              "(composition of the CORRELATION and LEVINSON theorems through the call semantics: every input with the complex dtype; the "
              "float dtype for real data with allow_singularity=False), claimed while the regenerated text is the proved one.")
TRUSTED = [TRUSTED_LINE, "Coq 8.16.1 kernel + vm_compute (no native_compute)",
           "aryule_stable_complex / aryule_stable_C only: the three standard-library axioms of the real numbers (sig_forall_dec, sig_not_dec, functional_extensionality_dep) via Coquelicot's C; every other theorem is axiom-free",
           "hand-written models coq/Model/Yule.v, Corr.v, Levinson.v: aryule, CORRELATION, LEVINSON (and ma of Model/MaEst.v) are tied to yulewalker.py/correlation.py/levinson.py/arma.py by the loop-IR tie (exact; theorems for LEVINSON, CORRELATION and - by composition - aryule); the pyule attributes by the correspondence run only; "
           "T10: lpc is under the loop-IR tie too (no theorem): its IR program (fft / ifft = the DFT / inverse DFT specification of Theory/Dft.v over the hidden twiddle parameter, "
           "tools.nextpow2 = the primitive ENextPow2 accepted only while its text is `res = ceil(log2(x)); return res.astype('int')`, abs(X)**2, real, the division by m-1., the "
           "zero-padding x.resize(N+1) - an in-place update of the PARAMETER whose effect on the caller is not modelled -, LEVINSON embedded) is regenerated from lpc.py / tools.py / "
           "levinson.py on every run and compared with Model.Yule.lpc exactly at QcC where exact twiddle characters exist (transform lengths 1, 2, 4, i.e. at most 2 samples after "
           "padding: Instances/QcCTw.v has no 8-point character, which would need sqrt 2) and at binary64 (harness twiddle table, lengths up to 64) against BOTH the hand model and "
           "the implementation's output within 1e-8*kappa",
           "numpy.fft inside lpc is modelled by its exact-arithmetic specification (lag sums; transform length >= 2N-1), not verified",
           "pyule: only the stored .ar/.reflection are modelled (the PSD goes through arma2psd: C15/C01 machinery)",
           "Python harness (snapshot, generators, float->dyadic conversion, numpy.linalg oracles of the search)"]
UNPROVED = ["lpc's zero-padding branch (N > len(x)-1) and lpc on complex data (takes real(R)): correspondence only",
            "pyule's PSD values (arma2psd/FFT path): positivity is checked by the search only",
            "rounding: the theorems are about exact arithmetic; the binary64 code is covered by correspondence/search with 1e-9*kappa tolerances"]
ASSUMPTIONS = ["exact arithmetic in the theorems", "data not identically zero and order < N as in the property statement",
               "inputs of the correspondence run are dyadic rationals with few significant bits"]
RULE = ("correspondence: real/complex/integer low-bit dyadic data N=2..14, orders 0..6 (and order >= N), norms biased/unbiased/coeff/None, "
        "allow_singularity both ways, pyule attributes, lpc with N None / <= m-1 / > m-1; search: noise, tones+noise, trends, integer-valued, "
        "AR-filtered data, N=3..200, orders 1..min(N-1,30), real and complex; non-trivial = order >= 2 and data not constant; "
        "distinct = distinct (function, input) hashes")

PRE = """Require Import Spectrum.Theory.Ops Spectrum.Theory.Vec Spectrum.Model.Levinson Spectrum.Model.Corr Spectrum.Model.Yule Spectrum.Instances.QcC.
From Coq Require Import QArith Qcanon.
Local Open Scope Z_scope.
Definition cl (tol : Qc) (a b : list QcC) : bool := qcc_close_rel tol (dy 1 0) a b.
(* outcome: 0 returned, 1 AssertionError, 2 ValueError("singular matrix") *)
Definition yw_res (tol : Qc) (res : @yw_result QcC) (outcome : nat) (ia : list QcC) (ip : QcC) (ik : list QcC) (withp : bool) : bool :=
  match res with
  | inl YAssert => Nat.eqb outcome 1
  | inl YSingular => Nat.eqb outcome 2
  | inr (a, p, k) => Nat.eqb outcome 0 && cl tol a ia && (negb withp || cl tol [p] [ip]) && cl tol k ik
  end.
Definition yw_case tol (x : list QcC) (order : nat) (nm : cnorm) (allow : bool) outcome ia ip ik : bool :=
  yw_res tol (@aryule _ qcc_ops x order nm allow) outcome ia ip ik true.
Definition pyule_case tol (x : list QcC) (order : nat) (nm : cnorm) outcome ia ik : bool :=
  yw_res tol (@pyule_ar _ qcc_ops x order nm) outcome ia (dy 0 0, dy 0 0) ik false.
Definition lpc_case tol (x : list QcC) (N : option nat) (raised : bool) (ia : list QcC) (ie : QcC) : bool :=
  match @lpc _ qcc_ops x N with
  | None => raised
  | Some (a, e) => negb raised && cl tol a ia && cl tol [e] [ie]
  end.
"""

NORMS = {'biased': 'Biased', 'unbiased': 'Unbiased', 'coeff': 'Coeff', None: 'NoNorm'}


def lowbit(rng, n, cplx, bits=3):
    s = 1 << bits
    x = rng.integers(-s, s + 1, size=n).astype(float)
    if cplx:
        x = x + 1j * rng.integers(-s, s + 1, size=n)
    if not np.any(x):
        x[0] = 1
    return x


# ----------------------------------------------------------------------------- oracles (independent of the code under test)
def biased_acorr(x, p):
    x = np.asarray(x); N = len(x)
    return np.array([np.vdot(x[:N - k], x[k:]) / N for k in range(p + 1)])


def herm_toeplitz(rho):
    n = len(rho); idx = np.subtract.outer(np.arange(n), np.arange(n))
    return np.where(idx >= 0, np.asarray(rho)[np.abs(idx)], np.conj(np.asarray(rho))[np.abs(idx)])


def stepdown(a):
    """Schur-Cohn: reflection coefficients of the monic polynomial [1, a]; stable iff all have modulus < 1"""
    a = np.array(a, dtype=complex); ks = []
    while len(a):
        k = a[-1]; ks.append(k)
        if not abs(k) < 1:
            return np.array(ks[::-1]), False
        a = (a[:-1] - k * np.conj(a[-2::-1])) / (1 - abs(k) ** 2)
    return np.array(ks[::-1]), True


def implied_acorr(a, P, cplx):
    """lags 0..p of the autocorrelation implied by the AR model (a, P): the Hermitian sequence rho with
    sum_j a_j rho(i-j) = P delta_i0, i = 0..p (real-linear system in rho, solved by least squares).
    returns (rho, condition number)"""
    a1 = np.concatenate(([1], a)).astype(complex); p = len(a)
    cols = []
    basis = [(d, 1.0) for d in range(p + 1)] + ([(d, 1j) for d in range(1, p + 1)] if cplx else [])
    for d, u in basis:
        rho = np.zeros(p + 1, dtype=complex); rho[d] = u
        v = herm_toeplitz(rho) @ a1
        cols.append(np.concatenate((v.real, v.imag)))
    M = np.array(cols).T
    rhs = np.zeros(2 * (p + 1)); rhs[0] = P
    sol, _, rank, sv = np.linalg.lstsq(M, rhs, rcond=None)
    rho = sol[:p + 1].astype(complex)
    if cplx:
        rho[1:] += 1j * sol[p + 1:]
    cond = sv[0] / sv[-1] if sv[-1] > 0 else np.inf
    return rho, cond


def check_property(x, p, tag, allow=True):
    """every clause of C12 on the implementation for data x and order p; list of (key, what)"""
    from spectrum import aryule, corrmtx, lpc
    bad = []
    x = np.asarray(x); N = len(x); cplx = np.iscomplexobj(x)
    try:
        a, P, k = aryule(x, p, allow_singularity=allow)
    except Exception as e:
        return [('no_exception/aryule/' + tag, 'aryule raised %r on non-zero data with order < N' % (e,))]
    a = np.asarray(a); k = np.asarray(k)
    if len(a) != p or len(k) != p or not np.all(np.isfinite(a)) or not np.isfinite(P):
        return [('shape/aryule/' + tag, 'aryule returned non-finite values or wrong lengths (%d, %d for order %d)' % (len(a), len(k), p))]
    r = biased_acorr(x, p)
    r0 = float(np.real(r[0]))
    if not P > 0:
        bad.append(('rho_positive/aryule/' + tag, 'noise variance %r is not > 0' % (P,)))
    if not np.all(np.abs(k) < 1):
        bad.append(('reflection_lt_1/aryule/' + tag, 'a reflection coefficient has modulus >= 1: max %.12g' % np.max(np.abs(k))))
    if bad:
        return bad
    kappa = r0 / P
    amax = max(1.0, np.max(np.abs(a)))
    # Yule-Walker equations of the biased lags
    lhs = herm_toeplitz(r) @ np.concatenate(([1], a))
    tol = 1e-9 * kappa * r0 * amax
    res = max(abs(lhs[0] - P), np.max(np.abs(lhs[1:])))
    if res > tol:
        bad.append(('yw_equations/aryule/' + tag, 'T_biased [1,a] != [P,0..0]: residual %.3g (tol %.3g)' % (res, tol)))
    # stability: Schur-Cohn on the returned polynomial (own step-down), and numpy.roots
    ks, stable = stepdown(a)
    if not stable:
        bad.append(('stable/aryule/' + tag, 'Schur-Cohn test fails: the polynomial has a root on or outside the unit circle'))
    elif np.max(np.abs(ks - k)) > 1e-9 * kappa * amax:
        bad.append(('reflection_consistent/aryule/' + tag, 'returned reflection coefficients are not those of the returned polynomial (max diff %.3g)' % np.max(np.abs(ks - k))))
    if kappa < 1e6:
        roots = np.roots(np.concatenate(([1], a)))
        if len(roots) and np.max(np.abs(roots)) >= 1 + 1e-7:
            bad.append(('stable/aryule/' + tag, 'root outside the unit circle: max |z| = %.9f' % np.max(np.abs(roots))))
    # implied autocorrelation = biased sample autocorrelation
    if stable:
        rho, cond = implied_acorr(a, P, cplx)
        if cond < 1e7:
            d = np.max(np.abs(rho - r))
            if d > 1e-9 * cond * max(kappa, 1.0) * r0:
                bad.append(('matches_acorr/aryule/' + tag, 'model autocorrelation differs from the biased sample autocorrelation by %.3g (r0 = %.3g)' % (d, r0)))
    # least squares on the 'autocorrelation' data matrix
    if p >= 1:
        X = np.asarray(corrmtx(x.astype(complex) if cplx else x.astype(float), p, 'autocorrelation'))
        als, _, rank, sv = np.linalg.lstsq(-X[:, 1:], X[:, 0], rcond=None)
        c2 = (sv[0] / sv[-1]) ** 2 if sv[-1] > 0 else np.inf
        if c2 < 1e8:
            d = np.max(np.abs(als - a))
            if d > 1e-9 * c2 * amax:
                bad.append(('ls_same/aryule+corrmtx/' + tag, 'least squares on corrmtx(autocorrelation) gives other coefficients (max diff %.3g)' % d))
            e = np.sum(np.abs(X @ np.concatenate(([1], a))) ** 2)
            if abs(e - N * P) > 1e-9 * c2 * N * r0:
                bad.append(('ls_resid/aryule+corrmtx/' + tag, 'residual energy %.12g != N*P = %.12g' % (e, N * P)))
    # lpc, real data
    if not cplx and N >= 2 and p >= 1:
        try:
            al, el = lpc(np.array(x, dtype=float), p)
            d = np.max(np.abs(al - a))
            if d > 1e-8 * kappa * amax:
                bad.append(('lpc_same/lpc/' + tag, 'lpc coefficients differ from aryule (max diff %.3g)' % d))
            if abs(el - P * N / (N - 1.0)) > 1e-8 * kappa * r0:
                bad.append(('lpc_error/lpc/' + tag, 'lpc error %.12g != P*N/(N-1) = %.12g' % (el, P * N / (N - 1.0))))
        except Exception as e:
            bad.append(('lpc_same/lpc/' + tag, 'lpc raised %r' % (e,)))
    # nesting / stage errors: lower orders are valid too and share the reflection coefficients
    for q in sorted(set([1, p // 2, p - 1])):
        if 1 <= q < p:
            aq, Pq, kq = aryule(x, q, allow_singularity=allow)
            if not Pq > 0 or not Pq >= P * (1 - 1e-9) or np.max(np.abs(np.asarray(kq) - k[:q])) > 1e-9 * kappa:
                bad.append(('stages/aryule/' + tag, 'order %d is not a positive-error prefix stage of order %d' % (q, p)))
    return bad


def replay(rep):
    if rep.get('replay', {}).get('form') == 'routes':
        from props import _estimators as E_
        return E_.replay_routes(rep['replay'])
    if rep['replay'].get('protocol') == 'values_only':
        from props import _purity
        return _purity.replay_protocol(rep['replay'])
    r = rep['replay']
    if r.get('function') == 'aryule':
        x = vlib.unhexv(r['x'])
        return not check_property(x, r['order'], r.get('tag', 'replay'), r.get('allow', True))
    if r.get('function') == 'pyule':
        x = vlib.unhexv(r['x'])
        try:
            return not check_pyule(np.real(x) if r.get('real') else x, r['order'], r.get('tag', 'replay'))
        except Exception:
            return False
    return True


def check_pyule(x, p, tag):
    from spectrum import pyule, aryule
    bad = []
    ob = pyule(x, p); ob()
    a, P, k = aryule(x, p)
    if np.max(np.abs(np.asarray(ob.ar) - a)) > 0 or np.max(np.abs(np.asarray(ob.reflection) - k)) > 0:
        bad.append(('pyule_attributes/pyule/' + tag, 'pyule.ar / .reflection differ from aryule'))
    if not np.all(np.asarray(ob.psd) > 0):
        bad.append(('psd_positive/pyule/' + tag, 'PSD of the Yule-Walker model is not positive everywhere'))
    return bad


def gen_data(rng, kind, N, cplx):
    t = np.arange(N)
    def noise(s=1.0):
        return s * (rng.standard_normal(N) + (1j * rng.standard_normal(N) if cplx else 0))
    if kind == 'noise':
        return noise() * 10.0 ** rng.integers(-3, 4)
    if kind == 'tones':
        x = noise(rng.choice([0.0, 1e-3, 0.1, 0.5]))
        for _ in range(int(rng.integers(1, 4))):
            f = rng.uniform(0.02, 0.48); ph = rng.uniform(0, 2 * np.pi)
            x = x + (np.exp(1j * (2 * np.pi * f * t + ph)) if cplx else np.cos(2 * np.pi * f * t + ph))
        return x
    if kind == 'trend':
        x = rng.uniform(-2, 2) + rng.uniform(-1, 1) * t / N * 10 + noise(rng.choice([0.0, 0.01, 1.0]))
        if rng.integers(0, 2):
            x = x + rng.uniform(-1, 1) * (t / N) ** 2 * 10
        return x + 0j if cplx else x
    if kind == 'int':
        return lowbit(rng, N, cplx, bits=int(rng.integers(1, 7)))
    if kind == 'ar':
        e = noise(); x = np.zeros(N, dtype=complex if cplx else float)
        rad = rng.uniform(0.5, 0.98); f = rng.uniform(0.05, 0.45)
        z = rad * np.exp(2j * np.pi * f)
        a1, a2 = (-z, 0) if cplx else (-2 * z.real, abs(z) ** 2)
        for n in range(N):
            x[n] = e[n] - a1 * (x[n - 1] if n >= 1 else 0) - a2 * (x[n - 2] if n >= 2 else 0)
        return x
    if kind == 'shape':
        # legitimate records of an unusual SHAPE: constant, a single non-zero sample, alternating signs (exactly zero mean), purely imaginary
        k = int(rng.integers(0, 5)); c = float(rng.choice([5.0, -0.5, 2.0, 1e-3, 300.0]))
        if k == 0:
            x = np.full(N, c)
        elif k == 1:
            x = np.zeros(N); x[int(rng.integers(0, N))] = c
        elif k == 2:
            x = c * (-1.0) ** t + (0.0 if N % 2 == 0 else 0.0)
        elif k == 3:
            x = np.full(N, c) ; x[::2] = -c; x = x - np.mean(x)
        else:
            x = np.real(noise()) * 1.0
        if cplx:
            x = x * [1j, (2 - 1j), 1.0][int(rng.integers(0, 3))] + 0j
        return x
    raise ValueError(kind)


def run(ctx):
    from spectrum import aryule, lpc, pyule
    rng = ctx.rng
    ctx.check_theorems('Properties/C12.v')
    # the estimate an object holds does not depend on the history that gave it its data and settings (every route of _estimators.via)
    from props import _estimators as E_
    E_.class_route_stream(ctx, ['pyule'], 'routes')
    # IR programs regenerated from the source vs the hand models: exact, zero tolerance.  aryule and ma are translated WITH their callees
    # (CORRELATION, LEVINSON, aryule: other modules of the package, resolved through the imports) and compared with Model.Yule.aryule / Model.MaEst.ma_est
    # T10: lpc as well: fft / ifft = dft / idft over the hidden twiddle parameter, tools.nextpow2 an IR primitive (text verified), LEVINSON embedded;
    # exact at QcC for transform lengths 1, 2, 4 (no exact 8-point character), binary64 runs against Model.Yule.lpc AND the implementation
    loopir_tie(ctx, ['LEVINSON', 'CORRELATION', 'aryule', 'ma', 'lpc'])
    # ---------------- correspondence: aryule (+ pyule attributes)
    cases = []; meta = []
    n = ctx.q(220, 2500); tries = 0
    while len(cases) < n and tries < 20 * n:
        tries += 1
        kind = str(rng.choice(['biased', 'biased', 'biased', 'unbiased', 'unbiased', 'badorder', 'badnorm']))
        dt = str(rng.choice(['real', 'complex', 'int', 'list']))
        cplx = dt == 'complex'
        N = int(rng.integers(2, 15)); p = int(rng.integers(0, min(N, 7)))
        if tries % 9 == 0:                   # long records, low orders: length-dependent code paths stay inside the exact tie
            N = int(rng.integers(60, 260)); p = int(rng.integers(0, 3))
        norm = 'biased'
        if kind == 'unbiased':
            norm = 'unbiased'
            if rng.integers(0, 2):           # short data, full order: the unbiased estimate is often indefinite
                N = int(rng.integers(2, 8)); p = N - 1
        elif kind == 'badorder':
            p = N + int(rng.integers(0, 3)); norm = str(rng.choice(['biased', 'unbiased']))
        elif kind == 'badnorm':
            norm = [None, 'coeff'][int(rng.integers(0, 2))]
        allow = bool(rng.integers(0, 2))
        x = lowbit(rng, N, cplx, bits=int(rng.integers(1, 4)))
        arg = x if dt in ('real', 'complex') else (x.astype(int) if dt == 'int' else [int(t) for t in x])
        outcome = 0; a = []; P = 0.0; k = []
        try:
            a, P, k = aryule(arg, p, norm=norm, allow_singularity=allow)
        except AssertionError:
            outcome = 1
        except ValueError:
            outcome = 2
        tol = 1e-9
        if outcome == 0:
            if not (np.all(np.isfinite(a)) and np.isfinite(P) and np.all(np.isfinite(k))):
                ctx.count('aryule_skipped_nonfinite(P hit 0 with allow_singularity)'); continue
            r0 = float(np.sum(np.abs(x) ** 2)) / N
            kap = max([1.0, r0 / max(abs(P), 1e-300)] + [1 / abs(1 - abs(t) ** 2) for t in k if abs(t) != 1] + [float(np.max(np.abs(a))) if len(a) else 1.0])
            if kap > 1e4:
                ctx.count('aryule_regenerated_illconditioned'); continue
            tol = 1e-9 * kap
        cases.append('yw_case %s %s %d%%nat %s %s %d%%nat %s %s %s' % (tolq(tol), czl(x), p, NORMS[norm], 'true' if allow else 'false',
                     outcome, czl(a), cz(P), czl(k)))
        meta.append({'function': 'aryule', 'x': vlib.hexv(x), 'order': p, 'norm': norm, 'allow_singularity': allow, 'dtype': dt, 'impl_outcome': outcome})
        ctx.count('aryule/%s/%s/%s' % (dt, kind, ['returned', 'AssertionError', 'ValueError'][outcome]))
        ctx.case(('aryule', x.tobytes(), p, norm, allow, dt), nontrivial=(p >= 2 and outcome == 0),
                 sample={'function': 'aryule', 'x': [str(t) for t in x], 'order': p, 'norm': norm, 'allow_singularity': allow, 'outcome': outcome})
        # the class: stored attributes (allow_singularity is aryule's default there)
        if kind in ('biased', 'unbiased') and dt in ('real', 'complex') and rng.integers(0, 3) == 0:
            try:
                ob = pyule(arg, p, norm=norm); ob()
                pa = np.asarray(ob.ar); pk = np.asarray(ob.reflection)
            except Exception:
                ctx.count('pyule_raised'); continue
            if not (np.all(np.isfinite(pa)) and np.all(np.isfinite(pk))):
                continue
            kap2 = max([1.0] + [1 / abs(1 - abs(t) ** 2) for t in pk if abs(t) != 1] + [float(np.max(np.abs(pa))) if len(pa) else 1.0])
            if kap2 > 1e4:
                continue
            cases.append('pyule_case %s %s %d%%nat %s 0%%nat %s %s' % (tolq(1e-9 * kap2), czl(x), p, NORMS[norm], czl(pa), czl(pk)))
            meta.append({'function': 'pyule', 'x': vlib.hexv(x), 'order': p, 'norm': norm})
            ctx.count('pyule/%s/%s' % (dt, norm)); ctx.case(('pyule', x.tobytes(), p, norm), nontrivial=(p >= 2))
    for i in ctx.coq_cases('c12_aryule', PRE, cases, descr='aryule / pyule.ar,.reflection vs Model.Yule at QcC (outcome enum, a, P, k)'):
        ctx.corr_disagreement(meta[i]['function'], i, meta[i])

    # ---------------- correspondence: lpc (real data; FFT-based, so tolerance)
    cases = []; meta = []
    n = ctx.q(80, 600); tries = 0
    while len(cases) < n and tries < 20 * n:
        tries += 1
        m = int(rng.integers(2, 13)); x = lowbit(rng, m, False, bits=int(rng.integers(1, 4)))
        mode = str(rng.choice(['none', 'le', 'le', 'gt']))
        if mode == 'none':
            Narg = None; p = m - 1
        elif mode == 'le':
            p = int(rng.integers(0, min(m, 7))); Narg = p
        else:
            p = m + int(rng.integers(0, 3)); Narg = p
            if p > 7:
                continue
        raised = False; a = []; e = 0.0
        try:
            a, e = lpc(np.array(x, dtype=float), Narg)
        except ValueError as ex:
            if 'resize' in str(ex):
                ctx.count('lpc_skipped(numpy refuses the in-place resize)'); continue
            raised = True
        if not raised:
            if not (np.all(np.isfinite(a)) and np.isfinite(e)):
                ctx.count('lpc_skipped_nonfinite'); continue
            r0 = float(np.sum(x ** 2)) / (m - 1.0)
            kap = max(1.0, r0 / max(abs(e), 1e-300), float(np.max(np.abs(a))) if len(a) else 1.0)
            if kap > 1e4:
                ctx.count('lpc_regenerated_illconditioned'); continue
            tol = 1e-8 * kap
        else:
            tol = 1e-8
        cases.append('lpc_case %s %s %s %s %s %s' % (tolq(tol), czl(x), '(Some %d%%nat)' % Narg if Narg is not None else 'None',
                     'true' if raised else 'false', czl(a), cz(e)))
        meta.append({'function': 'lpc', 'x': vlib.hexv(x), 'N': Narg, 'impl_raised': raised})
        ctx.count('lpc/%s/%s' % (mode, 'raised' if raised else 'returned'))
        ctx.case(('lpc', x.tobytes(), Narg), nontrivial=(p >= 2), sample={'function': 'lpc', 'x': [str(t) for t in x], 'N': Narg})
    for i in ctx.coq_cases('c12_lpc', PRE, cases, descr='lpc vs Model.Yule.lpc at QcC (a, e; m-1 division, zero padding)'):
        ctx.corr_disagreement('lpc', i, meta[i])

    # ---------------- property-directed search on the implementation
    nsearch = ctx.q(260, 6000)
    kinds = ['noise', 'tones', 'trend', 'int', 'ar', 'shape']
    for it in range(nsearch):
        kind = kinds[it % len(kinds)]
        cplx = bool(rng.integers(0, 2))
        if it % 7 == 0:
            N = int(rng.integers(3, 8))
        else:
            N = int(rng.integers(3, 201))
        pmax = min(N - 1, 30)
        p = int(rng.integers(1, pmax + 1)) if it % 5 else pmax
        x = gen_data(rng, kind, N, cplx)
        if not np.any(x):
            continue
        if it % 3 == 1:
            x = x * 10.0 ** int(rng.integers(-9, 8))          # "any non-zero data": micro-volt to mega-unit amplitudes
            ctx.count('search/aryule/rescaled')
        tag = ('complex' if cplx else 'real') + '/' + kind
        allow = bool(it % 2)
        ctx.count('search/aryule/%s' % tag)
        ctx.case(('search', x.tobytes(), p), nontrivial=(p >= 2 and np.ptp(np.abs(x)) > 0),
                 sample={'function': 'aryule (search)', 'N': N, 'order': p, 'kind': tag})
        rep = {'function': 'aryule', 'x': vlib.hexv(x), 'order': p, 'tag': tag, 'allow': allow}
        try:
            bad = check_property(x, p, tag, allow)
        except Exception as e:
            bad = [('harness/aryule/' + tag, 'exception while evaluating the clauses: %r' % (e,))]
        for key, what in bad:
            ctx.violation(key, what, rep)
        if it % 6 == 0:
            try:
                for key, what in check_pyule(x, min(p, 12), tag):
                    ctx.violation(key, what, {'function': 'pyule', 'x': vlib.hexv(x), 'order': min(p, 12), 'tag': tag})
            except Exception as e:
                ctx.violation('no_exception/pyule/' + tag, 'pyule raised %r' % (e,), {'function': 'pyule', 'x': vlib.hexv(x), 'order': min(p, 12), 'tag': tag})
            ctx.count('search/pyule'); ctx.case(('search-pyule', x.tobytes(), p), nontrivial=(p >= 2))

    # ---------------- EXHAUSTIVE over short records of small integers: the class exposes what the function returns at EVERY such record
    # (coefficients that are exactly 0, 1 or -1 occur here and essentially never in random floating-point data)
    import itertools
    Nx = ctx.q(6, 7); nrec = 0
    for rec in itertools.product((-2, -1, 0, 1, 2), repeat=Nx):
        if not any(rec) or rec[0] < 0:            # (x and -x give the same model: half of the records)
            continue
        x = np.array(rec, dtype=float); nrec += 1
        for p in (1, 2, 3):
            try:
                bad = check_pyule(x, p, 'real/exhaustive')
            except Exception as e:
                bad = [('no_exception/pyule/real/exhaustive', 'pyule raised %r' % (e,))]
            for key, what in bad:
                ctx.violation(key, what, {'function': 'pyule', 'x': vlib.hexv(x), 'order': p, 'tag': 'real/exhaustive', 'real': True})
    ctx.count('search/pyule/exhaustive-small-integer-records', nrec)
    ctx.case(('pyule-exhaustive', Nx), nontrivial=True, sample={'function': 'pyule vs aryule', 'records': 'all of {-2..2}^%d with a non-negative first sample' % Nx, 'orders': [1, 2, 3]})

    # ---------------- results depend on the VALUES given only: call protocol (repeat, aliasing, buffer reuse, memory layout, integer / single-precision dtypes)
    from props import _purity
    _purity.run_protocol(ctx, ['aryule', 'lpc'])
